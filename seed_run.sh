#!/bin/bash
# usage: seed_run.sh <patch.diff> <Cxx>... : apply a seeded change to /repo, run the quick checks, undo it
patch=$1; shift
cd /verif
trap 'git -C /repo checkout -- .' EXIT
trap 'git -C /repo checkout -- .; exit 130' INT TERM
git -C /repo apply $patch || exit 2
for p in "$@"; do timeout 900 ./check.py $p --tier quick --skip-proofs 2>&1 | grep -E "VIOLATION|KNOWN|done" ; done
