"""Per-property case generators and relations."""
import itertools

from . import gen
from .core import Check

PROPS_OF = {}   # netname -> variable names (order of first appearance is irrelevant here)


def net_props(net):
    import re
    names = []
    for line in net.splitlines():
        line = line.strip()
        m = re.match(r"^\$(\w+)\s*:", line)
        if m:
            if m.group(1) not in names:
                names.append(m.group(1))
            continue
        m = re.match(r"^(\w+)\s*-[>|?]{1,2}\??\s*(\w+)$", line)
        if m:
            for g in (m.group(1), m.group(2)):
                if g not in names:
                    names.append(g)
    return sorted(names)


def worlds(chk, quick_names=None, n_random=0, max_n=3, max_bits=6):
    out = []
    names = quick_names if quick_names is not None else list(gen.CURATED.keys())
    for nm in names:
        out.append((nm, gen.CURATED[nm]))
    for i in range(n_random):
        net = gen.random_network(chk.rng, max_n=max_n, max_bits=max_bits)
        if net_props(net):
            out.append(("R%d" % i, net))
    return out


def chunks(l, n):
    for i in range(0, len(l), n):
        yield l[i:i + n]


def thorough(chk):
    return chk.tier == "thorough"


THOROUGH_SCALE = 4


def cnt(chk, quick, thorough_):
    """number of generated items: the thorough tier multiplies its base count"""
    return quick if chk.tier != "thorough" else thorough_ * THOROUGH_SCALE


def one_op_closed(props, **kw):
    return list(gen.enum_formulas(1, props, [], **kw))


def judge_all(chk, spec=True):
    for cid, case in list(chk.cases.items()):
        if case["kind"] != "EVAL" or cid.startswith("s"):
            continue
        v = chk.judge_eval(cid, spec_relation=spec)
        chk.note_nontrivial(cid)
        chk.record(cid, v)


def bits_for_k(net, k):
    return 0


def small_enough(net, k, limit=15):
    """rough bound on the number of BDD variables: params unknown here, so bound by n(1+k)"""
    n = len(net_props(net))
    return n * (1 + k) <= limit - 4


# ------------------------------------------------------------------ C01
def gen_C01_wide(chk):
    """networks far beyond explicit enumeration whose structure gives the answer: a decay chain
    (every update switches a variable off: the all-zero state is the only steady state and every path
    ends there), by BDD equality with the known answer"""
    from .shellprops import add_shell
    for n in ([40, 70] if not thorough(chk) else [40, 70, 90]):
        vs = ["v%02d" % i for i in range(1, n + 1)]
        net = "".join("%s -> %s\n%s -> %s\n$%s: %s & %s\n" % (vs[i], vs[i], vs[i + 1], vs[i], vs[i], vs[i], vs[i + 1])
                      for i in range(n - 1))
        net += "$%s: false\n" % vs[-1]
        zero = " & ".join("~" + v for v in vs)
        pairs = [("AF (%s)" % zero, "true"), ("EG ~(%s)" % zero, "false"), ("AF (!{x}: AX {x})", "true"),
                 ("!{x}: AX {x}", zero), ("!{x}: AG EF {x}", zero), ("EF (%s)" % zero, "true"),
                 ("(~%s) AU (%s)" % (vs[-1], zero), "~%s" % vs[-1]),
                 ("3{x}: (@{x}: (%s)) & AF {x}" % zero, "true")]
        fs = []
        for x, y in pairs:
            fs += [x, y]
        add_shell(chk, "EQV", ["1", "A:" + gen.hx(net), "-", ",".join(gen.hx(f) for f in fs)], tag="wide-known",
                  meta={"net": "decay%d" % n})


def near_pattern_formulas(props, rng):
    """closed formulae in which a binder WITHOUT occurrences of its own variable sits directly above
    AX {outer} / AG EF {outer} (they look like the shortcut patterns but are not)"""
    V = lambda v: gen.T("V", v)
    p = gen.T("P", rng.choice(props))
    ax, agef = ("U", "AX", V("x")), ("U", "AG", ("U", "EF", V("x")))
    out = []
    for body in (ax, agef):
        vac = ("H", "Bind", "y", None, body)
        out += [("H", "Exists", "x", None, vac), ("H", "Bind", "x", None, ("U", "EX", vac)),
                ("H", "Bind", "x", None, ("U", "EF", vac)), ("H", "Forall", "x", None, ("B", "Or", vac, p)),
                ("H", "Bind", "x", None, ("B", "And", ("H", "Exists", "y", None, body), p))]
    return out


KEYWORDISH_NAMES = ["T", "F", "TRUE", "FALSE", "t", "f", "tt", "True_", "true1", "False0", "E", "A", "EFx", "AGa",
                    "G", "X", "U", "W", "V1", "x", "var0", "In", "in", "EUa", "AX_", "Tr", "one", "o1"]


def gen_C01_names(chk):
    """networks whose variables have names that resemble keywords, constants or operators of the
    formula language but are ordinary propositions (own PRNG stream)"""
    import random as _random, re
    rng = _random.Random("C01-names-%s" % chk.seed)
    for nm in ["N02", "N05", "N06", "N16", "N21"]:
        base = gen.CURATED[nm]
        for r in range(cnt(chk, 3, 8)):
            na, nb = rng.sample(KEYWORDISH_NAMES, 2)
            if r == 0:
                na, nb = rng.choice([("T", "F"), ("TRUE", "FALSE"), ("T", "TRUE"), ("F", "t")])
            net = re.sub(r"\b(a|b)\b", lambda m: na if m.group(1) == "a" else nb, base)
            props = net_props(net)
            fs = [gen.T("P", q) for q in props] + [("U", "EF", gen.T("P", props[0])), ("U", "AG", ("U", "Not", gen.T("P", props[-1])))]
            fs += [gen.random_formula(rng, rng.randint(1, 5), props, max_vars=1) for _ in range(3)]
            chk.add_eval(net, 1, "s", fs, tag="keywordish-names", netname=nm + "-renamed")
            chk.add_eval(net, 1, "st", fs[:3], tag="keywordish-names-tree", netname=nm + "-renamed")


def gen_C01(chk):
    rng = chk.rng
    ws = worlds(chk, n_random=cnt(chk, 12, 40))
    for nm, net in ws:
        props = net_props(net)
        # batches of formulae of different sizes: position i of the answer is formula i
        for j in range(cnt(chk, 2, 6)):
            fs = [gen.random_formula(rng, sz, props, max_vars=2) for sz in rng.sample([1, 2, 3, 4, 5, 6], rng.randint(3, 5))]
            k = max(gen.quant_depth(f) for f in fs)
            if len(props) * (1 + k) <= 10:
                chk.add_eval(net, k, rng.choice(["s", "", "st", "t"]), fs, tag="mixed-batch", netname=nm)
        if len(props) <= 3:
            for f in near_pattern_formulas(props, rng):
                chk.add_eval(net, 2, "s", [f], tag="near-pattern", netname=nm)
        # every closed formula with one operator, in batches (mode: sanitised)
        pool = one_op_closed(props)
        if not thorough(chk) and len(pool) > 120:
            pool = rng.sample(pool, 120)
        for batch in chunks(pool, 24):
            k = max(gen.quant_depth(f) for f in batch)
            chk.add_eval(net, k, "s", batch, tag="exh1", netname=nm)
        # random deeper formulae; k in depth..depth+2; sanitised, dirty and tree entry points
        nrand = cnt(chk, 16, 60)
        for j in range(nrand):
            f = gen.random_formula(rng, rng.randint(2, 9), props, max_vars=(3 if len(props) <= 2 else 2))
            d = gen.quant_depth(f)
            k = d + rng.choice([0, 0, 1, 2]) if len(props) <= 2 else d
            if len(props) * (1 + k) > 9:
                k = d
            mode = rng.choice(["s", "s", "", "ts", "t"])
            chk.add_eval(net, k, mode, [f], tag="rnd", netname=nm)
        # formulae whose sub-formulae repeat up to renaming, with one and with two variables
        for j in range(cnt(chk, 3, 8)):
            f = swapped_batch(rng, props, False)[0]
            chk.add_eval(net, 2, "s", [f], tag="swapped", netname=nm)
            fs = nested_batch(rng, props, False)
            if fs:
                g = fs[-1]
                chk.add_eval(net, gen.quant_depth(g), "s", [g], tag="nested", netname=nm)
    if thorough(chk):
        # all closed formulae with two operators on the smallest worlds
        for nm in ["N02", "N04", "N07", "N21"]:
            net = gen.CURATED[nm]
            props = net_props(net)
            pool = list(gen.enum_formulas(2, props, []))
            pool = rng.sample(pool, min(len(pool), 2500))
            for batch in chunks(pool, 40):
                k = max(gen.quant_depth(f) for f in batch)
                chk.add_eval(net, k, "s", batch, tag="exh2", netname=nm)


# ------------------------------------------------------------------ C02
CTX_KINDS = ["e", "u", "r%d.1.2", "r%d.1.4", "c%d.1.2", "k%d.1.2", "r%d.3.4"]


def ctx_spec(rng):
    k = rng.choice(CTX_KINDS)
    return k % rng.randint(1, 10 ** 6) if "%d" in k else k


def readme_triples(body, x, label):
    """the three README equivalences, as pairs of ASTs"""
    W = gen.T("W", label)
    return [
        (("H", "Bind", x, label, body), ("H", "Bind", x, None, ("B", "And", W, body))),
        (("H", "Exists", x, label, ("H", "Jump", x, None, body)),
         ("H", "Exists", x, None, ("H", "Jump", x, None, ("B", "And", W, body)))),
        (("H", "Forall", x, label, ("H", "Jump", x, None, body)),
         ("H", "Forall", x, None, ("H", "Jump", x, None, ("B", "Imp", W, body)))),
    ]


def gen_C02(chk):
    rng = chk.rng
    ws = worlds(chk, n_random=cnt(chk, 8, 30))
    for nm, net in ws:
        props = net_props(net)
        labels = ["d", "e2", "p"]
        # one-operator extended formulae: every quantifier with a domain, wild-card atoms
        pool = one_op_closed(props, wilds=("p",), doms=("d",))
        pool = [f for f in pool if any(gen.labels_of(f))]
        if len(pool) > 60 and not thorough(chk):
            pool = rng.sample(pool, 60)
        for rep in range(cnt(chk, 1, 2)):
            ctx = [(l, ctx_spec(rng)) for l in labels]
            for batch in chunks(pool, 20):
                k = max(gen.quant_depth(f) for f in batch)
                chk.add_eval(net, k, "es", batch, ctx=ctx, tag="ext1", netname=nm)
        # random extended formulae (nested and repeated domains, bodies with and without x)
        for j in range(cnt(chk, 14, 50)):
            f = gen.random_formula(rng, rng.randint(2, 8), props, max_vars=(3 if len(props) <= 2 else 2),
                                   wilds=("p", "d"), doms=("d", "e2"), w_hybrid=0.5)
            k = gen.quant_depth(f)
            ctx = [(l, ctx_spec(rng)) for l in labels]
            chk.add_eval(net, k, rng.choice(["es", "es", "e"]), [f], ctx=ctx, tag="extrnd", netname=nm)
        # the same inner (label, variable) below differently restricted outer variables, in one
        # formula and across the formulae of a batch (nothing computed in one scope may leak into another)
        for j in range(cnt(chk, 6, 20)):
            lb = rng.choice(labels)
            nests = []
            for la in rng.sample(labels, 2) + [None]:
                body = gen.random_formula(rng, rng.randint(1, 3), props, scope=["x", "y"], max_vars=2)
                if rng.random() < 0.5 or not gen.free_vars(body):
                    body = ("H", "Jump", "x", None, ("U", rng.choice(["EF", "EX", "AX", "AG"]), gen.T("V", "y")))
                nests.append(("H", rng.choice(gen.QUANTS), "x", la, ("H", rng.choice(gen.QUANTS), "y", lb, body)))
            rng.shuffle(nests)
            ctx = [(l, ctx_spec(rng)) for l in labels]
            one = ("B", rng.choice(["And", "Or"]), nests[0], ("B", rng.choice(["And", "Or"]), nests[1], nests[2]))
            chk.add_eval(net, 2, "es", [one], ctx=ctx, tag="nests-one", netname=nm)
            chk.add_eval(net, 2, "es", nests, ctx=ctx, tag="nests-batch", netname=nm)
        # a closed sub-formula evaluated first inside a restricted scope and then outside it (same
        # formula, sibling quantifier, next formula of the batch): its value must not be confined
        for j in range(cnt(chk, 6, 20)):
            psi = gen.random_formula(rng, rng.randint(1, 3), props, max_vars=1, unops=["Not", "EX", "AX", "EF", "AG"],
                                     binops=["And", "Or", "EU"])
            if psi[0] == "T":
                psi = ("U", "AX", psi)
            vx = gen.T("V", "x")
            small = gen.random_formula(rng, rng.randint(0, 2), props, scope=["x"], max_vars=1, unops=["Not", "AX", "EX"], binops=["And", "Or"])
            inner = ("H", rng.choice(gen.QUANTS), "x", "d", rng.choice([
                ("B", "And", vx, psi), ("H", "Jump", "x", None, psi), psi,
                ("B", rng.choice(["And", "Or"]), ("H", "Jump", "x", None, small), psi),
                ("B", "And", ("H", "Jump", "x", None, small), ("B", "Or", psi, vx))]))
            outer = rng.choice([psi, ("H", rng.choice(gen.QUANTS), "x", None, ("B", "And", vx, psi)), ("U", "Not", psi)])
            ctx = [(l, ctx_spec(rng)) for l in labels]
            chk.add_eval(net, 1, "es", [("B", rng.choice(["Or", "And"]), inner, outer)], ctx=ctx, tag="closed-in-out", netname=nm)
            chk.add_eval(net, 1, "es", [inner, outer], ctx=ctx, tag="closed-in-out-batch", netname=nm)
        # a one-variable sub-formula cached outside every domain, reused one level deeper below a
        # restricted quantifier (the renaming of the cached set must not pick up that restriction)
        for j in range(cnt(chk, 4, 12)):
            fs = cross_domain_batch(rng, props, True)
            ctx = [(l, ctx_spec(rng)) for l in labels]
            if rng.random() < 0.6:
                a = rng.choice(props)
                ctx = [("p", "u"), ("d", "f" + gen.hx(rng.choice([a, "~" + a]))), ("e2", ctx_spec(rng))]
            chk.add_eval(net, 2, "es", fs, ctx=ctx, tag="cross-batch", netname=nm)
            chk.add_eval(net, 2, "es", [("B", "And", fs[0], fs[1])], ctx=ctx, tag="cross-one", netname=nm)
        # nested domains whose sets live on disjoint sets of colours (no admissible value for the inner
        # variable although its domain set is not empty)
        for j in range(cnt(chk, 3, 8)):
            sd = rng.randint(1, 10 ** 6)
            ctx = [("d", "k%d.1.2" % sd), ("e2", "K%d.1.2" % sd), ("p", ctx_spec(rng))]
            qa, qb = rng.choice(gen.QUANTS), rng.choice(gen.QUANTS)
            body = ("H", "Jump", "x", None, ("U", rng.choice(["EF", "EX", "AX"]), gen.T("V", "y")))
            f = ("H", qa, "x", "d", ("H", qb, "y", "e2", body))
            chk.add_eval(net, 2, "es", [f], ctx=ctx, tag="disjoint-colours", netname=nm)
        # README equivalences for arbitrary bodies, evaluated through the API
        for j in range(cnt(chk, 6, 20)):
            body = gen.random_formula(rng, rng.randint(0, 4), props, scope=["x"], max_vars=2, wilds=("p",))
            ctx = [(l, ctx_spec(rng)) for l in labels]
            for a, b in readme_triples(body, "x", "d"):
                k = max(gen.quant_depth(a), gen.quant_depth(b))
                ia = chk.add_eval(net, k, "es", [a], ctx=ctx, tag="readme", netname=nm)
                ib = chk.add_eval(net, k, "es", [b], ctx=ctx, tag="readme", netname=nm)
                chk.cases[ia]["pair"] = ib


def judge_pairs(chk):
    """cases linked by 'pair' must have equal results (equivalences through the API)"""
    for cid, case in list(chk.cases.items()):
        other = case.get("pair")
        if not other:
            continue
        a = chk.results.get(cid, {}).get("impl")
        b = chk.results.get(other, {}).get("impl")
        if not a or not b or a.get("status") == "SKIP":
            continue
        if (a.get("status"), a.get("payload")) != (b.get("status"), b.get("payload")):
            chk.record(cid, ("violation", "equivalent formulae give different results: %s vs %s"
                             % (chk.ftext(case["formulas"][0]), chk.ftext(chk.cases[other]["formulas"][0]))))


def gen_C03_big(chk):
    """result sets of more than a thousand BDD nodes: a closed sub-formula first below a quantifier
    restricted to a domain, whose variable it does not mention, then outside (one formula and a second
    spelling with the sub-formula precomputed), by BDD equality, unit membership and independence of
    the spare variables; a ring of 6 variables with unknown two-input functions (24 parameters)"""
    from .shellprops import add_shell
    n = 6
    vs = ["v%d" % i for i in range(n)]
    net = ""
    for i in range(n):
        net += "%s -? %s\n%s -? %s\n" % (vs[i - 1], vs[i], vs[i - 2], vs[i])
    R = "AG (v0 => AF (v3 | EF (v5 & ~v1)))"
    R2 = "EF (v2 & AX v4)"
    dom = "v0 & ~v1 & ~v2 & ~v3"
    pairs = []
    for r, lab in ((R, "r"), (R2, "r2")):
        pairs += [("(3{x} in %%d%%: @{x}: EF (%s)) & (%s)" % (r, r), "(3{x} in %%d%%: @{x}: EF %%%s%%) & %%%s%%" % (lab, lab)),
                  ("(V{x} in %%d%%: @{x}: (%s)) | ~(%s)" % (r, r), "(V{x} in %%d%%: @{x}: %%%s%%) | ~%%%s%%" % (lab, lab)),
                  ("(!{x} in %%d%%: (%s)) | (3{y}: @{y}: (v4 & (%s)))" % (r, r), "(!{x} in %%d%%: %%%s%%) | (3{y}: @{y}: (v4 & %%%s%%))" % (lab, lab))]
    fs = []
    for x, y in pairs:
        fs += [x, y]
    ctx = ",".join("%s=f%s" % (gen.hx(l), gen.hx(f)) for l, f in (("d", dom), ("r", R), ("r2", R2)))
    add_shell(chk, "EQV", ["1", "A:" + gen.hx(net), ctx, ",".join(gen.hx(f) for f in fs)], tag="big-foreign-scope",
              meta={"net": "ring6"})


# ------------------------------------------------------------------ C03
def gen_C03(chk):
    rng = chk.rng
    names = gen.CONSTRAINED + ["N09", "N10"]
    ws = worlds(chk, quick_names=names, n_random=cnt(chk, 8, 30))
    for nm, net in ws:
        props = net_props(net)
        pool = one_op_closed(props)
        if len(pool) > 80 and not thorough(chk):
            pool = rng.sample(pool, 80)
        for batch in chunks(pool, 20):
            k = max(gen.quant_depth(f) for f in batch)
            # dirty results: bitwise over every valuation of the spare bits as well
            chk.add_eval(net, k + (1 if len(props) <= 2 else 0), "", batch, tag="dirty1", netname=nm)
        # the shortcut patterns reaching the result bare or through operators that do not intersect
        # with the unit again
        st_ = ("H", "Bind", "x", None, ("U", "AX", gen.T("V", "x")))
        at_ = ("H", "Bind", "x", None, ("U", "AG", ("U", "EF", gen.T("V", "x"))))
        pz = gen.T("P", props[0])
        pats = []
        for pt in (st_, at_):
            pats += [pt, ("U", "EF", pt), ("U", "EX", pt), ("B", "Or", pt, pz), ("B", "EU", pz, pt),
                     ("B", "And", st_, ("U", "Not", at_))]
        chk.add_eval(net, 1, "", pats, tag="patterns-dirty", netname=nm)
        chk.add_eval(net, 1, "s", pats[:6], tag="patterns", netname=nm)
        # ... and on a graph that the user has narrowed to some of the valid colours (restrict)
        chk.add_eval(net, 1, "K", pats, tag="patterns-narrowed", netname=nm)
        for j in range(cnt(chk, 2, 6)):
            fs = [gen.random_formula(rng, rng.randint(1, 6), props, max_vars=1) for _ in range(4)]
            chk.add_eval(net, 1, rng.choice(["K", "sK"]), fs, tag="narrowed", netname=nm)
        # quantifiers over empty / partly empty domains reaching the result through operators
        # that do not intersect with the unit again
        p0 = gen.T("P", props[0])
        for q in gen.QUANTS:
            core = ("H", q, "x", "d", ("H", "Jump", "x", None, ("U", "AX", gen.T("V", "x"))))
            core2 = ("H", q, "x", "d", p0)
            fs = [core, ("B", "Or", core, gen.T("0")), ("U", "EF", core), ("U", "EX", core2),
                  ("B", "EU", p0, core2), ("H", "Exists", "y", None, core), ("B", "AU", gen.T("1"), core)]
            for spec in ["e", "k%d.1.2" % rng.randint(1, 999), "R%d.1.2" % rng.randint(1, 999)]:
                chk.add_eval(net, 2, "e", fs, ctx=[("d", spec)], tag="emptydom", netname=nm)
        # a sub-formula with one free variable evaluated below a restricted variable it does not
        # mention and again outside: the closed result must not read the spare copies
        for j in range(cnt(chk, 3, 10)):
            core = gen.random_formula(rng, rng.randint(1, 3), props, scope=["x"], max_vars=1,
                                      unops=["Not", "EX", "AX", "EF", "AG"], binops=["And", "Or", "EU"])
            if gen.free_vars(core) != {"x"} or core[0] == "T":
                core = ("U", "EF", gen.T("V", "x"))
            inner = ("H", rng.choice(gen.QUANTS), "y", "d", ("H", "Jump", "y", None, core))
            f = ("H", rng.choice(gen.QUANTS), "x", None, ("B", rng.choice(["And", "Or"]), inner, core))
            g = ("H", rng.choice(gen.QUANTS), "x", None, core)
            a = rng.choice(props)
            spec = rng.choice([ctx_spec(rng), "f" + gen.hx(a), "f" + gen.hx("~" + a)])
            chk.add_eval(net, 2, "e", [f], ctx=[("d", spec)], tag="foreign-scope", netname=nm)
            chk.add_eval(net, 2, "e", [f, g], ctx=[("d", spec)], tag="foreign-scope-batch", netname=nm)
            if j % 2 == 0:
                pat = rng.choice([at_, st_])
                inner2 = ("H", rng.choice(gen.QUANTS), "y", "d", ("H", "Jump", "y", None, ("U", "EF", ("B", "And", pat, pz))))
                for spec2 in (spec, "k%d.1.2" % rng.randint(1, 10 ** 6)):
                    chk.add_eval(net, 2, "e", [inner2, pat], ctx=[("d", spec2)], tag="pattern-foreign-batch", netname=nm)
                    chk.add_eval(net, 2, "e", [("B", "And", inner2, pat)], ctx=[("d", spec2)], tag="pattern-foreign", netname=nm)
        for j in range(cnt(chk, 12, 40)):
            ext = rng.random() < 0.4
            f = gen.random_formula(rng, rng.randint(2, 8), props, max_vars=2,
                                   wilds=(("p",) if ext else ()), doms=(("d",) if ext else ()))
            k = gen.quant_depth(f) + rng.choice([0, 1])
            ctx = [("p", ctx_spec(rng)), ("d", ctx_spec(rng))] if ext else []
            chk.add_eval(net, k, ("e" if ext else ""), [f], ctx=ctx, tag="dirtyrnd", netname=nm)


# ------------------------------------------------------------------ C04
def planted_batch(rng, props, ext):
    """a batch with planted overlaps up to renaming, across depths and across domain scopes"""
    core = gen.random_formula(rng, rng.randint(1, 4), props, scope=["x"], max_vars=2,
                              wilds=(("p",) if ext else ()))
    core_closed = gen.random_formula(rng, rng.randint(1, 3), props, max_vars=2)
    variants = []
    for q in gen.QUANTS:
        variants.append(("H", q, "x", None, core))
        variants.append(("H", q, "x", None, ("H", "Jump", "x", None, core)))
        if ext:
            variants.append(("H", q, "x", "d", core))
            variants.append(("H", q, "x", "d", ("H", "Jump", "x", None, core)))
    # the same core under a deeper binder (different variable name after preprocessing)
    y_core = gen.alpha_rename(("H", "Bind", "x", None, core), rng, ["y"])[4]
    variants.append(("H", rng.choice(gen.QUANTS), "z", ("d" if ext and rng.random() < 0.5 else None),
                     ("H", rng.choice(gen.QUANTS), "y", None, ("B", rng.choice(["And", "Or"]), y_core, gen.T("V", "z")))))
    variants.append(core_closed)
    variants.append(("B", "And", core_closed, ("H", "Exists", "x", ("d" if ext else None), ("B", "Or", core_closed, core))))
    variants.append(("U", "Not", core_closed))
    fs = [rng.choice(variants) for _ in range(rng.randint(2, 4))]
    # combine two of them inside one formula as well
    if rng.random() < 0.6:
        fs.append(("B", rng.choice(["And", "Or", "Imp"]), rng.choice(variants), rng.choice(variants)))
    return fs


def plug_context(rng, props, core, core_var, ext, depth=None):
    """A random formula containing `core` under a random prefix of operators and quantifiers
    (some with domains); if the core has a free variable it is renamed to a variable in scope
    at the hole (a binder is added when none is)."""
    depth = rng.randint(1, 4) if depth is None else depth
    scope = []
    frames = []
    for _ in range(depth):
        r = rng.random()
        if r < 0.5 and len(scope) < 3:
            x = gen.var_name(len(scope))
            d = "d" if ext and rng.random() < 0.5 else None
            frames.append(("Q", rng.choice(gen.QUANTS), x, d))
            scope.append(x)
        elif r < 0.6 and scope:
            frames.append(("J", rng.choice(scope)))
        elif r < 0.8:
            frames.append(("U", rng.choice(["Not", "EX", "EF", "AG", "AX"])))
        else:
            other = gen.random_formula(rng, rng.randint(0, 2), props, scope=list(scope), max_vars=len(scope))
            frames.append(("B", rng.choice(["And", "Or", "EU"]), other, rng.random() < 0.5))
    if core_var is not None:
        if not scope:
            frames.insert(0, ("Q", rng.choice(gen.QUANTS), "x", ("d" if ext and rng.random() < 0.5 else None)))
            scope.append("x")
        target = rng.choice(scope)
        body = gen.alpha_rename(("H", "Bind", core_var, None, core), rng, [target])[4] if target != core_var else core
        # alpha_rename picks from the pool [target]: the binder's name becomes target
    else:
        body = core
    t = body
    for fr in reversed(frames):
        if fr[0] == "Q":
            t = ("H", fr[1], fr[2], fr[3], t)
        elif fr[0] == "J":
            t = ("H", "Jump", fr[1], None, t)
        elif fr[0] == "U":
            t = ("U", fr[1], t)
        else:
            t = ("B", fr[1], fr[2], t) if fr[3] else ("B", fr[1], t, fr[2])
    return t


def nested_batch(rng, props, ext):
    """duplicates (closed or with one free variable) planted under random nestings of
    restricted and unrestricted quantifiers, and outside of them"""
    if rng.random() < 0.5:
        core = gen.random_formula(rng, rng.randint(1, 3), props, max_vars=1)
        core_var = None
        tries = 0
        if rng.random() < 0.45:
            # the shortcut patterns are closed duplicates like any other
            core = rng.choice([("H", "Bind", "q", None, ("U", "AG", ("U", "EF", gen.T("V", "q")))),
                               ("U", "EF", ("H", "Bind", "q", None, ("U", "AX", gen.T("V", "q"))))])
            tries = 30
        while core[0] == "T" or (tries < 30 and not any(x[0] == "T" and x[1] == "P" for x in gen.subtrees(core))):
            core = gen.random_formula(rng, rng.randint(1, 3), props, max_vars=1)
            tries += 1
    else:
        core = gen.random_formula(rng, rng.randint(1, 3), props, scope=["q"], max_vars=1)
        core_var = "q" if "q" in gen.free_vars(core) else None
        if core[0] == "T":
            core = ("U", "EF", core)
    fs = []
    if core_var is None and ext and rng.random() < 0.6:
        # the closed duplicate below a restricted quantifier with an unrestricted one nested
        # inside (in both orders), and again outside both
        qa, qb = rng.choice(gen.QUANTS), rng.choice(gen.QUANTS)
        body = ("B", rng.choice(["And", "Or"]), core, ("H", "Jump", "x", None, ("U", rng.choice(["EX", "EF"]), gen.T("V", "y"))))
        fs.append(("H", qa, "x", "d", ("H", qb, "y", None, body)))
        if rng.random() < 0.5:
            fs.append(("H", qb, "x", None, ("H", qa, "y", "d", body)))
        fs.append(rng.choice([core, ("U", "Not", core), ("H", "Exists", "x", None, ("B", "And", gen.T("V", "x"), core))]))
        if rng.random() < 0.5:
            # ... and first OUTSIDE, then directly (or through | only) below a restricted exists / bind
            bare = ("H", rng.choice(["Exists", "Bind"]), "x", "d", rng.choice([core, ("B", "Or", core, ("U", "EF", gen.T("V", "x")))]))
            fs = [core, bare] + fs[:1]
        return fs
    for _ in range(rng.randint(2, 4)):
        f = plug_context(rng, props, core, core_var, ext)
        if gen.free_vars(f) or core_requantified(f):
            continue
        fs.append(f)
    if core_var is None:
        fs.insert(rng.randint(0, len(fs)), core if rng.random() < 0.5 else ("B", "And", core, gen.T("P", props[0])))
    if len(fs) >= 2 and rng.random() < 0.5:
        fs.append(("B", rng.choice(["And", "Or"]), fs[0], fs[1]))
    return fs


def core_requantified(f):
    from .core import requantifies
    return requantifies(f)


def subst_vars(t, m):
    if t[0] == "T":
        return ("T", "V", m.get(t[2], t[2])) if t[1] == "V" else t
    if t[0] == "U":
        return ("U", t[1], subst_vars(t[2], m))
    if t[0] == "B":
        return ("B", t[1], subst_vars(t[2], m), subst_vars(t[3], m))
    if t[1] == "Jump":
        return ("H", "Jump", m.get(t[2], t[2]), None, subst_vars(t[4], m))
    return ("H", t[1], t[2], t[3], subst_vars(t[4], m))


def swapped_batch(rng, props, ext):
    """sub-formulae with two free variables occurring with the variables in swapped roles"""
    for _ in range(20):
        core = gen.random_formula(rng, rng.randint(1, 4), props, scope=["p", "q"], max_vars=2, w_hybrid=0.2)
        if gen.free_vars(core) == {"p", "q"}:
            break
    else:
        core = ("U", "EF", ("B", "And", gen.T("V", "p"), ("U", "EX", gen.T("V", "q"))))
    a = subst_vars(core, {"p": "x", "q": "y"})
    b = subst_vars(core, {"p": "y", "q": "x"})
    q1, q2 = rng.choice(gen.QUANTS), rng.choice(gen.QUANTS)
    d = "d" if ext and rng.random() < 0.4 else None
    body = ("B", rng.choice(["And", "Or", "Imp"]), a, b)
    if rng.random() < 0.5:
        body = ("B", "And", ("H", "Jump", "x", None, ("U", "Not", gen.T("V", "y"))), body)
    f = ("H", q1, "x", d, ("H", q2, "y", None, body))
    g = ("H", q2, "x", None, ("H", q1, "y", None, a))
    return [f, g] if rng.random() < 0.5 else [f]


def companion_batch(rng, props, ext):
    """a formula whose only self-loop dependent operator is a weak / strong until or AF / EG, next to
    companions with and without EX / AX (what is computed once per call must not depend on the batch)"""
    p1 = gen.random_formula(rng, rng.randint(0, 2), props, max_vars=0, unops=["Not"], binops=["And", "Or"])
    p2 = gen.random_formula(rng, rng.randint(0, 2), props, max_vars=0, unops=["Not"], binops=["And", "Or"])
    main = rng.choice([("B", "EW", p1, p2), ("B", "AU", p1, p2), ("U", "AF", p1), ("U", "EG", p1), ("B", "EW", p1, gen.T("0"))])
    comp = rng.choice([("U", "AX", p2), ("U", "EX", p1), ("U", "EF", p2), ("B", "EU", p1, p2), ("U", "AG", p1)])
    return [main, comp, ("H", "Bind", "x", None, ("U", "AG", ("U", "EF", gen.T("V", "x"))))][: rng.randint(2, 3)]


def cross_domain_batch(rng, props, ext):
    """a one-variable sub-formula shared between scopes in which its variable has the SAME domain but
    a different name, while the name it has in the other scope is restricted by another domain
    (the renaming of a cached set must not pick up the current scope's restriction of the old name)"""
    for _ in range(20):
        core = gen.random_formula(rng, rng.randint(1, 3), props, scope=["x"], max_vars=1,
                                  unops=["Not", "EX", "AX", "EF", "AG"], binops=["And", "Or", "EU"])
        if gen.free_vars(core) == {"x"} and core[0] != "T":
            break
    else:
        core = ("U", "AX", gen.T("V", "x"))
    core_y = subst_vars(core, {"x": "y"})
    da, db = ("d", "e2") if ext else (None, None)
    if ext and rng.random() < 0.4:
        db = None          # the shared variable itself is unrestricted, only the other name is restricted
    wrap = lambda v, c: rng.choice([("H", "Jump", v, None, c), ("B", "And", gen.T("V", v), c), c])
    if ext and rng.random() < 0.3:
        # the one-variable core first below a restricted variable it does not mention, then outside it
        inner_scope = ("H", rng.choice(gen.QUANTS), "y", "d", ("H", "Jump", "y", None, core))
        f = ("H", rng.choice(gen.QUANTS), "x", None, ("B", rng.choice(["And", "Or"]), inner_scope, core))
        g = ("H", rng.choice(gen.QUANTS), "x", None, core)
        return [f, g]
    inner = ("H", rng.choice(gen.QUANTS), "x", db, wrap("x", core))
    outer = ("H", rng.choice(gen.QUANTS), "x", da,
             ("H", rng.choice(gen.QUANTS), "y", db, rng.choice([("H", "Jump", "x", None, core_y),
                                                               ("B", "And", core_y, ("U", "EF", gen.T("V", "x"))), core_y])))
    fs = [inner, outer]
    if rng.random() < 0.5:
        fs.append(("B", rng.choice(["And", "Or"]), inner, outer))
    return fs


def domain_reuse_batch(rng, props, labels=("d", "e2", "p")):
    """closed formulae with two or three nested quantifiers over the SAME variable names, whose domain
    labels are reused between formulae while the restrictions around them change: the same (label,
    variable) pair below a restricted, a differently restricted and an unrestricted outer variable, and
    one label moving from the outer to the middle variable (whatever an evaluator derives from a domain
    depends on the whole scope, not on the label and the variable alone)"""
    V = lambda v: gen.T("V", v)
    depth = rng.choice([2, 2, 3])
    names = ["x", "y", "z"][:depth]
    def body():
        r = rng.random()
        if r < 0.3:
            parts = [V("x")] + [("U", rng.choice(["EF", "EX", "AX"]), V(v)) for v in names[1:]]
            b = parts[0]
            for q in parts[1:]:
                b = ("B", "And", b, q)
            return b
        if r < 0.55:
            b = ("U", rng.choice(["EF", "EX"]), V(names[-1]))
            for v in reversed(names[:-1]):
                b = ("H", "Jump", v, None, ("B", rng.choice(["And", "Or"]), b, ("U", "EF", V(v)))) if rng.random() < 0.5 else ("H", "Jump", v, None, b)
            return b
        for _ in range(20):
            b = gen.random_formula(rng, rng.randint(2, 5), props, scope=list(names), max_vars=0, w_hybrid=0.3)
            if gen.free_vars(b) == set(names):
                return b
        return ("B", "And", V("x"), ("U", "EF", V(names[-1])))
    b = body()
    a, c = rng.sample(list(labels), 2)
    def build(doms, quants):
        f = b
        for v, d, q in reversed(list(zip(names, doms, quants))):
            f = ("H", q, v, d, f)
        return f
    qs = [rng.choice(gen.QUANTS) for _ in names]
    if rng.random() < 0.5:
        qs = ["Exists"] * depth
    if depth == 2:
        variants = [(a, c), (None, c), (c, c), (a, None)]
    else:
        variants = [(a, None, c), (None, a, c), (None, None, c), (a, a, c), (c, a, None)]
    rng.shuffle(variants)
    fs = [build(d, qs) for d in variants[:rng.randint(2, 3)]]
    if rng.random() < 0.4:
        fs = [("B", rng.choice(["And", "Or"]), fs[0], fs[1])] + fs[2:] + [fs[1]]
    return fs


def gen_C04_domains(chk):
    """batches of formulae that reuse domain labels under changing outer restrictions (own PRNG stream)"""
    import random as _random
    rng = _random.Random("%s-domains-%s" % (chk.prop, chk.seed))
    nets = [(nm, gen.CURATED[nm]) for nm in ["N02", "N05", "N06", "N09", "N21"]]
    for i in range(cnt(chk, 3, 6)):
        net = gen.random_network(rng, max_n=3, max_bits=6)
        if net_props(net):
            nets.append(("D%d" % i, net))
    for nm, net in nets:
        props = net_props(net)
        for j in range(cnt(chk, 5, 6)):
            fs = domain_reuse_batch(rng, props)[:3]
            k = max(gen.quant_depth(f) for f in fs)
            if len(props) * (1 + k) > 12:
                continue
            ctx = [("p", ctx_spec(rng)), ("d", ctx_spec(rng)), ("e2", ctx_spec(rng))]
            if j % 3 == 1:
                a, b2 = rng.choice(props), rng.choice(props)
                ctx = [("p", "f" + gen.hx("%s | %s" % (b2, a))), ("d", "f" + gen.hx("%s & ~%s" % (a, b2) if a != b2 else a)),
                       ("e2", "f" + gen.hx("~" + a))]
            if j % 3 == 2:
                ctx = [("p", ctx_spec(rng)), ("d", rng.choice(["k%d.1.2", "k%d.1.4", "r%d.1.4"]) % rng.randint(1, 10 ** 6)),
                       ("e2", "f" + gen.hx("!{x}: AX {x}"))]
            group = []
            perms = list(itertools.permutations(range(len(fs))))
            rng.shuffle(perms)
            for perm in [tuple(range(len(fs)))] + perms[:2]:
                cid = chk.add_eval(net, k, "es", [fs[i] for i in perm], ctx=ctx, tag="domains-perm", netname=nm)
                chk.cases[cid]["perm"] = perm
                group.append(cid)
            for i, f in enumerate(fs):
                cid = chk.add_eval(net, k, "es", [f], ctx=ctx, tag="domains-single", netname=nm)
                chk.cases[cid]["perm"] = (i,)
                group.append(cid)
            cid = chk.add_eval(net, k, "esc", fs, ctx=ctx, tag="domains-nocache", netname=nm)
            chk.cases[cid]["perm"] = tuple(range(len(fs)))
            group.append(cid)
            for g in group:
                chk.cases[g]["group"] = group
                chk.cases[g]["nformulas"] = len(fs)


def gen_C04(chk):
    rng = chk.rng
    ws = worlds(chk, quick_names=["N02", "N05", "N06", "N07", "N09", "N16", "N21", "N22"],
                n_random=cnt(chk, 5, 10))
    for nm, net in ws:
        props = net_props(net)
        for j in range(cnt(chk, 18, 12)):
            ext = rng.random() < 0.6
            fs = [planted_batch, nested_batch, swapped_batch, cross_domain_batch, nested_batch, companion_batch][j % 6](rng, props, ext)
            if len(fs) < 1:
                continue
            fs = fs[:4]
            k = max(gen.quant_depth(f) for f in fs)
            ctx = [("p", ctx_spec(rng)), ("d", ctx_spec(rng)), ("e2", ctx_spec(rng))] if ext else []
            if ext and j % 6 in (1, 4) and rng.random() < 0.5:
                # domains that are empty for some colours only
                ctx = [("p", ctx_spec(rng)), ("d", rng.choice(["k%d.1.2", "k%d.1.4", "r%d.1.4"]) % rng.randint(1, 10 ** 6)),
                       ("e2", ctx_spec(rng))]
            if ext and j % 6 == 3 and rng.random() < 0.7:
                # the two domains differ a lot (disjoint, or one literal each)
                a = rng.choice(props)
                b = rng.choice(props)
                sd, se = rng.choice([(a, "~" + a), ("~" + a, a), (a, b), ("%s & %s" % (a, b), "~%s" % b)])
                ctx = [("p", ctx_spec(rng)), ("d", "f" + gen.hx(sd)), ("e2", "f" + gen.hx(se))]
            mode = ("e" if ext else "") + "s"
            perms = list(itertools.permutations(range(len(fs))))
            rng.shuffle(perms)
            group = []
            for perm in perms[: cnt(chk, 3, 6)]:
                cid = chk.add_eval(net, k, mode + "3", [fs[i] for i in perm], ctx=ctx, tag="perm", netname=nm)
                chk.cases[cid]["perm"] = perm
                group.append(cid)
            # with a repetition
            rep = fs + [fs[0]]
            cid = chk.add_eval(net, k, mode, rep, ctx=ctx, tag="repeat", netname=nm)
            chk.cases[cid]["perm"] = tuple(range(len(fs))) + (0,)
            group.append(cid)
            # each formula alone, and with a context that marks no duplicates
            for i, f in enumerate(fs):
                cid = chk.add_eval(net, k, mode, [f], ctx=ctx, tag="single", netname=nm)
                chk.cases[cid]["perm"] = (i,)
                group.append(cid)
            cid = chk.add_eval(net, k, mode + "c", fs, ctx=ctx, tag="nocache", netname=nm)
            chk.cases[cid]["perm"] = tuple(range(len(fs)))
            group.append(cid)
            for g in group:
                chk.cases[g]["group"] = group
                chk.cases[g]["nformulas"] = len(fs)


def judge_groups(chk):
    """within a group every occurrence of formula i must have the same result"""
    seen = set()
    for cid, case in list(chk.cases.items()):
        group = case.get("group")
        if not group or group[0] in seen:
            continue
        seen.add(group[0])
        per_formula = {}
        for g in group:
            impl = chk.results.get(g, {}).get("impl")
            if not impl or impl.get("status") != "OK":
                continue
            parts = impl["payload"].split(",")
            for pos, i in enumerate(chk.cases[g]["perm"]):
                if pos < len(parts):
                    per_formula.setdefault(i, {}).setdefault(parts[pos], []).append(g)
        for i, variants in per_formula.items():
            if len(variants) > 1:
                ids = [v[0] for v in variants.values()]
                chk.record(ids[-1], ("violation",
                                     "formula %d of the batch evaluates differently depending on history "
                                     "(cases %s)" % (i, ids)))


# ------------------------------------------------------------------ C10
def replace_subtree(t, target, repl):
    if t == target:
        return repl
    if t[0] == "T":
        return t
    if t[0] == "U":
        return ("U", t[1], replace_subtree(t[2], target, repl))
    if t[0] == "B":
        return ("B", t[1], replace_subtree(t[2], target, repl), replace_subtree(t[3], target, repl))
    return ("H", t[1], t[2], t[3], replace_subtree(t[4], target, repl))


def gen_C10(chk):
    rng = chk.rng
    ws = worlds(chk, n_random=cnt(chk, 5, 10))
    for nm, net in ws:
        props = net_props(net)
        for j in range(cnt(chk, 9, 12)):
            f = gen.random_formula(rng, rng.randint(3, 9), props, max_vars=2, w_hybrid=0.3)
            k = gen.quant_depth(f)
            closed = [s for s in gen.subtrees(f) if not gen.free_vars(s) and s[0] != "T" and s != f]
            base = chk.add_eval(net, k, "s", [f], tag="base", netname=nm)
            # plain formula through the extended entry points with an empty context
            e0 = chk.add_eval(net, k, "es", [f], tag="emptyctx", netname=nm)
            chk.cases[e0]["pair"] = base
            # surroundings with variable domains and wild-cards: the closed sub-formula below a
            # restricted quantifier, replaced by its raw result
            if closed and j % 2 == 0:
                s0 = rng.choice(closed)
                for q in gen.QUANTS:
                    body = rng.choice([s0, ("B", "Or", s0, ("U", "AX", gen.T("V", "w"))),
                                       ("B", "And", ("U", "EX", gen.T("V", "w")), s0),
                                       ("H", "Jump", "w", None, s0)])
                    g0 = ("H", q, "w", "d", body)
                    g1 = replace_subtree(g0, s0, gen.T("W", "w0"))
                    dspec = ctx_spec(rng)
                    kk = max(gen.quant_depth(g0), 1)
                    b0 = chk.add_eval(net, kk, "es", [g0], ctx=[("d", dspec)], tag="dom-base", netname=nm)
                    c1 = chk.add_eval(net, kk, "es", [g1], ctx=[("d", dspec), ("w0", "f" + gen.hx(gen.render(s0)))],
                                      tag="dom-subst", netname=nm)
                    chk.cases[c1]["pair"] = b0
            # the replaced sub-formula used twice: first below a restricted quantifier, then outside
            # it under a negation (a set computed inside the restricted scope must not be reused outside)
            if closed and j % 2 == 1:
                s0 = rng.choice(closed)
                pr = gen.T("P", rng.choice(props))
                wrap = lambda z: ("U", rng.choice(["EF", "EX", "AF"]), ("B", rng.choice(["And", "Or"]), pr, z))
                for q in gen.QUANTS:
                    w1 = wrap(s0)
                    inner = ("H", q, "w", "d", ("H", "Jump", "w", None, w1))
                    outer = ("H", rng.choice(gen.QUANTS), "w", None, ("U", "Not", w1))
                    g0 = ("B", rng.choice(["And", "Or"]), inner, outer)
                    g1 = replace_subtree(g0, s0, gen.T("W", "w0"))
                    dspec = ctx_spec(rng)
                    kk = max(gen.quant_depth(g0), 1)
                    b0 = chk.add_eval(net, kk, "es", [g0], ctx=[("d", dspec)], tag="dom2-base", netname=nm)
                    c1 = chk.add_eval(net, kk, "es", [g1], ctx=[("d", dspec), ("w0", "f" + gen.hx(gen.render(s0)))],
                                      tag="dom2-subst", netname=nm)
                    chk.cases[c1]["pair"] = b0
            # the replaced sub-formula inside a one-variable context that occurs under two different
            # variable names, once in an unrestricted scope and once below a restricted quantifier
            # (after the replacement the context becomes a shareable duplicate that must be renamed)
            if closed and j % 3 == 0:
                s0 = rng.choice(closed)
                pr = gen.T("P", rng.choice(props))
                op1, op2 = rng.choice(["EF", "EX", "AX"]), rng.choice(["And", "Or"])
                G = lambda v: ("U", op1, ("B", op2, gen.T("V", v), s0))
                for q in gen.QUANTS:
                    left = ("H", rng.choice(gen.QUANTS), "w", None, ("H", "Jump", "w", None, ("B", "Or", pr, G("w"))))
                    right = ("H", q, "w", "d", ("H", rng.choice(gen.QUANTS), "u", None, ("H", "Jump", "u", None, G("u"))))
                    g0 = ("B", rng.choice(["And", "Or"]), left, right)
                    g1 = replace_subtree(g0, s0, gen.T("W", "w0"))
                    dspec = rng.choice([ctx_spec(rng), "f" + gen.hx(gen.render(("U", "Not", pr)))])
                    kk = gen.quant_depth(g0)
                    if kk > 3 or len(props) * (1 + kk) > 12:
                        continue
                    b0 = chk.add_eval(net, kk, "es", [g0], ctx=[("d", dspec)], tag="dom3-base", netname=nm)
                    c1 = chk.add_eval(net, kk, "es", [g1], ctx=[("d", dspec), ("w0", "f" + gen.hx(gen.render(s0)))],
                                      tag="dom3-subst", netname=nm)
                    chk.cases[c1]["pair"] = b0
            # on a graph narrowed to the states reachable from one state (no model for such units: the
            # substituted and the direct formula are compared with each other)
            if closed and j % 3 == 1 and len(props) <= 3:
                s0 = rng.choice(closed)
                for q in gen.QUANTS:
                    body = rng.choice([("H", "Jump", "w", None, s0), ("B", "And", s0, ("U", "EF", gen.T("V", "w"))),
                                       ("H", "Exists", "u", None, ("B", "And", ("H", "Jump", "u", None, s0), ("U", "Not", ("U", "EF", gen.T("V", "u")))))])
                    g0 = ("H", q, "w", rng.choice(["d", None]), body)
                    g1 = replace_subtree(g0, s0, gen.T("W", "w0"))
                    a = rng.choice(props)
                    kk = gen.quant_depth(g0)
                    if kk > 2:
                        continue
                    ctx0 = [("d", "f" + gen.hx(rng.choice([a, "~" + a, "true"])))]
                    b0 = chk.add_eval(net, kk, "eS", [g0], ctx=ctx0, tag="narrowed-base", netname=nm)
                    c1 = chk.add_eval(net, kk, "eS", [g1], ctx=ctx0 + [("w0", "f" + gen.hx(gen.render(s0)))],
                                      tag="narrowed-subst", netname=nm)
                    chk.cases[c1]["pair"] = b0
            # the replaced closed sub-formula has a quantifier with a domain; an earlier nest uses the same
            # (label, variable) below a restricted outer variable (nothing computed there may be reused)
            if j % 3 == 2 and len(props) <= 3:
                V = lambda v: gen.T("V", v)
                pr = gen.T("P", rng.choice(props))
                body = lambda: ("H", "Jump", "x", None, rng.choice([("U", "EX", V("y")), ("B", "And", ("U", "Not", pr), ("U", "EX", V("y"))),
                                                                   ("U", "EF", V("y"))]))
                q1, q2 = rng.choice(gen.QUANTS), rng.choice(gen.QUANTS)
                s0 = ("H", q1, "x", None, ("H", q2, "y", "e2", body()))
                first = ("H", rng.choice(gen.QUANTS), "x", "d", ("H", q2, "y", "e2", body()))
                for wrap in (lambda z: z, lambda z: ("U", "AX", z)):
                    g0 = ("B", rng.choice(["And", "Or"]), first, wrap(s0))
                    g1 = ("B", g0[1], first, wrap(gen.T("W", "w0")))
                    a = rng.choice(props)
                    ctx0 = [("d", "f" + gen.hx(rng.choice([a, "~" + a]))), ("e2", ctx_spec(rng))]
                    b0 = chk.add_eval(net, 2, "es", [g0], ctx=ctx0, tag="dom4-base", netname=nm)
                    # the raw result of s0 needs the context too: it is computed by the implementation alone
                    c0 = chk.add_eval(net, 2, "es", [first, s0], ctx=ctx0, tag="dom4-batch", netname=nm)
                    c1 = chk.add_eval(net, 2, "es", [s0], ctx=ctx0, tag="dom4-alone", netname=nm)
                    chk.cases[c0]["group"] = [c0, c1]
                    chk.cases[c1]["group"] = [c0, c1]
                    chk.cases[c0]["perm"] = (9, 0)
                    chk.cases[c1]["perm"] = (0,)
            if not closed:
                continue
            rng.shuffle(closed)
            # one replacement, then several simultaneous ones
            picks = [closed[:1], closed[: rng.randint(1, min(3, len(closed)))]]
            for pick in picks:
                g = f
                ctx = []
                for i, s in enumerate(pick):
                    lab = "w%d" % i
                    g2 = replace_subtree(g, s, gen.T("W", lab))
                    if g2 != g:
                        ctx.append((lab, "f" + gen.hx(gen.render(s))))
                        g = g2
                if ctx:
                    cid = chk.add_eval(net, k, "es", [g], ctx=ctx, tag="subst", netname=nm)
                    chk.cases[cid]["pair"] = base


def gen_C10_patterns(chk):
    """the replaced closed sub-formula is one of the shortcut patterns (or contains one) and occurs first
    below a quantifier restricted to a domain, whose variable it does not mention, and again outside it
    (own PRNG stream)"""
    import random as _random
    rng = _random.Random("C10-patterns-%s" % chk.seed)
    V = lambda v: gen.T("V", v)
    atp = ("H", "Bind", "y", None, ("U", "AG", ("U", "EF", V("y"))))
    stp = ("H", "Bind", "y", None, ("U", "AX", V("y")))
    nets = [(nm, gen.CURATED[nm]) for nm in ["N05", "N06", "N09", "N16", "N21", "N22"]]
    for i in range(cnt(chk, 3, 8)):
        net = gen.random_network(rng, max_n=3, max_bits=5)
        if net_props(net):
            nets.append(("P%d" % i, net))
    for nm, net in nets:
        props = net_props(net)
        if len(props) * 3 > 10:
            continue
        for j in range(cnt(chk, 6, 8)):
            pr = gen.T("P", rng.choice(props))
            s0 = rng.choice([atp, atp, atp, atp, stp, ("U", "EF", atp), ("B", "And", pr, atp), ("U", "Not", stp)])
            wrap = lambda z: rng.choice([z, ("U", "EF", z), ("B", rng.choice(["And", "Or"]), pr, z)])
            inner = ("H", rng.choice(gen.QUANTS), "x", "d", ("H", "Jump", "x", None, wrap(s0)))
            outer = rng.choice([s0, ("H", "Exists", "z", None, ("H", "Jump", "z", None, ("B", "And", pr, s0))),
                                ("U", "Not", s0), ("H", rng.choice(gen.QUANTS), "z", None, ("B", "Or", V("z"), s0))])
            op = rng.choice(["And", "Or"])
            for g0 in (("B", op, inner, outer), ("B", op, outer, inner)):
                g1 = replace_subtree(g0, s0, gen.T("W", "w0"))
                a = rng.choice(props)
                b = rng.choice(props)
                dspec = rng.choice([ctx_spec(rng), "f" + gen.hx(a), "f" + gen.hx("~" + a), "f" + gen.hx("~%s & %s" % (a, b)),
                                    "f" + gen.hx("%s & ~(!{x}: AG EF {x})" % a), "k%d.1.2" % rng.randint(1, 10 ** 6)])
                kk = gen.quant_depth(g0)
                b0 = chk.add_eval(net, kk, "es", [g0], ctx=[("d", dspec)], tag="pattern-dom-base", netname=nm)
                c1 = chk.add_eval(net, kk, "es", [g1], ctx=[("d", dspec), ("w0", "f" + gen.hx(gen.render(s0)))],
                                  tag="pattern-dom-subst", netname=nm)
                chk.cases[c1]["pair"] = b0


# ------------------------------------------------------------------ C11
def gen_C11(chk):
    """fixed-point laws, dualities, monotonicity with arbitrary argument sets (wild-cards)"""
    rng = chk.rng
    ws = worlds(chk, n_random=cnt(chk, 6, 20))
    S, Tt = gen.T("W", "s"), gen.T("W", "t")

    def U(o, a):
        return ("U", o, a)

    def B(o, a, b):
        return ("B", o, a, b)

    laws = [
        (U("EF", S), B("Or", S, U("EX", U("EF", S)))),
        (U("EG", S), B("And", S, U("EX", U("EG", S)))),
        (U("AF", S), B("Or", S, U("AX", U("AF", S)))),
        (U("AG", S), B("And", S, U("AX", U("AG", S)))),
        (B("EU", S, Tt), B("Or", Tt, B("And", S, U("EX", B("EU", S, Tt))))),
        (B("AU", S, Tt), B("Or", Tt, B("And", S, U("AX", B("AU", S, Tt))))),
        (U("AX", S), U("Not", U("EX", U("Not", S)))),
        (U("AF", S), U("Not", U("EG", U("Not", S)))),
        (U("AG", S), U("Not", U("EF", U("Not", S)))),
        (U("EF", S), B("EU", gen.T("1"), S)),
        (U("AF", S), B("AU", gen.T("1"), S)),
        (B("AU", S, Tt), U("Not", B("Or", B("EU", U("Not", Tt), B("And", U("Not", S), U("Not", Tt))),
                                    U("EG", U("Not", Tt))))),
    ]
    mono = ["EX", "AX", "EF", "AF", "EG", "AG"]
    for nm, net in ws:
        for j in range(cnt(chk, 2, 6)):
            ctx = [("s", ctx_spec(rng)), ("t", ctx_spec(rng))]
            fs = []
            for a, b in laws:
                fs += [a, b]
            cid = chk.add_eval(net, 0, "es", fs, ctx=ctx, tag="laws", netname=nm)
            chk.cases[cid]["equal_pairs"] = [(2 * i, 2 * i + 1) for i in range(len(laws))]
            # monotonicity: op(s & t) subset of op(s);  op(s) subset of op(s | t)
            fs = []
            for o in mono:
                fs += [U(o, B("And", S, Tt)), U(o, S), U(o, B("Or", S, Tt))]
            for o in ["EU", "AU", "EW", "AW"]:
                fs += [B(o, B("And", S, Tt), Tt), B(o, S, Tt), B(o, B("Or", S, Tt), Tt)]
                fs += [B(o, Tt, B("And", S, Tt)), B(o, Tt, S), B(o, Tt, B("Or", S, Tt))]
            cid = chk.add_eval(net, 0, "es", fs, ctx=ctx, tag="mono", netname=nm)
            chk.cases[cid]["subset_triples"] = [(3 * i, 3 * i + 1, 3 * i + 2) for i in range(len(fs) // 3)]


def judge_laws(chk):
    for cid, case in list(chk.cases.items()):
        impl = chk.results.get(cid, {}).get("impl")
        if not impl or impl.get("status") != "OK":
            continue
        parts = impl["payload"].split(",")
        for a, b in case.get("equal_pairs", []):
            if parts[a] != parts[b]:
                chk.record(cid, ("violation", "law violated: %s <> %s" %
                                 (chk.ftext(case["formulas"][a]), chk.ftext(case["formulas"][b]))))
                break
        for a, b, c in case.get("subset_triples", []):
            def sub(x, y):
                return all(not (p == "1" and q == "0") for p, q in zip(parts[x], parts[y]))
            if not (sub(a, b) and sub(b, c)):
                chk.record(cid, ("violation", "monotonicity violated at %s" % chk.ftext(case["formulas"][b])))
                break


# ------------------------------------------------------------------ C12
def gen_C12(chk):
    rng = chk.rng
    ws = worlds(chk, n_random=cnt(chk, 6, 20))

    def attr(x):
        return ("H", "Bind", x, None, ("U", "AG", ("U", "EF", gen.T("V", x))))

    def steady(x):
        return ("H", "Bind", x, None, ("U", "AX", gen.T("V", x)))

    def defeat(t):
        # logically identical formula that the recognisers do not match
        x = t[2]
        inner = t[4]
        if inner[1] == "AG":
            return ("H", "Bind", x, None, ("U", "AG", ("U", "EF", ("B", "And", gen.T("V", x), gen.T("V", x)))))
        return ("H", "Bind", x, None, ("U", "AX", ("B", "And", gen.T("V", x), gen.T("V", x))))

    for nm, net in ws:
        props = net_props(net)
        p0 = gen.T("P", props[0])
        contexts = []
        for pat in (attr, steady):
            t = pat("x")
            contexts.append((t, defeat(t)))
            contexts.append((("U", "EF", t), ("U", "EF", defeat(t))))
            contexts.append((("B", "And", p0, ("U", "AX", t)), ("B", "And", p0, ("U", "AX", defeat(t)))))
            # inside quantifier scopes with another variable name
            t2 = pat("y")
            for q in gen.QUANTS:
                contexts.append((("H", q, "x", None, ("B", "Or", gen.T("V", "x"), t2)),
                                 ("H", q, "x", None, ("B", "Or", gen.T("V", "x"), defeat(t2)))))
                # inside domain-restricted scopes
                contexts.append((("H", q, "x", "d", ("B", "And", ("U", "EX", gen.T("V", "x")), t2)),
                                 ("H", q, "x", "d", ("B", "And", ("U", "EX", gen.T("V", "x")), defeat(t2)))))
                contexts.append((("H", q, "x", "d", t2), ("H", q, "x", "d", defeat(t2))))
            # near misses: other variable, domain on the binder, extra operator
            contexts.append((("H", "Exists", "x", None, ("H", "Bind", "y", None, t[4] if False else
                                                         (("U", "AG", ("U", "EF", gen.T("V", "x"))) if pat is attr else ("U", "AX", gen.T("V", "x"))))), None))
            contexts.append((("H", "Bind", "x", "d", t[4]), None))
            contexts.append((("H", "Bind", "x", None, ("U", "Not", t[4])), None))
        # the pattern repeated across scopes with different restrictions (shared cache entries)
        for pat in (attr, steady):
            for q in gen.QUANTS:
                f1 = ("H", q, "x", "d", ("H", "Jump", "x", None, pat("y")))
                f2 = pat("x")
                f3 = ("H", rng.choice(gen.QUANTS), "x", "d2", ("H", "Jump", "x", None, pat("y")))
                f4 = ("H", q, "x", "d", ("B", "And", ("U", "EX", gen.T("V", "x")), pat("y")))
                combos = [[f1, f2], [f1, f3], [f4, f2, f1], [("B", "And", f1, f3)], [("B", "Or", f4, f2)],
                          [("B", "And", f1, ("U", "EF", f2))]]
                for fs in combos:
                    ctx = [("d", ctx_spec(rng)), ("d2", ctx_spec(rng))]
                    kk = max(gen.quant_depth(f) for f in fs)
                    chk.add_eval(net, kk, "es", fs, ctx=ctx, tag="pattern-shared", netname=nm)
        for a, b in contexts:
            ext = bool(gen.labels_of(a)[1])
            for rep in range(cnt(chk, 1, 2)):
                ctx = [("d", ctx_spec(rng))] if ext else []
                mode = ("e" if ext else "") + "s"
                k = gen.quant_depth(a)
                ia = chk.add_eval(net, k, mode, [a], ctx=ctx, tag="pattern", netname=nm)
                if b is not None:
                    ib = chk.add_eval(net, k, mode, [b], ctx=ctx, tag="defeated", netname=nm)
                    chk.cases[ia]["pair"] = ib
                    # in a batch together
                    ic = chk.add_eval(net, k, mode, [a, b, a], ctx=ctx, tag="batch", netname=nm)
                    chk.cases[ic]["equal_pairs"] = [(0, 1), (1, 2)]


def gen_C12_unsafe(chk):
    """the attractor shortcut through the entry point that skips the self-loops (model_check_formula_unsafe_ex,
    whose documentation only excludes the steady-state pattern): recognised pattern against the defeated
    spelling and against the standard entry point (own PRNG stream)"""
    import random as _random
    rng = _random.Random("C12-unsafe-%s" % chk.seed)
    V = lambda v: gen.T("V", v)
    att = lambda x: ("H", "Bind", x, None, ("U", "AG", ("U", "EF", V(x))))
    dft = lambda x: ("H", "Bind", x, None, ("U", "AG", ("U", "EF", ("B", "And", V(x), V(x)))))
    nets = [(nm, gen.CURATED[nm]) for nm in gen.CURATED]
    for i in range(cnt(chk, 4, 12)):
        net = gen.random_network(rng, max_n=3, max_bits=6)
        if net_props(net):
            nets.append(("U%d" % i, net))
    for nm, net in nets:
        props = net_props(net)
        if len(props) * 3 > 10:
            continue
        pr = gen.T("P", rng.choice(props))
        wraps = [lambda t: t, lambda t: ("U", "Not", t), lambda t: ("U", "EF", t), lambda t: ("B", "And", pr, t),
                 lambda t: ("H", "Exists", "z", None, ("H", "Jump", "z", None, ("B", "And", pr, t))),
                 lambda t: ("B", "EU", pr, t), lambda t: ("H", "Forall", "z", None, ("B", "Or", V("z"), t))]
        for w in wraps:
            a, b = w(att("y")), w(dft("y"))
            k = gen.quant_depth(a)
            ia = chk.add_eval(net, k, "u", [a], tag="unsafe-pattern", netname=nm)
            ib = chk.add_eval(net, k, "u", [b], tag="unsafe-defeated", netname=nm)
            ic = chk.add_eval(net, k, "", [a], tag="standard-pattern", netname=nm)
            chk.cases[ia]["pair"] = ib
            chk.cases[ic]["pair"] = ia


# ------------------------------------------------------------------ C13
def gen_C13(chk):
    rng = chk.rng
    ws = worlds(chk, n_random=cnt(chk, 8, 30))
    for nm, net in ws:
        props = net_props(net)
        at = gen.atoms(props, [])
        # every one-operator EW / AW formula, and the defining equations through the tool itself
        fs = []
        pairs = []
        for o in ("EW", "AW"):
            for a in at:
                for b in at:
                    fs.append(("B", o, a, b))
        for batch in chunks(fs, 24):
            chk.add_eval(net, 0, "s", batch, tag="w1", netname=nm)
        for j in range(cnt(chk, 10, 40)):
            a = gen.random_formula(rng, rng.randint(0, 3), props, max_vars=1)
            b = gen.random_formula(rng, rng.randint(0, 3), props, max_vars=1)
            k = max(gen.quant_depth(a), gen.quant_depth(b))
            na, nb = ("U", "Not", a), ("U", "Not", b)
            fs = [("B", "EW", a, b), ("B", "Or", ("B", "EU", a, b), ("U", "EG", a)),
                  ("B", "AW", a, b), ("U", "Not", ("B", "EU", nb, ("B", "And", na, nb))),
                  ("B", "Imp", b, ("B", "And", ("B", "EW", a, b), ("B", "AW", a, b))), gen.T("1")]
            cid = chk.add_eval(net, k, "s", fs, tag="wdef", netname=nm)
            chk.cases[cid]["equal_pairs"] = [(0, 1), (2, 3), (4, 5)]
            # nested in larger formulae
            g = gen.random_formula(rng, rng.randint(2, 6), props, max_vars=2, binops=["EW", "AW", "And", "EU"])
            chk.add_eval(net, gen.quant_depth(g), "s", [g], tag="wrnd", netname=nm)


def wide_networks(thorough_):
    """networks with so many states that a set can grow by less than a double can resolve"""
    nets = []
    # p follows q, q keeps its value, 58 further variables are constantly true
    nets.append(("pq58", "q -> p\nq -> q\n$p: q\n$q: q\n" + "".join("$g%02d: true\n" % i for i in range(1, 59)), "p", "q"))
    # a ring of 58 variables, the first one with an unknown function of its predecessor
    ring = ["v%02d" % i for i in range(58)]
    txt = "".join("%s -> %s\n$%s: %s\n" % (ring[i - 1], ring[i], ring[i], ring[i - 1]) for i in range(1, 58))
    txt += "%s -?? %s\n" % (ring[-1], ring[0])
    nets.append(("ring58", txt, ring[0], ring[1]))
    return nets


def gen_C13_wide(chk):
    """weak until on networks with 2^58 and more states: the defining equations by BDD equality"""
    from .shellprops import add_shell
    for nm, net, p, q in wide_networks(thorough(chk)):
        if nm != "pq58":
            continue        # the until operators take minutes on the ring
        pairs = []
        for a, b in [(p, q), (q, p), ("~" + p, q), (p, "~" + q), (p, "false"), ("true", q)]:
            pairs += [("%s EW %s" % (a, b), "(%s EU %s) | EG %s" % (a, b, a)),
                      ("%s AW %s" % (a, b), "~((~(%s)) EU ((~(%s)) & (~(%s))))" % (b, a, b)),
                      ("(%s) => ((%s EW %s) & (%s AW %s))" % (b, a, b, a, b), "true")]
        fs = []
        for x, y in pairs:
            fs += [x, y]
        add_shell(chk, "EQV", ["0", "A:" + gen.hx(net), "-", ",".join(gen.hx(f) for f in fs)], tag="wide-weak-until",
                  meta={"net": nm})


def gen_C12_wide(chk):
    """the attractor shortcut on a network with a large strongly connected core (an input, its copy and
    a negative feedback ring of 110 variables): the generic evaluation is only feasible inside a
    domain of two states, where it must agree with the shortcut"""
    from .shellprops import add_shell
    m = 110
    ring = ["r%03d" % i for i in range(m)]
    net = "a0 -> a0\n$a0: a0\na0 -> a1\n$a1: a0\n"
    net += "%s -| %s\n$%s: !%s\n" % (ring[-1], ring[0], ring[0], ring[-1])
    net += "".join("%s -> %s\n$%s: %s\n" % (ring[i - 1], ring[i], ring[i], ring[i - 1]) for i in range(1, m))
    zeros = " & ".join("~" + r for r in ring)
    d = "(~a0 & ~a1 & %s) | (~a0 & a1 & %s)" % (zeros, zeros)
    pairs = [("%d% & (!{x}: AG EF {x})", "!{x} in %d%: AG EF {x}"),
             ("%d% & (!{x}: AX {x})", "!{x} in %d%: AX ({x} & {x})")]
    fs = []
    for x, y in pairs:
        fs += [x, y]
    add_shell(chk, "EQV", ["1", "A:" + gen.hx(net), "%s=f%s" % (gen.hx("d"), gen.hx(d)), ",".join(gen.hx(f) for f in fs)],
              tag="wide-attractors", meta={"net": "ring%d" % m})


def gen_C11_wide(chk):
    """EX / EG / AF on a set whose BDD has more than a million nodes and consists of steady states
    (38 constant inputs paired in the worst variable order, and a switch)"""
    from .shellprops import add_shell
    n = 19
    a = ["a%02d" % i for i in range(1, n + 1)]
    b = ["b%02d" % i for i in range(1, n + 1)]
    net = "".join("%s -> %s\n$%s: %s\n" % (v, v, v, v) for v in a + b) + "y -> x\nx -> y\n$x: y\n$y: x\n"
    S = "(x <=> y) & " + " & ".join("(%s <=> %s)" % (a[i], b[i]) for i in range(n))
    T = "x & y & " + " & ".join(a + b)
    pairs = [("EG %S%", "%S%"), ("%S% & EX %S%", "%S%"), ("AF ~%S%", "~%S%"), ("%T% => EX %T%", "true"),
             ("EX %T% => EX %S%", "true")]
    fs = []
    for x, y in pairs:
        fs += [x, y]
    add_shell(chk, "EQV", ["0", "A:" + gen.hx(net), "%s=f%s,%s=f%s" % (gen.hx("S"), gen.hx(S), gen.hx("T"), gen.hx(T)),
                           ",".join(gen.hx(f) for f in fs)], tag="wide-ex", meta={"net": "inputs38"})


def gen_C11_many(chk):
    """a network of 144 variables: two cascades of two and 140 components that keep their value"""
    from .shellprops import add_shell
    keep = ["m%03d" % i for i in range(140)]
    net = "$z: true\nz -> a\n$a: z\n$b: true\nb -> y\n$y: b\n" + "".join("%s -> %s\n$%s: %s\n" % (v, v, v, v) for v in keep)
    S = "a & z & b & y"
    pairs = [("EF %S%", "true"), ("EF %S%", "%S% | EX EF %S%"), ("%P% EU %S%", "%S% | (%P% & EX (%P% EU %S%))"),
             ("AG ~%S%", "false"), ("AG ~%S%", "~%S% & AX AG ~%S%"), ("(~%S%) AW false", "AG ~%S%")]
    fs = []
    for x, y in pairs:
        fs += [x, y]
    add_shell(chk, "EQV", ["0", "A:" + gen.hx(net), "%s=f%s,%s=f%s" % (gen.hx("S"), gen.hx(S), gen.hx("P"), gen.hx("~m000")),
                           ",".join(gen.hx(f) for f in fs)], tag="wide-many-variables", meta={"net": "keep144"})


def gen_C02_wide(chk):
    """README equivalences with a domain that excludes a single state of a 2^58-state network"""
    from .shellprops import add_shell
    for nm, net, p, q in wide_networks(thorough(chk)):
        names = net_props(net)
        anyv = " | ".join(names)
        pairs = [("!{x} in %d%: true", "!{x}: %d% & true"),
                 ("3{x} in %%d%%: @{x}: ~(%s)" % anyv, "3{x}: @{x}: %%d%% & ~(%s)" % anyv),
                 ("V{x} in %%d%%: @{x}: (%s)" % anyv, "V{x}: @{x}: %%d%% => (%s)" % anyv),
                 ("3{x} in %nst%: @{x}: AX {x}", "3{x}: @{x}: %nst% & AX {x}")]
        fs = []
        for x, y in pairs:
            fs += [x, y]
        ctx = "%s=f%s,%s=f%s" % (gen.hx("d"), gen.hx(anyv), gen.hx("nst"), gen.hx("~(!{x}: AX {x})"))
        add_shell(chk, "EQV", ["1", "A:" + gen.hx(net), ctx, ",".join(gen.hx(f) for f in fs)], tag="wide-domain",
                  meta={"net": nm})


def gen_C02_bigdomain(chk):
    """README equivalences with a domain whose BDD has tens of thousands of nodes (a ring of 32
    variables, the domain pairs variable i with variable i + 16), by BDD equality"""
    from .shellprops import add_shell
    n = 32
    vs = ["g%02d" % i for i in range(n)]
    net = "%s -| %s\n$%s: !%s\n" % (vs[-1], vs[0], vs[0], vs[-1])
    net += "".join("%s -> %s\n$%s: %s\n" % (vs[i - 1], vs[i], vs[i], vs[i - 1]) for i in range(1, n))
    dom = " | ".join("(%s & %s)" % (vs[i], vs[i + n // 2]) for i in range(n // 2))
    p = "%s & ~%s" % (vs[3], vs[20])
    pairs = [("V{x} in %d%: @{x}: %d%", "V{x}: @{x}: (%d% => %d%)"),
             ("V{x} in %%d%%: @{x}: (%s)" % p, "V{x}: @{x}: (%%d%% => (%s))" % p),
             ("3{x} in %%d%%: @{x}: (%s)" % p, "3{x}: @{x}: (%%d%% & (%s))" % p),
             ("!{x} in %%d%%: (%s)" % p, "!{x}: (%%d%% & (%s))" % p),
             ("V{x} in %d%: @{x}: %d%", "true")]
    fs = []
    for x, y in pairs:
        fs += [x, y]
    ctx = "%s=f%s" % (gen.hx("d"), gen.hx(dom))
    add_shell(chk, "EQV", ["1", "A:" + gen.hx(net), ctx, ",".join(gen.hx(f) for f in fs)], tag="big-domain",
              meta={"net": "ring32"})


def long_wildcard_batch(chk):
    """a batch with far more than a hundred pending duplicates next to a wild-card proposition"""
    rng = chk.rng
    net = gen.CURATED["N06"]
    props = net_props(net)
    ops = ["EX", "AX", "EF", "AF", "EG", "AG"]
    fs = []
    for a in ops:
        for b in ops:
            for c in ops[:5]:
                fs.append(("B", "And", gen.T("W", "p"), ("U", a, ("U", b, ("U", c, gen.T("P", rng.choice(props)))))))
    fs = fs[:150]
    batch = fs + fs
    ctx = [("p", "f" + gen.hx("!{x}: AG EF {x}"))]
    a = chk.add_eval(net, 1, "es", batch, ctx=ctx, tag="long-batch", netname="N06")
    b = chk.add_eval(net, 1, "esc", batch, ctx=ctx, tag="long-batch-nocache", netname="N06")
    chk.cases[a]["group"] = [a, b]
    chk.cases[b]["group"] = [a, b]
    chk.cases[a]["perm"] = tuple(range(len(batch)))
    chk.cases[b]["perm"] = tuple(range(len(batch)))


def gen_C15_nonuniform(chk):
    """graphs whose network variables have DIFFERENT numbers of spare copies (all at least the nesting
    depth; built by hand as the API allows): the sanitised result is the one of the uniform graph"""
    import random as _random
    rng = _random.Random("C15-nonuniform-%s" % chk.seed)
    nets = [(nm, gen.CURATED[nm]) for nm in ["N05", "N06", "N09", "N16", "N21"]]
    for nm, net in nets:
        props = net_props(net)
        if len(props) < 2:
            continue
        for j in range(cnt(chk, 4, 10)):
            f = gen.random_formula(rng, rng.randint(2, 6), props, max_vars=2, w_hybrid=0.6)
            d = gen.quant_depth(f)
            if d < 1 or len(props) * (3 + d) > 14:
                continue
            group = [chk.add_eval(net, d, "s", [f], tag="uniform", netname=nm)]
            for m in ("N", "M"):
                group.append(chk.add_eval(net, d, "s" + m, [f], tag="nonuniform", netname=nm))
            if j % 2 == 0:
                group.append(chk.add_eval(net, d, "st" + rng.choice("NM"), [f], tag="nonuniform-tree", netname=nm))
            for g in group:
                chk.cases[g]["group"] = group
                chk.cases[g]["perm"] = (0,)
                chk.cases[g]["nformulas"] = 1


# ------------------------------------------------------------------ C15
def gen_C15(chk):
    rng = chk.rng
    ws = worlds(chk, quick_names=gen.SMALL + ["N05"], n_random=cnt(chk, 3, 10), max_n=2)
    for nm, net in ws:
        props = net_props(net)
        for j in range(cnt(chk, 10, 30)):
            f = gen.random_formula(rng, rng.randint(1, 7), props, max_vars=2)
            if j % 3 == 2:
                # the number of spare sets needed is the nesting depth, whatever the user calls the
                # variables: sibling quantifiers with many distinct names
                f = gen.alpha_rename(f, rng, ["u", "v", "w", "s", "t", "x", "yy", "z9"])
            d = gen.quant_depth(f)
            group = []
            for k in (d, d + 1, d + 3):
                if len(props) * (1 + k) > 10:
                    continue
                cs = chk.add_eval(net, k, "s", [f], tag="k=%d" % (k - d), netname=nm)
                cd = chk.add_eval(net, k, "", [f], tag="dirty", netname=nm)
                group.append(cs)
                if j % 2 == 0:
                    # the tree entry points sanitise as well (single tree, and with an observer)
                    group.append(chk.add_eval(net, k, "st" + ("3" if j % 4 == 0 else ""), [f], tag="tree", netname=nm))
            for g in group:
                chk.cases[g]["group"] = group
                chk.cases[g]["perm"] = (0,)


def gen_C15_names(chk):
    """network variables whose names look like the names of spare copies of another variable"""
    rng = chk.rng
    net = "g -> g_extra_c\ng_extra_c -| g\ng -?? t\n$g: !g_extra_c\n$g_extra_c: g\n"
    props = net_props(net)
    for j in range(cnt(chk, 4, 12)):
        f = gen.random_formula(rng, rng.randint(1, 5), props, max_vars=1)
        for k in (gen.quant_depth(f), gen.quant_depth(f) + 1):
            chk.add_eval(net, k, "s", [f], tag="extra-names", netname="g_extra")
            chk.add_eval(net, k, "", [f], tag="extra-names-dirty", netname="g_extra")
    for f in [gen.T("P", "g_extra_c"), ("U", "AG", gen.T("P", "g_extra_c")), ("B", "And", gen.T("P", "g"), ("U", "Not", gen.T("P", "g_extra_c")))]:
        for k in (0, 1, 2):
            chk.add_eval(net, k, "s", [f], tag="extra-names", netname="g_extra")


def gen_C15_narrowed(chk):
    """graphs narrowed to the states reachable from one state (restrict): the sanitised result must be
    the raw one, for every number of spare sets (no model for such units: implementation against itself)"""
    rng = chk.rng
    ws = worlds(chk, quick_names=gen.SMALL + ["N05", "N06"], n_random=cnt(chk, 2, 6), max_n=3)
    for nm, net in ws:
        props = net_props(net)
        for j in range(cnt(chk, 4, 12)):
            f = gen.random_formula(rng, rng.randint(1, 5), props, max_vars=(0 if j % 2 == 0 else 1),
                                   unops=["Not", "EX", "AX", "EF", "AF", "EG", "AG"])
            d = gen.quant_depth(f)
            for k in (d, d + 1, d + 2):
                if len(props) * (1 + k) > 10:
                    continue
                a = chk.add_eval(net, k, "sS", [f], tag="narrowed-sanitised", netname=nm)
                b = chk.add_eval(net, k, "S", [f], tag="narrowed-raw", netname=nm)
                chk.cases[a]["raw_twin"] = b


def judge_raw_twins(chk):
    from .core import expand_bits
    first = {}
    for cid, case in list(chk.cases.items()):
        b = case.get("raw_twin")
        if not b:
            continue
        ra = chk.results.get(cid, {}).get("impl")
        rb = chk.results.get(b, {}).get("impl")
        if not ra or not rb or ra.get("status") != "OK" or rb.get("status") != "OK":
            if ra and rb and ra.get("status") != rb.get("status") and "SKIP" not in (ra.get("status"), rb.get("status")):
                chk.record(cid, ("violation", "sanitising entry point answers %s, raw entry point %s" % (ra.get("status"), rb.get("status"))))
            continue
        p_, n_ = ra["pn"]
        if any(set(x) - set("01") for x in ra["payload"].split(",")):
            chk.record(cid, ("violation", "sanitised result is not expressed in the canonical encoding (%s)" % ra["payload"][:40]))
            continue
        want = ",".join(expand_bits(x, p_, n_, case["k"]) for x in ra["payload"].split(","))
        if want != rb["payload"]:
            chk.record(cid, ("violation", "sanitised result differs from the raw result on a graph narrowed with restrict (k=%d)" % case["k"]))
        key = (case["net"], repr(case["formulas"]))
        if key in first and first[key][1] != ra["payload"]:
            chk.record(cid, ("violation", "sanitised result depends on the number of spare sets (k=%d vs k=%d)" % (first[key][0], case["k"])))
        first.setdefault(key, (case["k"], ra["payload"]))


def gen_C15_batches(chk):
    """batches through the sanitising entry points: position i of the sanitised answer is formula i"""
    rng = chk.rng
    ws = worlds(chk, quick_names=gen.SMALL + ["N05"], n_random=cnt(chk, 2, 6), max_n=2)
    for nm, net in ws:
        props = net_props(net)
        for j in range(cnt(chk, 4, 12)):
            fs = [gen.random_formula(rng, rng.randint(1, 5), props, max_vars=2) for _ in range(rng.randint(2, 4))]
            d = max(gen.quant_depth(f) for f in fs)
            for k in (d, d + 1):
                if len(props) * (1 + k) > 10:
                    continue
                for mode in ("s", "", "st", "es"):
                    chk.add_eval(net, k, mode, fs, tag="batch-" + (mode or "dirty"), netname=nm)


# ------------------------------------------------------------------ C18
FRAGMENT_UN = ["Not", "EF", "AG"]
FRAGMENT_BIN = ["And", "Or", "Xor", "Imp", "Iff", "EU", "AW"]


def gen_C18(chk):
    rng = chk.rng
    ws = worlds(chk, n_random=cnt(chk, 6, 20))
    for nm, net in ws:
        props = net_props(net)
        for j in range(cnt(chk, 12, 40)):
            f = gen.random_formula(rng, rng.randint(1, 8), props, max_vars=2, unops=FRAGMENT_UN, binops=FRAGMENT_BIN)
            k = gen.quant_depth(f)
            a = chk.add_eval(net, k, "u", [f], tag="unsafe", netname=nm)
            b = chk.add_eval(net, k, "", [f], tag="standard", netname=nm)
            chk.cases[a]["pair"] = b
        # weak until is in the fragment although its classical definition goes through AU / EG:
        # propositional operands (steady states satisfying phi & ~psi with transient predecessors)
        for j in range(cnt(chk, 10, 30)):
            p1 = gen.random_formula(rng, rng.randint(1, 3), props, max_vars=0, unops=["Not"], binops=["And", "Or"])
            p2 = gen.random_formula(rng, rng.randint(1, 3), props, max_vars=0, unops=["Not"], binops=["And", "Or"])
            f = ("B", "AW", p1, p2)
            r = rng.random()
            if r < 0.3:
                f = ("U", rng.choice(["EF", "AG", "Not"]), f)
            elif r < 0.5:
                f = ("B", "AW", f, gen.T("P", rng.choice(props)))
            a = chk.add_eval(net, 0, "u", [f], tag="unsafe-aw", netname=nm)
            b = chk.add_eval(net, 0, "", [f], tag="standard", netname=nm)
            chk.cases[a]["pair"] = b
        # sub-formulae with two variables in swapped roles (fragment operators only)
        V = lambda v: gen.T("V", v)
        for core in [lambda u, v: ("H", "Jump", u, None, ("U", "Not", V(v))),
                     lambda u, v: ("H", "Jump", u, None, ("B", "And", ("U", "Not", V(v)), ("U", "AG", ("U", "EF", V(u))))),
                     lambda u, v: ("U", "EF", ("B", "And", V(u), ("U", "Not", V(v))))]:
            f = ("H", "Exists", "x", None, ("H", "Exists", "y", None, ("B", "And", core("x", "y"), core("y", "x"))))
            a = chk.add_eval(net, 2, "u", [f], tag="unsafe-swapped", netname=nm)
            b = chk.add_eval(net, 2, "", [f], tag="standard", netname=nm)
            chk.cases[a]["pair"] = b
        # the attractor pattern is in the fragment (no EX-based operator in it)
        att = ("H", "Bind", "x", None, ("U", "AG", ("U", "EF", gen.T("V", "x"))))
        pr = gen.T("P", rng.choice(props))
        Vx = gen.T("V", "x")
        agef = ("U", "AG", ("U", "EF", Vx))
        cyc1 = ("H", "Bind", "x", None, ("B", "And", agef, ("U", "EF", ("U", "Not", Vx))))
        cyc2 = ("H", "Bind", "x", None, ("B", "And", ("U", "EF", ("U", "Not", Vx)), agef))
        sink = ("H", "Bind", "x", None, ("U", "AG", Vx))
        reach = ("H", "Bind", "x", None, ("U", "EF", ("B", "And", ("U", "Not", Vx), ("U", "EF", Vx))))
        for f in [cyc1, cyc2, sink, reach, ("U", "EF", cyc1), ("B", "And", att, ("U", "Not", cyc2))]:
            k = gen.quant_depth(f)
            a = chk.add_eval(net, k, "u", [f], tag="unsafe-natural", netname=nm)
            b = chk.add_eval(net, k, "", [f], tag="standard", netname=nm)
            chk.cases[a]["pair"] = b
        for f in [att, ("U", "EF", att), ("U", "Not", att), ("B", "EU", pr, att), ("B", "AW", att, pr),
                  ("H", "Exists", "y", None, ("H", "Jump", "y", None, ("B", "And", att, pr))),
                  ("B", "And", att, ("U", "AG", ("U", "Not", att)))]:
            k = gen.quant_depth(f)
            a = chk.add_eval(net, k, "u", [f], tag="unsafe-pattern", netname=nm)
            b = chk.add_eval(net, k, "", [f], tag="standard", netname=nm)
            chk.cases[a]["pair"] = b
    # larger networks, by BDD equality: a cascade of 17 / 24 variables and the bundled model
    from .shellprops import add_shell
    import os
    big = []
    for n in (17, 24):
        vs = ["c%02d" % i for i in range(n)]
        big.append(("cascade%d" % n, "%s -> %s\n$%s: %s\n" % (vs[0], vs[0], vs[0], vs[0])
                    + "".join("%s -> %s\n$%s: %s\n" % (vs[i - 1], vs[i], vs[i], vs[i - 1]) for i in range(1, n)), vs))
    pth = "/repo/test/model-010-13var-2in.aeon"
    if os.path.exists(pth):
        txt = open(pth).read()
        big.append(("model-010", txt, net_props(txt)))
    for nm, net, vs in big:
        a, b = vs[0], vs[-1]
        fs = ["!{x}: AG EF {x}", "EF (!{x}: AG EF {x})", "~(!{x}: AG EF {x}) & %s" % a, "%s EU (!{x}: AG EF {x})" % b,
              "(!{x}: AG EF {x}) AW %s" % a, "AG (%s => EF %s)" % (a, b), "3{x}: @{x}: (%s & AG EF {x})" % a]
        add_shell(chk, "UNSAFE", ["1", "A:" + gen.hx(net), ",".join(gen.hx(f) for f in fs)], tag="unsafe-big", meta={"net": nm})
    # all formulae on steady-state-free networks
    for nm in gen.NO_STEADY:
        net = gen.CURATED[nm]
        props = net_props(net)
        for j in range(cnt(chk, 20, 60)):
            f = gen.random_formula(rng, rng.randint(1, 8), props, max_vars=2)
            k = gen.quant_depth(f)
            a = chk.add_eval(net, k, "u", [f], tag="unsafe-nosteady", netname=nm)
            b = chk.add_eval(net, k, "", [f], tag="standard", netname=nm)
            chk.cases[a]["pair"] = b


# ------------------------------------------------------------------ C11 on large networks
def big_networks(rng, thorough_):
    nets = []
    for n in ([60, 80] if not thorough_ else [60, 80, 100]):
        names = ["v%d" % i for i in range(n)]
        # every update function constant false: the unique sink is the all-zero state
        nets.append(("allfalse%d" % n, "".join("$%s: false\n" % v for v in names)))
        # every variable keeps its value: every state is steady
        if n == 60:
            nets.append(("identity%d" % n, "".join("%s -> %s\n$%s: %s\n" % (v, v, v, v) for v in names)))
    return nets


def laws_for(S, T):
    def U(o, a):
        return ("U", o, a)

    def B(o, a, b):
        return ("B", o, a, b)
    return [
        (U("EF", S), B("Or", S, U("EX", U("EF", S)))),
        (U("EG", S), B("And", S, U("EX", U("EG", S)))),
        (U("AF", S), B("Or", S, U("AX", U("AF", S)))),
        (U("AG", S), B("And", S, U("AX", U("AG", S)))),
        (B("EU", S, T), B("Or", T, B("And", S, U("EX", B("EU", S, T))))),
        (B("AU", S, T), B("Or", T, B("And", S, U("AX", B("AU", S, T))))),
        (U("AF", S), B("AU", gen.T("1"), S)),
        (U("EF", S), B("EU", gen.T("1"), S)),
        (U("AF", S), U("Not", U("EG", U("Not", S)))),
        (U("AG", S), U("Not", U("EF", U("Not", S)))),
        (B("EW", S, T), B("Or", B("EU", S, T), U("EG", S))),
        (B("AW", S, T), U("Not", B("EU", U("Not", T), B("And", U("Not", S), U("Not", T))))),
    ]


def gen_C11_big(chk):
    from .shellprops import add_shell
    rng = chk.rng
    S, Tt = gen.T("W", "s"), gen.T("W", "t")
    for nm, net in big_networks(rng, thorough(chk)):
        n = net.count("$")
        names = ["v%d" % i for i in range(n)]
        zero = " & ".join("~" + v for v in names)
        one_hot = " & ".join(("~" if i != 3 else "") + v for i, v in enumerate(names))
        few = "%s & ~%s" % (names[0], names[1])
        for sdef, tdef in [(zero, few), ("~(%s)" % zero, zero), (one_hot, zero), (few, "~(%s)" % zero)]:
            fs = []
            for a, b in laws_for(S, Tt):
                fs += [gen.render(a), gen.render(b)]
            add_shell(chk, "EQV", ["0", "A:" + gen.hx(net), "%s=f%s,%s=f%s" % (gen.hx("s"), gen.hx(sdef), gen.hx("t"), gen.hx(tdef)),
                                   ",".join(gen.hx(f) for f in fs)], tag="big-laws", meta={"net": nm})


# ------------------------------------------------------------------ bundled benchmark-size models
def bench_models(thorough_):
    import os
    out = []
    names = ["model-010-13var-2in.aeon"] + (["model-022-17var-5in.aeon"] if thorough_ else [])
    for nm in names:
        p = os.path.join("/repo/test", nm)
        if os.path.exists(p):
            out.append((nm, open(p).read()))
    return out


def bench_props(net):
    return net_props(net)


def gen_bench_laws(chk):
    """C11: laws by BDD equality through the API on the bundled models"""
    from .shellprops import add_shell
    rng = chk.rng
    S, Tt = gen.T("W", "s"), gen.T("W", "t")
    for nm, net in bench_models(thorough(chk)):
        props = bench_props(net)
        for j in range(cnt(chk, 2, 4)):
            a, b, c = rng.sample(props, 3)
            sdef = rng.choice(["%s & ~%s" % (a, b), "%s | (%s ^ %s)" % (a, b, c), "~%s" % a, "%s <=> %s" % (a, c)])
            tdef = rng.choice(["%s" % c, "%s & %s" % (b, c), "~(%s | %s)" % (a, c)])
            fs = []
            for x, y in laws_for(S, Tt):
                fs += [gen.render(x), gen.render(y)]
            add_shell(chk, "EQV", ["0", "A:" + gen.hx(net), "%s=f%s,%s=f%s" % (gen.hx("s"), gen.hx(sdef), gen.hx("t"), gen.hx(tdef)),
                                   ",".join(gen.hx(f) for f in fs)], tag="bench-laws", meta={"net": nm})


def gen_bench_patterns(chk):
    """C12: shortcuts vs pattern-defeating rewrites on the bundled models"""
    from .shellprops import add_shell
    rng = chk.rng
    for nm, net in bench_models(thorough(chk)):
        props = bench_props(net)
        a = rng.choice(props)
        pairs = [
            ("!{x}: AG EF {x}", "!{x}: AG EF ({x} & {x})"),
            ("!{x}: AX {x}", "!{x}: AX ({x} & {x})"),
            ("EF (!{x}: AX {x})", "EF (!{x}: AX ({x} & {x}))"),
            ("%s & AX (!{x}: AG EF {x})" % a, "%s & AX (!{x}: AG EF ({x} & {x}))" % a),
            ("3{y}: (@{y}: %s) & (!{x}: AX {x})" % a, "3{y}: (@{y}: %s) & (!{x}: AX ({x} & {x}))" % a),
            ("3{y} in %d%: @{y}: (!{x}: AX {x})", "3{y} in %d%: @{y}: (!{x}: AX ({x} & {x}))"),
            ("!{y} in %d%: (!{x}: AG EF {x})", "!{y} in %d%: (!{x}: AG EF ({x} & {x}))"),
        ]
        if "13var" not in nm:
            # the generic evaluation of AG EF with a free state variable takes tens of minutes on the
            # larger bundled models (that is why the shortcut exists): only the AX pairs there
            pairs = [pq for pq in pairs if "AG EF" not in pq[0]]
        fs = []
        for x, y in pairs:
            fs += [x, y]
        add_shell(chk, "EQV", ["2", "A:" + gen.hx(net), "%s=f%s" % (gen.hx("d"), gen.hx("%s | ~%s" % (a, rng.choice(props)))),
                               ",".join(gen.hx(f) for f in fs)], tag="bench-patterns", meta={"net": nm})


def gen_bench_subst(chk):
    """C10: closed sub-formulae replaced by their raw results on the bundled models"""
    from .shellprops import add_shell
    rng = chk.rng
    for nm, net in bench_models(thorough(chk)):
        props = bench_props(net)
        for j in range(cnt(chk, 3, 6)):
            f = gen.random_formula(rng, rng.randint(3, 7), rng.sample(props, 3), max_vars=1, w_hybrid=0.25,
                                   unops=["Not", "EX", "AX", "EF", "AG"], binops=["And", "Or", "Imp", "EU"])
            closed = [x for x in gen.subtrees(f) if not gen.free_vars(x) and x[0] != "T" and x != f]
            if not closed:
                continue
            sub = rng.choice(closed)
            g = replace_subtree(f, sub, gen.T("W", "w0"))
            add_shell(chk, "EQV", [str(max(1, gen.quant_depth(f))), "A:" + gen.hx(net),
                                   "%s=f%s" % (gen.hx("w0"), gen.hx(gen.render(sub))),
                                   ",".join(gen.hx(x) for x in [gen.render(f), gen.render(g)])],
                      tag="bench-subst", meta={"net": nm})


def gen_library_coincidence(chk):
    """C11: EF / AG / EU vs the graph library's reach_backward / trap_forward / constrained
    backward reachability (implementation against library, any size)"""
    from .shellprops import add_shell
    rng = chk.rng
    nets = [(nm, gen.CURATED[nm]) for nm in ("N05", "N12", "N13", "N15", "N16", "N19")]
    nets += bench_models(thorough(chk))
    for i in range(cnt(chk, 4, 10)):
        net = gen.random_network(rng, max_n=3, max_bits=8)
        if net_props(net):
            nets.append(("R%d" % i, net))
    for nm, net in nets:
        props = net_props(net)
        for j in range(cnt(chk, 2, 4)):
            sdef = gen.render(gen.random_formula(rng, rng.randint(0, 3), props, max_vars=0, unops=["Not"], binops=["And", "Or", "Xor"]))
            tdef = gen.render(gen.random_formula(rng, rng.randint(0, 3), props, max_vars=0, unops=["Not"], binops=["And", "Or", "Imp"]))
            add_shell(chk, "LIBR", ["A:" + gen.hx(net), gen.hx(sdef), gen.hx(tdef)], tag="library", meta={"net": nm})
