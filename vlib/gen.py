"""Generators: network worlds, formula ASTs, renderings, token sequences.
Every random choice derives from a random.Random(seed) handed in by the caller."""
import itertools
import random

UNOPS = ["Not", "EX", "AX", "EF", "AF", "EG", "AG"]
BINOPS = ["And", "Or", "Xor", "Imp", "Iff", "EU", "AU", "EW", "AW"]
BINOPS_PLAIN = ["And", "Or", "Xor", "Imp", "Iff", "EU", "AU"]   # EW/AW belong to C13
QUANTS = ["Bind", "Exists", "Forall"]
UN_S = {"Not": "~", "EX": "EX", "AX": "AX", "EF": "EF", "AF": "AF", "EG": "EG", "AG": "AG"}
BIN_S = {"And": "&", "Or": "|", "Xor": "^", "Imp": "=>", "Iff": "<=>", "EU": "EU", "AU": "AU",
         "EW": "EW", "AW": "AW"}
HYB_S = {"Bind": "!", "Exists": "3", "Forall": "V", "Jump": "@"}
HYB_LONG = {"Bind": "\\bind ", "Exists": "\\exists ", "Forall": "\\forall ", "Jump": "\\jump "}


def hx(s):
    return ".".join("%x" % ord(c) for c in s) if s else "-"


def unhx(h):
    if h in ("-", ""):
        return ""
    return "".join(chr(int(x, 16)) for x in h.split("."))


# ---------------------------------------------------------------- networks (aeon syntax)
CURATED = {
    "N01": "$a: true\n",
    "N02": "a -| a\n$a: !a\n",
    "N03": "a -> a\n",
    "N04": "a -?? a\n",
    "N05": "a -> b\nb -| a\na -?? a\n",
    "N06": "b -> a\na -> b\n$a: b\n$b: a\n",
    "N07": "b -| a\na -> b\n$a: !b\n$b: a\n",
    "N08": "a -> a\nb -> b\n$a: a\n$b: b\n",
    "N09": "b -?? a\na -> b\n$a: f(b)\n$b: a\n",
    "N10": "b -?? a\na -?? b\n$a: f(b)\n$b: f(a)\n",
    "N11": "b -?? a\na -?? b\n$a: f(!b) | g\n$b: a & g\n",
    "N12": "a -> b\na -| c\na -?? a\n$b: p | a\n$c: !p | !a\n",
    "N13": "b -> a\nc -| a\na -> b\na -> c\n",
    "N14": "b -?? a\nc -?? a\na -> b\na -?? c\nb -?? c\n$a: (b & !c) | f(b, c)\n$b: a\n$c: !a | b\n",
    "N15": "b -> a\nc -> b\na -| c\n$a: b\n$b: c\n$c: !a\n",
    "N16": "a -> a\nb -> a\na -> b\nb -> b\n$a: a | b\n$b: a & b\n",
    "N17": "b -> a\n$a: b\n",
    "N18": "b -> a\nc -?? a\nb -> b\nc -> c\n$a: h(b, c)\n$b: b\n$c: c\n",
    "N19": "a -| a\na -?? b\nb -?? b\n$a: !a\n$b: a ^ b\n",
    "N21": "a -> b\nb -> a\n",
    "N22": "a ->? b\nb -|? a\n",
    "N23": "a -? a\n",
    "N24": "a -> a\nb -| a\n",
    "N25": "a -?? b\nb -?? a\n$a: f(b) & g\n$b: g | a\n",
}
# small worlds (few bits) usable with k up to 3
SMALL = ["N01", "N02", "N03", "N04", "N06", "N07", "N08", "N09", "N17", "N21", "N22", "N23"]
# worlds whose unit set excludes some parametrisations
CONSTRAINED = ["N03", "N05", "N13", "N21", "N22", "N23", "N24", "N12"]
NO_STEADY = ["N02", "N07", "N15", "N19"]

ARROWS = ["->", "-|", "-?", "->?", "-|?", "-??"]


def random_network(rng, max_n=3, max_bits=6):
    """A random aeon network; unsatisfiable constraint sets are skipped by the harness."""
    for _ in range(50):
        n = rng.randint(1, max_n)
        names = ["a", "b", "c", "d"][:n]
        lines = []
        bits = 0
        ok = True
        for t in names:
            regs = [r for r in names if rng.random() < (0.6 if n <= 2 else 0.45)]
            regs = regs[:2] if rng.random() < 0.8 else regs[:3]
            for r in regs:
                lines.append("%s %s %s" % (r, rng.choice(ARROWS), t))
            kind = rng.random()
            if kind < 0.45 or not regs:
                if regs:
                    bits += 2 ** len(regs)
                elif rng.random() < 0.3:
                    lines.append("$%s: %s" % (t, rng.choice(["true", "false"])))
                # else: an input variable (no regulators, no function)
            elif kind < 0.75:
                lines.append("$%s: %s" % (t, random_bool_expr(rng, regs, 2)))
            else:
                args = [rng.choice(regs) for _ in range(rng.randint(1, min(2, len(regs))))]
                fname = rng.choice(["f", "g"])
                fcall = "%s(%s)" % (fname + str(len(args)), ", ".join(args))
                bits += 2 ** len(args)
                e = fcall
                if rng.random() < 0.5:
                    e = "%s %s %s" % (fcall, rng.choice(["&", "|", "^"]), random_bool_expr(rng, regs, 1))
                lines.append("$%s: %s" % (t, e))
        if bits <= max_bits and ok:
            return "\n".join(lines) + "\n"
    return CURATED["N06"]


def random_bool_expr(rng, vars_, depth):
    if depth == 0 or rng.random() < 0.3:
        v = rng.choice(vars_)
        return ("!" + v) if rng.random() < 0.3 else v
    op = rng.choice(["&", "|", "^", "=>", "<=>"])
    return "(%s %s %s)" % (random_bool_expr(rng, vars_, depth - 1), op, random_bool_expr(rng, vars_, depth - 1))


# ---------------------------------------------------------------- formula ASTs
def T(kind, name=None):
    return ("T", kind, name)


def var_name(depth):
    return ["x", "y", "z", "w", "v"][depth]


def atoms(props, scope, wilds=()):
    out = [T("1"), T("0")] + [T("P", p) for p in props] + [T("V", v) for v in scope]
    out += [T("W", w) for w in wilds]
    return out


def enum_formulas(size, props, scope, max_vars=3, wilds=(), doms=(), unops=UNOPS, binops=BINOPS_PLAIN,
                  quants=QUANTS, jump=True):
    """All trees with exactly `size` operator nodes; variables in `scope` may occur free."""
    if size == 0:
        yield from atoms(props, scope, wilds)
        return
    for o in unops:
        for c in enum_formulas(size - 1, props, scope, max_vars, wilds, doms, unops, binops, quants, jump):
            yield ("U", o, c)
    for o in binops:
        for ls in range(size):
            for l in enum_formulas(ls, props, scope, max_vars, wilds, doms, unops, binops, quants, jump):
                for r in enum_formulas(size - 1 - ls, props, scope, max_vars, wilds, doms, unops, binops,
                                       quants, jump):
                    yield ("B", o, l, r)
    if len(scope) < max_vars:
        x = var_name(len(scope))
        for o in quants:
            for d in (None,) + tuple(doms):
                for c in enum_formulas(size - 1, props, scope + [x], max_vars, wilds, doms, unops, binops,
                                       quants, jump):
                    yield ("H", o, x, d, c)
    if jump:
        for x in scope:
            for c in enum_formulas(size - 1, props, scope, max_vars, wilds, doms, unops, binops, quants, jump):
                yield ("H", "Jump", x, None, c)


def random_formula(rng, size, props, scope=None, max_vars=3, wilds=(), doms=(), names=None,
                   w_hybrid=0.35, unops=UNOPS, binops=BINOPS_PLAIN):
    """A random tree with about `size` operator nodes, closed w.r.t. `scope`.
    `names`: pool of variable names to draw binder names from (hostile names for C07)."""
    scope = list(scope or [])

    def fresh(sc):
        if names:
            cand = [n for n in names if n not in sc]
            if cand:
                return rng.choice(cand)
        for d in range(10):
            if var_name(min(d, 4)) + ("" if d < 5 else str(d)) not in sc:
                return var_name(min(d, 4)) + ("" if d < 5 else str(d))
        return "q"

    def go(sz, sc):
        if sz <= 0:
            return rng.choice(atoms(props, sc, wilds) + [T("V", v) for v in sc] * 2)
        r = rng.random()
        if r < w_hybrid:
            if sc and (rng.random() < 0.35 or len(sc) >= max_vars):
                return ("H", "Jump", rng.choice(sc), None, go(sz - 1, sc))
            if len(sc) < max_vars:
                x = fresh(sc)
                d = rng.choice(list(doms)) if doms and rng.random() < 0.5 else None
                return ("H", rng.choice(QUANTS), x, d, go(sz - 1, sc + [x]))
        if r < w_hybrid + 0.3:
            return ("U", rng.choice(unops), go(sz - 1, sc))
        ls = rng.randint(0, sz - 1)
        return ("B", rng.choice(binops), go(ls, sc), go(sz - 1 - ls, sc))

    return go(size, scope)


def subtrees(t):
    yield t
    if t[0] == "U":
        yield from subtrees(t[2])
    elif t[0] == "B":
        yield from subtrees(t[2])
        yield from subtrees(t[3])
    elif t[0] == "H":
        yield from subtrees(t[4])


def free_vars(t, bound=()):
    if t[0] == "T":
        return {t[2]} if t[1] == "V" and t[2] not in bound else set()
    if t[0] == "U":
        return free_vars(t[2], bound)
    if t[0] == "B":
        return free_vars(t[2], bound) | free_vars(t[3], bound)
    if t[1] == "Jump":
        return ({t[2]} if t[2] not in bound else set()) | free_vars(t[4], bound)
    return free_vars(t[4], tuple(bound) + (t[2],))


def ops_of(t):
    if t[0] == "T":
        return set()
    if t[0] == "U":
        return {t[1]} | ops_of(t[2])
    if t[0] == "B":
        return {t[1]} | ops_of(t[2]) | ops_of(t[3])
    return {t[1]} | ops_of(t[4])


def size_of(t):
    if t[0] == "T":
        return 0
    if t[0] == "U":
        return 1 + size_of(t[2])
    if t[0] == "B":
        return 1 + size_of(t[2]) + size_of(t[3])
    return 1 + size_of(t[4])


def quant_depth(t):
    if t[0] == "T":
        return 0
    if t[0] == "U":
        return quant_depth(t[2])
    if t[0] == "B":
        return max(quant_depth(t[2]), quant_depth(t[3]))
    return (0 if t[1] == "Jump" else 1) + quant_depth(t[4])


def labels_of(t):
    """(wild-card labels, domain labels)"""
    if t[0] == "T":
        return ({t[2]} if t[1] == "W" else set(), set())
    if t[0] == "U":
        return labels_of(t[2])
    if t[0] == "B":
        a, b = labels_of(t[2]), labels_of(t[3])
        return (a[0] | b[0], a[1] | b[1])
    a = labels_of(t[4])
    return (a[0], a[1] | ({t[3]} if t[3] else set()))


def atom_text(t, style=None):
    k, name = t[1], t[2]
    if k == "1":
        return style.choice(["true", "True", "1"]) if style else "True"
    if k == "0":
        return style.choice(["false", "False", "0"]) if style else "False"
    if k == "P":
        return name
    if k == "V":
        return "{%s}" % name
    return "%%%s%%" % name


def render(t):
    """The canonical fully parenthesised text (what the tool itself prints)."""
    if t[0] == "T":
        return atom_text(t)
    if t[0] == "U":
        return "(~%s)" % render(t[2]) if t[1] == "Not" else "(%s %s)" % (t[1], render(t[2]))
    if t[0] == "B":
        return "(%s %s %s)" % (render(t[2]), BIN_S[t[1]], render(t[3]))
    dom = " in %%%s%%" % t[3] if t[3] else ""
    return "(%s{%s}%s: %s)" % (HYB_S[t[1]], t[2], dom, render(t[4]))


WS = [" ", "  ", "\t", " \n ", " ", " "]


def render_variant(t, rng, rename=None):
    """A meaning-preserving rewrite of the text: alpha-renaming (`rename` maps binder names),
    extra whitespace between tokens, redundant parentheses, long/short hybrid spellings,
    alternative constant spellings."""
    rename = rename or {}

    def ws(must=False):
        if must:
            return rng.choice(WS) + (rng.choice(WS) if rng.random() < 0.2 else "")
        return rng.choice(WS) if rng.random() < 0.4 else ""

    def wrap(s):
        while rng.random() < 0.25:
            s = "(" + ws() + s + ws() + ")"
        return s

    def go(t):
        if t[0] == "T":
            if t[1] == "V":
                return wrap("{%s}" % rename.get(t[2], t[2]))
            return wrap(atom_text(t, rng))
        if t[0] == "U":
            return wrap("(" + ws() + UN_S[t[1]] + ws(t[1] != "Not") + go(t[2]) + ws() + ")")
        if t[0] == "B":
            temporal = t[1] in ("EU", "AU", "EW", "AW")
            return wrap("(" + ws() + go(t[2]) + ws(temporal) + BIN_S[t[1]] + ws(temporal) + go(t[3]) + ws() + ")")
        op = HYB_LONG[t[1]] if rng.random() < 0.5 else HYB_S[t[1]]
        dom = ""
        if t[3]:
            dom = ws(True) + "in" + ws() + "%" + t[3] + "%"
        x = rename.get(t[2], t[2])
        return wrap("(" + ws() + op + ws() + "{" + x + "}" + dom + ws() + ":" + ws() + go(t[4]) + ws() + ")")

    return go(t)


def binder_names(t):
    out = []
    for s in subtrees(t):
        if s[0] == "H" and s[1] != "Jump":
            out.append(s[2])
    return out


def alpha_rename(t, rng, pool):
    """Consistently rename every binder (and its occurrences) to a name from `pool`,
    keeping distinct names in nested scopes distinct.  Returns the renamed AST."""
    def go(t, env):
        if t[0] == "T":
            return ("T", "V", env.get(t[2], t[2])) if t[1] == "V" else t
        if t[0] == "U":
            return ("U", t[1], go(t[2], env))
        if t[0] == "B":
            return ("B", t[1], go(t[2], env), go(t[3], env))
        if t[1] == "Jump":
            return ("H", "Jump", env.get(t[2], t[2]), None, go(t[4], env))
        used = set(env.values())
        cand = [n for n in pool if n not in used]
        new = rng.choice(cand) if cand else t[2]
        env2 = dict(env)
        env2[t[2]] = new
        return ("H", t[1], new, t[3], go(t[4], env2))

    return go(t, {})


def shrink_candidates(t):
    """Smaller trees: children, atoms in place of subtrees."""
    if t[0] == "T":
        return
    kids = [t[2]] if t[0] == "U" else ([t[2], t[3]] if t[0] == "B" else [t[4]])
    for k in kids:
        if not (t[0] == "H" and t[1] != "Jump" and t[2] in free_vars(k)):
            yield k
    if t[0] == "U":
        for c in shrink_candidates(t[2]):
            yield ("U", t[1], c)
    elif t[0] == "B":
        for c in shrink_candidates(t[2]):
            yield ("B", t[1], c, t[3])
        for c in shrink_candidates(t[3]):
            yield ("B", t[1], t[2], c)
        yield ("B", t[1], T("1"), t[3])
        yield ("B", t[1], t[2], T("1"))
    else:
        for c in shrink_candidates(t[4]):
            yield ("H", t[1], t[2], t[3], c)
        if t[3]:
            yield ("H", t[1], t[2], None, t[4])


# ---------------------------------------------------------------- token level (C05)
TOKEN_ALPHABET = ["a", "{x}", "~", "EX", "AG", "&", "|", "=>", "EU", "AW", "!{x}:", "@{x}:", "(", ")"]


def token_sequences(alphabet, length):
    return itertools.product(alphabet, repeat=length)
