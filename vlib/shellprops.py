"""Shell properties: colour slices (C20), result archives (C16), CLI (C17), converter (C19)."""
from . import gen, run
from .props import cnt, net_props, worlds, thorough, ctx_spec, chunks

NEEDS_BINS = {"C13", "C14", "C16", "C17", "C19"}


def add_shell(chk, kind, fields, tag="", meta=None):
    cid = chk.new_id(kind[0].lower())
    chk.cases[cid] = {"kind": kind, "id": cid, "fields": list(fields), "tag": tag, "meta": meta}
    return cid


def judge_shell(chk):
    """requests whose answer is OK / ERR <what differs>: ERR is a failing input"""
    for cid, case in list(chk.cases.items()):
        if case["kind"] not in ("ARCH", "CLI", "CONV", "EQV", "LIBR", "SLICEB", "UNSAFE"):
            continue
        impl = chk.results.get(cid, {}).get("impl")
        if impl is None:
            chk.record(cid, ("tie", "no answer from the implementation harness"))
            continue
        st = impl.get("status")
        if st == "SKIP":
            chk.stats["skipped:" + impl.get("payload", "")[:30]] += 1
        elif st == "OK":
            chk.nontrivial.add(hash((case["kind"], tuple(case["fields"]))))
        elif st == "PANIC":
            chk.record(cid, ("violation", "panic: " + impl.get("payload", "")))
        else:
            chk.record(cid, ("violation", impl.get("payload", "")))


# ------------------------------------------------------------------ C20
def gen_C20(chk):
    rng = chk.rng
    ws = worlds(chk, n_random=cnt(chk, 8, 25))
    for nm, net in ws:
        props = net_props(net)
        fs = [gen.random_formula(rng, rng.randint(1, 7), props, max_vars=2, binops=gen.BINOPS) for _ in range(cnt(chk, 6, 10))]
        st_ = ("H", "Bind", "x", None, ("U", "AX", gen.T("V", "x")))
        pq = gen.T("P", props[0]) if len(props) < 2 else ("B", "And", gen.T("P", props[0]), gen.T("P", props[1]))
        fs += [("B", "AW", st_, pq), ("B", "EW", st_, pq), ("B", "EW", pq, ("U", "EX", st_))]
        fs += [("H", "Bind", "x", None, ("U", "AG", ("U", "EF", gen.T("V", "x")))),
               ("H", "Bind", "x", None, ("U", "AX", gen.T("V", "x")))]
        # untils whose target lies outside the path condition
        pa = gen.T("P", props[0])
        pb = gen.T("P", props[-1])
        nn = lambda z: ("U", "Not", z)
        fs += [("B", "EU", ("B", "Or", pa, pb), ("B", "And", nn(pa), nn(pb))), ("B", "EU", pa, nn(pa)),
               ("B", "EU", ("B", "And", pa, nn(pb)), nn(pa)), ("B", "AU", ("B", "Or", pa, pb), ("B", "And", nn(pa), nn(pb))),
               ("H", "Bind", "x", None, ("B", "EU", ("B", "Or", pa, pb), ("B", "And", nn(pa), nn(("U", "EF", gen.T("V", "x"))))))]
        k = max(gen.quant_depth(f) for f in fs)
        cid = add_shell(chk, "SLICE", [str(k), "A:" + gen.hx(net), ",".join(gen.hx(gen.render(f)) for f in fs),
                                       str(32 if thorough(chk) else 12)],
                        tag="slice", meta={"net": net, "netname": nm, "k": k, "fs": fs})


def gated_modules(m):
    """m independent AND gates  v_i = a_i & b_i  whose 2m inputs have no update function:
    3m variables, 2^(2m) colours (more (state, colour) pairs than a double can count)"""
    return "".join("m%02d_a -> m%02d_v\nm%02d_b -> m%02d_v\n$m%02d_v: m%02d_a & m%02d_b\n" % ((i,) * 7)
                   for i in range(1, m + 1))


def gen_C20_big(chk):
    """the slice relation on networks with many colours, by BDD operations (SLICEB)"""
    rng = chk.rng
    # bundled parametrised model and the gated-modules family
    nets = []
    import os
    for nm in ["model-010-13var-2in.aeon"] + (["model-022-17var-5in.aeon"] if thorough(chk) else []):
        pth = os.path.join("/repo/test", nm)
        if os.path.exists(pth):
            nets.append((nm, open(pth).read()))
    for m in ([9, 15] if not thorough(chk) else [9, 12, 15, 18]):
        nets.append(("gated%d" % m, gated_modules(m)))
    for nm, net in nets:
        props = net_props(net)
        if nm.startswith("gated"):
            allv = " & ".join(props)
            some = " & ".join(p for p in props if p.endswith("_v"))
            a = rng.choice(props)
            fs = ["AF (%s)" % allv, "EG ~(%s)" % allv, "EF (%s)" % some, "AG ~(%s)" % some,
                  "(%s) AU (%s)" % (rng.choice(props), some), "(~(%s)) EW (%s)" % (allv, a), "(%s) AW (%s)" % (a, some),
                  "AF (!{x}: AX {x})"]
        else:
            a, b, c = rng.sample(props, 3)
            fs = ["AF (%s | ~%s)" % (a, b), "EG (%s | %s)" % (a, c), "%s EU (%s & %s)" % (a, b, c), "!{x}: AX {x}",
                  "AF (!{x}: AX {x})", "(%s) AW (%s)" % (a, b)]
        add_shell(chk, "SLICEB", ["1", "A:" + gen.hx(net), ",".join(gen.hx(f) for f in fs)], tag="slice-big",
                  meta={"net": nm})


def gen_C20_ext(chk):
    """the slice relation for extended formulae: context sets that differ between colours (results
    of formulae on the parametrised graph, random colour-dependent sets); the model / oracle get the
    slices of the context sets"""
    rng = chk.rng
    ws = worlds(chk, n_random=cnt(chk, 6, 20))
    for nm, net in ws:
        props = net_props(net)
        ctx = [("fp", "f" + gen.hx("!{x}: AX {x}")), ("att", "f" + gen.hx("!{x}: AG EF {x}")), ("d", ctx_spec(rng))]
        fs = [gen.random_formula(rng, rng.randint(1, 6), props, max_vars=2, wilds=("att", "fp"), doms=("fp", "d"), w_hybrid=0.5)
              for _ in range(cnt(chk, 5, 10))]
        V = lambda v: gen.T("V", v)
        att = gen.T("W", "att")
        fs += [("H", "Exists", "x", "fp", att), ("H", "Exists", "x", "fp", ("B", "Or", att, ("U", "EF", V("x")))),
               ("H", "Bind", "x", "fp", ("B", "Or", att, ("U", "EX", ("U", "Not", V("x"))))),
               ("H", "Forall", "x", "d", ("B", "Or", gen.T("W", "fp"), ("H", "Jump", "x", None, ("U", "AX", V("x")))))]
        fs = [f for f in fs if not gen.free_vars(f)]
        k = max(1, max(gen.quant_depth(f) for f in fs))
        if len(props) * (1 + k) > 10:
            continue
        add_shell(chk, "SLICE", [str(k), "A:" + gen.hx(net), ",".join(gen.hx(gen.render(f)) for f in fs),
                                 str(32 if thorough(chk) else 12), ",".join("%s=%s" % (gen.hx(l), sp) for l, sp in ctx)],
                  tag="slice-ext", meta={"net": net, "netname": nm, "k": k, "fs": fs})
        # a domain that is, colour by colour, empty or everything; the attractor / steady-state pattern
        # inside its scope and again outside (in one formula and as the next formula of the batch)
        atp = ("H", "Bind", "x", None, ("U", "AG", ("U", "EF", V("x"))))
        stp = ("H", "Bind", "x", None, ("U", "AX", V("x")))
        pz = gen.T("P", props[0])
        fs2 = []
        for pt in (atp, stp):
            inner = ("H", "Exists", "y", "d", ("H", "Jump", "y", None, rng.choice([pt, ("B", "And", pz, pt)])))
            fs2 += [inner, pt, ("B", "Or", inner, ("B", "And", pt, pz))]
        ctx2 = [("d", "k%d.1.2" % rng.randint(1, 10 ** 6))]
        if len(props) * 3 <= 10:
            add_shell(chk, "SLICE", ["2", "A:" + gen.hx(net), ",".join(gen.hx(gen.render(f)) for f in fs2),
                                     str(32 if thorough(chk) else 12), ",".join("%s=%s" % (gen.hx(l), sp) for l, sp in ctx2)],
                      tag="slice-ext-colours", meta={"net": net, "netname": nm, "k": 2, "fs": fs2})


def gen_C20_domains(chk):
    """slices of batches that reuse colour-dependent domains under changing outer restrictions (the
    answer for a colour must not depend on which other colours the graph admits)"""
    import random as _random
    from .props import domain_reuse_batch
    rng = _random.Random("C20-domains-%s" % chk.seed)
    nets = [(nm, gen.CURATED[nm]) for nm in gen.CURATED]
    for i in range(cnt(chk, 4, 12)):
        net = gen.random_network(rng, max_n=3, max_bits=6)
        if net_props(net):
            nets.append(("D%d" % i, net))
    for nm, net in nets:
        props = net_props(net)
        if len(props) * 3 > 10:
            continue
        ctx = [("fp", "f" + gen.hx("!{x}: AX {x}")), ("att", "f" + gen.hx("!{x}: AG EF {x}")),
               ("d", rng.choice(["k%d.1.2", "k%d.1.4", "r%d.1.4"]) % rng.randint(1, 10 ** 6)),
               ("b", "f" + gen.hx(rng.choice(props)))]
        fs = []
        for _ in range(cnt(chk, 2, 4)):
            for _t in range(10):
                g = domain_reuse_batch(rng, props, labels=("fp", "d", "b", "att"))
                if max(gen.quant_depth(f) for f in g) <= 2:
                    break
            else:
                continue
            fs += g
        if not fs:
            continue
        add_shell(chk, "SLICE", ["2", "A:" + gen.hx(net), ",".join(gen.hx(gen.render(f)) for f in fs),
                                 str(32 if thorough(chk) else 12), ",".join("%s=%s" % (gen.hx(l), sp) for l, sp in ctx)],
                  tag="slice-domains", meta={"net": net, "netname": nm, "k": 2, "fs": fs})


def judge_C20(chk):
    judge_shell(chk)
    judge_slices(chk)


def judge_slices(chk):
    for cid, case in list(chk.cases.items()):
        if case["kind"] != "SLICE":
            continue
        base = chk.results.get(cid, {}).get("impl")
        if not base:
            chk.record(cid, ("tie", "no answer"))
            continue
        if base.get("status") == "SKIP":
            chk.stats["skipped:" + base.get("payload", "")[:30]] += 1
            continue
        if base.get("status") != "OK":
            chk.record(cid, ("violation", "parametrised evaluation failed: %s" % base.get("payload")))
            continue
        subs = [k for k in chk.results if k.startswith(cid + "#c")]
        for sid in subs:
            r = chk.results[sid]
            colour = sid.split("#c")[1]
            impl, model, oracle = r.get("impl"), r.get("model"), r.get("oracle")
            wit = chk.results.get("%s#w%s" % (cid, colour), {}).get("impl")
            chk.stats["evaluations"] += 1
            key = (case["meta"]["net"], colour)
            if impl and "1" in impl.get("payload", "") and "0" in impl.get("payload", ""):
                chk.nontrivial.add(hash(key))
            synthetic = dict(case, sub=sid)
            if oracle and run.norm(oracle)[0] == "OK" and run.norm(oracle) != run.norm(impl):
                chk.record(cid, ("violation", "colour %s: slice of the parametrised result differs from the result "
                                              "on the instantiated network (specification)" % colour))
            elif wit and run.norm(wit) != run.norm(impl):
                chk.record(cid, ("violation", "colour %s: slice of the parametrised result differs from the result "
                                              "computed on pick_witness of that colour" % colour))
            elif model and run.norm(model) != run.norm(impl):
                chk.record(cid, ("tie", "colour %s: implementation slice differs from the model" % colour))


# ------------------------------------------------------------------ C16
def gen_C16(chk):
    rng = chk.rng
    ws = worlds(chk, n_random=cnt(chk, 4, 15))
    for nm, net in ws:
        props = net_props(net)
        for j in range(cnt(chk, 2, 6)):
            labels = rng.sample(["a1", "formula-0", "formula-10", "x_y", "p", "d", "UP", "v.1", "bdd", "model", "é"],
                                rng.randint(0, 5))
            ctx = []
            for l in labels:
                r = rng.random()
                if r < 0.2:
                    spec = "e"
                elif r < 0.35:
                    spec = "u"
                elif r < 0.7:
                    spec = ctx_spec(rng)
                else:
                    f = gen.random_formula(rng, rng.randint(1, 5), props, max_vars=2)
                    spec = "f" + gen.hx(gen.render(f))
                ctx.append((l, spec))
            k = rng.randint(0, 2)
            formulas = [gen.render(gen.random_formula(rng, rng.randint(1, 4), props, max_vars=1)) for _ in range(rng.randint(0, 4))]
            usable = [l for l in labels if all(ch.isalnum() or ch == "_" for ch in l)]
            usage = []
            for l in usable[:2]:
                usage.append("EF %%%s%%" % l)
                if k >= 1:
                    usage.append("3{x} in %%%s%%: @{x}: AX {x}" % l)
            add_shell(chk, "ARCH", [str(k), "A:" + gen.hx(net),
                                    ",".join("%s=%s" % (gen.hx(l), s) for l, s in ctx) or "-",
                                    ",".join(gen.hx(f) for f in formulas),
                                    ",".join(gen.hx(f) for f in usage)], tag="archive",
                      meta={"net": net, "labels": labels})


def gen_cli_single_operator_files(chk):
    """formula files in which one operator is the only one that needs the self-loop states, and files
    that mix tall formulae without state variables with short ones with nested variables"""
    rng = chk.rng
    ws = worlds(chk, quick_names=["N05", "N06", "N09", "N16"], n_random=cnt(chk, 1, 3))
    for nm, net in ws:
        props = net_props(net)
        a_, b_ = props[0], props[-1]
        for fs in (["~%s EW (%s & %s)" % (b_, a_, b_)], ["%s AW %s" % (a_, b_)], ["AF %s" % a_], ["EG ~%s" % b_],
                   ["%s AU %s" % (a_, b_)], ["%s EW %s" % (a_, b_), "EF %s" % b_]):
            add_shell(chk, "CLI", ["aeon", gen.hx(net), gen.hx("\n".join(fs) + "\n"), "summary", "-"], tag="cli-single-op",
                      meta={"net": net, "formulas": fs})
        tall = "AG (EF (AX (EX (AF (%s & AF %s)))))" % (a_, b_)
        deep = "!{x}: 3{y}: (@{x}: ~{y} & AX {x}) & (@{y}: AX {y})"
        for fs in ([tall, deep], [deep, tall], ["AG (EF (AX (EX (%s & AF %s))))" % (a_, b_), deep]):
            add_shell(chk, "CLI", ["aeon", gen.hx(net), gen.hx("\n".join(fs) + "\n"), "summary", "-"], tag="cli-mixed-heights",
                      meta={"net": net, "formulas": fs})


def gen_C16_cli(chk):
    """archives written by the command-line tool: one entry per line of the formula file, also when a
    formula is repeated or repeated up to the names of its variables"""
    rng = chk.rng
    ws = worlds(chk, quick_names=["N05", "N06", "N09"], n_random=cnt(chk, 1, 4))
    for nm, net in ws:
        props = net_props(net)
        f1 = gen.render(gen.random_formula(rng, rng.randint(1, 4), props, max_vars=1))
        fs = ["!{x}: AG EF {x}", f1, "!{y}: AG EF {y}", f1, "EG %s" % props[0], "EF (%s & ~%s)" % (props[0], props[0])]
        rng.shuffle(fs)
        add_shell(chk, "CLI", ["aeon", gen.hx(net), gen.hx("\n".join(fs) + "\n"), "summary", "-"], tag="cli-repeated",
                  meta={"net": net, "formulas": fs})
        add_shell(chk, "CLI", ["aeon", gen.hx(net), gen.hx("# nothing to evaluate\n\n   \n"), "summary", "-"],
                  tag="cli-no-formulae", meta={"net": net, "formulas": []})


def gen_C16_big(chk):
    """archive entries far larger than one decompression chunk: a set whose BDD has thousands of
    nodes (pairs (a_i, b_i) with all a's ordered before all b's), next to small / empty / full sets"""
    n = 13 if not thorough(chk) else 14
    names = ["a%02d" % i for i in range(n)] + ["b%02d" % i for i in range(n)]
    net = "".join("%s -> %s\n$%s: %s\n" % (v, v, v, v) for v in names)
    big = " | ".join("(a%02d & b%02d)" % (i, i) for i in range(n))
    ctx = [("big", "f" + gen.hx(big)), ("small", "f" + gen.hx("a00 & ~b00")), ("none", "e"), ("all", "u")]
    add_shell(chk, "ARCH", ["0", "A:" + gen.hx(net), ",".join("%s=%s" % (gen.hx(l), sp) for l, sp in ctx),
                            ",".join(gen.hx(f) for f in [big, "a00"]),
                            ",".join(gen.hx(f) for f in ["%big% & ~%small%", "%big% | %none%"])],
              tag="archive-big", meta={"net": "pairs%d" % n, "labels": [l for l, _ in ctx]})


# ------------------------------------------------------------------ C17
BNET = {
    "B1": "targets,factors\nA, B | C\nB, C\nC, A\n",
    "B2": "targets,factors\na, !a\n",
    "B3": "targets,factors\na, a & b\nb, a | !b\n",
}


def formula_file(rng, formulas):
    lines = []
    for f in formulas:
        while rng.random() < 0.3:
            lines.append(rng.choice(["", "   ", "# a comment", "\t# indented comment", "#", "  \t  "]))
        pre = rng.choice(["", " ", "\t", "  "])
        post = rng.choice(["", " ", "\t", "  "])
        lines.append(pre + f + post)
    if rng.random() < 0.3:
        lines.append("# trailing comment")
    eol = rng.choice(["\n", "\n", "\r\n"])
    text = eol.join(lines)
    if rng.random() < 0.7:
        text += eol
    return text


def gen_C17(chk):
    rng = chk.rng
    ws = worlds(chk, quick_names=["N02", "N05", "N06", "N09", "N12", "N16", "N21"], n_random=cnt(chk, 2, 6))
    opts = ["no-print", "summary", "with-progress", "exhaustive"]
    for nm, net in ws:
        props = net_props(net)
        for j in range(cnt(chk, 3, 8)):
            fs = [gen.render(gen.random_formula(rng, rng.randint(1, 6), props, max_vars=2)) if rng.random() < 0.6
                  else gen.render_variant(gen.random_formula(rng, rng.randint(1, 5), props, max_vars=2), rng).replace("\n", " ")
                  for _ in range(rng.randint(1, 4))]
            if rng.random() < 0.3 and len(fs) > 1:
                fs.append(fs[0])
            text = formula_file(rng, fs)
            add_shell(chk, "CLI", ["aeon", gen.hx(net), gen.hx(text), opts[j % 4], "-"], tag="cli-aeon",
                      meta={"net": net, "formulas": fs})
        # a context archive whose sets are not confined to the model's valid colours
        add_shell(chk, "CLI", ["aeon", gen.hx(net), gen.hx("%p%\n%p% | " + props[0] + "\n~%p%\n"), "summary",
                               gen.hx("p") + "=R%d.1.2" % rng.randint(1, 10 ** 6)], tag="cli-raw-ctx", meta={"net": net})
        # files whose formulae need the self-loop states only through AF / EG / AU / EW
        a_, b_ = props[0], props[-1]
        fs = ["AF (%s & %s)" % (a_, b_), "EG ~%s" % a_, "%s AU %s" % (a_, b_), "%s EW %s" % (b_, a_)]
        add_shell(chk, "CLI", ["aeon", gen.hx(net), gen.hx(formula_file(rng, fs)), "summary", "-"], tag="cli-noex",
                  meta={"net": net, "formulas": fs})
        # with a context archive
        for j in range(cnt(chk, 2, 4)):
            fs = ["EF %p%", "3{x} in %d%: @{x}: AX {x}", "%p% & (!{x} in %d%: EX {x})"][: rng.randint(1, 3)]
            ctx = "%s=%s,%s=%s" % (gen.hx("p"), ctx_spec(rng), gen.hx("d"), ctx_spec(rng))
            add_shell(chk, "CLI", ["aeon", gen.hx(net), gen.hx(formula_file(rng, fs)), opts[1 + j % 3], ctx],
                      tag="cli-ctx", meta={"net": net})
    # a result whose archive entry is several hundred kB of text
    n_ = 13
    names_ = ["a%02d" % i for i in range(n_)] + ["b%02d" % i for i in range(n_)]
    bignet = "".join("%s -> %s\n$%s: %s\n" % (v, v, v, v) for v in names_)
    bigf = " | ".join("(a%02d & b%02d)" % (i, i) for i in range(n_))
    add_shell(chk, "CLI", ["aeon", gen.hx(bignet), gen.hx("a00 & ~b00\n%s\n~(%s)\n" % (bigf, bigf)), "summary", "-"],
              tag="cli-big", meta={"net": "pairs%d" % n_})
    for nm, text in BNET.items():
        for j in range(cnt(chk, 2, 4)):
            props = ["A", "B", "C"] if nm == "B1" else (["a"] if nm == "B2" else ["a", "b"])
            fs = [gen.render(gen.random_formula(rng, rng.randint(1, 5), props, max_vars=2)) for _ in range(rng.randint(1, 3))]
            add_shell(chk, "CLI", ["bnet", gen.hx(text), gen.hx(formula_file(rng, fs)), opts[(j + 1) % 4], "-"], tag="cli-bnet")
    # invalid inputs must be reported as messages
    net = gen.CURATED["N06"]
    for bad in ["a &", "{x}", "!{x}: !{x}: {x}", "nope", "%p%", "3{x} in %d%: {x}"]:
        add_shell(chk, "CLI", ["aeon", gen.hx(net), gen.hx(bad + "\n"), "summary", "-"], tag="cli-invalid")
    add_shell(chk, "CLI", ["aeon", gen.hx("this is not a model ->"), gen.hx("a\n"), "summary", "-"], tag="cli-badmodel")
    add_shell(chk, "CLI", ["aeon", gen.hx(net), gen.hx("EF %q%\n"), "summary", gen.hx("p") + "=u"], tag="cli-missing-ctx")
    # context archives that cannot be used: a malformed entry; sets written with another number
    # of spare variable sets -- both must be reported as messages
    for fs in (["EF %p%"], ["3{x} in %p%: @{x}: AX {x}", "EF %p%"]):
        for fault in ("!corrupt:", "!otherk:"):
            add_shell(chk, "CLI", ["aeon", gen.hx(net), gen.hx("\n".join(fs) + "\n"), "summary",
                                   fault + gen.hx("p") + "=" + ctx_spec(rng)], tag="cli-faulty-ctx")


# ------------------------------------------------------------------ C19
CONV_NETS = [
    "a -> b\nb -| a\n",
    "a -?? a\n",
    "b -> a\nc -| a\na -> b\na -> c\n",
    "b -?? a\na -> b\n$a: f(b)\n$b: a\n",
    "b -?? a\na -?? b\n$a: f(b)\n$b: f(a)\n",
    "b -?? a\na -?? b\n$a: f(!b) | g\n$b: a & g\n",
    "b -?? a\nc -?? a\na -> b\na -?? c\nb -?? c\n$a: (b & !c) | f(b, c)\n$b: a\n$c: !a | b\n",
    "b -> a\n$a: b\n",
    "b -> a\nc -?? a\nb -> b\nc -> c\n$a: h(b, c)\n$b: b\n$c: c\n",
    "a -> a\nb -> a\na -> b\nb -> b\n$a: a | b\n$b: a & b\n",
    "a -?? b\nb -?? a\nc -?? a\n$a: f(b, c) & g(c)\n",
    "a -?? b\nb -?? a\n$a: f(b) ^ f(!b)\n",
    "a -> b\nb -> c\nc -> a\nc -| b\n",
    "a_1 -> a\na -> a_1\n",
    "b -?? a\n$a: f(b) & f_1\n",
    "b -?? a\n$a: (f(b) & f_1) | f_0\n",
    "b -?? a\na -?? c\n$c: a_1 | a\n",
    "b -?? a\na -?? c\nb -?? c\n$c: (a_1 & a) | (a_0 ^ b)\n",
    "b -?? a\nc -?? a\n$a: g(b, c) | g_10 | g_\n",
    "b -?? a\n$a: p & f(b) | p_ \n",
    "b -?? a\n$a: h(f(b))\n",
    "b -?? a\nc -?? a\n$a: f(b & c, !b)\n",
    "a_0 -> a\na -?? a\na -> a_0\n$a_0: a\n",
]


def conv_expr(rng, regs, syms, depth):
    """update-function expression: variables, zero-arity constants, applications of
    uninterpreted functions (arguments are expressions), negation anywhere, symbols reused"""
    r = rng.random()
    if depth == 0 or r < 0.25:
        if syms.get(0) and rng.random() < 0.3:
            return rng.choice(syms[0])
        if rng.random() < 0.12:
            return rng.choice(["true", "false"])
        return rng.choice(regs)
    if r < 0.45:
        return "!" + conv_expr(rng, regs, syms, depth - 1)
    if r < 0.75 and (syms.get(1) or syms.get(2)):
        ar = rng.choice([a for a in (1, 2) if syms.get(a)])
        args = [conv_expr(rng, regs, syms, 0 if rng.random() < 0.7 else 1) for _ in range(ar)]
        return "%s(%s)" % (rng.choice(syms[ar]), ", ".join(args))
    op = rng.choice(["&", "|", "^", "=>", "<=>"])
    return "(%s %s %s)" % (conv_expr(rng, regs, syms, depth - 1), op, conv_expr(rng, regs, syms, depth - 1))


def random_conv_network(rng):
    n = rng.randint(2, 3)
    names = ["a", "b", "c"][:n]
    # one symbol per arity at most twice: the same symbol occurs several times, in both polarities
    syms = {0: rng.sample(["p", "q"], rng.randint(0, 1)), 1: rng.sample(["f", "g"], rng.randint(1, 2)),
            2: rng.sample(["h"], rng.randint(0, 1))}
    lines = []
    for t in names:
        regs = [r for r in names if rng.random() < 0.7] or [rng.choice(names)]
        for r_ in regs:
            lines.append("%s -?? %s" % (r_, t))
        if rng.random() < 0.8:
            lines.append("$%s: %s" % (t, conv_expr(rng, regs, syms, rng.randint(1, 3))))
    return "\n".join(lines) + "\n"


def gen_C19(chk):
    rng = chk.rng
    nets = list(CONV_NETS)
    # the same uninterpreted symbol in both polarities / several times / in several targets
    nets += ["b -?? a\nc -?? a\n$a: f(b) & !f(c)\n", "b -?? a\n$a: (p & b) | (!p & !b)\n",
             "a -?? b\na -?? c\nb -?? c\n$b: f(a)\n$c: f(a) => !f(b)\n", "b -?? a\n$a: !f(b)\n",
             "b -?? a\nc -?? a\n$a: !h(b, !c) ^ h(c, b)\n",
             "x -?? a\nx -?? b\ny -?? b\n$a: f(x, true)\n$b: f(x, y)\n", "x -?? a\n$a: f(x, true) ^ f(true, x)\n",
             "x -?? a\n$a: f(x, x) <=> f(x, false)\n",
             "b -> a\nb -> c\n$c: f_a(b)\n", "b -?? a\nc -?? a\nb -?? d\nc -?? d\n$d: f_a(b, c)\n",
             "b -> a\nb -> c\n$c: a_(b) | f_a_(b)\n",
             "b -?? a\n$a: (f(p) <=> f(b)) & (p <=> b)\n", "b -?? a\nb -?? c\n$a: f(p)\n$c: f(b) & p\n",
             "b -?? a\n$a: f(p, b) ^ f(b, p) ^ p\n"]
    for i in range(cnt(chk, 40, 160)):
        nets.append(random_conv_network(rng))
    for i in range(cnt(chk, 20, 60)):
        nets.append(gen.random_network(rng, max_n=3, max_bits=10))
    # constants named like the synthetic row constants of a function of the same network
    for i in range(cnt(chk, 12, 40)):
        net = gen.random_network(rng, max_n=3, max_bits=8)
        lines = net.strip().split("\n")
        targets = [l for l in lines if l.startswith("$")]
        if not targets:
            continue
        j = lines.index(rng.choice(targets))
        cname = rng.choice(["f1_", "f2_", "g1_", "g2_", "a_", "b_", "c_"]) + "".join(rng.choice("01") for _ in range(rng.randint(0, 2)))
        lines[j] = lines[j] + " %s %s" % (rng.choice(["&", "|", "^"]), cname)
        nets.append("\n".join(lines) + "\n")
    for net in nets:
        add_shell(chk, "CONV", [gen.hx(net)], tag="conv", meta={"net": net})


def judge_model_tie(chk):
    """LOADF / LABEL / CONVM: the implementation and the extracted model must answer alike"""
    for cid, case in list(chk.cases.items()):
        if case["kind"] not in ("LOADF", "LABEL", "CONVM"):
            continue
        r = chk.results.get(cid, {})
        impl, model = r.get("impl"), r.get("model")
        if impl is None:
            chk.record(cid, ("tie", "no answer from the implementation harness"))
            continue
        if impl.get("status") == "SKIP":
            chk.stats["skipped:" + impl.get("payload", "")[:30]] += 1
            continue
        if impl.get("status") == "PANIC":
            chk.record(cid, ("violation", "panic: " + impl.get("payload", "")))
            continue
        chk.nontrivial.add(hash((case["kind"], tuple(case["fields"]))))
        if case["kind"] == "LOADF":
            # independent reading of the file
            text = gen.unhx(case["fields"][0])
            want = []
            for line in text.split("\n"):
                if line.endswith("\r"):
                    line = line[:-1]
                t = line.strip(" \t\n\r\x0b\x0c\x85\xa0\u1680\u2000\u2001\u2002\u2003\u2004\u2005\u2006\u2007\u2008\u2009\u200a\u2028\u2029\u202f\u205f\u3000")
                if t and not t.startswith("#"):
                    want.append(t)
            got = [gen.unhx(x) for x in impl.get("payload", "").split(",")] if impl.get("payload") else []
            if impl.get("status") == "OK" and got != want:
                chk.record(cid, ("violation", "load_formulae returned %r, the file lists %r" % (got, want)))
                continue
        if model is None or run.norm(model) != run.norm(impl):
            chk.record(cid, ("tie", "implementation %s / model %s" % (run.norm(impl), run.norm(model) if model else None)))


def gen_shell_tie_C17(chk):
    rng = chk.rng
    pieces = ["a & b", "EF a", "# c", "", "  ", "\t", "!{x}: AX {x}", "#", " # x", "a\r", "\u00a0a\u2003", "x # y", "\x0b", "é & a"]
    for j in range(cnt(chk, 60, 300)):
        lines = [rng.choice(pieces) for _ in range(rng.randint(0, 6))]
        lines = [rng.choice(["", " ", "\t"]) + l + rng.choice(["", " ", "\r", " \r"]) for l in lines]
        text = rng.choice(["\n", "\r\n"]).join(lines) + rng.choice(["", "\n", "\r\n", "\r"])
        add_shell(chk, "LOADF", [gen.hx(text)], tag="loadf")


def gen_shell_tie_C16(chk):
    rng = chk.rng
    labels = ["a", "formula-0", "x.y", ".x", "a.", "a.bdd", "UP", "a/b", "a/", "/", "..", "a/..", ".", "é", "a b", "x..bdd", "-"]
    for l in labels:
        add_shell(chk, "LABEL", [gen.hx(l)], tag="label")
    for j in range(cnt(chk, 20, 100)):
        l = "".join(rng.choice("ab./_-B1") for _ in range(rng.randint(1, 6)))
        add_shell(chk, "LABEL", [gen.hx(l)], tag="label")


def gen_shell_tie_C19(chk):
    for cid, case in list(chk.cases.items()):
        if case["kind"] == "CONV":
            add_shell(chk, "CONVM", list(case["fields"]), tag="convm", meta=case.get("meta"))


def runner(gens, judge):
    def run_(chk):
        for g in gens:
            g(chk)
        chk.execute()
        judge(chk)
    return run_


REGISTRY = {
    "C16": runner([gen_C16, gen_C16_cli, gen_C16_big, gen_shell_tie_C16], lambda c: (judge_shell(c), judge_model_tie(c))),
    "C17": runner([gen_C17, gen_shell_tie_C17], lambda c: (judge_shell(c), judge_model_tie(c))),
    "C19": runner([gen_C19, gen_shell_tie_C19], lambda c: (judge_shell(c), judge_model_tie(c))),
    "C20": runner([gen_C20, gen_C20_ext, gen_C20_big, gen_C20_domains], judge_C20),
}
