"""Shell properties (C16, C17, C19, C20)."""
REGISTRY = {}
NEEDS_BINS = set()
