"""Front-end properties (C05-C09, C14): generators and relations."""
import itertools

from . import gen, ref, run
from .props import cnt, net_props, worlds, chunks, thorough, judge_all, ctx_spec, judge_groups

HOSTILE_NAMES = ["x", "xx", "xxx", "y", "z", "var0", "var1", "E", "A", "V", "3", "3x", "EX", "AGx",
                 "_", "a", "true", "x_1", "é", "λ", "1x", "in"]
NONASCII = ["é", "λ", "٣", "½", "ж"]           # alphanumeric
NOT_NAME = ["€", "→", "∀", "·"]                      # neither
UWS = [" ", " ", "\u0085"]                                      # unicode whitespace


def front_answer(chk, cid):
    r = chk.results.get(cid, {})
    return run.norm(r.get("impl")), run.norm(r.get("model"))


def judge_front(chk):
    """impl vs model for every front-end case (the tie); spec relations are per property"""
    for cid, case in list(chk.cases.items()):
        if case["kind"] == "EVAL":
            continue
        i, m = front_answer(chk, cid)
        if i[0] == "OK":
            chk.nontrivial.add(hash((case["kind"], tuple(case["fields"]))))
        if i[0] == "PANIC":
            chk.record(cid, ("violation", "implementation panicked: " + chk.results[cid]["impl"].get("payload", "")))
            continue
        if case.get("spec_done"):
            pass
        if i == ("ERR", "Prep") and m[0] == "ERR" and m[1] in ("Requantified", "FreeVar", "UnknownProp"):
            m = i     # scoping / proposition error with a wording the harness does not recognise
        if i != m:
            chk.record(cid, ("tie", "implementation %s / model %s" % ((i[0], i[1][:60]), (m[0], m[1][:60]))))


# ------------------------------------------------------------------ C05
ALPHABET = ["a", "{x}", "~", "EX", "&", "|", "=>", "EU", "!{x}:", "@{x}:", "(", ")"]
ALPHABET_T = ALPHABET + ["AG", "AW", "<=>", "^", "3{y}:", "true"]


def add_parse(chk, s, ext, tag):
    cid = chk.add_front("PARSE", ["1" if ext else "0", gen.hx(s)], tag=tag, meta={"s": s, "ext": ext})
    return cid


def gen_C05(chk):
    rng = chk.rng
    # exhaustive token sequences (joined by single spaces)
    maxlen = 5 if thorough(chk) else 4
    for L in range(1, maxlen + 1):
        for seq in itertools.product(ALPHABET, repeat=L):
            # unbalanced parentheses are uninteresting beyond length 3: keep all up to 3
            if L > 3:
                depth = 0
                ok = True
                for t in seq:
                    if t == "(":
                        depth += 1
                    elif t == ")":
                        depth -= 1
                        if depth < 0:
                            ok = False
                            break
                if not ok or depth != 0:
                    continue
            add_parse(chk, " ".join(seq), False, "exh%d" % L)
    chk.notes.append("token sequences over %d symbols enumerated completely up to length %d "
                     "(balanced ones beyond length 3)" % (len(ALPHABET), maxlen))
    # random longer sequences over the larger alphabet, with whitespace variations
    for j in range(cnt(chk, 1500, 6000)):
        L = rng.randint(3, 12)
        seq = [rng.choice(ALPHABET_T) for _ in range(L)]
        sep = [rng.choice([" ", " ", "", "  ", "\t", "\n"]) for _ in range(L + 1)]
        s = "".join(a + b for a, b in zip(sep, seq + [""]))
        add_parse(chk, s, rng.random() < 0.3, "rndseq")
    # valid formulae rendered with variations, and their mutations
    props = ["a", "b", "p_1", "EXa", "3x", "Vv", "E", "A1", "été", "AX_a", "EU_b", "AF_", "EG_1x"]
    for j in range(cnt(chk, 800, 3000)):
        ext = rng.random() < 0.5
        f = gen.random_formula(rng, rng.randint(1, 8), props, max_vars=3,
                               wilds=(("w",) if ext else ()), doms=(("d",) if ext else ()),
                               binops=gen.BINOPS, names=HOSTILE_NAMES[:8])
        s = minimal_render(f, rng)
        add_parse(chk, s, ext, "valid")
        if not ext:
            a = add_parse(chk, s, True, "conservative")
            chk.cases[a]["same_as_plain"] = s
        m = mutate(s, rng)
        add_parse(chk, m, ext, "mutated")
    # the plain minimising parser (the one behind the plain entry points) rejects extended syntax too
    for s_ in ["%p%", "a & %p%", "!{x} in %d%: AX {x}", "\\forall {x} in %d%: (@{x}: EF a)", "3{x}: @{x}: %w%", "V{x} in %d%: a"]:
        for flag in ("0", "1"):
            chk.add_front("PREP", [flag, ",".join(gen.hx(p_) for p_ in ["a", "b"]), gen.hx(s_)], tag="prep-ext-syntax")
    # identifier shapes
    shapes = ["AX_a", "EX_a", "AU_x", "EW_", "AG_on", "EF_1", "AF__", "A_X", "EG_G", "AW_AW", "_AX",
              "EX", "EXa", "EXX", "E", "A", "EU", "AUx", "AW1", "3", "3a", "V", "Vx", "V_", "_", "__x",
              "1", "0", "true", "True", "false", "False", "truex", "1a", "a1", "in", "x in", "é",
              "TRUE", "FALSE", "tRue", "fALSE", "True_", "00", "01",
              "λx", "٣", "a½", "a€b", "a→", "∀{x}: a", "a & b",
              "EX a", "3 {x}: a", "a·b"]
    for sh in shapes:
        for tmpl in ["%s", "~%s", "%s & a", "a EU %s", "EX %s", "(%s)", "!{x}: %s", "!{%s}: {%s}", "%s%s"]:
            try:
                s = tmpl % ((sh,) * tmpl.count("%s"))
            except TypeError:
                continue
            add_parse(chk, s, False, "ident")
            add_parse(chk, s, True, "ident")
    # hybrid segments: whitespace, long names, domains
    for op in ["!", "3", "V", "@", "\\bind", "\\exists", "\\forall", "\\jump", "\\bindx", "\\"]:
        for w1 in ["", " ", "\t "]:
            for dom in ["", " in %d%", "in%d%", " in % d%", " in %%", " i %d%", " in %d% "]:
                for w2 in ["", " "]:
                    s = "%s%s{x}%s%s: {x}" % (op, w1, dom, w2)
                    add_parse(chk, s, True, "segment")
                    add_parse(chk, s, False, "segment")


def minimal_render(t, rng):
    """text with only the parentheses the grammar needs (sometimes more), to exercise
    precedence and associativity"""
    LV = {"EU": 0, "AU": 0, "EW": 0, "AW": 0, "And": 1, "Xor": 2, "Or": 3, "Imp": 4, "Iff": 5}

    def go(t, ctx_level, is_left):
        # ctx_level: level of the enclosing binary operator (6 = top / group, -1 = unary operand)
        if t[0] == "T":
            return gen.atom_text(t, rng)
        if t[0] == "U":
            s = gen.UN_S[t[1]] + ("" if t[1] == "Not" and rng.random() < 0.5 else " ") + go(t[2], -1, False)
            return s if rng.random() < 0.8 else "(" + s + ")"
        if t[0] == "B":
            lv = LV[t[1]]
            s = go(t[2], lv, True) + " " + gen.BIN_S[t[1]] + " " + go(t[3], lv, False)
            need = lv > ctx_level or (lv == ctx_level and is_left) or ctx_level == -1
            return "(" + s + ")" if need or rng.random() < 0.15 else s
        dom = " in %%%s%%" % t[3] if t[3] else ""
        op = gen.HYB_LONG[t[1]] if rng.random() < 0.3 else gen.HYB_S[t[1]]
        s = "%s{%s}%s: %s" % (op, t[2], dom, go(t[4], 6, False))
        return s if ctx_level == 6 and rng.random() < 0.8 else "(" + s + ")"

    return go(t, 6, False)


def mutate(s, rng):
    if not s:
        return "("
    ops = rng.randint(1, 2)
    for _ in range(ops):
        i = rng.randrange(len(s))
        r = rng.random()
        if r < 0.3:
            s = s[:i] + s[i + 1:]
        elif r < 0.5:
            s = s[:i] + s[i] + s[i:]
        elif r < 0.7:
            j = rng.randrange(len(s))
            l = list(s)
            l[i], l[j] = l[j], l[i]
            s = "".join(l)
        else:
            s = s[:i] + rng.choice(["(", ")", "~", "&", "{", "}", ":", "%", " ", "EX ", "!", "@", "3", "V", "<", "=", ">",
                                    "é", "€", " ", "|", "^", "in", "\\"]) + s[i:]
        if not s:
            return ")"
    return s


def judge_C05(chk):
    plain_by_text = {}
    for cid, case in chk.cases.items():
        if case["kind"] == "PARSE" and not case["meta"]["ext"]:
            plain_by_text[case["meta"]["s"]] = cid
    for cid, case in list(chk.cases.items()):
        if case["kind"] != "PARSE":
            continue
        i, m = front_answer(chk, cid)
        if i[0] == "PANIC":
            continue
        s, ext = case["meta"]["s"], case["meta"]["ext"]
        want = ref.ref_parse_string(s, ext)
        if i[0] == "OK":
            try:
                got, stored = ref.read_sexpr(i[1])
            except Exception as ex:   # printer broke
                chk.record(cid, ("tie", "unreadable tree: %s" % ex))
                continue
            if want is None:
                chk.record(cid, ("violation", "accepted %r which the documented grammar rejects (tree %s)"
                                 % (s, gen.render(got))))
            elif got != want:
                chk.record(cid, ("violation", "%r parsed as %s, the grammar dictates %s"
                                 % (s, gen.render(got), gen.render(want))))
        elif i[0] == "ERR" and want is not None:
            chk.record(cid, ("violation", "rejected %r which the documented grammar derives as %s"
                             % (s, gen.render(want))))
        # the extended parser yields the plain parser's tree on plain formulae
        if case.get("same_as_plain"):
            other = plain_by_text.get(case["same_as_plain"])
            if other:
                io, _ = front_answer(chk, other)
                if io[0] == "OK" and io != i:
                    chk.record(cid, ("violation", "extended parser differs from the plain parser on %r" % s))
    judge_front(chk)


# ------------------------------------------------------------------ C06
def add_tree(chk, t, tag):
    s = gen.render(t)
    return chk.add_front("TREE", [sexpr_of(t), gen.hx(s)], tag=tag, meta={"t": t, "s": s})


def sexpr_of(t):
    if t[0] == "T":
        return "(T %s)" % (t[1] if t[1] in "01" else "%s:%s" % (t[1], gen.hx(t[2])))
    if t[0] == "U":
        return "(U %s %s)" % (t[1], sexpr_of(t[2]))
    if t[0] == "B":
        return "(B %s %s %s)" % (t[1], sexpr_of(t[2]), sexpr_of(t[3]))
    return "(H %s %s %s %s)" % (t[1], gen.hx(t[2]), gen.hx(t[3]) if t[3] else "_", sexpr_of(t[4]))


GOOD_NAMES = ["a", "b_1", "x", "xx", "EXa", "3x", "V1", "é", "_", "Tru", "p0", "AX_a", "EU_1", "AG_", "EW_w", "A_", "3_", "V_x"]


def gen_C06(chk):
    rng = chk.rng
    props = ["a", "b_1", "EXa"]
    # all trees with up to 2 operators (with wild-cards and domains), through the constructors
    pool = []
    for sz in range(0, 3):
        pool += list(gen.enum_formulas(sz, props[:2], ["x"], max_vars=2, wilds=("w",), doms=("d",),
                                       binops=gen.BINOPS))
    if not thorough(chk):
        pool = pool[:400] + rng.sample(pool[400:], min(len(pool) - 400, 2500))
    chk.notes.append("constructor-built trees: all with <= 2 operators (%d%s), plus random deep ones"
                     % (len(pool), "" if thorough(chk) else " sampled"))
    for t in pool:
        add_tree(chk, t, "exh")
    for j in range(cnt(chk, 700, 3000)):
        t = gen.random_formula(rng, rng.randint(3, 25), rng.sample(GOOD_NAMES, 5), scope=["x"], max_vars=4,
                               wilds=("w", "W2"), doms=("d", "D_2"), binops=gen.BINOPS, names=GOOD_NAMES)
        add_tree(chk, t, "deep")
        # through the parsers and through preprocessing
        s = minimal_render(t, rng)
        cid = chk.add_front("PARSE", ["1", gen.hx(s)], tag="parsed", meta={"s": s, "ext": True})
        chk.cases[cid]["check_fields"] = True
    for j in range(cnt(chk, 300, 1000)):
        t = gen.random_formula(rng, rng.randint(2, 14), props, max_vars=4, wilds=("w",), doms=("d",),
                               binops=gen.BINOPS, names=HOSTILE_NAMES[:12])
        cid = chk.add_front("PREP", ["1", ",".join(gen.hx(p) for p in props), gen.hx(gen.render(t))],
                            tag="preprocessed", meta={"t": t})
        chk.cases[cid]["check_fields"] = True


def fields_consistent(stored):
    for text, h, node in stored:
        if text != gen.render(node):
            return "stored text %r differs from the rendering %r" % (text, gen.render(node))
        if h != ref.height(node):
            return "stored height %d, structure has height %d (%s)" % (h, ref.height(node), gen.render(node))
    return None


def gen_C06_deep(chk):
    """trees far taller than any formula a user nests by hand: flat chains of operands and of unary
    operators (the printed text has one parenthesised group per level)"""
    rng = chk.rng
    for n in ([140, 260] if not thorough(chk) else [140, 260, 520]):
        for op in ("And", "Or", "EU"):
            t = gen.T("P", "a")
            for i in range(n):
                t = ("B", op, gen.T("P", rng.choice(["a", "b"])), t)
            add_tree(chk, t, "deep-chain")
        t = gen.T("P", "b")
        for i in range(n):
            t = ("U", rng.choice(["AX", "Not", "EF"]), t)
        add_tree(chk, t, "deep-unary")


def judge_C06(chk):
    for cid, case in list(chk.cases.items()):
        i, m = front_answer(chk, cid)
        if i[0] == "PANIC":
            continue
        if case["kind"] == "TREE":
            t = case["meta"]["t"]
            if i[0] != "OK":
                chk.record(cid, ("violation", "print/parse round trip fails for %s: %s" % (case["meta"]["s"], i[1][:80])))
                continue
            try:
                got, stored = ref.read_sexpr(i[1])
            except Exception as ex:
                chk.record(cid, ("tie", "unreadable tree: %s" % ex))
                continue
            if got != t:
                chk.record(cid, ("violation", "constructors built %s from %s" % (gen.render(got), gen.render(t))))
                continue
            why = fields_consistent(stored)
            if why:
                chk.record(cid, ("violation", why))
        elif case.get("check_fields") and i[0] == "OK":
            try:
                got, stored = ref.read_sexpr(i[1])
            except Exception as ex:
                chk.record(cid, ("tie", "unreadable tree: %s" % ex))
                continue
            why = fields_consistent(stored)
            if why:
                chk.record(cid, ("violation", why))
    judge_front(chk)


# ------------------------------------------------------------------ C07
def gen_C07(chk):
    rng = chk.rng
    props = ["a", "b", "x"]
    for j in range(cnt(chk, 1500, 6000)):
        r = rng.random()
        scope = []
        # names that are no network variable: unknown, or the name of a symbolic helper variable
        bad = rng.choice(["zz", "a_extra_0", "b_extra_1", "x_extra_0"])
        t = gen.random_formula(rng, rng.randint(1, 12), props + ([bad] if r < 0.12 else []), scope=scope,
                               max_vars=4, names=HOSTILE_NAMES[:rng.choice([3, 6, 12])], w_hybrid=0.5)
        if r < 0.25:
            # break scoping: free variable, re-quantification, jump to an unbound variable
            t = break_scoping(t, rng)
        cid = chk.add_front("PREP", ["0", ",".join(gen.hx(p) for p in props), gen.hx(gen.render(t))],
                            tag="prep", meta={"t": t, "props": props})


def gen_nonuniform_support(chk):
    """graphs whose symbolic context gives the network variables different numbers of spare copies
    (first or last variable has the fewest): the formula is supported iff its nesting depth does not
    exceed the smallest number"""
    rng = chk.rng
    from .props import worlds as _w
    ws = _w(chk, quick_names=["N05", "N06", "N09", "N16"], n_random=cnt(chk, 1, 4))
    for nm, net in ws:
        props = net_props(net)
        if len(props) < 2:
            continue
        for j in range(cnt(chk, 4, 12)):
            f = gen.random_formula(rng, rng.randint(2, 6), props, max_vars=2, w_hybrid=0.6)
            d = gen.quant_depth(f)
            for k in {max(0, d - 1), d}:
                if len(props) * (3 + k) > 14:
                    continue
                chk.add_eval(net, k, "s" + rng.choice(["N", "M"]), [f], tag="nonuniform", netname=nm)


def gen_C14_cli(chk):
    from .shellprops import gen_cli_single_operator_files
    gen_cli_single_operator_files(chk)


def judge_shell_(chk):
    from .shellprops import judge_shell
    judge_shell(chk)


def break_scoping(t, rng):
    subs = list(gen.subtrees(t))
    target = rng.choice(subs)
    r = rng.random()
    if r < 0.35:
        repl = gen.T("V", rng.choice(["q", "x", "y", "xx"]))
    elif r < 0.7:
        names = gen.binder_names(t) or ["x"]
        repl = ("H", rng.choice(gen.QUANTS), rng.choice(names), None, target)
    else:
        repl = ("H", "Jump", rng.choice(["q", "x", "y"]), None, target)
    from .props import replace_subtree
    return replace_subtree(t, target, repl)


def judge_C07(chk):
    extra = []
    for cid, case in list(chk.cases.items()):
        if case["kind"] != "PREP" or case.get("second"):
            continue
        i, m = front_answer(chk, cid)
        if i[0] == "PANIC":
            continue
        t, props = case["meta"]["t"], case["meta"]["props"]
        problem = ref.well_scoped(t, props)
        if i[0] == "OK":
            if problem:
                chk.record(cid, ("violation", "accepted %s although %s" % (gen.render(t), problem)))
                continue
            got, stored = ref.read_sexpr(i[1])
            if ref.debruijn(got) != ref.debruijn(t):
                chk.record(cid, ("violation", "%s preprocessed to %s: not alpha-equivalent" % (gen.render(t), gen.render(got))))
            elif got != ref.rename_by_depth(t):
                chk.record(cid, ("violation", "%s preprocessed to %s: names are not given by nesting depth"
                                 % (gen.render(t), gen.render(got))))
            elif len(set(gen.binder_names(got))) != gen.quant_depth(t):
                chk.record(cid, ("violation", "number of distinct names differs from the nesting depth"))
            else:
                extra.append((cid, got))
        elif i[0] == "ERR":
            if not problem:
                chk.record(cid, ("violation", "rejected well-scoped %s (%s)" % (gen.render(t), i[1])))
            elif i[1] != problem and i[1] != "Prep":
                chk.record(cid, ("violation", "%s rejected as %s, expected %s" % (gen.render(t), i[1], problem)))
    # idempotence: preprocessing the result again changes nothing
    ids = []
    for cid, got in extra[: cnt(chk, 600, 3000)]:
        c2 = chk.add_front("PREP", ["0", chk.cases[cid]["fields"][1], gen.hx(gen.render(got))], tag="idem",
                           meta={"t": got, "props": chk.cases[cid]["meta"]["props"]})
        chk.cases[c2]["second"] = cid
        ids.append(c2)
    chk.execute(ids, sub="idem")
    for c2 in ids:
        i2, _ = front_answer(chk, c2)
        i1, _ = front_answer(chk, chk.cases[c2]["second"])
        if i1 != i2:
            chk.record(c2, ("violation", "preprocessing is not idempotent on %s" % gen.render(chk.cases[c2]["meta"]["t"])))
    judge_front(chk)


# ------------------------------------------------------------------ C08
def gen_C08(chk):
    rng = chk.rng
    ws = worlds(chk, quick_names=["N02", "N05", "N06", "N09", "N16", "N21"], n_random=cnt(chk, 2, 8))
    pool_names = ["x", "xx", "xxx", "y", "zz", "var0", "E", "V", "3", "\u00e9", "\u03bb2", "\u00e9tat_1"]
    for nm, net in ws:
        props = net_props(net)
        for j in range(cnt(chk, 8, 30)):
            f = gen.random_formula(rng, rng.randint(2, 8), props, max_vars=3, binops=gen.BINOPS)
            if j % 5 == 0:
                # right-nested chains of binary temporal operators and of Boolean operators
                ps = [gen.T("P", rng.choice(props)) for _ in range(4)]
                o1, o2, o3 = (rng.choice(["EU", "AU", "EW", "AW"]) for _ in range(3))
                f = ("B", o1, ps[0], ("B", o2, ("U", "Not", ps[1]), ("B", o3, ps[2], ps[3])))
                if rng.random() < 0.5:
                    f = ("H", "Bind", "x", None, ("B", "And", f, ("U", "EF", gen.T("V", "x"))))
            k = gen.quant_depth(f)
            group = []
            base = chk.add_eval(net, k, "s", [gen.render(f)], tag="canonical", netname=nm)
            chk.cases[base]["ast"] = f
            group.append(base)
            for v in range(8):
                g = gen.alpha_rename(f, rng, pool_names) if v % 2 == 0 else f
                # names equal to the internal ones in a permuted order
                if v == 3:
                    g = gen.alpha_rename(f, rng, ["xxx", "xx", "x"])
                s = gen.render_variant(g, rng)
                if v in (5, 7):
                    # only the parentheses that precedence and right-associativity require
                    s = minimal_render(g, rng)
                cid = chk.add_eval(net, k, "s", [s], tag="variant", netname=nm)
                chk.cases[cid]["ast"] = f
                group.append(cid)
            for g_ in group:
                chk.cases[g_]["group"] = group
                chk.cases[g_]["perm"] = (0,)
            # the front end must agree as well: same preprocessed tree
            pg = []
            if j % 4 == 0:
                # extended formulae: long / short spellings next to domains and wild-cards
                fe = gen.random_formula(rng, rng.randint(2, 6), props, max_vars=2, wilds=("p",), doms=("d",), w_hybrid=0.6)
                ke = gen.quant_depth(fe)
                ctx = [("p", ctx_spec(rng)), ("d", ctx_spec(rng))]
                ge = [chk.add_eval(net, ke, "es", [gen.render(fe)], ctx=ctx, tag="canonical-ext", netname=nm)]
                chk.cases[ge[0]]["ast"] = fe
                for v in range(5):
                    cid = chk.add_eval(net, ke, "es", [gen.render_variant(fe, rng)], ctx=ctx, tag="variant-ext", netname=nm)
                    chk.cases[cid]["ast"] = fe
                    ge.append(cid)
                for g_ in ge:
                    chk.cases[g_]["group"] = ge
                    chk.cases[g_]["perm"] = (0,)
            for cid in group:
                s = chk.cases[cid]["formulas"][0]
                c2 = chk.add_front("PREP", ["0", ",".join(gen.hx(p) for p in props), gen.hx(s)], tag="prep-variant")
                pg.append(c2)
            for c2 in pg:
                chk.cases[c2]["prep_group"] = pg


def judge_C08(chk):
    judge_all(chk)
    judge_groups(chk)
    seen = set()
    for cid, case in list(chk.cases.items()):
        pg = case.get("prep_group")
        if not pg or pg[0] in seen:
            continue
        seen.add(pg[0])
        answers = {}
        for c in pg:
            i, _ = front_answer(chk, c)
            answers.setdefault(i, []).append(c)
        if len(answers) > 1:
            ids = [v[0] for v in answers.values()]
            chk.record(ids[-1], ("violation", "meaning-preserving rewrites give different preprocessed trees: %s vs %s" %
                                 (gen.unhx(chk.cases[ids[0]]["fields"][2]), gen.unhx(chk.cases[ids[-1]]["fields"][2]))))
    judge_front(chk)


# ------------------------------------------------------------------ C09
def gen_C09(chk):
    rng = chk.rng
    props = ["a", "b", "Vv", "3x", "v3", "kV", "\u00e9", "\u03bb\u0436"]
    seen = set()
    trees = []
    for j in range(cnt(chk, 400, 1500)):
        ext = rng.random() < 0.5
        t = gen.random_formula(rng, rng.randint(2, 12), props, max_vars=4, wilds=(("w", "V3", "\u03bb") if ext else ()),
                               doms=(("d", "e", "\u00e9") if ext else ()), binops=gen.BINOPS, w_hybrid=0.45)
        t = ref.rename_by_depth(t)
        trees.append(t)
        for s in gen.subtrees(t):
            txt = gen.render(s)
            if txt in seen:
                continue
            seen.add(txt)
            chk.add_front("CANON", [gen.hx(txt)], tag="canon", meta={"t": s, "s": txt})
    # duplicate marking on batches with planted overlaps
    from .props import planted_batch
    for j in range(cnt(chk, 120, 400)):
        ext = rng.random() < 0.6
        fs = planted_batch(rng, props[:2], ext) if rng.random() < 0.7 else [rng.choice(trees) for _ in range(rng.randint(1, 4))]
        if rng.random() < 0.3:
            # a jump between a restricted binder and a shared sub-formula
            core = ("U", "EF", gen.T("V", "x"))
            fs = [("B", "And", ("H", "Bind", "x", "d", ("H", "Jump", "x", None, core)),
                   ("H", "Bind", "y", None, ("B", "And", gen.T("P", "a"), ("U", "EF", gen.T("V", "y")))))] + fs[:2]
            ext = True
        fs = [f for f in fs if not gen.free_vars(f)]
        if not fs:
            continue
        chk.add_front("DUPS", ["1", ",".join(gen.hx(p) for p in props), ",".join(gen.hx(gen.render(f)) for f in fs)],
                      tag="dups", meta={"fs": fs})
    # sub-formulae of several kB (state descriptions of large models) with a free variable, under
    # different domains and under none
    def clause(i):
        ls = [gen.T("P", n_) if (i >> j_) & 1 else ("U", "Not", gen.T("P", n_)) for j_, n_ in enumerate(["a", "b", "v3"])]
        return ("B", "And", ls[0], ("B", "And", ls[1], ls[2]))
    desc = clause(0)
    for i in range(1, 200):
        desc = ("B", "Or", clause(i % 8), desc)

    def bigbody(v):
        return ("B", "And", ("U", "AX", gen.T("V", v)), ("U", "EF", ("B", "And", gen.T("V", v), desc)))
    long_batches = [[("H", "Bind", "x", "d", bigbody("x")), ("H", "Bind", "x", None, bigbody("x"))],
                    [("H", "Bind", "x", None, bigbody("x")), ("H", "Bind", "x", None, ("U", "AG", ("H", "Exists", "y", None, bigbody("y"))))]]
    for fs in long_batches:
        chk.add_front("DUPS", ["1", ",".join(gen.hx(p) for p in props), ",".join(gen.hx(gen.render(f)) for f in fs)],
                      tag="dups-long", meta={"fs": fs})
    # twins that differ in one operator only must not be identified
    a_, b_ = gen.T("P", "a"), ("U", "EF", gen.T("P", "b"))
    for o1, o2 in [("EW", "AW"), ("EU", "AU"), ("EU", "EW"), ("AU", "AW"), ("And", "Or"), ("Imp", "Iff"), ("Xor", "Or")]:
        for wrap in (lambda z: z, lambda z: ("H", "Bind", "x", None, ("B", "And", z, gen.T("V", "x")))):
            fs = [wrap(("B", o1, a_, b_)), wrap(("B", o2, a_, b_))]
            chk.add_front("DUPS", ["1", ",".join(gen.hx(p) for p in props), ",".join(gen.hx(gen.render(f)) for f in fs)],
                          tag="dups-twins", meta={"fs": fs})
    for o1, o2 in [("EX", "AX"), ("EF", "AF"), ("EG", "AG"), ("EF", "EG")]:
        fs = [("U", o1, ("B", "And", a_, b_)), ("U", o2, ("B", "And", a_, b_))]
        chk.add_front("DUPS", ["1", ",".join(gen.hx(p) for p in props), ",".join(gen.hx(gen.render(f)) for f in fs)],
                      tag="dups-twins", meta={"fs": fs})


def occurrences_with_domains(t, doms=None):
    """every sub-formula occurrence with the domains of its free variables (by name)"""
    doms = doms or {}
    yield t, dict(doms)
    if t[0] == "U":
        yield from occurrences_with_domains(t[2], doms)
    elif t[0] == "B":
        yield from occurrences_with_domains(t[2], doms)
        yield from occurrences_with_domains(t[3], doms)
    elif t[0] == "H":
        d2 = dict(doms)
        if t[1] != "Jump":
            d2[t[2]] = t[3]
        yield from occurrences_with_domains(t[4], d2)


def judge_C09(chk):
    by_canon = {}
    for cid, case in list(chk.cases.items()):
        i, m = front_answer(chk, cid)
        if i[0] != "OK":
            continue
        if case["kind"] == "CANON":
            parts = i[1].split(" ")
            canon = gen.unhx(parts[0])
            ren = dict(tuple(gen.unhx(z) for z in x.split(">")) for x in parts[1].split(",")) if len(parts) > 1 and parts[1] else {}
            t = case["meta"]["t"]
            form, free_order = ref.open_debruijn(t)
            by_canon.setdefault(canon, []).append((cid, form))
            case["canon"] = canon
            # the renaming maps every free variable injectively to its canonical name
            fv = gen.free_vars(t)
            if not fv <= set(ren.keys()):
                chk.record(cid, ("violation", "renaming of %s misses free variables %s" % (case["meta"]["s"], fv - set(ren.keys()))))
            elif len({ren[v] for v in fv}) != len(fv):
                chk.record(cid, ("violation", "renaming of %s is not injective on free variables" % case["meta"]["s"]))
            else:
                # canonical text = text with free variables renamed accordingly, up to bound names
                ct = ref.ref_parse_string(canon, True)
                if ct is None or ref.open_debruijn(ct)[0] != form:
                    chk.record(cid, ("violation", "canonical form %r of %s is not a renaming of it" % (canon, case["meta"]["s"])))
    # equal canonical text <=> equal up to renaming
    forms = {}
    for canon, items in by_canon.items():
        base = items[0][1]
        for cid, form in items[1:]:
            if form != base:
                chk.record(cid, ("violation", "sub-formulae not equal up to renaming share the canonical form %r" % canon))
        forms.setdefault(repr(base), set()).add(canon)
    for f, canons in forms.items():
        if len(canons) > 1:
            c = sorted(canons)
            cid = by_canon[c[1]][0][0]
            chk.record(cid, ("violation", "sub-formulae equal up to renaming get different canonical forms %r / %r" % (c[0], c[1])))
    # idempotence
    ids = []
    for canon in list(by_canon.keys())[: cnt(chk, 800, 4000)]:
        c2 = chk.add_front("CANON", [gen.hx(canon)], tag="canon-idem", meta={"s": canon, "t": None})
        chk.cases[c2]["idem"] = canon
        ids.append(c2)
    chk.execute(ids, sub="idem")
    for c2 in ids:
        i, _ = front_answer(chk, c2)
        if i[0] == "OK" and gen.unhx(i[1].split(" ")[0]) != chk.cases[c2]["idem"]:
            chk.record(c2, ("violation", "canonising the canonical form %r changes it" % chk.cases[c2]["idem"]))
    # duplicates: counter n  =>  at least n+1 occurrences up to renaming with identical domains
    for cid, case in list(chk.cases.items()):
        if case["kind"] != "DUPS":
            continue
        i, m = front_answer(chk, cid)
        if i[0] != "OK" or not i[1]:
            continue
        fs = [ref.rename_by_depth(f) for f in case["meta"]["fs"]]
        occ = {}
        for f in fs:
            for s, doms in occurrences_with_domains(f):
                form, free_order = ref.open_debruijn(s)
                d = tuple(sorted((idx, doms.get(v)) for v, idx in free_order.items()))
                occ[(repr(form), d)] = occ.get((repr(form), d), 0) + 1
        for item in i[1].split(","):
            head, cntv = item.rsplit("#", 1)
            canon_hex, doms_s = head.split("[", 1)
            doms_s = doms_s.rstrip("]")
            canon = gen.unhx(canon_hex)
            ct = ref.ref_parse_string(canon, True)
            if ct is None:
                chk.record(cid, ("violation", "duplicate key %r is not a formula" % canon))
                continue
            form, free_order = ref.open_debruijn(ct)
            dd = {}
            if doms_s:
                for e in doms_s.split(";"):
                    v, d = e.split("=")
                    dd[gen.unhx(v)] = None if d == "_" else gen.unhx(d)
            d = tuple(sorted((idx, dd.get(v)) for v, idx in free_order.items()))
            have = occ.get((repr(form), d), 0)
            if have < int(cntv) + 1:
                chk.record(cid, ("violation", "duplicate %r with domains %s reported with counter %s but occurs %d time(s)"
                                 % (canon, dd, cntv, have)))
    judge_front(chk)


# ------------------------------------------------------------------ C14
def gen_C14(chk):
    rng = chk.rng
    ws = worlds(chk, quick_names=["N02", "N05", "N06", "N09", "N17"], n_random=cnt(chk, 2, 6))
    for nm, net in ws:
        props = net_props(net)
        for j in range(cnt(chk, 40, 120)):
            ext = rng.random() < 0.6
            bad = rng.choice(["nope", props[0] + "_extra_0", props[-1] + "_extra_1"])
            f = gen.random_formula(rng, rng.randint(1, 9), props + ([bad] if rng.random() < 0.12 else []), max_vars=3,
                                   wilds=(("p", "q") if ext else ()), doms=(("d",) if ext else ()),
                                   binops=gen.BINOPS, names=HOSTILE_NAMES[:6], w_hybrid=0.5)
            r = rng.random()
            if r < 0.2:
                f = break_scoping(f, rng)
            d = gen.quant_depth(f)
            k = rng.choice([0, max(0, d - 1), d, d, d + 1, d + 2])
            if len(props) * (1 + k) > 10:
                k = d
            wl, dl = gen.labels_of(f)
            labels = sorted(wl | dl)
            # an arbitrary subset of the required labels, malformed sets now and then
            ctx = []
            for l in labels:
                if rng.random() < 0.85:
                    spec = ctx_spec(rng) if rng.random() < 0.8 else "R%d.1.2" % rng.randint(1, 999)
                    ctx.append((l, spec))
            mode = ("e" if ext else "") + rng.choice(["s", "s", ""])
            s = gen.render(f) if rng.random() < 0.6 else gen.render_variant(f, rng)
            rr = rng.random()
            if rr < 0.25:
                s = mutate(s, rng)
                cid = chk.add_eval(net, k, mode, [s], ctx=ctx, tag="mutated", netname=nm)
            else:
                cid = chk.add_eval(net, k, mode, [f] if s == gen.render(f) else [s], ctx=ctx, tag="structured", netname=nm)
                if s != gen.render(f):
                    chk.cases[cid]["ast_of_string"] = f
        # batches whose formulae need different context labels (each label used by one formula only)
        for j in range(cnt(chk, 8, 30)):
            fs = [gen.random_formula(rng, rng.randint(1, 5), props, max_vars=2, wilds=("p",), w_hybrid=0.3),
                  gen.random_formula(rng, rng.randint(1, 5), props, max_vars=2, wilds=("q",), doms=("d",), w_hybrid=0.5),
                  gen.random_formula(rng, rng.randint(1, 4), props, max_vars=1)]
            rng.shuffle(fs)
            fs = fs[: rng.randint(2, 3)]
            k = max(gen.quant_depth(f) for f in fs)
            need = set()
            for f in fs:
                wl, dl = gen.labels_of(f)
                need |= wl | dl
            ctx = [(l, ctx_spec(rng)) for l in sorted(need) if rng.random() < 0.9]
            chk.add_eval(net, k, "e" + rng.choice(["s", ""]), fs, ctx=ctx, tag="ext-batch", netname=nm)
        # extended-only syntax through the plain entry points: an error, not an answer or a panic
        for s_ in ["%p%", props[0] + " & %p%", "!{x} in %d%: AX {x}", "3{x}: @{x}: %p%"]:
            for mode in ("s", "", "u", "st"):
                chk.add_eval(net, 1, mode, [s_], ctx=[("p", "u"), ("d", "u")], tag="plain-entry-ext-syntax", netname=nm)
        # the self-loop-free entry point validates its input like the others
        for j in range(cnt(chk, 6, 20)):
            f = gen.random_formula(rng, rng.randint(1, 6), props + (["nope"] if rng.random() < 0.1 else []), max_vars=3, w_hybrid=0.5)
            if rng.random() < 0.15:
                f = break_scoping(f, rng)
            d = gen.quant_depth(f)
            k = rng.choice([0, max(0, d - 1), d, d + 1])
            if len(props) * (1 + k) > 10:
                k = max(0, d - 1)
            chk.add_eval(net, k, "u", [f], tag="unsafe-entry", netname=nm)
        # nested domains on disjoint sets of colours: valid input, an answer is due
        for j in range(cnt(chk, 3, 8)):
            sd = rng.randint(1, 10 ** 6)
            ctx = [("d", "k%d.1.2" % sd), ("e2", "K%d.1.2" % sd)]
            body = ("H", "Jump", "x", None, ("U", rng.choice(["EF", "EX"]), gen.T("V", "y")))
            f = ("H", rng.choice(gen.QUANTS), "x", "d", ("H", rng.choice(gen.QUANTS), "y", "e2", body))
            chk.add_eval(net, 2, "es", [f], ctx=ctx, tag="disjoint-colours", netname=nm)
        # deep nesting (bounded), long unary chains, many parentheses
        for depth in ([8, 32, 64] if not thorough(chk) else [8, 32, 64, 200]):
            chk.add_eval(net, 0, "s", ["(" * depth + props[0] + ")" * depth], tag="nesting", netname=nm)
            chk.add_eval(net, 0, "s", ["~" * depth + props[0]], tag="nesting", netname=nm)
            chk.add_eval(net, 0, "s", ["(" * depth + props[0] + ")" * (depth - 1)], tag="nesting", netname=nm)
        # random garbage
        alphabet = list("ab{}()!@3V:~&|^=<>%EXAUFGW _\\in") + NONASCII + NOT_NAME + UWS
        for j in range(cnt(chk, 30, 100)):
            s = "".join(rng.choice(alphabet) for _ in range(rng.randint(0, 14)))
            chk.add_eval(net, rng.randint(0, 2), rng.choice(["s", "es", "e", ""]), [s],
                         ctx=[("p", "u")] if rng.random() < 0.5 else [], tag="garbage", netname=nm)


def judge_C14(chk):
    for cid, case in list(chk.cases.items()):
        if case["kind"] != "EVAL":
            continue
        # strings derived from an AST: predict the error cause from the syntax
        if "ast_of_string" in case:
            saved = case["formulas"]
            case["formulas"] = [case["ast_of_string"]]
            v = chk.judge_eval(cid)
            case["formulas"] = saved
        else:
            v = chk.judge_eval(cid)
        chk.note_nontrivial(cid)
        chk.record(cid, v)


def runner(gens, judge):
    def run_(chk):
        for g in gens:
            g(chk)
        chk.execute()
        judge(chk)
    return run_


REGISTRY = {
    "C05": runner([gen_C05], judge_C05),
    "C06": runner([gen_C06, gen_C06_deep], judge_C06),
    "C07": runner([gen_C07, gen_nonuniform_support], lambda c: (judge_C07(c), judge_all(c))),
    "C08": runner([gen_C08], judge_C08),
    "C09": runner([gen_C09], judge_C09),
    "C14": runner([gen_C14, gen_nonuniform_support, gen_C14_cli], lambda c: (judge_C14(c), judge_shell_(c))),
}
