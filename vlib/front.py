"""Front-end properties (C05-C09, C14) -- generators and relations."""
REGISTRY = {}


def judge_front(chk):
    pass
