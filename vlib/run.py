"""Build steps, sharded execution of harness (implementation) and driver (model/oracle),
answer parsing, proof checking, evidence and replay files."""
import json
import os
import re
import subprocess
import time
from concurrent.futures import ThreadPoolExecutor

VERIF = os.path.dirname(os.path.dirname(os.path.abspath(__file__)))
BUILD = os.path.join(VERIF, ".build")
COQ = os.path.join(VERIF, "coq")
HARNESS = os.path.join(BUILD, "target", "release", "hctl-harness")
DRIVER = os.path.join(BUILD, "ocaml", "driver")
BIN_DIR = os.path.join(BUILD, "target-bin", "release")
NPROC = 16
SHARD_TIMEOUT = [3000]      # seconds per shard of requests; set by the check from the tier
HUNG = []                   # ids of requests the implementation did not return from

FORBIDDEN = re.compile(
    r"\b(Admitted|admit|Axiom|Axioms|Parameter|Parameters|Conjecture|Conjectures|Abort All)\b"
    r"|Unset\s+Guard|bypass_check|type-in-type|impredicative-set|Admit\s+Obligations|Unset\s+Universe\s+Checking"
    r"|Unset\s+Positivity")

# axioms of the standard library that may appear (none is expected; anything here is reported)
AXIOM_ALLOWLIST = set()


def sh(cmd, timeout=3000, cwd=None, env=None):
    e = dict(os.environ)
    e.update({"CARGO_NET_OFFLINE": "true"})
    if env:
        e.update(env)
    try:
        p = subprocess.run(cmd, shell=isinstance(cmd, str), executable=("/bin/bash" if isinstance(cmd, str) else None), cwd=cwd, env=e, timeout=timeout,
                           stdout=subprocess.PIPE, stderr=subprocess.STDOUT, text=True, errors="replace")
        return p.returncode, p.stdout
    except subprocess.TimeoutExpired as ex:
        return 124, "TIMEOUT " + str(ex.stdout)[-2000:]


def build_model():
    """Coq development (full .vo build, never -vos) + extracted driver."""
    return sh(["bash", os.path.join(VERIF, "build_model.sh")], timeout=3400)


def build_harness():
    """Rebuild the harness against /repo's current working tree with the hook cfg on."""
    lock_src = "/repo/Cargo.lock"
    lock_dst = os.path.join(VERIF, "harness", "Cargo.lock")
    if os.path.exists(lock_src):
        try:
            if not os.path.exists(lock_dst):
                import shutil
                shutil.copy(lock_src, lock_dst)
        except OSError:
            pass
    return sh("cargo build --release --offline 2>&1 | grep -v '^warning: unexpected\\|^ *|\\|^ *= \\|^ *-->\\|^$' | tail -40; exit ${PIPESTATUS[0]}",
              cwd=os.path.join(VERIF, "harness"), timeout=3000,
              env={"RUSTFLAGS": "--cfg hctl_verif", "CARGO_TARGET_DIR": os.path.join(BUILD, "target")})


def build_bins():
    """The two binaries of /repo, from the working tree, outside /repo."""
    return sh("cargo build --release --offline --bins 2>&1 | tail -20; exit ${PIPESTATUS[0]}",
              cwd="/repo", timeout=3000, env={"CARGO_TARGET_DIR": os.path.join(BUILD, "target-bin")})


def parse_answers(text):
    out = {}
    for line in text.splitlines():
        if not line.strip():
            continue
        parts = line.split(" ", 2)
        if len(parts) < 2:
            continue
        cid, status = parts[0], parts[1]
        payload = parts[2] if len(parts) > 2 else ""
        if status == "NOMODEL":
            out.setdefault(cid, {})["nomodel"] = True
            continue
        if status == "HYP":
            out.setdefault(cid, {})["hyp"] = payload
            continue
        if status == "INFO":
            out.setdefault(cid, {})["pn"] = tuple(int(x) for x in payload.split())
            continue
        out.setdefault(cid, {}).update({"status": status, "payload": payload})
    return out


def norm(ans):
    """canonical comparable form of an answer: (status, payload-or-class)"""
    if ans is None:
        return ("MISSING", "")
    st = ans.get("status")
    if st == "PANIC":
        return ("PANIC", "")          # the site is reported but not compared
    return (st, ans.get("payload", ""))


def run_shard(args):
    idx, lines, workdir = args
    req = os.path.join(workdir, "req-%d.txt" % idx)
    out = os.path.join(workdir, "out-%d" % idx)
    with open(req, "w") as f:
        f.write("\n".join(lines) + "\n")
    rc, o = sh([HARNESS, req, out], timeout=SHARD_TIMEOUT[0])
    if rc == 124:
        # the implementation did not return on some request: the first one without an answer
        answered = set()
        try:
            with open(out + ".impl") as f:
                answered = {ln.split(" ", 1)[0].split("#")[0] for ln in f if ln.strip()}
        except OSError:
            pass
        hung = None
        for ln in lines:
            parts = ln.split("\t")
            if len(parts) > 1 and parts[1] not in answered:
                hung = parts[1]
                break
        return {"error": "no answer from the implementation within %d s (request %s)" % (SHARD_TIMEOUT[0], hung),
                "hung": hung}
    if rc != 0:
        return {"error": "harness rc=%d %s" % (rc, o[-500:])}
    rc2, o2 = sh("ulimit -s unlimited 2>/dev/null || ulimit -s 1000000; exec %s %s.cases" % (DRIVER, out), timeout=3000)
    if rc2 != 0:
        return {"error": "driver rc=%d %s" % (rc2, o2[-500:])}
    with open(out + ".impl") as f:
        impl = parse_answers(f.read())
    model = parse_answers(o2)
    return {"impl": impl, "model": model}


def run_requests(lines, workdir, shards=NPROC):
    """Run request lines; returns {id: {'impl':..., 'model':..., 'oracle':...}}"""
    os.makedirs(workdir, exist_ok=True)
    n = max(1, min(shards, len(lines)))
    parts = [lines[i::n] for i in range(n)]
    res = {}
    errors = []
    with ThreadPoolExecutor(max_workers=n) as ex:
        for r in ex.map(run_shard, [(i, parts[i], workdir) for i in range(n)]):
            if "error" in r:
                errors.append(r["error"])
                if r.get("hung"):
                    HUNG.append(r["hung"])
                continue
            for cid, a in r["impl"].items():
                res.setdefault(cid, {})["impl"] = a
            for cid, a in r["model"].items():
                if cid.endswith("#o"):
                    res.setdefault(cid[:-2], {})["oracle"] = a
                else:
                    res.setdefault(cid, {})["model"] = a
    return res, errors


# ---------------------------------------------------------------- proofs
def sources_key():
    """hash of every .v file and of _CoqProject: the output of coqc on a property file is a
    function of these (make has just rebuilt every .vo from them)"""
    import hashlib
    h = hashlib.sha256()
    paths = [os.path.join(COQ, "_CoqProject")]
    for root, _, files in os.walk(os.path.join(COQ, "theories")):
        paths += [os.path.join(root, f) for f in files if f.endswith(".v")]
    for pth in sorted(paths):
        h.update(pth.encode())
        h.update(open(pth, "rb").read())
    return h.hexdigest()[:24]


def coqc_property_file(base):
    """(rc, output) of  coqc theories/Properties/<base>  (theorem statements re-checked, Print
    Assumptions printed).  The output is kept under .build/ keyed by the hash of all sources, so
    that several checks of one run do not recompile the same file; any change of any .v file
    changes the key."""
    cdir = os.path.join(BUILD, "coqc-out")
    os.makedirs(cdir, exist_ok=True)
    cf = os.path.join(cdir, "%s-%s.out" % (base, sources_key()))
    if os.path.exists(cf):
        return 0, open(cf).read()
    cmd = "coqc -q -Q theories HCTL theories/Properties/%s" % base
    rc, out = sh("timeout 1500 " + cmd, cwd=COQ, timeout=1600)
    if rc == 0:
        tmp = cf + ".%d" % os.getpid()
        with open(tmp, "w") as f:
            f.write(out)
        os.replace(tmp, cf)
        for old in os.listdir(cdir):          # outputs of earlier source states
            if old.startswith(base + "-") and os.path.join(cdir, old) != cf and old.endswith(".out"):
                try:
                    os.remove(os.path.join(cdir, old))
                except OSError:
                    pass
    return rc, out


def warm_proofs():
    """after setup: compile every property file once (in parallel) so that the checks find the output"""
    rc, out = build_model()
    if rc != 0:
        print(out[-2000:])
        return rc
    bases = sorted(f for f in os.listdir(os.path.join(COQ, "theories", "Properties")) if f.endswith(".v"))
    with ThreadPoolExecutor(max_workers=NPROC) as ex:
        res = list(ex.map(coqc_property_file, bases))
    bad = [b for b, (rc, _) in zip(bases, res) if rc != 0]
    print("[proofs] %d property files compiled%s" % (len(bases), (", FAILED: " + ", ".join(bad)) if bad else ""))
    return 1 if bad else 0


def check_proofs(prop, tier="quick"):
    """Re-check Properties/<prop>.v with coqc (its dependencies were built by make), collect
    the theorems, their Print Assumptions output, and grep the development for forbidden words.
    Returns dict(ok, obligations, discharged, theorems, axioms, problems, cmd)."""
    info = {"ok": False, "obligations": 0, "discharged": 0, "theorems": [], "axioms": [],
            "problems": [], "cmd": ""}
    rc, out = build_model()
    if rc != 0:
        info["problems"].append("make failed: " + out[-1500:])
        return info
    # forbidden constructs anywhere in the development
    for root, _, files in os.walk(os.path.join(COQ, "theories")):
        for fn in files:
            if fn.endswith(".v"):
                txt = open(os.path.join(root, fn)).read()
                txt_nc = re.sub(r"\(\*.*?\*\)", "", txt, flags=re.S)
                m = FORBIDDEN.search(txt_nc)
                if m:
                    info["problems"].append("forbidden construct %r in %s" % (m.group(0), fn))
    files = theorem_files(prop)
    if not files:
        # no theorem file yet for this property: nothing to discharge (evidence level drops)
        info["ok"] = not info["problems"]
        info["cmd"] = "cd /verif/coq && make -j16"
        return info
    cmds = []
    theorems_all = []
    for pf in files:
        base = os.path.basename(pf)
        cmd = "coqc -q -Q theories HCTL theories/Properties/%s" % base
        cmds.append(cmd)
        rc, out = coqc_property_file(base)
        if rc != 0:
            info["problems"].append("coqc failed on Properties/%s: %s" % (base, out[-1500:]))
            continue
        src = open(pf).read()
        src_nc = re.sub(r"\(\*.*?\*\)", "", src, flags=re.S)
        all_in_file = re.findall(r"^\s*(?:Theorem|Corollary)\s+(\w+)", src_nc, flags=re.M)
        theorems = theorems_of(pf, prop)
        theorems_all += theorems
        # Print Assumptions blocks: "Closed under the global context" or "Axioms:\n name : type ..."
        closed = out.count("Closed under the global context")
        axioms = re.findall(r"^Axioms:\n((?:.+\n?)+?)(?=^\S|\Z)", out, flags=re.M)
        ax_names = []
        for block in axioms:
            for line in block.splitlines():
                m = re.match(r"^(\S+)\s*:", line)
                if m:
                    ax_names.append(m.group(1))
        info["axioms"] = sorted(set(info["axioms"]) | set(ax_names))
        n_print = len(re.findall(r"^\s*Print Assumptions", src_nc, flags=re.M))
        if n_print < len(all_in_file):
            info["problems"].append("%s: %d theorems but only %d Print Assumptions" % (base, len(all_in_file), n_print))
        if closed + len(axioms) < n_print:
            info["problems"].append("%s: Print Assumptions output incomplete" % base)
    info["cmd"] = "cd /verif/coq && make -j16 && " + " && ".join(cmds)
    theorems = theorems_all
    info["theorems"] = theorems
    info["obligations"] = len(theorems)
    bad = [a for a in info["axioms"] if a not in AXIOM_ALLOWLIST]
    if bad:
        info["problems"].append("assumptions outside the allow-list: " + ", ".join(bad))
    info["files"] = [os.path.basename(f) for f in files]
    if tier == "thorough" and not info["problems"]:
        # independent re-check of the compiled property file and everything it depends on
        rc, out = sh("timeout 1500 coqchk -o -silent -Q theories HCTL %s" % " ".join("HCTL.Properties." + f[:-2] for f in info["files"]), cwd=COQ, timeout=1600)
        info["coqchk"] = out[-600:]
        if rc != 0 or "Axioms: <none>" not in out:
            info["problems"].append("coqchk: " + out[-400:])
    info["discharged"] = len(theorems) if not info["problems"] else 0
    info["ok"] = not info["problems"]
    return info


# ---------------------------------------------------------------- evidence / replays
SHARED_THEOREM_FILES = ["Cached.v"]     # theorems named <file stem>_<prop>_...: counted for <prop>


def theorem_files(prop):
    import glob
    fs = sorted(f for f in glob.glob(os.path.join(COQ, "theories", "Properties", prop + "*.v"))
                if re.fullmatch(re.escape(prop) + r"[a-z]?\.v", os.path.basename(f)))
    for sh_ in SHARED_THEOREM_FILES:
        pth = os.path.join(COQ, "theories", "Properties", sh_)
        if os.path.exists(pth) and re.search(r"^\s*(?:Theorem|Corollary)\s+%s_%s_" % (sh_[:-2], prop), open(pth).read(), flags=re.M):
            fs.append(pth)
    return fs


def theorems_of(pf, prop):
    src_nc = re.sub(r"\(\*.*?\*\)", "", open(pf).read(), flags=re.S)
    names = re.findall(r"^\s*(?:Theorem|Corollary)\s+(\w+)", src_nc, flags=re.M)
    if os.path.basename(pf) in SHARED_THEOREM_FILES:
        names = [n for n in names if n.startswith("%s_%s_" % (os.path.basename(pf)[:-2], prop))]
    return names


def has_theorem_file(prop):
    return bool(theorem_files(prop))


def count_theorems(prop):
    return sum(len(theorems_of(pf, prop)) for pf in theorem_files(prop))


def write_evidence(prop, tier, seed, wall, coverage, violations, assumptions, level=None, official=True):
    ev = {
        "property_id": prop,
        "tier": tier,
        "seed": int(seed),
        "level": level or ("proof" if coverage.get("obligations") else "exploration"),
        "coverage": coverage,
        "assumptions": assumptions,
        "wall_s": round(wall, 2),
        "violations": int(violations),
    }
    # runs that skipped the proofs (development, seeded-change runs) never overwrite the evidence
    evdir = os.path.join(VERIF, "evidence") if official else os.path.join(VERIF, ".build", "evidence-skip-proofs")
    os.makedirs(evdir, exist_ok=True)
    with open(os.path.join(evdir, prop + ".json"), "w") as f:
        json.dump(ev, f, indent=1)


def write_replay(prop, name, payload):
    d = os.path.join(VERIF, "replays")
    os.makedirs(d, exist_ok=True)
    path = os.path.join(d, "%s-%s.json" % (prop, name))
    with open(path, "w") as f:
        json.dump(payload, f, indent=1)
    return path


if __name__ == "__main__":
    import sys
    if len(sys.argv) > 1 and sys.argv[1] == "warm":
        sys.exit(warm_proofs())
