"""Common machinery of the checks: case registry, execution, judging, shrinking, reporting."""
import collections
import json
import os
import random
import shutil
import time

from . import gen, run


def load_known_findings():
    p = os.path.join(run.VERIF, "known_findings.json")
    if os.path.exists(p):
        return json.load(open(p))
    return {"open": [], "fixed": []}


def expand_bits(pn_bits, p, n, k):
    """Truth table over params + (state, k spares)* from a table over params + states
    (the set does not depend on the spare bits)."""
    if k == 0:
        return pn_bits
    m = p + n * (1 + k)
    out = []
    # positions (from the most significant) of the kept bits in the full layout
    kept = list(range(p)) + [p + i * (1 + k) for i in range(n)]
    for idx in range(1 << m):
        j = 0
        for pos in kept:
            j = (j << 1) | ((idx >> (m - 1 - pos)) & 1)
        out.append(pn_bits[j])
    return "".join(out)


PREP_CLASSES = {"Requantified", "FreeVar", "UnknownProp"}


class Check:
    def __init__(self, prop, tier, seed):
        self.prop = prop
        self.tier = tier
        self.seed = seed
        self.rng = random.Random("%s-%s" % (prop, seed))
        self.cases = collections.OrderedDict()
        self.results = {}
        self.violations = []       # failing inputs (impl contradicts the specification)
        self.tie_broken = []       # impl differs from the model, property not contradicted
        self.known_hits = collections.OrderedDict()
        self.stats = collections.Counter()
        self.nontrivial = set()
        self.samples = []
        self.infra_errors = []
        self.t0 = time.time()
        # one directory per run (concurrent runs of the same property must not collide);
        # directories of earlier runs that are no longer in use are removed
        base = os.path.join(run.BUILD, "work")
        os.makedirs(base, exist_ok=True)
        for d in os.listdir(base):
            if d.startswith(prop + "-"):
                try:
                    pid = int(d.rsplit("-", 1)[1])
                    os.kill(pid, 0)
                except (ValueError, ProcessLookupError, PermissionError):
                    shutil.rmtree(os.path.join(base, d), ignore_errors=True)
        self.workdir = os.path.join(base, "%s-%s-%d" % (prop, tier, os.getpid()))
        shutil.rmtree(self.workdir, ignore_errors=True)
        os.makedirs(self.workdir, exist_ok=True)
        self.known = [k for k in load_known_findings().get("open", []) if k["property"] == prop]
        self.counter = 0
        self.proof = None
        self.notes = []

    # ------------------------------------------------------------ registering cases
    def new_id(self, prefix="c"):
        self.counter += 1
        return "%s%d" % (prefix, self.counter)

    def add_eval(self, net, k, mode, formulas, ctx=(), tag="", expect=None, netname=""):
        """formulas: list of ASTs or raw strings.  ctx: list of (label, spec)."""
        cid = self.new_id("e")
        case = {"kind": "EVAL", "id": cid, "net": net, "k": k, "mode": mode,
                "formulas": list(formulas), "ctx": list(ctx), "tag": tag, "expect": expect,
                "netname": netname}
        self.cases[cid] = case
        return cid

    def add_front(self, kind, fields, tag="", meta=None):
        cid = self.new_id(kind[0].lower())
        case = {"kind": kind, "id": cid, "fields": list(fields), "tag": tag, "meta": meta}
        self.cases[cid] = case
        return cid

    @staticmethod
    def ftext(f):
        return f if isinstance(f, str) else gen.render(f)

    def req_line(self, case):
        if case["kind"] == "EVAL":
            ctx = ",".join("%s=%s" % (gen.hx(l), s) for l, s in case["ctx"]) or "-"
            fs = ",".join(gen.hx(self.ftext(f)) for f in case["formulas"])
            mode = case["mode"] or "-"
            return "\t".join(["EVAL", case["id"], mode, str(case["k"]), "A:" + gen.hx(case["net"]), ctx, fs])
        return "\t".join([case["kind"], case["id"]] + case["fields"])

    # ------------------------------------------------------------ running
    def execute(self, ids=None, sub="main"):
        ids = list(self.cases.keys()) if ids is None else ids
        lines = [self.req_line(self.cases[i]) for i in ids]
        if not lines:
            return
        res, errors = run.run_requests(lines, os.path.join(self.workdir, sub))
        self.infra_errors += errors
        self.results.update(res)
        self.stats["evaluations"] += len(lines)

    # ------------------------------------------------------------ judging EVAL cases
    def expected_error(self, case):
        """Error cause predicted from the syntax alone (independent of model and oracle):
        returns a set of admissible classes, empty when no error is expected."""
        out = set()
        for f in case["formulas"]:
            if isinstance(f, str):
                return None      # raw strings: no syntactic prediction
            if gen.free_vars(f):
                out.add("FreeVar")
            if requantifies(f):
                out.add("Requantified")
            if case.get("net"):
                from .props import net_props
                known = set(net_props(case["net"]))
                if any(x[0] == "T" and x[1] == "P" and x[2] not in known for x in gen.subtrees(f)):
                    out.add("UnknownProp")
            if gen.quant_depth(f) > case["k"]:
                out.add("VarSupport")
            w, d = gen.labels_of(f)
            have = {l for l, _ in case["ctx"]}
            if (w | d) - have:
                out.add("MissingContext")
            if out:
                break            # the first failing formula decides
        return out

    def judge_eval(self, cid, spec_relation=True):
        """Returns 'ok' | 'skip' | ('violation', why) | ('tie', why)."""
        case = self.cases[cid]
        r = self.results.get(cid, {})
        impl, model, oracle = r.get("impl"), r.get("model"), r.get("oracle")
        if impl is None:
            return ("tie", "no answer from the implementation harness")
        if impl.get("status") == "SKIP":
            self.stats["skipped:" + impl.get("payload", "")[:30]] += 1
            return "skip"
        i = run.norm(impl)
        # panics and nondeterminism contradict every property that observes the call
        if i[0] == "PANIC":
            return ("violation", "implementation panicked: " + impl.get("payload", ""))
        if i[0] == "NONDET":
            return ("violation", "repeated runs returned different answers")
        # --- specification-level check
        if spec_relation and oracle is not None and not impl.get("nomodel"):
            o = run.norm(oracle)
            malformed_ctx = any(isinstance(sp, str) and sp[:1] in ("R", "X") for _, sp in case.get("ctx", ()))
            if o[0] == "OK" and i[0] == "OK" and ("u" in case["mode"] or malformed_ctx):
                # the self-loop-free variant has its own semantics, and a context set that is not inside
                # the unit set is outside the documented precondition: compared with the model only
                pass
            elif o[0] == "OK" and i[0] == "OK":
                want = o[1].split(",")
                got = i[1].split(",")
                if "s" not in case["mode"]:
                    info = self.netinfo(cid)
                    want = [expand_bits(b, info[0], info[1], case["k"]) for b in want]
                if "SUPPORT" in i[1]:
                    return ("violation", "result depends on variables outside its universe")
                if "ENCODING" in i[1]:
                    return ("violation", "result is not expressed in the expected symbolic encoding "
                                         "(variable count differs / unusable with a graph built from the network)")
                if want != got:
                    bad = [j for j in range(min(len(want), len(got))) if want[j] != got[j]]
                    return ("violation", "result differs from the specification (formula index %s)" % bad)
            elif o[0] == "OK" and i[0] == "ERR":
                exp = self.expected_error(case)
                if exp is not None and not exp:
                    return ("violation", "error %s returned for an input the specification accepts" % i[1])
            elif o[0] == "ERR" and i[0] == "OK":
                return ("violation", "answer returned for an input the specification rejects (%s)" % o[1])
            elif o[0] == "FUEL":
                self.infra_errors.append("oracle out of fuel on %s" % cid)
        if i[0] == "ERR":
            exp = self.expected_error(case)
            if exp is not None and i[1] == "Prep":
                # scoping / proposition error whose wording the harness does not recognise
                exp = {("Prep" if e in PREP_CLASSES else e) for e in exp}
            if exp is not None and exp and i[1] not in exp:
                return ("violation", "error class %s, expected one of %s" % (i[1], sorted(exp)))
        if i[0] == "OK":
            exp = self.expected_error(case)
            if exp:
                return ("violation", "answer returned although the input must be rejected (%s)" % sorted(exp))
        if model is not None and model.get("hyp"):
            return ("tie", "the case violates a hypothesis of the theorems (%s): unit set or tables of "
                           "the library are not as modelled" % model.get("hyp"))
        # --- tie: implementation vs model
        if model is not None and not impl.get("nomodel"):
            mdl = run.norm(model)
            if i == ("ERR", "Prep") and mdl[0] == "ERR" and mdl[1] in PREP_CLASSES:
                mdl = i
            if mdl != i:
                if mdl[0] == "PANIC":
                    return ("tie", "model predicts a panic (%s), implementation answered %s" % (model.get("payload"), i[0]))
                return ("tie", "implementation %s / model %s" % (short(i), short(mdl)))
        elif model is None and not impl.get("nomodel"):
            return ("tie", "no answer from the model")
        return "ok"

    def netinfo(self, cid):
        """(p, n) as reported by the harness"""
        return self.results[cid]["impl"]["pn"]

    def record(self, cid, verdict):
        case = self.cases[cid]
        if verdict in ("ok", "skip"):
            return
        kind, why = verdict
        entry = {"id": cid, "why": why, "case": case, "answers": self.results.get(cid, {})}
        for kf in self.known:
            if known_match(kf, case, why):
                self.known_hits.setdefault(kf["id"], []).append(entry)
                return
        if kind == "violation":
            self.violations.append(entry)
        else:
            self.tie_broken.append(entry)

    def note_nontrivial(self, cid):
        """distinct inputs whose observable is neither empty/full nor an error"""
        r = self.results.get(cid, {})
        impl = r.get("impl")
        if not impl or impl.get("status") != "OK":
            return
        case = self.cases[cid]
        payload = impl.get("payload", "")
        parts = payload.split(",") if case["kind"] == "EVAL" else [payload]
        fs = case.get("formulas") or [case.get("fields")]
        for j, b in enumerate(parts):
            if case["kind"] == "EVAL" and ("1" not in b or "0" not in b):
                continue
            key = (case.get("net"), case.get("k"), case.get("mode"), tuple(case.get("ctx", ())),
                   repr(fs[j] if j < len(fs) else fs), b[:64])
            self.nontrivial.add(hash(key))

    # ------------------------------------------------------------ shrinking (EVAL cases)
    def shrink(self, entry, judge, rounds=12):
        """Greedy minimisation of a failing EVAL case while `judge` keeps failing."""
        case = dict(entry["case"])
        if case["kind"] != "EVAL" or any(isinstance(f, str) for f in case["formulas"]):
            return entry
        best = case
        best_why = entry["why"]
        for rnd in range(rounds):
            cands = []
            fs = best["formulas"]
            if len(fs) > 1:
                for j in range(len(fs)):
                    cands.append(dict(best, formulas=fs[:j] + fs[j + 1:]))
            for j, f in enumerate(fs):
                for c in list(gen.shrink_candidates(f))[:40]:
                    cands.append(dict(best, formulas=fs[:j] + [c] + fs[j + 1:]))
            if best["ctx"]:
                for j in range(len(best["ctx"])):
                    cands.append(dict(best, ctx=best["ctx"][:j] + best["ctx"][j + 1:]))
            if not cands:
                break
            ids = []
            for c in cands[:160]:
                cid = self.new_id("s")
                c = dict(c, id=cid)
                c.pop("pn", None)
                self.cases[cid] = c
                ids.append(cid)
            self.execute(ids, sub="shrink%d" % rnd)
            found = None
            for cid in ids:
                v = judge(cid)
                if isinstance(v, tuple) and v[0] == entry.get("kind", "violation"):
                    found = (cid, v[1])
                    break
            if not found:
                break
            best = self.cases[found[0]]
            best_why = found[1]
        return {"id": best["id"], "why": best_why, "case": best, "answers": self.results.get(best["id"], entry["answers"]),
                "kind": entry.get("kind", "violation")}


def short(x):
    return (x[0], x[1][:40] + ("..." if len(x[1]) > 40 else ""))


def count_vars(net):
    names = set()
    import re
    for line in net.splitlines():
        line = line.strip()
        if not line or line.startswith("#"):
            continue
        m = re.match(r"^\$(\w+)\s*:", line)
        if m:
            names.add(m.group(1))
            continue
        m = re.match(r"^(\w+)\s*-[>|?]{1,2}\??\s*(\w+)$", line)
        if m:
            names.add(m.group(1))
            names.add(m.group(2))
    return len(names)


def requantifies(t, bound=()):
    if t[0] == "T":
        return False
    if t[0] == "U":
        return requantifies(t[2], bound)
    if t[0] == "B":
        return requantifies(t[2], bound) or requantifies(t[3], bound)
    if t[1] == "Jump":
        return requantifies(t[4], bound)
    if t[2] in bound:
        return True
    return requantifies(t[4], tuple(bound) + (t[2],))


def known_match(kf, case, why):
    """Predicates of known findings are functions of the input (syntax, context), never of
    the observed output."""
    pred = kf.get("predicate")
    fn = KNOWN_PREDICATES.get(pred)
    return bool(fn and fn(case, kf))


KNOWN_PREDICATES = {}
