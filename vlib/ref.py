"""Independent Python references used as specification-level oracles for the front end:
maximal-munch lexer, precedence-climbing parser for the documented grammar, de Bruijn
normaliser, open de Bruijn form, S-expression reader for printed trees."""
import unicodedata

from . import gen

UNARY_WORDS = {"EX", "AX", "EF", "AF", "EG", "AG"}
BINARY_WORDS = {"EU", "AU", "EW", "AW"}
BIN_LEVEL = {"EU": 0, "AU": 0, "EW": 0, "AW": 0, "And": 1, "Xor": 2, "Or": 3, "Imp": 4, "Iff": 5}
UN_OF = {"~": "Not"}


class Reject(Exception):
    pass


def is_name_char(c):
    return c == "_" or c.isalnum()


def is_ws(c):
    return c.isspace() and (ord(c) < 0x1c or ord(c) > 0x1f)


def lex(s, ext):
    """documented lexical structure: returns a nested token list or raises Reject"""
    pos = 0
    n = len(s)

    def skip():
        nonlocal pos
        while pos < n and is_ws(s[pos]):
            pos += 1

    def name():
        nonlocal pos
        st = pos
        while pos < n and is_name_char(s[pos]):
            pos += 1
        return s[st:pos]

    def expect(c):
        nonlocal pos
        if pos < n and s[pos] == c:
            pos += 1
        else:
            raise Reject("expected %r at %d" % (c, pos))

    def segment(op, allow_dom):
        nonlocal pos
        skip()
        expect("{")
        x = name()
        if not x:
            raise Reject("empty variable")
        expect("}")
        skip()
        d = None
        if allow_dom and pos < n and s[pos] == "i":
            pos += 1
            expect("n")
            skip()
            expect("%")
            d = name()
            if not d:
                raise Reject("empty domain")
            expect("%")
            skip()
        expect(":")
        return ("hyb", op, x, d)

    def group(top):
        nonlocal pos
        out = []
        while True:
            skip()
            if pos >= n:
                if top:
                    return out
                raise Reject("unclosed (")
            c = s[pos]
            if c == ")":
                if top:
                    raise Reject("unexpected )")
                pos += 1
                return out
            if c == "(":
                pos += 1
                out.append(("group", group(False)))
            elif c == "~":
                pos += 1
                out.append(("un", "Not"))
            elif c == "&":
                pos += 1
                out.append(("bin", "And"))
            elif c == "|":
                pos += 1
                out.append(("bin", "Or"))
            elif c == "^":
                pos += 1
                out.append(("bin", "Xor"))
            elif s.startswith("=>", pos):
                pos += 2
                out.append(("bin", "Imp"))
            elif s.startswith("<=>", pos):
                pos += 3
                out.append(("bin", "Iff"))
            elif c == "!":
                pos += 1
                out.append(segment("Bind", ext))
            elif c == "@":
                pos += 1
                out.append(segment("Jump", False))
            elif c == "\\":
                pos += 1
                w = name()
                ops = {"bind": "Bind", "exists": "Exists", "forall": "Forall", "jump": "Jump"}
                if w not in ops:
                    raise Reject("bad long operator")
                out.append(segment(ops[w], ext and w != "jump"))
            elif c == "{":
                pos += 1
                x = name()
                if not x:
                    raise Reject("empty var")
                expect("}")
                out.append(("atom", "V", x))
            elif c == "%" and ext:
                pos += 1
                x = name()
                if not x:
                    raise Reject("empty wild")
                expect("%")
                out.append(("atom", "W", x))
            elif is_name_char(c):
                w = name()
                if w in UNARY_WORDS:
                    out.append(("un", w))
                elif w in BINARY_WORDS:
                    out.append(("bin", w))
                elif w == "3":
                    out.append(segment("Exists", ext))
                elif w == "V":
                    out.append(segment("Forall", ext))
                else:
                    out.append(("atom", "P", w))
            else:
                raise Reject("unexpected char %r" % c)

    return group(True)


def atom_tree(tok):
    _, k, name = tok
    if k == "P":
        if name in ("true", "True", "1"):
            return gen.T("1")
        if name in ("false", "False", "0"):
            return gen.T("0")
    return gen.T(k, name)


def parse(tokens):
    """Precedence climbing for the documented grammar (Appendix A.1): hybrid operators only in
    front of a formula/group, binary operators right-associative with levels
    temporal < & < ^ < | < => < <=>, unary operators bind tightest."""
    pos = 0

    def peek():
        return tokens[pos] if pos < len(tokens) else None

    def formula():
        nonlocal pos
        t = peek()
        if t and t[0] == "hyb":
            pos += 1
            body = formula()
            return ("H", t[1], t[2], t[3], body)
        return expr(5)

    def expr(level):
        nonlocal pos
        if level < 0:
            return unary()
        left = expr(level - 1)
        t = peek()
        if t and t[0] == "bin" and BIN_LEVEL[t[1]] == level:
            pos += 1
            right = expr(level)       # right associative
            return ("B", t[1], left, right)
        return left

    def unary():
        nonlocal pos
        t = peek()
        if t is None:
            raise Reject("expected formula")
        if t[0] == "un":
            pos += 1
            return ("U", t[1], unary())
        if t[0] == "atom":
            pos += 1
            return atom_tree(t)
        if t[0] == "group":
            pos += 1
            return parse(t[1])
        raise Reject("unexpected token %r" % (t,))

    res = formula()
    if pos != len(tokens):
        raise Reject("trailing tokens")
    return res


def ref_parse_string(s, ext):
    try:
        return parse(lex(s, ext))
    except Reject:
        return None
    except RecursionError:
        return None


# ---------------------------------------------------------------- S-expressions of printed trees
def read_sexpr(s):
    """Reader for the tree printer of harness/driver: returns (ast, stored) where stored is the
    list of (text, height, ast) of every node in pre-order."""
    toks = s.replace("(", " ( ").replace(")", " ) ").split()
    pos = 0
    stored = []

    def node():
        nonlocal pos
        assert toks[pos] == "("
        pos += 1
        kind = toks[pos]
        pos += 1
        if kind == "T":
            a = toks[pos]
            text, h = toks[pos + 1], int(toks[pos + 2])
            pos += 3
            if a == "1" or a == "0":
                t = gen.T(a)
            else:
                k, nm = a.split(":")
                t = gen.T(k, gen.unhx(nm))
            res = t
        elif kind == "U":
            op, text, h = toks[pos], toks[pos + 1], int(toks[pos + 2])
            pos += 3
            idx = len(stored)
            stored.append(None)
            c = node()
            res = ("U", op, c)
            stored[idx] = (gen.unhx(text), h, res)
            assert toks[pos] == ")"
            pos += 1
            return res
        elif kind == "B":
            op, text, h = toks[pos], toks[pos + 1], int(toks[pos + 2])
            pos += 3
            idx = len(stored)
            stored.append(None)
            l = node()
            r = node()
            res = ("B", op, l, r)
            stored[idx] = (gen.unhx(text), h, res)
            assert toks[pos] == ")"
            pos += 1
            return res
        else:
            op, x, d, text, h = toks[pos], toks[pos + 1], toks[pos + 2], toks[pos + 3], int(toks[pos + 4])
            pos += 5
            idx = len(stored)
            stored.append(None)
            c = node()
            res = ("H", op, gen.unhx(x), (None if d == "_" else gen.unhx(d)), c)
            stored[idx] = (gen.unhx(text), h, res)
            assert toks[pos] == ")"
            pos += 1
            return res
        stored.append((gen.unhx(text), h, res))
        assert toks[pos] == ")"
        pos += 1
        return res

    t = node()
    return t, stored


def height(t):
    if t[0] == "T":
        return 0
    if t[0] == "U":
        return 1 + height(t[2])
    if t[0] == "B":
        return 1 + max(height(t[2]), height(t[3]))
    return 1 + height(t[4])


# ---------------------------------------------------------------- de Bruijn forms
def debruijn(t, env=()):
    """closed de Bruijn normal form; free variables keep their names ('free', name)"""
    if t[0] == "T":
        if t[1] == "V":
            for i, v in enumerate(reversed(env)):
                if v == t[2]:
                    return ("T", "I", i)
            return ("T", "free", t[2])
        return t
    if t[0] == "U":
        return ("U", t[1], debruijn(t[2], env))
    if t[0] == "B":
        return ("B", t[1], debruijn(t[2], env), debruijn(t[3], env))
    if t[1] == "Jump":
        idx = None
        for i, v in enumerate(reversed(env)):
            if v == t[2]:
                idx = i
                break
        return ("H", "Jump", idx if idx is not None else ("free", t[2]), None, debruijn(t[4], env))
    return ("H", t[1], None, t[3], debruijn(t[4], tuple(env) + (t[2],)))


def open_debruijn(t):
    """form that identifies sub-formulae equal up to a consistent renaming of variables:
    bound variables by index, free variables by order of first occurrence"""
    free_order = {}

    def go(t, env):
        if t[0] == "T":
            if t[1] == "V":
                for i, v in enumerate(reversed(env)):
                    if v == t[2]:
                        return ("T", "I", i)
                if t[2] not in free_order:
                    free_order[t[2]] = len(free_order)
                return ("T", "F", free_order[t[2]])
            return t
        if t[0] == "U":
            return ("U", t[1], go(t[2], env))
        if t[0] == "B":
            l = go(t[2], env)
            return ("B", t[1], l, go(t[3], env))
        if t[1] == "Jump":
            key = None
            for i, v in enumerate(reversed(env)):
                if v == t[2]:
                    key = ("I", i)
                    break
            if key is None:
                if t[2] not in free_order:
                    free_order[t[2]] = len(free_order)
                key = ("F", free_order[t[2]])
            return ("H", "Jump", key, None, go(t[4], env))
        return ("H", t[1], None, t[3], go(t[4], tuple(env) + (t[2],)))

    r = go(t, ())
    return r, dict(free_order)


def well_scoped(t, props, env=()):
    """None when accepted, else the class of the first problem in the order the
    preprocessing reports it"""
    if t[0] == "T":
        if t[1] == "V" and t[2] not in env:
            return "FreeVar"
        if t[1] == "P" and t[2] not in props:
            return "UnknownProp"
        return None
    if t[0] == "U":
        return well_scoped(t[2], props, env)
    if t[0] == "B":
        return well_scoped(t[2], props, env) or well_scoped(t[3], props, env)
    if t[1] == "Jump":
        return well_scoped(t[4], props, env) or (None if t[2] in env else "FreeVar")
    if t[2] in env:
        return "Requantified"
    return well_scoped(t[4], props, tuple(env) + (t[2],))


def rename_by_depth(t, env=None, depth=0):
    """the expected result of preprocessing: binder at quantifier depth d is named x^(d+1)"""
    env = env or {}
    if t[0] == "T":
        return ("T", "V", env[t[2]]) if t[1] == "V" else t
    if t[0] == "U":
        return ("U", t[1], rename_by_depth(t[2], env, depth))
    if t[0] == "B":
        return ("B", t[1], rename_by_depth(t[2], env, depth), rename_by_depth(t[3], env, depth))
    if t[1] == "Jump":
        return ("H", "Jump", env[t[2]], None, rename_by_depth(t[4], env, depth))
    e2 = dict(env)
    e2[t[2]] = "x" * (depth + 1)
    return ("H", t[1], "x" * (depth + 1), t[3], rename_by_depth(t[4], e2, depth + 1))
