#!/bin/bash
# Build everything from files on disk, offline: Coq development (full .vo build), extracted
# OCaml driver, Rust harness (against /repo's working tree, hook cfg on).
set -e
cd "$(dirname "$0")"
export CARGO_NET_OFFLINE=true
./build_model.sh
mkdir -p .build
[ -f harness/Cargo.lock ] || cp /repo/Cargo.lock harness/Cargo.lock
(cd harness && RUSTFLAGS="--cfg hctl_verif" CARGO_TARGET_DIR=../.build/target cargo build --release --offline 2>&1 | tail -3)
# extraction sanity: the extracted driver must print what the kernel computed (ExtractionSanity.v)
.build/ocaml/driver ocaml/sanity_cases.txt | diff - ocaml/sanity_expected.txt || { echo "EXTRACTION-SANITY-FAILED"; exit 1; }
# compile every property file once (theorem statements + Print Assumptions), in parallel
python3 -m vlib.run warm
echo setup done
