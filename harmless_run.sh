#!/bin/bash
# usage: harmless_run.sh <diff>... : apply a behaviour-preserving change to /repo, run every quick
# check (proofs skipped), undo it; prints the checks that reported something.
cd /verif
trap 'git -C /repo checkout -- .' EXIT
trap 'git -C /repo checkout -- .; exit 130' INT TERM
for d in "$@"; do
  git -C /repo checkout -- . ; git -C /repo apply $d || { echo "$d PATCH-DOES-NOT-APPLY"; continue; }
  bad=""
  for p in C01 C02 C03 C04 C05 C06 C07 C08 C09 C10 C11 C12 C13 C14 C15 C16 C17 C18 C19 C20; do
    n=$(timeout 1200 ./check.py $p --tier quick --skip-proofs 2>&1 | grep -c "^VIOLATION")
    if [ "$n" -ge 1 ]; then bad="$bad $p($n)"; mkdir -p /tmp/harmless-replays/$(basename $(dirname $d))-$(basename $d .diff); cp replays/$p-*.json /tmp/harmless-replays/$(basename $(dirname $d))-$(basename $d .diff)/ 2>/dev/null; fi
  done
  git -C /repo checkout -- .
  echo "$d : ${bad:- quiet}"
done
