#!/bin/bash
# usage: goal.sh <file.v> <line> : show the proof state just before <line>
f=$1; l=$2
tmp=/tmp/goal_$$.v
head -n $((l-1)) $f > $tmp
echo "Show. " >> $tmp
cd /verif/coq && coqc -q -Q theories HCTL $tmp 2>&1 | tail -${3:-40}
rm -f $tmp /tmp/goal_$$.vo /tmp/goal_$$.glob /tmp/.goal_$$.aux
