
(** val implb : bool -> bool -> bool **)

let implb b1 b2 =
  if b1 then b2 else true

(** val xorb : bool -> bool -> bool **)

let xorb b1 b2 =
  if b1 then if b2 then false else true else b2

(** val negb : bool -> bool **)

let negb = function
| true -> false
| false -> true

type nat =
| O
| S of nat

(** val fst : ('a1 * 'a2) -> 'a1 **)

let fst = function
| (x, _) -> x

(** val snd : ('a1 * 'a2) -> 'a2 **)

let snd = function
| (_, y) -> y

(** val length : 'a1 list -> nat **)

let rec length = function
| [] -> O
| _ :: l' -> S (length l')

(** val app : 'a1 list -> 'a1 list -> 'a1 list **)

let rec app l m =
  match l with
  | [] -> m
  | a :: l1 -> a :: (app l1 m)

type comparison =
| Eq
| Lt
| Gt

module Coq__1 = struct
 (** val add : nat -> nat -> nat **)
 let rec add n0 m =
   match n0 with
   | O -> m
   | S p -> S (add p m)
end
include Coq__1

(** val mul : nat -> nat -> nat **)

let rec mul n0 m =
  match n0 with
  | O -> O
  | S p -> add m (mul p m)

(** val eqb : bool -> bool -> bool **)

let eqb b1 b2 =
  if b1 then b2 else if b2 then false else true

module Nat =
 struct
  (** val add : nat -> nat -> nat **)

  let rec add n0 m =
    match n0 with
    | O -> m
    | S p -> S (add p m)

  (** val mul : nat -> nat -> nat **)

  let rec mul n0 m =
    match n0 with
    | O -> O
    | S p -> add m (mul p m)

  (** val eqb : nat -> nat -> bool **)

  let rec eqb n0 m =
    match n0 with
    | O -> (match m with
            | O -> true
            | S _ -> false)
    | S n' -> (match m with
               | O -> false
               | S m' -> eqb n' m')

  (** val leb : nat -> nat -> bool **)

  let rec leb n0 m =
    match n0 with
    | O -> true
    | S n' -> (match m with
               | O -> false
               | S m' -> leb n' m')

  (** val ltb : nat -> nat -> bool **)

  let ltb n0 m =
    leb (S n0) m

  (** val max : nat -> nat -> nat **)

  let rec max n0 m =
    match n0 with
    | O -> m
    | S n' -> (match m with
               | O -> n0
               | S m' -> S (max n' m'))

  (** val pow : nat -> nat -> nat **)

  let rec pow n0 = function
  | O -> S O
  | S m0 -> mul n0 (pow n0 m0)
 end

(** val tl : 'a1 list -> 'a1 list **)

let tl = function
| [] -> []
| _ :: m -> m

(** val nth : nat -> 'a1 list -> 'a1 -> 'a1 **)

let rec nth n0 l default =
  match n0 with
  | O -> (match l with
          | [] -> default
          | x :: _ -> x)
  | S m -> (match l with
            | [] -> default
            | _ :: t -> nth m t default)

(** val rev : 'a1 list -> 'a1 list **)

let rec rev = function
| [] -> []
| x :: l' -> app (rev l') (x :: [])

(** val map : ('a1 -> 'a2) -> 'a1 list -> 'a2 list **)

let rec map f = function
| [] -> []
| a :: t -> (f a) :: (map f t)

(** val flat_map : ('a1 -> 'a2 list) -> 'a1 list -> 'a2 list **)

let rec flat_map f = function
| [] -> []
| x :: t -> app (f x) (flat_map f t)

(** val fold_left : ('a1 -> 'a2 -> 'a1) -> 'a2 list -> 'a1 -> 'a1 **)

let rec fold_left f l a0 =
  match l with
  | [] -> a0
  | b :: t -> fold_left f t (f a0 b)

(** val fold_right : ('a2 -> 'a1 -> 'a1) -> 'a1 -> 'a2 list -> 'a1 **)

let rec fold_right f a0 = function
| [] -> a0
| b :: t -> f b (fold_right f a0 t)

(** val existsb : ('a1 -> bool) -> 'a1 list -> bool **)

let rec existsb f = function
| [] -> false
| a :: l0 -> (||) (f a) (existsb f l0)

(** val forallb : ('a1 -> bool) -> 'a1 list -> bool **)

let rec forallb f = function
| [] -> true
| a :: l0 -> (&&) (f a) (forallb f l0)

(** val filter : ('a1 -> bool) -> 'a1 list -> 'a1 list **)

let rec filter f = function
| [] -> []
| x :: l0 -> if f x then x :: (filter f l0) else filter f l0

(** val find : ('a1 -> bool) -> 'a1 list -> 'a1 option **)

let rec find f = function
| [] -> None
| x :: tl0 -> if f x then Some x else find f tl0

type positive =
| XI of positive
| XO of positive
| XH

type n =
| N0
| Npos of positive

module Pos =
 struct
  type mask =
  | IsNul
  | IsPos of positive
  | IsNeg
 end

module Coq_Pos =
 struct
  (** val succ : positive -> positive **)

  let rec succ = function
  | XI p -> XO (succ p)
  | XO p -> XI p
  | XH -> XO XH

  (** val add : positive -> positive -> positive **)

  let rec add x y =
    match x with
    | XI p ->
      (match y with
       | XI q -> XO (add_carry p q)
       | XO q -> XI (add p q)
       | XH -> XO (succ p))
    | XO p ->
      (match y with
       | XI q -> XI (add p q)
       | XO q -> XO (add p q)
       | XH -> XI p)
    | XH -> (match y with
             | XI q -> XO (succ q)
             | XO q -> XI q
             | XH -> XO XH)

  (** val add_carry : positive -> positive -> positive **)

  and add_carry x y =
    match x with
    | XI p ->
      (match y with
       | XI q -> XI (add_carry p q)
       | XO q -> XO (add_carry p q)
       | XH -> XI (succ p))
    | XO p ->
      (match y with
       | XI q -> XO (add_carry p q)
       | XO q -> XI (add p q)
       | XH -> XO (succ p))
    | XH ->
      (match y with
       | XI q -> XI (succ q)
       | XO q -> XO (succ q)
       | XH -> XI XH)

  (** val pred_double : positive -> positive **)

  let rec pred_double = function
  | XI p -> XI (XO p)
  | XO p -> XI (pred_double p)
  | XH -> XH

  type mask = Pos.mask =
  | IsNul
  | IsPos of positive
  | IsNeg

  (** val succ_double_mask : mask -> mask **)

  let succ_double_mask = function
  | IsNul -> IsPos XH
  | IsPos p -> IsPos (XI p)
  | IsNeg -> IsNeg

  (** val double_mask : mask -> mask **)

  let double_mask = function
  | IsPos p -> IsPos (XO p)
  | x0 -> x0

  (** val double_pred_mask : positive -> mask **)

  let double_pred_mask = function
  | XI p -> IsPos (XO (XO p))
  | XO p -> IsPos (XO (pred_double p))
  | XH -> IsNul

  (** val sub_mask : positive -> positive -> mask **)

  let rec sub_mask x y =
    match x with
    | XI p ->
      (match y with
       | XI q -> double_mask (sub_mask p q)
       | XO q -> succ_double_mask (sub_mask p q)
       | XH -> IsPos (XO p))
    | XO p ->
      (match y with
       | XI q -> succ_double_mask (sub_mask_carry p q)
       | XO q -> double_mask (sub_mask p q)
       | XH -> IsPos (pred_double p))
    | XH -> (match y with
             | XH -> IsNul
             | _ -> IsNeg)

  (** val sub_mask_carry : positive -> positive -> mask **)

  and sub_mask_carry x y =
    match x with
    | XI p ->
      (match y with
       | XI q -> succ_double_mask (sub_mask_carry p q)
       | XO q -> double_mask (sub_mask p q)
       | XH -> IsPos (pred_double p))
    | XO p ->
      (match y with
       | XI q -> double_mask (sub_mask_carry p q)
       | XO q -> succ_double_mask (sub_mask_carry p q)
       | XH -> double_pred_mask p)
    | XH -> IsNeg

  (** val size : positive -> positive **)

  let rec size = function
  | XI p0 -> succ (size p0)
  | XO p0 -> succ (size p0)
  | XH -> XH

  (** val compare_cont : comparison -> positive -> positive -> comparison **)

  let rec compare_cont r x y =
    match x with
    | XI p ->
      (match y with
       | XI q -> compare_cont r p q
       | XO q -> compare_cont Gt p q
       | XH -> Gt)
    | XO p ->
      (match y with
       | XI q -> compare_cont Lt p q
       | XO q -> compare_cont r p q
       | XH -> Gt)
    | XH -> (match y with
             | XH -> r
             | _ -> Lt)

  (** val compare : positive -> positive -> comparison **)

  let compare =
    compare_cont Eq

  (** val eqb : positive -> positive -> bool **)

  let rec eqb p q =
    match p with
    | XI p0 -> (match q with
                | XI q0 -> eqb p0 q0
                | _ -> false)
    | XO p0 -> (match q with
                | XO q0 -> eqb p0 q0
                | _ -> false)
    | XH -> (match q with
             | XH -> true
             | _ -> false)

  (** val iter_op : ('a1 -> 'a1 -> 'a1) -> positive -> 'a1 -> 'a1 **)

  let rec iter_op op p a =
    match p with
    | XI p0 -> op a (iter_op op p0 (op a a))
    | XO p0 -> iter_op op p0 (op a a)
    | XH -> a

  (** val to_nat : positive -> nat **)

  let to_nat x =
    iter_op Coq__1.add x (S O)

  (** val of_succ_nat : nat -> positive **)

  let rec of_succ_nat = function
  | O -> XH
  | S x -> succ (of_succ_nat x)
 end

module N =
 struct
  (** val succ_double : n -> n **)

  let succ_double = function
  | N0 -> Npos XH
  | Npos p -> Npos (XI p)

  (** val double : n -> n **)

  let double = function
  | N0 -> N0
  | Npos p -> Npos (XO p)

  (** val add : n -> n -> n **)

  let add n0 m =
    match n0 with
    | N0 -> m
    | Npos p -> (match m with
                 | N0 -> n0
                 | Npos q -> Npos (Coq_Pos.add p q))

  (** val sub : n -> n -> n **)

  let sub n0 m =
    match n0 with
    | N0 -> N0
    | Npos n' ->
      (match m with
       | N0 -> n0
       | Npos m' ->
         (match Coq_Pos.sub_mask n' m' with
          | Coq_Pos.IsPos p -> Npos p
          | _ -> N0))

  (** val compare : n -> n -> comparison **)

  let compare n0 m =
    match n0 with
    | N0 -> (match m with
             | N0 -> Eq
             | Npos _ -> Lt)
    | Npos n' -> (match m with
                  | N0 -> Gt
                  | Npos m' -> Coq_Pos.compare n' m')

  (** val eqb : n -> n -> bool **)

  let eqb n0 m =
    match n0 with
    | N0 -> (match m with
             | N0 -> true
             | Npos _ -> false)
    | Npos p -> (match m with
                 | N0 -> false
                 | Npos q -> Coq_Pos.eqb p q)

  (** val leb : n -> n -> bool **)

  let leb x y =
    match compare x y with
    | Gt -> false
    | _ -> true

  (** val ltb : n -> n -> bool **)

  let ltb x y =
    match compare x y with
    | Lt -> true
    | _ -> false

  (** val log2 : n -> n **)

  let log2 = function
  | N0 -> N0
  | Npos p0 ->
    (match p0 with
     | XI p -> Npos (Coq_Pos.size p)
     | XO p -> Npos (Coq_Pos.size p)
     | XH -> N0)

  (** val pos_div_eucl : positive -> n -> n * n **)

  let rec pos_div_eucl a b =
    match a with
    | XI a' ->
      let (q, r) = pos_div_eucl a' b in
      let r' = succ_double r in
      if leb b r' then ((succ_double q), (sub r' b)) else ((double q), r')
    | XO a' ->
      let (q, r) = pos_div_eucl a' b in
      let r' = double r in
      if leb b r' then ((succ_double q), (sub r' b)) else ((double q), r')
    | XH ->
      (match b with
       | N0 -> (N0, (Npos XH))
       | Npos p -> (match p with
                    | XH -> ((Npos XH), N0)
                    | _ -> (N0, (Npos XH))))

  (** val div_eucl : n -> n -> n * n **)

  let div_eucl a b =
    match a with
    | N0 -> (N0, N0)
    | Npos na -> (match b with
                  | N0 -> (N0, a)
                  | Npos _ -> pos_div_eucl na b)

  (** val div : n -> n -> n **)

  let div a b =
    fst (div_eucl a b)

  (** val modulo : n -> n -> n **)

  let modulo a b =
    snd (div_eucl a b)

  (** val to_nat : n -> nat **)

  let to_nat = function
  | N0 -> O
  | Npos p -> Coq_Pos.to_nat p

  (** val of_nat : nat -> n **)

  let of_nat = function
  | O -> N0
  | S n' -> Npos (Coq_Pos.of_succ_nat n')
 end

type str = n list

(** val list_eqb : ('a1 -> 'a1 -> bool) -> 'a1 list -> 'a1 list -> bool **)

let rec list_eqb eqb0 a b =
  match a with
  | [] -> (match b with
           | [] -> true
           | _ :: _ -> false)
  | x :: a' ->
    (match b with
     | [] -> false
     | y :: b' -> (&&) (eqb0 x y) (list_eqb eqb0 a' b'))

(** val str_eqb : str -> str -> bool **)

let str_eqb a b =
  list_eqb N.eqb a b

(** val opt_eqb : ('a1 -> 'a1 -> bool) -> 'a1 option -> 'a1 option -> bool **)

let opt_eqb eqb0 a b =
  match a with
  | Some x -> (match b with
               | Some y -> eqb0 x y
               | None -> false)
  | None -> (match b with
             | Some _ -> false
             | None -> true)

type errkind =
| ELex
| EParse
| EFreeVar
| ERequantified
| EUnknownProp
| EMissingContext
| EVarSupport

type panicsite =
| PWildCardUnreachable
| PDomainLookup
| PReverseRenaming
| PExtraVarIndex
| PRestrictedUnitEmpty
| PSanitizeDependsOnExtras
| PPropLookup
| PDupCounter
| PShape
| PHybridQuantifier

type 'a res =
| Ok of 'a
| Err of errkind
| Panic of panicsite
| OutOfFuel

(** val bind : 'a1 res -> ('a1 -> 'a2 res) -> 'a2 res **)

let bind r f =
  match r with
  | Ok a -> f a
  | Err e -> Err e
  | Panic p -> Panic p
  | OutOfFuel -> OutOfFuel

(** val alookup :
    ('a1 -> 'a1 -> bool) -> 'a1 -> ('a1 * 'a2) list -> 'a2 option **)

let rec alookup eqb0 k = function
| [] -> None
| p :: l' ->
  let (k', v) = p in if eqb0 k k' then Some v else alookup eqb0 k l'

(** val aremove :
    ('a1 -> 'a1 -> bool) -> 'a1 -> ('a1 * 'a2) list -> ('a1 * 'a2) list **)

let rec aremove eqb0 k = function
| [] -> []
| p :: l' ->
  let (k', v) = p in
  if eqb0 k k' then aremove eqb0 k l' else (k', v) :: (aremove eqb0 k l')

(** val ainsert :
    ('a1 -> 'a1 -> bool) -> 'a1 -> 'a2 -> ('a1 * 'a2) list -> ('a1 * 'a2) list **)

let ainsert eqb0 k v l =
  (k, v) :: (aremove eqb0 k l)

(** val amem : ('a1 -> 'a1 -> bool) -> 'a1 -> ('a1 * 'a2) list -> bool **)

let amem eqb0 k l =
  match alookup eqb0 k l with
  | Some _ -> true
  | None -> false

(** val str_ltb : str -> str -> bool **)

let rec str_ltb a b =
  match a with
  | [] -> (match b with
           | [] -> false
           | _ :: _ -> true)
  | x :: a' ->
    (match b with
     | [] -> false
     | y :: b' ->
       if N.ltb x y then true else if N.eqb x y then str_ltb a' b' else false)

(** val sinsert : str -> 'a1 -> (str * 'a1) list -> (str * 'a1) list **)

let rec sinsert k v = function
| [] -> (k, v) :: []
| p :: l' ->
  let (k', v') = p in
  if str_eqb k k'
  then (k, v) :: l'
  else if str_ltb k k'
       then (k, v) :: ((k', v') :: l')
       else (k', v') :: (sinsert k v l')

(** val dec_digits : nat -> n -> str -> str **)

let rec dec_digits fuel n0 acc =
  match fuel with
  | O -> acc
  | S f ->
    let d = N.modulo n0 (Npos (XO (XI (XO XH)))) in
    let q = N.div n0 (Npos (XO (XI (XO XH)))) in
    let acc' = (N.add (Npos (XO (XO (XO (XO (XI XH)))))) d) :: acc in
    if N.eqb q N0 then acc' else dec_digits f q acc'

(** val dec_of_N : n -> str **)

let dec_of_N n0 =
  dec_digits (S (N.to_nat (N.log2 n0))) n0 []

type unop =
| Not
| EX
| AX
| EF
| AF
| EG
| AG

type binop =
| And
| Or
| Xor
| Imp
| Iff
| EU
| AU
| EW
| AW

type hybop =
| Bind
| Jump
| Exists
| Forall

type atom =
| AProp of str
| AVar of str
| ATrue
| AFalse
| AWild of str

type tree =
| Terminal of atom
| Unary of unop * tree
| Binary of binop * tree * tree
| Hybrid of hybop * str * str option * tree

type token =
| TUn of unop
| TBin of binop
| THyb of hybop * str * str option
| TAtom of atom
| TGroup of token list

(** val unop_eqb : unop -> unop -> bool **)

let unop_eqb a b =
  match a with
  | Not -> (match b with
            | Not -> true
            | _ -> false)
  | EX -> (match b with
           | EX -> true
           | _ -> false)
  | AX -> (match b with
           | AX -> true
           | _ -> false)
  | EF -> (match b with
           | EF -> true
           | _ -> false)
  | AF -> (match b with
           | AF -> true
           | _ -> false)
  | EG -> (match b with
           | EG -> true
           | _ -> false)
  | AG -> (match b with
           | AG -> true
           | _ -> false)

(** val binop_eqb : binop -> binop -> bool **)

let binop_eqb a b =
  match a with
  | And -> (match b with
            | And -> true
            | _ -> false)
  | Or -> (match b with
           | Or -> true
           | _ -> false)
  | Xor -> (match b with
            | Xor -> true
            | _ -> false)
  | Imp -> (match b with
            | Imp -> true
            | _ -> false)
  | Iff -> (match b with
            | Iff -> true
            | _ -> false)
  | EU -> (match b with
           | EU -> true
           | _ -> false)
  | AU -> (match b with
           | AU -> true
           | _ -> false)
  | EW -> (match b with
           | EW -> true
           | _ -> false)
  | AW -> (match b with
           | AW -> true
           | _ -> false)

(** val hybop_eqb : hybop -> hybop -> bool **)

let hybop_eqb a b =
  match a with
  | Bind -> (match b with
             | Bind -> true
             | _ -> false)
  | Jump -> (match b with
             | Jump -> true
             | _ -> false)
  | Exists -> (match b with
               | Exists -> true
               | _ -> false)
  | Forall -> (match b with
               | Forall -> true
               | _ -> false)

(** val atom_eqb : atom -> atom -> bool **)

let atom_eqb a b =
  match a with
  | AProp x -> (match b with
                | AProp y -> str_eqb x y
                | _ -> false)
  | AVar x -> (match b with
               | AVar y -> str_eqb x y
               | _ -> false)
  | ATrue -> (match b with
              | ATrue -> true
              | _ -> false)
  | AFalse -> (match b with
               | AFalse -> true
               | _ -> false)
  | AWild x -> (match b with
                | AWild y -> str_eqb x y
                | _ -> false)

(** val tree_eqb : tree -> tree -> bool **)

let rec tree_eqb a b =
  match a with
  | Terminal x -> (match b with
                   | Terminal y -> atom_eqb x y
                   | _ -> false)
  | Unary (o, t) ->
    (match b with
     | Unary (o', t') -> (&&) (unop_eqb o o') (tree_eqb t t')
     | _ -> false)
  | Binary (o, l, r) ->
    (match b with
     | Binary (o', l', r') ->
       (&&) ((&&) (binop_eqb o o') (tree_eqb l l')) (tree_eqb r r')
     | _ -> false)
  | Hybrid (o, x, d, t) ->
    (match b with
     | Hybrid (o', x', d', t') ->
       (&&)
         ((&&) ((&&) (hybop_eqb o o') (str_eqb x x')) (opt_eqb str_eqb d d'))
         (tree_eqb t t')
     | _ -> false)

(** val c_lpar : n **)

let c_lpar =
  Npos (XO (XO (XO (XI (XO XH)))))

(** val c_rpar : n **)

let c_rpar =
  Npos (XI (XO (XO (XI (XO XH)))))

(** val c_tilde : n **)

let c_tilde =
  Npos (XO (XI (XI (XI (XI (XI XH))))))

(** val c_space : n **)

let c_space =
  Npos (XO (XO (XO (XO (XO XH)))))

(** val c_lbrace : n **)

let c_lbrace =
  Npos (XI (XI (XO (XI (XI (XI XH))))))

(** val c_rbrace : n **)

let c_rbrace =
  Npos (XI (XO (XI (XI (XI (XI XH))))))

(** val c_pct : n **)

let c_pct =
  Npos (XI (XO (XI (XO (XO XH)))))

(** val c_colon : n **)

let c_colon =
  Npos (XO (XI (XO (XI (XI XH)))))

(** val c_bang : n **)

let c_bang =
  Npos (XI (XO (XO (XO (XO XH)))))

(** val c_three : n **)

let c_three =
  Npos (XI (XI (XO (XO (XI XH)))))

(** val c_V : n **)

let c_V =
  Npos (XO (XI (XI (XO (XI (XO XH))))))

(** val c_at : n **)

let c_at =
  Npos (XO (XO (XO (XO (XO (XO XH))))))

(** val c_amp : n **)

let c_amp =
  Npos (XO (XI (XI (XO (XO XH)))))

(** val c_bar : n **)

let c_bar =
  Npos (XO (XO (XI (XI (XI (XI XH))))))

(** val c_caret : n **)

let c_caret =
  Npos (XO (XI (XI (XI (XI (XO XH))))))

(** val c_eq : n **)

let c_eq =
  Npos (XI (XO (XI (XI (XI XH)))))

(** val c_gt : n **)

let c_gt =
  Npos (XO (XI (XI (XI (XI XH)))))

(** val c_lt : n **)

let c_lt =
  Npos (XO (XO (XI (XI (XI XH)))))

(** val c_E : n **)

let c_E =
  Npos (XI (XO (XI (XO (XO (XO XH))))))

(** val c_A : n **)

let c_A =
  Npos (XI (XO (XO (XO (XO (XO XH))))))

(** val c_X : n **)

let c_X =
  Npos (XO (XO (XO (XI (XI (XO XH))))))

(** val c_F : n **)

let c_F =
  Npos (XO (XI (XI (XO (XO (XO XH))))))

(** val c_G : n **)

let c_G =
  Npos (XI (XI (XI (XO (XO (XO XH))))))

(** val c_U : n **)

let c_U =
  Npos (XI (XO (XI (XO (XI (XO XH))))))

(** val c_W : n **)

let c_W =
  Npos (XI (XI (XI (XO (XI (XO XH))))))

(** val c_i : n **)

let c_i =
  Npos (XI (XO (XO (XI (XO (XI XH))))))

(** val c_n : n **)

let c_n =
  Npos (XO (XI (XI (XI (XO (XI XH))))))

(** val c_bslash : n **)

let c_bslash =
  Npos (XO (XO (XI (XI (XI (XO XH))))))

(** val c_underscore : n **)

let c_underscore =
  Npos (XI (XI (XI (XI (XI (XO XH))))))

(** val c_x : n **)

let c_x =
  Npos (XO (XO (XO (XI (XI (XI XH))))))

(** val s_True : str **)

let s_True =
  (Npos (XO (XO (XI (XO (XI (XO XH))))))) :: ((Npos (XO (XI (XO (XO (XI (XI
    XH))))))) :: ((Npos (XI (XO (XI (XO (XI (XI XH))))))) :: ((Npos (XI (XO
    (XI (XO (XO (XI XH))))))) :: [])))

(** val s_False : str **)

let s_False =
  (Npos (XO (XI (XI (XO (XO (XO XH))))))) :: ((Npos (XI (XO (XO (XO (XO (XI
    XH))))))) :: ((Npos (XO (XO (XI (XI (XO (XI XH))))))) :: ((Npos (XI (XI
    (XO (XO (XI (XI XH))))))) :: ((Npos (XI (XO (XI (XO (XO (XI
    XH))))))) :: []))))

(** val s_true : str **)

let s_true =
  (Npos (XO (XO (XI (XO (XI (XI XH))))))) :: ((Npos (XO (XI (XO (XO (XI (XI
    XH))))))) :: ((Npos (XI (XO (XI (XO (XI (XI XH))))))) :: ((Npos (XI (XO
    (XI (XO (XO (XI XH))))))) :: [])))

(** val s_false : str **)

let s_false =
  (Npos (XO (XI (XI (XO (XO (XI XH))))))) :: ((Npos (XI (XO (XO (XO (XO (XI
    XH))))))) :: ((Npos (XO (XO (XI (XI (XO (XI XH))))))) :: ((Npos (XI (XI
    (XO (XO (XI (XI XH))))))) :: ((Npos (XI (XO (XI (XO (XO (XI
    XH))))))) :: []))))

(** val s_1 : str **)

let s_1 =
  (Npos (XI (XO (XO (XO (XI XH)))))) :: []

(** val s_0 : str **)

let s_0 =
  (Npos (XO (XO (XO (XO (XI XH)))))) :: []

(** val s_in : str **)

let s_in =
  c_i :: (c_n :: [])

(** val s_var : str **)

let s_var =
  (Npos (XO (XI (XI (XO (XI (XI XH))))))) :: ((Npos (XI (XO (XO (XO (XO (XI
    XH))))))) :: ((Npos (XO (XI (XO (XO (XI (XI XH))))))) :: []))

(** val s_exists : str **)

let s_exists =
  (Npos (XI (XO (XI (XO (XO (XI XH))))))) :: ((Npos (XO (XO (XO (XI (XI (XI
    XH))))))) :: ((Npos (XI (XO (XO (XI (XO (XI XH))))))) :: ((Npos (XI (XI
    (XO (XO (XI (XI XH))))))) :: ((Npos (XO (XO (XI (XO (XI (XI
    XH))))))) :: ((Npos (XI (XI (XO (XO (XI (XI XH))))))) :: [])))))

(** val s_forall : str **)

let s_forall =
  (Npos (XO (XI (XI (XO (XO (XI XH))))))) :: ((Npos (XI (XI (XI (XI (XO (XI
    XH))))))) :: ((Npos (XO (XI (XO (XO (XI (XI XH))))))) :: ((Npos (XI (XO
    (XO (XO (XO (XI XH))))))) :: ((Npos (XO (XO (XI (XI (XO (XI
    XH))))))) :: ((Npos (XO (XO (XI (XI (XO (XI XH))))))) :: [])))))

(** val s_bind : str **)

let s_bind =
  (Npos (XO (XI (XO (XO (XO (XI XH))))))) :: ((Npos (XI (XO (XO (XI (XO (XI
    XH))))))) :: ((Npos (XO (XI (XI (XI (XO (XI XH))))))) :: ((Npos (XO (XO
    (XI (XO (XO (XI XH))))))) :: [])))

(** val s_jump : str **)

let s_jump =
  (Npos (XO (XI (XO (XI (XO (XI XH))))))) :: ((Npos (XI (XO (XI (XO (XI (XI
    XH))))))) :: ((Npos (XI (XO (XI (XI (XO (XI XH))))))) :: ((Npos (XO (XO
    (XO (XO (XI (XI XH))))))) :: [])))

(** val unop_str : unop -> str **)

let unop_str = function
| Not -> c_tilde :: []
| EX -> c_E :: (c_X :: [])
| AX -> c_A :: (c_X :: [])
| EF -> c_E :: (c_F :: [])
| AF -> c_A :: (c_F :: [])
| EG -> c_E :: (c_G :: [])
| AG -> c_A :: (c_G :: [])

(** val binop_str : binop -> str **)

let binop_str = function
| And -> c_amp :: []
| Or -> c_bar :: []
| Xor -> c_caret :: []
| Imp -> c_eq :: (c_gt :: [])
| Iff -> c_lt :: (c_eq :: (c_gt :: []))
| EU -> c_E :: (c_U :: [])
| AU -> c_A :: (c_U :: [])
| EW -> c_E :: (c_W :: [])
| AW -> c_A :: (c_W :: [])

(** val hybop_str : hybop -> str **)

let hybop_str = function
| Bind -> c_bang :: []
| Jump -> c_at :: []
| Exists -> c_three :: []
| Forall -> c_V :: []

(** val atom_str : atom -> str **)

let atom_str = function
| AProp x -> x
| AVar x -> c_lbrace :: (app x (c_rbrace :: []))
| ATrue -> s_True
| AFalse -> s_False
| AWild x -> c_pct :: (app x (c_pct :: []))

(** val domain_str : str option -> str **)

let domain_str = function
| Some l ->
  c_space :: (app s_in (c_space :: (c_pct :: (app l (c_pct :: [])))))
| None -> []

(** val render : tree -> str **)

let rec render = function
| Terminal a -> atom_str a
| Unary (o, c) ->
  (match o with
   | Not -> c_lpar :: (app (unop_str o) (app (render c) (c_rpar :: [])))
   | _ ->
     c_lpar :: (app (unop_str o) (c_space :: (app (render c) (c_rpar :: [])))))
| Binary (o, l, r) ->
  c_lpar :: (app (render l)
              (c_space :: (app (binop_str o)
                            (c_space :: (app (render r) (c_rpar :: []))))))
| Hybrid (o, x, d, c) ->
  c_lpar :: (app (hybop_str o)
              (c_lbrace :: (app x
                             (c_rbrace :: (app (domain_str d)
                                            (c_colon :: (c_space :: (app
                                                                    (render c)
                                                                    (c_rpar :: [])))))))))

(** val height : tree -> nat **)

let rec height = function
| Terminal _ -> O
| Unary (_, c) -> S (height c)
| Binary (_, l, r) -> S (Nat.max (height l) (height r))
| Hybrid (_, _, _, c) -> S (height c)

(** val tsize : tree -> nat **)

let rec tsize = function
| Terminal _ -> S O
| Unary (_, c) -> S (tsize c)
| Binary (_, l, r) -> S (add (tsize l) (tsize r))
| Hybrid (_, _, _, c) -> S (tsize c)

type snode =
| SNode of str * nat * sshape
and sshape =
| STerminal of atom
| SUnary of unop * snode
| SBinary of binop * snode * snode
| SHybrid of hybop * str * str option * snode

(** val stext : snode -> str **)

let stext = function
| SNode (t, _, _) -> t

(** val sheight : snode -> nat **)

let sheight = function
| SNode (_, h, _) -> h

(** val mk_atom : atom -> snode **)

let mk_atom a =
  SNode ((atom_str a), O, (STerminal a))

(** val mk_unary : snode -> unop -> snode **)

let mk_unary c o =
  SNode
    ((match o with
      | Not -> c_lpar :: (app (unop_str o) (app (stext c) (c_rpar :: [])))
      | _ ->
        c_lpar :: (app (unop_str o)
                    (c_space :: (app (stext c) (c_rpar :: []))))), (S
    (sheight c)), (SUnary (o, c)))

(** val mk_binary : snode -> snode -> binop -> snode **)

let mk_binary l r o =
  SNode
    ((c_lpar :: (app (stext l)
                  (c_space :: (app (binop_str o)
                                (c_space :: (app (stext r) (c_rpar :: []))))))),
    (S (Nat.max (sheight l) (sheight r))), (SBinary (o, l, r)))

(** val mk_hybrid : snode -> str -> str option -> hybop -> snode **)

let mk_hybrid c x d o =
  SNode
    ((c_lpar :: (app (hybop_str o)
                  (c_lbrace :: (app x
                                 (c_rbrace :: (app (domain_str d)
                                                (c_colon :: (c_space :: 
                                                (app (stext c) (c_rpar :: [])))))))))),
    (S (sheight c)), (SHybrid (o, x, d, c)))

(** val annotate : tree -> snode **)

let rec annotate = function
| Terminal a -> mk_atom a
| Unary (o, c) -> mk_unary (annotate c) o
| Binary (o, l, r) -> mk_binary (annotate l) (annotate r) o
| Hybrid (o, x, d, c) -> mk_hybrid (annotate c) x d o

(** val forget : snode -> tree **)

let rec forget = function
| SNode (_, _, sh) ->
  (match sh with
   | STerminal a -> Terminal a
   | SUnary (o, c) -> Unary (o, (forget c))
   | SBinary (o, l, r) -> Binary (o, (forget l), (forget r))
   | SHybrid (o, x, d, c) -> Hybrid (o, x, d, (forget c)))

(** val in_range : n -> n -> n -> bool **)

let in_range lo hi c =
  (&&) (N.leb lo c) (N.leb c hi)

(** val is_alnum : (n -> bool) -> n -> bool **)

let is_alnum ext_alnum c =
  if N.ltb c (Npos (XO (XO (XO (XO (XO (XO (XO XH))))))))
  then (||)
         ((||)
           (in_range (Npos (XO (XO (XO (XO (XI XH)))))) (Npos (XI (XO (XO (XI
             (XI XH)))))) c)
           (in_range (Npos (XI (XO (XO (XO (XO (XO XH))))))) (Npos (XO (XI
             (XO (XI (XI (XO XH))))))) c))
         (in_range (Npos (XI (XO (XO (XO (XO (XI XH))))))) (Npos (XO (XI (XO
           (XI (XI (XI XH))))))) c)
  else ext_alnum c

(** val is_ws : n -> bool **)

let is_ws c =
  (||)
    ((||)
      ((||)
        ((||)
          ((||)
            ((||)
              ((||)
                ((||)
                  ((||)
                    ((||)
                      (in_range (Npos (XI (XO (XO XH)))) (Npos (XI (XO (XI
                        XH)))) c)
                      (N.eqb c (Npos (XO (XO (XO (XO (XO XH))))))))
                    (N.eqb c (Npos (XI (XO (XI (XO (XO (XO (XO XH))))))))))
                  (N.eqb c (Npos (XO (XO (XO (XO (XO (XI (XO XH))))))))))
                (N.eqb c (Npos (XO (XO (XO (XO (XO (XO (XO (XI (XO (XI (XI
                  (XO XH)))))))))))))))
              (in_range (Npos (XO (XO (XO (XO (XO (XO (XO (XO (XO (XO (XO (XO
                (XO XH)))))))))))))) (Npos (XO (XI (XO (XI (XO (XO (XO (XO
                (XO (XO (XO (XO (XO XH)))))))))))))) c))
            (N.eqb c (Npos (XO (XO (XO (XI (XO (XI (XO (XO (XO (XO (XO (XO
              (XO XH))))))))))))))))
          (N.eqb c (Npos (XI (XO (XO (XI (XO (XI (XO (XO (XO (XO (XO (XO (XO
            XH))))))))))))))))
        (N.eqb c (Npos (XI (XI (XI (XI (XO (XI (XO (XO (XO (XO (XO (XO (XO
          XH))))))))))))))))
      (N.eqb c (Npos (XI (XI (XI (XI (XI (XO (XI (XO (XO (XO (XO (XO (XO
        XH))))))))))))))))
    (N.eqb c (Npos (XO (XO (XO (XO (XO (XO (XO (XO (XO (XO (XO (XO (XI
      XH)))))))))))))))

(** val is_name_char : (n -> bool) -> n -> bool **)

let is_name_char ext_alnum c =
  (||) (is_alnum ext_alnum c) (N.eqb c c_underscore)

(** val is_temp_op_char : n -> bool **)

let is_temp_op_char c =
  (||)
    ((||) ((||) ((||) (N.eqb c c_X) (N.eqb c c_F)) (N.eqb c c_G))
      (N.eqb c c_U)) (N.eqb c c_W)

(** val collect_name : (n -> bool) -> str -> str * str **)

let rec collect_name ext_alnum cs = match cs with
| [] -> ([], [])
| c :: rest ->
  if is_name_char ext_alnum c
  then let (n0, r) = collect_name ext_alnum rest in ((c :: n0), r)
  else ([], cs)

(** val skip_ws : str -> str **)

let rec skip_ws cs = match cs with
| [] -> []
| c :: rest -> if is_ws c then skip_ws rest else cs

(** val peek_is : n -> str -> bool **)

let peek_is c = function
| [] -> false
| x :: _ -> N.eqb x c

(** val peek_name_char : (n -> bool) -> str -> bool **)

let peek_name_char ext_alnum = function
| [] -> false
| x :: _ -> is_name_char ext_alnum x

(** val expect : n -> str -> str res **)

let expect c = function
| [] -> Err ELex
| x :: rest -> if N.eqb x c then Ok rest else Err ELex

(** val collect_var_dom :
    (n -> bool) -> str -> bool -> ((str * str option) * str) res **)

let collect_var_dom ext_alnum cs parse_domains =
  let cs0 = skip_ws cs in
  bind (expect c_lbrace cs0) (fun cs1 ->
    let (name, cs2) = collect_name ext_alnum cs1 in
    (match name with
     | [] -> Err ELex
     | _ :: _ ->
       bind (expect c_rbrace cs2) (fun cs3 ->
         let cs4 = skip_ws cs3 in
         bind
           (if (&&) parse_domains (peek_is c_i cs4)
            then let cs5 = tl cs4 in
                 bind (expect c_n cs5) (fun cs6 ->
                   let cs7 = skip_ws cs6 in
                   bind (expect c_pct cs7) (fun cs8 ->
                     let (dname, cs9) = collect_name ext_alnum cs8 in
                     (match dname with
                      | [] -> Err ELex
                      | _ :: _ ->
                        bind (expect c_pct cs9) (fun cs10 -> Ok ((Some
                          dname), (skip_ws cs10))))))
            else Ok (None, cs4)) (fun pat ->
           let (dom, cs5) = pat in
           bind (expect c_colon cs5) (fun cs6 -> Ok ((name, dom), cs6))))))

(** val temporal_token : n -> n -> token res **)

let temporal_token e_or_a c2 =
  let e = N.eqb e_or_a c_E in
  if N.eqb c2 c_X
  then Ok (TUn (if e then EX else AX))
  else if N.eqb c2 c_F
       then Ok (TUn (if e then EF else AF))
       else if N.eqb c2 c_G
            then Ok (TUn (if e then EG else AG))
            else if N.eqb c2 c_U
                 then Ok (TBin (if e then EU else AU))
                 else if N.eqb c2 c_W
                      then Ok (TBin (if e then EW else AW))
                      else Err ELex

(** val tok :
    (n -> bool) -> nat -> str -> bool -> bool -> token list -> (token
    list * str) res **)

let rec tok ext_alnum fuel cs top ext acc =
  match fuel with
  | O -> OutOfFuel
  | S f ->
    (match cs with
     | [] -> if top then Ok ((rev acc), []) else Err ELex
     | c :: rest ->
       if is_ws c
       then tok ext_alnum f rest top ext acc
       else if N.eqb c c_tilde
            then tok ext_alnum f rest top ext ((TUn Not) :: acc)
            else if N.eqb c c_amp
                 then tok ext_alnum f rest top ext ((TBin And) :: acc)
                 else if N.eqb c c_bar
                      then tok ext_alnum f rest top ext ((TBin Or) :: acc)
                      else if N.eqb c c_caret
                           then tok ext_alnum f rest top ext ((TBin
                                  Xor) :: acc)
                           else if N.eqb c c_eq
                                then bind (expect c_gt rest) (fun rest0 ->
                                       tok ext_alnum f rest0 top ext ((TBin
                                         Imp) :: acc))
                                else if N.eqb c c_lt
                                     then bind (expect c_eq rest)
                                            (fun rest0 ->
                                            bind (expect c_gt rest0)
                                              (fun rest1 ->
                                              tok ext_alnum f rest1 top ext
                                                ((TBin Iff) :: acc)))
                                     else if N.eqb c c_gt
                                          then Err ELex
                                          else if (&&)
                                                    ((||) (N.eqb c c_E)
                                                      (N.eqb c c_A))
                                                    (match rest with
                                                     | [] -> false
                                                     | c2 :: _ ->
                                                       is_temp_op_char c2)
                                               then (match rest with
                                                     | [] -> Err ELex
                                                     | c2 :: rest2 ->
                                                       if peek_name_char
                                                            ext_alnum rest2
                                                       then let (name, rest3) =
                                                              collect_name
                                                                ext_alnum
                                                                rest2
                                                            in
                                                            tok ext_alnum f
                                                              rest3 top ext
                                                              ((TAtom (AProp
                                                              (c :: (c2 :: name)))) :: acc)
                                                       else bind
                                                              (temporal_token
                                                                c c2)
                                                              (fun t ->
                                                              tok ext_alnum f
                                                                rest2 top ext
                                                                (t :: acc)))
                                               else if N.eqb c c_bang
                                                    then bind
                                                           (collect_var_dom
                                                             ext_alnum rest
                                                             ext) (fun pat ->
                                                           let (nd, rest0) =
                                                             pat
                                                           in
                                                           tok ext_alnum f
                                                             rest0 top ext
                                                             ((THyb (Bind,
                                                             (fst nd),
                                                             (snd nd))) :: acc))
                                                    else if (&&)
                                                              (N.eqb c
                                                                c_three)
                                                              (negb
                                                                (peek_name_char
                                                                  ext_alnum
                                                                  rest))
                                                         then bind
                                                                (collect_var_dom
                                                                  ext_alnum
                                                                  rest ext)
                                                                (fun pat ->
                                                                let (
                                                                  nd, rest0) =
                                                                  pat
                                                                in
                                                                tok ext_alnum
                                                                  f rest0 top
                                                                  ext ((THyb
                                                                  (Exists,
                                                                  (fst nd),
                                                                  (snd nd))) :: acc))
                                                         else if (&&)
                                                                   (N.eqb c
                                                                    c_V)
                                                                   (negb
                                                                    (peek_name_char
                                                                    ext_alnum
                                                                    rest))
                                                              then bind
                                                                    (collect_var_dom
                                                                    ext_alnum
                                                                    rest ext)
                                                                    (fun pat ->
                                                                    let (
                                                                    nd, rest0) =
                                                                    pat
                                                                    in
                                                                    tok
                                                                    ext_alnum
                                                                    f rest0
                                                                    top ext
                                                                    ((THyb
                                                                    (Forall,
                                                                    (fst nd),
                                                                    (snd nd))) :: acc))
                                                              else if 
                                                                    N.eqb c
                                                                    c_at
                                                                   then 
                                                                    bind
                                                                    (collect_var_dom
                                                                    ext_alnum
                                                                    rest
                                                                    false)
                                                                    (fun pat ->
                                                                    let (
                                                                    nd, rest0) =
                                                                    pat
                                                                    in
                                                                    tok
                                                                    ext_alnum
                                                                    f rest0
                                                                    top ext
                                                                    ((THyb
                                                                    (Jump,
                                                                    (fst nd),
                                                                    None)) :: acc))
                                                                   else 
                                                                    if 
                                                                    N.eqb c
                                                                    c_bslash
                                                                    then 
                                                                    let (
                                                                    opname,
                                                                    rest0) =
                                                                    collect_name
                                                                    ext_alnum
                                                                    rest
                                                                    in
                                                                    if 
                                                                    str_eqb
                                                                    opname
                                                                    s_exists
                                                                    then 
                                                                    bind
                                                                    (collect_var_dom
                                                                    ext_alnum
                                                                    rest0 ext)
                                                                    (fun pat ->
                                                                    let (
                                                                    nd, rest1) =
                                                                    pat
                                                                    in
                                                                    tok
                                                                    ext_alnum
                                                                    f rest1
                                                                    top ext
                                                                    ((THyb
                                                                    (Exists,
                                                                    (fst nd),
                                                                    (snd nd))) :: acc))
                                                                    else 
                                                                    if 
                                                                    str_eqb
                                                                    opname
                                                                    s_forall
                                                                    then 
                                                                    bind
                                                                    (collect_var_dom
                                                                    ext_alnum
                                                                    rest0 ext)
                                                                    (fun pat ->
                                                                    let (
                                                                    nd, rest1) =
                                                                    pat
                                                                    in
                                                                    tok
                                                                    ext_alnum
                                                                    f rest1
                                                                    top ext
                                                                    ((THyb
                                                                    (Forall,
                                                                    (fst nd),
                                                                    (snd nd))) :: acc))
                                                                    else 
                                                                    if 
                                                                    str_eqb
                                                                    opname
                                                                    s_bind
                                                                    then 
                                                                    bind
                                                                    (collect_var_dom
                                                                    ext_alnum
                                                                    rest0 ext)
                                                                    (fun pat ->
                                                                    let (
                                                                    nd, rest1) =
                                                                    pat
                                                                    in
                                                                    tok
                                                                    ext_alnum
                                                                    f rest1
                                                                    top ext
                                                                    ((THyb
                                                                    (Bind,
                                                                    (fst nd),
                                                                    (snd nd))) :: acc))
                                                                    else 
                                                                    if 
                                                                    str_eqb
                                                                    opname
                                                                    s_jump
                                                                    then 
                                                                    bind
                                                                    (collect_var_dom
                                                                    ext_alnum
                                                                    rest0
                                                                    false)
                                                                    (fun pat ->
                                                                    let (
                                                                    nd, rest1) =
                                                                    pat
                                                                    in
                                                                    tok
                                                                    ext_alnum
                                                                    f rest1
                                                                    top ext
                                                                    ((THyb
                                                                    (Jump,
                                                                    (fst nd),
                                                                    None)) :: acc))
                                                                    else 
                                                                    Err ELex
                                                                    else 
                                                                    if 
                                                                    N.eqb c
                                                                    c_rpar
                                                                    then 
                                                                    if top
                                                                    then 
                                                                    Err ELex
                                                                    else 
                                                                    Ok
                                                                    ((rev acc),
                                                                    rest)
                                                                    else 
                                                                    if 
                                                                    N.eqb c
                                                                    c_lpar
                                                                    then 
                                                                    bind
                                                                    (tok
                                                                    ext_alnum
                                                                    f rest
                                                                    false ext
                                                                    [])
                                                                    (fun pat ->
                                                                    let (
                                                                    grp, rest0) =
                                                                    pat
                                                                    in
                                                                    tok
                                                                    ext_alnum
                                                                    f rest0
                                                                    top ext
                                                                    ((TGroup
                                                                    grp) :: acc))
                                                                    else 
                                                                    if 
                                                                    N.eqb c
                                                                    c_lbrace
                                                                    then 
                                                                    let (
                                                                    name,
                                                                    rest0) =
                                                                    collect_name
                                                                    ext_alnum
                                                                    rest
                                                                    in
                                                                    (
                                                                    match name with
                                                                    | [] ->
                                                                    Err ELex
                                                                    | _ :: _ ->
                                                                    bind
                                                                    (expect
                                                                    c_rbrace
                                                                    rest0)
                                                                    (fun rest1 ->
                                                                    tok
                                                                    ext_alnum
                                                                    f rest1
                                                                    top ext
                                                                    ((TAtom
                                                                    (AVar
                                                                    name)) :: acc)))
                                                                    else 
                                                                    if 
                                                                    (&&)
                                                                    (N.eqb c
                                                                    c_pct) ext
                                                                    then 
                                                                    let (
                                                                    name,
                                                                    rest0) =
                                                                    collect_name
                                                                    ext_alnum
                                                                    rest
                                                                    in
                                                                    (
                                                                    match name with
                                                                    | [] ->
                                                                    Err ELex
                                                                    | _ :: _ ->
                                                                    bind
                                                                    (expect
                                                                    c_pct
                                                                    rest0)
                                                                    (fun rest1 ->
                                                                    tok
                                                                    ext_alnum
                                                                    f rest1
                                                                    top ext
                                                                    ((TAtom
                                                                    (AWild
                                                                    name)) :: acc)))
                                                                    else 
                                                                    if 
                                                                    is_name_char
                                                                    ext_alnum
                                                                    c
                                                                    then 
                                                                    let (
                                                                    name,
                                                                    rest0) =
                                                                    collect_name
                                                                    ext_alnum
                                                                    rest
                                                                    in
                                                                    tok
                                                                    ext_alnum
                                                                    f rest0
                                                                    top ext
                                                                    ((TAtom
                                                                    (AProp
                                                                    (c :: name))) :: acc)
                                                                    else 
                                                                    Err ELex)

(** val tokenize : (n -> bool) -> bool -> str -> token list res **)

let tokenize ext_alnum ext cs =
  bind (tok ext_alnum (S (length cs)) cs true ext []) (fun pat ->
    let (ts, _) = pat in Ok ts)

(** val split_first :
    (token -> bool) -> token list -> ((token list * token) * token list)
    option **)

let rec split_first p = function
| [] -> None
| t :: rest ->
  if p t
  then Some (([], t), rest)
  else (match split_first p rest with
        | Some p0 ->
          let (p1, r) = p0 in let (l, x) = p1 in Some (((t :: l), x), r)
        | None -> None)

(** val is_hybrid : token -> bool **)

let is_hybrid = function
| THyb (_, _, _) -> true
| _ -> false

(** val is_unary : token -> bool **)

let is_unary = function
| TUn _ -> true
| _ -> false

(** val is_bin : binop -> token -> bool **)

let is_bin o = function
| TBin o' -> binop_eqb o o'
| _ -> false

(** val is_binary_temporal : token -> bool **)

let is_binary_temporal = function
| TBin o ->
  (match o with
   | EU -> true
   | AU -> true
   | EW -> true
   | AW -> true
   | _ -> false)
| _ -> false

(** val tok_size : token -> nat **)

let rec tok_size = function
| TGroup ts ->
  S
    (let rec go = function
     | [] -> O
     | x :: l' -> add (tok_size x) (go l')
     in go ts)
| _ -> S O

(** val toks_size : token list -> nat **)

let rec toks_size = function
| [] -> O
| x :: l' -> add (tok_size x) (toks_size l')

(** val level_binop : nat -> binop option **)

let level_binop = function
| O -> None
| S n0 ->
  (match n0 with
   | O -> None
   | S n1 ->
     (match n1 with
      | O -> Some Iff
      | S n2 ->
        (match n2 with
         | O -> Some Imp
         | S n3 ->
           (match n3 with
            | O -> Some Or
            | S n4 ->
              (match n4 with
               | O -> Some Xor
               | S n5 -> (match n5 with
                          | O -> Some And
                          | S _ -> None))))))

(** val atom_of_prop_name : str -> atom **)

let atom_of_prop_name name =
  if (||) ((||) (str_eqb name s_true) (str_eqb name s_True))
       (str_eqb name s_1)
  then ATrue
  else if (||) ((||) (str_eqb name s_false) (str_eqb name s_False))
            (str_eqb name s_0)
       then AFalse
       else AProp name

(** val parse_lvl : nat -> nat -> token list -> tree res **)

let rec parse_lvl fuel lvl ts =
  match fuel with
  | O -> OutOfFuel
  | S f ->
    (match lvl with
     | O ->
       (match ts with
        | [] -> Err EParse
        | t :: l ->
          (match t with
           | TAtom a ->
             (match a with
              | AProp name ->
                (match l with
                 | [] -> Ok (Terminal (atom_of_prop_name name))
                 | _ :: _ -> Err EParse)
              | AVar name ->
                (match l with
                 | [] -> Ok (Terminal (AVar name))
                 | _ :: _ -> Err EParse)
              | AWild name ->
                (match l with
                 | [] -> Ok (Terminal (AWild name))
                 | _ :: _ -> Err EParse)
              | _ -> Err EParse)
           | TGroup inner ->
             (match l with
              | [] -> parse_lvl f (S O) inner
              | _ :: _ -> Err EParse)
           | _ -> Err EParse))
     | S n0 ->
       (match n0 with
        | O ->
          (match split_first is_hybrid ts with
           | Some p ->
             let (p0, r) = p in
             let (l, t) = p0 in
             (match t with
              | THyb (o, x, d) ->
                (match l with
                 | [] ->
                   bind (parse_lvl f (S O) r) (fun c -> Ok (Hybrid (o, x, d,
                     c)))
                 | _ :: _ -> Err EParse)
              | _ -> Panic PShape)
           | None -> parse_lvl f (S (S O)) ts)
        | S n1 ->
          (match n1 with
           | O ->
             (match level_binop lvl with
              | Some o ->
                (match split_first (is_bin o) ts with
                 | Some p ->
                   let (p0, r) = p in
                   let (l, _) = p0 in
                   bind (parse_lvl f (S lvl) l) (fun a ->
                     bind (parse_lvl f lvl r) (fun b -> Ok (Binary (o, a, b))))
                 | None -> parse_lvl f (S lvl) ts)
              | None -> Panic PShape)
           | S n2 ->
             (match n2 with
              | O ->
                (match level_binop lvl with
                 | Some o ->
                   (match split_first (is_bin o) ts with
                    | Some p ->
                      let (p0, r) = p in
                      let (l, _) = p0 in
                      bind (parse_lvl f (S lvl) l) (fun a ->
                        bind (parse_lvl f lvl r) (fun b -> Ok (Binary (o, a,
                          b))))
                    | None -> parse_lvl f (S lvl) ts)
                 | None -> Panic PShape)
              | S n3 ->
                (match n3 with
                 | O ->
                   (match level_binop lvl with
                    | Some o ->
                      (match split_first (is_bin o) ts with
                       | Some p ->
                         let (p0, r) = p in
                         let (l, _) = p0 in
                         bind (parse_lvl f (S lvl) l) (fun a ->
                           bind (parse_lvl f lvl r) (fun b -> Ok (Binary (o,
                             a, b))))
                       | None -> parse_lvl f (S lvl) ts)
                    | None -> Panic PShape)
                 | S n4 ->
                   (match n4 with
                    | O ->
                      (match level_binop lvl with
                       | Some o ->
                         (match split_first (is_bin o) ts with
                          | Some p ->
                            let (p0, r) = p in
                            let (l, _) = p0 in
                            bind (parse_lvl f (S lvl) l) (fun a ->
                              bind (parse_lvl f lvl r) (fun b -> Ok (Binary
                                (o, a, b))))
                          | None -> parse_lvl f (S lvl) ts)
                       | None -> Panic PShape)
                    | S n5 ->
                      (match n5 with
                       | O ->
                         (match level_binop lvl with
                          | Some o ->
                            (match split_first (is_bin o) ts with
                             | Some p ->
                               let (p0, r) = p in
                               let (l, _) = p0 in
                               bind (parse_lvl f (S lvl) l) (fun a ->
                                 bind (parse_lvl f lvl r) (fun b -> Ok
                                   (Binary (o, a, b))))
                             | None -> parse_lvl f (S lvl) ts)
                          | None -> Panic PShape)
                       | S n6 ->
                         (match n6 with
                          | O ->
                            (match split_first is_binary_temporal ts with
                             | Some p ->
                               let (p0, r) = p in
                               let (l, t) = p0 in
                               (match t with
                                | TBin o ->
                                  bind
                                    (parse_lvl f (S (S (S (S (S (S (S (S
                                      O)))))))) l) (fun a ->
                                    bind
                                      (parse_lvl f (S (S (S (S (S (S (S
                                        O))))))) r) (fun b -> Ok (Binary (o,
                                      a, b))))
                                | _ -> Panic PShape)
                             | None ->
                               parse_lvl f (S (S (S (S (S (S (S (S O))))))))
                                 ts)
                          | S n7 ->
                            (match n7 with
                             | O ->
                               (match split_first is_unary ts with
                                | Some p ->
                                  let (p0, r) = p in
                                  let (l, t) = p0 in
                                  (match t with
                                   | TUn o ->
                                     (match l with
                                      | [] ->
                                        bind
                                          (parse_lvl f (S (S (S (S (S (S (S
                                            (S O)))))))) r) (fun c -> Ok
                                          (Unary (o, c)))
                                      | _ :: _ -> Err EParse)
                                   | _ -> Panic PShape)
                                | None ->
                                  parse_lvl f (S (S (S (S (S (S (S (S (S
                                    O))))))))) ts)
                             | S _ ->
                               (match ts with
                                | [] -> Err EParse
                                | t :: l ->
                                  (match t with
                                   | TAtom a ->
                                     (match a with
                                      | AProp name ->
                                        (match l with
                                         | [] ->
                                           Ok (Terminal
                                             (atom_of_prop_name name))
                                         | _ :: _ -> Err EParse)
                                      | AVar name ->
                                        (match l with
                                         | [] -> Ok (Terminal (AVar name))
                                         | _ :: _ -> Err EParse)
                                      | AWild name ->
                                        (match l with
                                         | [] -> Ok (Terminal (AWild name))
                                         | _ :: _ -> Err EParse)
                                      | _ -> Err EParse)
                                   | TGroup inner ->
                                     (match l with
                                      | [] -> parse_lvl f (S O) inner
                                      | _ :: _ -> Err EParse)
                                   | _ -> Err EParse)))))))))))

(** val parse_fuel : token list -> nat **)

let parse_fuel ts =
  mul (S (S (S (S (S (S (S (S (S (S O)))))))))) (S (toks_size ts))

(** val parse_tokens : token list -> tree res **)

let parse_tokens ts =
  parse_lvl (parse_fuel ts) (S O) ts

(** val is_quantifier : hybop -> bool **)

let is_quantifier = function
| Jump -> false
| _ -> true

(** val prep : str list -> (str * str) list -> str -> tree -> tree res **)

let rec prep props ren last t = match t with
| Terminal a ->
  (match a with
   | AProp name ->
     if existsb (str_eqb name) props then Ok t else Err EUnknownProp
   | AVar name ->
     (match alookup str_eqb name ren with
      | Some n0 -> Ok (Terminal (AVar n0))
      | None -> Err EFreeVar)
   | _ -> Ok t)
| Unary (o, c) -> bind (prep props ren last c) (fun c' -> Ok (Unary (o, c')))
| Binary (o, l, r) ->
  bind (prep props ren last l) (fun l' ->
    bind (prep props ren last r) (fun r' -> Ok (Binary (o, l', r'))))
| Hybrid (o, x, d, c) ->
  if is_quantifier o
  then if amem str_eqb x ren
       then Err ERequantified
       else let last' = app last (c_x :: []) in
            let ren' = ainsert str_eqb x last' ren in
            bind (prep props ren' last' c) (fun c' -> Ok (Hybrid (o, last',
              d, c')))
  else bind (prep props ren last c) (fun c' ->
         match alookup str_eqb x ren with
         | Some n0 -> Ok (Hybrid (o, n0, d, c'))
         | None -> Err EFreeVar)

(** val preprocess : str list -> tree -> tree res **)

let preprocess props t =
  prep props [] [] t

(** val add_unique : str -> str list -> str list **)

let add_unique x l =
  if existsb (str_eqb x) l then l else app l (x :: [])

(** val collect_vars : tree -> str list -> str list **)

let rec collect_vars t seen =
  match t with
  | Terminal _ -> seen
  | Unary (_, c) -> collect_vars c seen
  | Binary (_, l, r) -> collect_vars r (collect_vars l seen)
  | Hybrid (o, x, _, c) ->
    collect_vars c (if is_quantifier o then add_unique x seen else seen)

(** val num_hctl_vars : tree -> nat **)

let num_hctl_vars t =
  length (collect_vars t [])

(** val collect_wild :
    tree -> (str list * str list) -> str list * str list **)

let rec collect_wild t acc =
  match t with
  | Terminal a ->
    (match a with
     | AWild p -> ((add_unique p (fst acc)), (snd acc))
     | _ -> acc)
  | Unary (_, c) -> collect_wild c acc
  | Binary (_, l, r) -> collect_wild r (collect_wild l acc)
  | Hybrid (_, _, d, c) ->
    collect_wild c
      (match d with
       | Some l -> ((fst acc), (add_unique l (snd acc)))
       | None -> acc)

(** val read_to_rbrace : str -> str * str **)

let rec read_to_rbrace = function
| [] -> ([], [])
| c :: rest ->
  if N.eqb c c_rbrace
  then ([], rest)
  else let (n0, r) = read_to_rbrace rest in ((c :: n0), r)

(** val canon_name : n -> str **)

let canon_name n0 =
  app s_var (dec_of_N n0)

(** val canon_loop :
    nat -> str -> (str * str) list -> str -> n -> nat -> str * (str * str)
    list **)

let rec canon_loop fuel cs ren out cnt depth =
  match fuel with
  | O -> ((rev out), ren)
  | S f ->
    (match cs with
     | [] -> ((rev out), ren)
     | c :: rest ->
       if N.eqb c c_lpar
       then canon_loop f rest ren (c :: out) cnt (S depth)
       else if N.eqb c c_rpar
            then (match depth with
                  | O -> ((rev (c :: out)), ren)
                  | S d -> canon_loop f rest ren (c :: out) cnt d)
            else if (&&)
                      ((||) ((||) (N.eqb c c_bang) (N.eqb c c_three))
                        (N.eqb c c_V))
                      (match rest with
                       | [] -> false
                       | c2 :: _ -> N.eqb c2 c_lbrace)
                 then let (name, rest') = read_to_rbrace (tl rest) in
                      let cn = canon_name cnt in
                      canon_loop f rest' (ainsert str_eqb name cn ren)
                        (app
                          (rev (c :: (c_lbrace :: (app cn (c_rbrace :: [])))))
                          out) (N.add cnt (Npos XH)) depth
                 else if N.eqb c c_lbrace
                      then let (name, rest') = read_to_rbrace rest in
                           (match alookup str_eqb name ren with
                            | Some cn ->
                              canon_loop f rest' ren
                                (app
                                  (rev
                                    (c_lbrace :: (app cn (c_rbrace :: []))))
                                  out) cnt depth
                            | None ->
                              let cn = canon_name cnt in
                              canon_loop f rest'
                                (ainsert str_eqb name cn ren)
                                (app
                                  (rev
                                    (c_lbrace :: (app cn (c_rbrace :: []))))
                                  out) (N.add cnt (Npos XH)) depth)
                      else canon_loop f rest ren (c :: out) cnt depth)

(** val canonize : str -> str * (str * str) list **)

let canonize cs =
  canon_loop (S (length cs)) cs [] [] N0 O

(** val get_canonical : str -> str **)

let get_canonical cs =
  fst (canonize cs)

type dommap = (str * str option) list

type key = str * dommap

(** val dom_entry_eqb : (str * str option) -> (str * str option) -> bool **)

let dom_entry_eqb a b =
  (&&) (str_eqb (fst a) (fst b)) (opt_eqb str_eqb (snd a) (snd b))

(** val key_eqb : key -> key -> bool **)

let key_eqb a b =
  (&&) (str_eqb (fst a) (fst b)) (list_eqb dom_entry_eqb (snd a) (snd b))

(** val canon_domains : dommap -> (str * str) list -> dommap -> dommap **)

let rec canon_domains doms ren acc =
  match doms with
  | [] -> acc
  | p :: rest ->
    let (v, d) = p in
    (match alookup str_eqb v ren with
     | Some cv -> canon_domains rest ren (sinsert cv d acc)
     | None -> canon_domains rest ren acc)

(** val node_key : tree -> dommap -> key * (str * str) list **)

let node_key t doms =
  let (c, ren) = canonize (render t) in
  ((c, (canon_domains doms ren [])), ren)

type hnode = tree * dommap

(** val max_height : hnode list -> nat **)

let rec max_height = function
| [] -> O
| h :: l' -> let (t, _) = h in Nat.max (height t) (max_height l')

(** val pop_height : nat -> hnode list -> (hnode * hnode list) option **)

let rec pop_height h = function
| [] -> None
| x :: l' ->
  if Nat.eqb (height (fst x)) h
  then Some (x, l')
  else (match pop_height h l' with
        | Some p -> let (y, r) = p in Some (y, (x :: r))
        | None -> None)

(** val is_wild_terminal : tree -> bool **)

let is_wild_terminal = function
| Terminal a -> (match a with
                 | AWild _ -> true
                 | _ -> false)
| _ -> false

(** val is_terminal : tree -> bool **)

let is_terminal = function
| Terminal _ -> true
| _ -> false

(** val children : tree -> dommap -> hnode list **)

let children t doms =
  match t with
  | Terminal _ -> []
  | Unary (_, c) -> (c, doms) :: []
  | Binary (_, l, r) -> (l, doms) :: ((r, doms) :: [])
  | Hybrid (o, x, d, c) ->
    (match o with
     | Jump -> (c, doms) :: []
     | _ -> (c, (sinsert x d doms)) :: [])

(** val incr_dup : key -> (key * nat) list -> (key * nat) list **)

let incr_dup k dups =
  match alookup key_eqb k dups with
  | Some n0 -> ainsert key_eqb k (S n0) dups
  | None -> ainsert key_eqb k (S O) dups

(** val mark_loop :
    nat -> hnode list -> nat -> key list -> (key * nat) list -> (key * nat)
    list **)

let rec mark_loop fuel queue last_h same dups =
  match fuel with
  | O -> dups
  | S f ->
    (match pop_height (max_height queue) queue with
     | Some p ->
       let (h, queue') = p in
       let (t, doms) = h in
       if (&&) (is_terminal t) (negb (is_wild_terminal t))
       then mark_loop f queue' last_h same dups
       else let (k, ren) = node_key t doms in
            if Nat.eqb last_h (height t)
            then if (&&) (Nat.leb (length ren) (S O))
                      (existsb (key_eqb k) same)
                 then mark_loop f queue' last_h same (incr_dup k dups)
                 else mark_loop f (app queue' (children t doms)) last_h
                        (k :: same) dups
            else mark_loop f (app queue' (children t doms)) (height t)
                   (k :: []) dups
     | None -> dups)

(** val sum_sizes : tree list -> nat **)

let rec sum_sizes = function
| [] -> O
| t :: l -> add (tsize t) (sum_sizes l)

(** val mark_duplicates : tree list -> (key * nat) list **)

let mark_duplicates roots =
  let q = map (fun t -> (t, [])) roots in
  mark_loop (S (sum_sizes roots)) q (max_height q) [] []

type tag =
| TP of nat
| TS of nat
| TX of nat * nat

(** val tag_eqb : tag -> tag -> bool **)

let tag_eqb a b =
  match a with
  | TP j -> (match b with
             | TP j' -> Nat.eqb j j'
             | _ -> false)
  | TS i -> (match b with
             | TS i' -> Nat.eqb i i'
             | _ -> false)
  | TX (i, e) ->
    (match b with
     | TX (i', e') -> (&&) (Nat.eqb i i') (Nat.eqb e e')
     | _ -> false)

type layout = tag list

type val0 = tag -> bool

type tt =
| Leaf of bool
| Node of tt * tt

(** val mem : layout -> tt -> val0 -> bool **)

let rec mem l t v =
  match t with
  | Leaf b -> b
  | Node (lo, hi) ->
    (match l with
     | [] -> false
     | g :: l' -> mem l' (if v g then hi else lo) v)

(** val const : layout -> bool -> tt **)

let rec const l b =
  match l with
  | [] -> Leaf b
  | _ :: l' -> let r = const l' b in Node (r, r)

(** val map2 : (bool -> bool -> bool) -> tt -> tt -> tt **)

let rec map2 f a b =
  match a with
  | Leaf x ->
    (match b with
     | Leaf y -> Leaf (f x y)
     | Node (_, _) -> Leaf false)
  | Node (a0, a1) ->
    (match b with
     | Leaf _ -> Leaf false
     | Node (b0, b1) -> Node ((map2 f a0 b0), (map2 f a1 b1)))

(** val tand : tt -> tt -> tt **)

let tand =
  map2 (&&)

(** val tor : tt -> tt -> tt **)

let tor =
  map2 (||)

(** val tminus : tt -> tt -> tt **)

let tminus =
  map2 (fun x y -> (&&) x (negb y))

(** val txor : tt -> tt -> tt **)

let txor =
  map2 xorb

(** val tiff : tt -> tt -> tt **)

let tiff =
  map2 eqb

(** val lit : layout -> tag -> tt **)

let rec lit l g =
  match l with
  | [] -> Leaf false
  | h :: l' ->
    if tag_eqb h g
    then Node ((const l' false), (const l' true))
    else let r = lit l' g in Node (r, r)

(** val exq : (tag -> bool) -> layout -> tt -> tt **)

let rec exq q l t =
  match l with
  | [] -> t
  | h :: l' ->
    (match t with
     | Leaf _ -> t
     | Node (lo, hi) ->
       if q h
       then let r = tor (exq q l' lo) (exq q l' hi) in Node (r, r)
       else Node ((exq q l' lo), (exq q l' hi)))

(** val flip : tag -> layout -> tt -> tt **)

let rec flip g l t =
  match l with
  | [] -> t
  | h :: l' ->
    (match t with
     | Leaf _ -> t
     | Node (lo, hi) ->
       if tag_eqb h g
       then Node (hi, lo)
       else Node ((flip g l' lo), (flip g l' hi)))

(** val tt_eqb : tt -> tt -> bool **)

let rec tt_eqb a b =
  match a with
  | Leaf x -> (match b with
               | Leaf y -> eqb x y
               | Node (_, _) -> false)
  | Node (a0, a1) ->
    (match b with
     | Leaf _ -> false
     | Node (b0, b1) -> (&&) (tt_eqb a0 b0) (tt_eqb a1 b1))

(** val is_empty : tt -> bool **)

let rec is_empty = function
| Leaf b -> negb b
| Node (lo, hi) -> (&&) (is_empty lo) (is_empty hi)

(** val expand : (tag -> bool) -> layout -> tt -> tt **)

let rec expand keep l t =
  match l with
  | [] -> t
  | h :: l' ->
    if keep h
    then (match t with
          | Leaf b -> const l b
          | Node (lo, hi) -> Node ((expand keep l' lo), (expand keep l' hi)))
    else let r = expand keep l' t in Node (r, r)

(** val restrict : (tag -> bool) -> layout -> tt -> tt option **)

let rec restrict keep l t =
  match l with
  | [] -> Some t
  | h :: l' ->
    (match t with
     | Leaf _ -> Some t
     | Node (lo, hi) ->
       if keep h
       then (match restrict keep l' lo with
             | Some a ->
               (match restrict keep l' hi with
                | Some b -> Some (Node (a, b))
                | None -> None)
             | None -> None)
       else if tt_eqb lo hi then restrict keep l' lo else None)

(** val tabulate : layout -> (val0 -> bool) -> tt **)

let rec tabulate l f =
  match l with
  | [] -> Leaf (f (fun _ -> false))
  | h :: l' ->
    Node
      ((tabulate l' (fun v ->
         f (fun g -> if tag_eqb g h then false else v g))),
      (tabulate l' (fun v -> f (fun g -> if tag_eqb g h then true else v g))))

(** val of_bits : layout -> bool list -> tt * bool list **)

let rec of_bits l bs =
  match l with
  | [] -> (match bs with
           | [] -> ((Leaf false), [])
           | b :: r -> ((Leaf b), r))
  | _ :: l' ->
    let (lo, r1) = of_bits l' bs in
    let (hi, r2) = of_bits l' r1 in ((Node (lo, hi)), r2)

(** val to_bits : tt -> bool list -> bool list **)

let rec to_bits t acc =
  match t with
  | Leaf b -> b :: acc
  | Node (lo, hi) -> to_bits lo (to_bits hi acc)

(** val range : nat -> nat list **)

let rec range = function
| O -> []
| S m -> app (range m) (m :: [])

(** val var_block : nat -> nat -> layout **)

let var_block k i =
  (TS i) :: (map (fun x -> TX (i, x)) (range k))

(** val mk_layout : nat -> nat -> nat -> layout **)

let mk_layout p n0 k =
  app (map (fun x -> TP x) (range p)) (flat_map (var_block k) (range n0))

(** val is_state_tag : tag -> bool **)

let is_state_tag = function
| TS _ -> true
| _ -> false

(** val is_extra_tag : tag -> bool **)

let is_extra_tag = function
| TX (_, _) -> true
| _ -> false

(** val is_copy : nat -> tag -> bool **)

let is_copy e = function
| TX (_, e') -> Nat.eqb e e'
| _ -> false

type genv = { g_n : nat; g_p : nat; g_k : nat; g_L : layout; g_upd : tt list }

(** val mk_genv : nat -> nat -> nat -> tt list -> genv **)

let mk_genv p n0 k upd_pn =
  let l = mk_layout p n0 k in
  { g_n = n0; g_p = p; g_k = k; g_L = l; g_upd =
  (map (expand (fun g -> negb (is_extra_tag g)) l) upd_pn) }

(** val empty : genv -> tt **)

let empty g =
  let l = g.g_L in const l false

(** val full : genv -> tt **)

let full g =
  let l = g.g_L in const l true

(** val upd_of : genv -> nat -> tt **)

let upd_of g i =
  nth i g.g_upd (empty g)

(** val can_update : genv -> nat -> tt **)

let can_update g =
  let l = g.g_L in (fun i -> txor (upd_of g i) (lit l (TS i)))

(** val var_pre : genv -> nat -> tt -> tt **)

let var_pre g =
  let l = g.g_L in (fun i s -> tand (flip (TS i) l s) (can_update g i))

(** val pre : genv -> tt -> tt **)

let pre g s =
  fold_left (fun acc i -> tor acc (var_pre g i s)) (range g.g_n) (empty g)

(** val steady_of : genv -> tt -> tt **)

let steady_of g u =
  fold_left (fun acc i -> tminus acc (can_update g i)) (range g.g_n) u

(** val eval_neg : tt -> tt -> tt **)

let eval_neg =
  tminus

(** val eval_imp : tt -> tt -> tt -> tt **)

let eval_imp u a b =
  tor (eval_neg u a) b

(** val eval_equiv : tt -> tt -> tt -> tt **)

let eval_equiv u a b =
  tor (tand a b) (tand (eval_neg u a) (eval_neg u b))

(** val eval_xor : tt -> tt -> tt -> tt **)

let eval_xor u a b =
  eval_neg u (eval_equiv u a b)

(** val eval_ex : genv -> tt -> tt -> tt **)

let eval_ex g s steady =
  tor (pre g s) (tand s steady)

(** val eval_ax : genv -> tt -> tt -> tt -> tt **)

let eval_ax g u s steady =
  eval_neg u (eval_ex g (eval_neg u s) steady)

(** val while_neq : nat -> (tt -> tt) -> tt -> tt -> tt res **)

let rec while_neq fuel f old new0 =
  if tt_eqb old new0
  then Ok old
  else (match fuel with
        | O -> OutOfFuel
        | S f0 -> while_neq f0 f (f old) old)

(** val loop_fuel : genv -> nat **)

let loop_fuel g =
  let l = g.g_L in S (Nat.pow (S (S O)) (length l))

(** val sat_step : genv -> nat list -> tt -> tt -> tt option **)

let rec sat_step g vars phi1 result =
  match vars with
  | [] -> None
  | i :: rest ->
    let update = tminus (tand phi1 (var_pre g i result)) result in
    if is_empty update
    then sat_step g rest phi1 result
    else Some (tor result update)

(** val eu_loop : genv -> nat -> tt -> tt -> tt res **)

let rec eu_loop g fuel phi1 result =
  match fuel with
  | O -> OutOfFuel
  | S f ->
    (match sat_step g (rev (range g.g_n)) phi1 result with
     | Some r -> eu_loop g f phi1 r
     | None -> Ok result)

(** val eval_eu_saturated : genv -> tt -> tt -> tt res **)

let eval_eu_saturated g phi1 phi2 =
  eu_loop g (loop_fuel g) phi1 phi2

(** val eval_ef_saturated : genv -> tt -> tt -> tt res **)

let eval_ef_saturated =
  eval_eu_saturated

(** val eval_eg : genv -> tt -> tt -> tt res **)

let eval_eg g phi steady =
  while_neq (loop_fuel g) (fun old -> tand old (eval_ex g old steady)) phi
    (empty g)

(** val eval_au : genv -> tt -> tt -> tt -> tt -> tt res **)

let eval_au g u phi1 phi2 steady =
  while_neq (loop_fuel g) (fun old ->
    tor old (tand phi1 (eval_ax g u old steady))) phi2 (empty g)

(** val eval_af : genv -> tt -> tt -> tt -> tt res **)

let eval_af g u phi steady =
  bind (eval_eg g (eval_neg u phi) steady) (fun r -> Ok (eval_neg u r))

(** val eval_ag : genv -> tt -> tt -> tt res **)

let eval_ag g u phi =
  bind (eval_ef_saturated g u (eval_neg u phi)) (fun r -> Ok (eval_neg u r))

(** val eval_ew : genv -> tt -> tt -> tt -> tt -> tt res **)

let eval_ew g u phi1 phi2 steady =
  bind
    (eval_au g u (eval_neg u phi2) (tand (eval_neg u phi1) (eval_neg u phi2))
      steady) (fun r -> Ok (eval_neg u r))

(** val eval_aw : genv -> tt -> tt -> tt -> tt res **)

let eval_aw g u phi1 phi2 =
  bind
    (eval_eu_saturated g (eval_neg u phi2)
      (tand (eval_neg u phi1) (eval_neg u phi2))) (fun r -> Ok (eval_neg u r))

(** val hctl_var_id : genv -> str -> nat res **)

let hctl_var_id g = function
| [] -> Panic PExtraVarIndex
| _ :: r ->
  if Nat.ltb (length r) g.g_k then Ok (length r) else Panic PExtraVarIndex

(** val comparator_var_state : genv -> tt -> nat -> tt **)

let comparator_var_state g =
  let l = g.g_L in
  (fun u e ->
  tand
    (fold_left (fun acc i ->
      tand acc (tiff (lit l (TX (i, e))) (lit l (TS i)))) (range g.g_n) u) u)

(** val comparator_two_vars : genv -> nat -> nat -> tt **)

let comparator_two_vars g =
  let l = g.g_L in
  (fun e1 e2 ->
  fold_left (fun acc i ->
    tand acc (tiff (lit l (TX (i, e1))) (lit l (TX (i, e2))))) (range g.g_n)
    (full g))

(** val project_out_hctl_var : genv -> tt -> nat -> tt **)

let project_out_hctl_var g =
  let l = g.g_L in (fun s e -> exq (is_copy e) l s)

(** val project_out_bn_vars : genv -> tt -> tt **)

let project_out_bn_vars g =
  let l = g.g_L in (fun s -> exq is_state_tag l s)

(** val eval_hctl_var : genv -> tt -> nat -> tt **)

let eval_hctl_var =
  comparator_var_state

(** val eval_bind : genv -> tt -> tt -> nat -> tt **)

let eval_bind g u phi e =
  project_out_hctl_var g (tand (comparator_var_state g u e) phi) e

(** val eval_exists : genv -> tt -> nat -> tt **)

let eval_exists =
  project_out_hctl_var

(** val eval_jump : genv -> tt -> tt -> nat -> tt **)

let eval_jump g u phi e =
  project_out_bn_vars g (tand (comparator_var_state g u e) phi)

(** val substitute_hctl_var : genv -> tt -> nat -> nat -> tt **)

let substitute_hctl_var g s e_before e_after =
  if Nat.eqb e_before e_after
  then s
  else project_out_hctl_var g
         (tand s (comparator_two_vars g e_before e_after)) e_before

(** val compute_valid_domain_for_var : genv -> tt -> tt -> nat -> tt **)

let compute_valid_domain_for_var g u domain e =
  project_out_bn_vars g (tand domain (comparator_var_state g u e))

(** val eval_prop : genv -> tt -> nat -> tt **)

let eval_prop g =
  let l = g.g_L in (fun u i -> tand (lit l (TS i)) u)

type ectx = { duplicates : (key * nat) list;
              cache : (key * (tt * (str * str) list)) list;
              domain_sets : (str * tt) list; free_doms : dommap }

(** val ctx_new : (key * nat) list -> ectx **)

let ctx_new dups =
  { duplicates = dups; cache = []; domain_sets = []; free_doms = [] }

(** val set_dups : ectx -> (key * nat) list -> ectx **)

let set_dups c d =
  { duplicates = d; cache = c.cache; domain_sets = c.domain_sets; free_doms =
    c.free_doms }

(** val set_cache : ectx -> (key * (tt * (str * str) list)) list -> ectx **)

let set_cache c x =
  { duplicates = c.duplicates; cache = x; domain_sets = c.domain_sets;
    free_doms = c.free_doms }

(** val set_free : ectx -> dommap -> ectx **)

let set_free c x =
  { duplicates = c.duplicates; cache = c.cache; domain_sets = c.domain_sets;
    free_doms = x }

(** val set_domsets : ectx -> (str * tt) list -> ectx **)

let set_domsets c x =
  { duplicates = c.duplicates; cache = c.cache; domain_sets = x; free_doms =
    c.free_doms }

(** val wild_key : str -> key **)

let wild_key p =
  ((c_pct :: (app p (c_pct :: []))), [])

(** val extend_props : (str * tt) list -> ectx -> ectx **)

let rec extend_props props c =
  match props with
  | [] -> c
  | p0 :: rest ->
    let (p, s) = p0 in
    let k = wild_key p in
    let c1 = set_dups c (incr_dup k c.duplicates) in
    let c2 = set_cache c1 (ainsert key_eqb k (s, []) c1.cache) in
    extend_props rest c2

(** val extend_context :
    (str * tt) list -> (str * tt) list -> ectx -> ectx **)

let extend_context props doms c =
  let c1 = extend_props props c in
  set_domsets c1
    (fold_left (fun acc pd -> ainsert str_eqb (fst pd) (snd pd) acc) doms
      c1.domain_sets)

type switches =
  bool
  (* singleton inductive, whose constructor was Build_switches *)

(** val use_patterns : switches -> bool **)

let use_patterns s =
  s

(** val is_attractor_pattern : tree -> bool **)

let is_attractor_pattern = function
| Hybrid (o, x, d, t0) ->
  (match o with
   | Bind ->
     (match d with
      | Some _ -> false
      | None ->
        (match t0 with
         | Unary (o0, t1) ->
           (match o0 with
            | AG ->
              (match t1 with
               | Unary (o1, t2) ->
                 (match o1 with
                  | EF ->
                    (match t2 with
                     | Terminal a ->
                       (match a with
                        | AVar y -> str_eqb x y
                        | _ -> false)
                     | _ -> false)
                  | _ -> false)
               | _ -> false)
            | _ -> false)
         | _ -> false))
   | _ -> false)
| _ -> false

(** val is_fixed_point_pattern : tree -> bool **)

let is_fixed_point_pattern = function
| Hybrid (o, x, d, t0) ->
  (match o with
   | Bind ->
     (match d with
      | Some _ -> false
      | None ->
        (match t0 with
         | Unary (o0, t1) ->
           (match o0 with
            | AX ->
              (match t1 with
               | Terminal a ->
                 (match a with
                  | AVar y -> str_eqb x y
                  | _ -> false)
               | _ -> false)
            | _ -> false)
         | _ -> false))
   | _ -> false)
| _ -> false

(** val pattern_var : tree -> str **)

let pattern_var = function
| Hybrid (_, x, _, _) -> x
| _ -> []

(** val index_of : str -> str list -> nat -> nat option **)

let rec index_of x l i =
  match l with
  | [] -> None
  | y :: r -> if str_eqb x y then Some i else index_of x r (S i)

(** val attractors : genv -> tt -> nat -> tt res **)

let attractors g u e =
  bind (eval_ef_saturated g u (eval_hctl_var g u e)) (fun ef ->
    bind (eval_ag g u ef) (fun ag -> Ok (eval_bind g u (tand ag u) e)))

(** val foreign_restriction : dommap -> (str * str) list -> bool **)

let foreign_restriction fd ren =
  existsb (fun vd ->
    (&&) (negb (amem str_eqb (fst vd) ren))
      (match snd vd with
       | Some _ -> true
       | None -> false)) fd

(** val rename_back :
    genv -> (str * str) list -> (str * str) list -> tt -> tt res **)

let rec rename_back g result_ren ren r =
  match result_ren with
  | [] -> Ok r
  | p :: rest ->
    let (var_res, var_canon) = p in
    (match find (fun cc -> str_eqb (snd cc) var_canon) ren with
     | Some p0 ->
       let (var_curr, _) = p0 in
       bind (hctl_var_id g var_res) (fun e1 ->
         bind (hctl_var_id g var_curr) (fun e2 ->
           rename_back g rest ren (substitute_hctl_var g r e1 e2)))
     | None -> Panic PReverseRenaming)

(** val eval_hybrid_quantifier :
    genv -> tt -> tt -> hybop -> nat -> tt -> tt res **)

let eval_hybrid_quantifier g u ur o e child =
  match o with
  | Bind -> Ok (eval_bind g u (tand child ur) e)
  | Jump -> Panic PHybridQuantifier
  | Exists -> Ok (eval_exists g (tand child ur) e)
  | Forall -> Ok (eval_neg u (eval_exists g (eval_neg ur child) e))

(** val eval_node :
    genv -> str list -> switches -> tt -> tree -> tt -> ectx -> (tt * ectx)
    res **)

let rec eval_node g names sw steady t u c =
  let (canon, ren) = canonize (render t) in
  let k = (canon, (canon_domains c.free_doms ren [])) in
  let dup = amem key_eqb k c.duplicates in
  (match if dup then alookup key_eqb k c.cache else None with
   | Some p ->
     let (cached, cached_ren) = p in
     let c' =
       if is_wild_terminal t
       then c
       else (match alookup key_eqb k c.duplicates with
             | Some n0 ->
               (match n0 with
                | O ->
                  set_cache (set_dups c (aremove key_eqb k c.duplicates))
                    (aremove key_eqb k c.cache)
                | S n1 ->
                  (match n1 with
                   | O ->
                     set_cache (set_dups c (aremove key_eqb k c.duplicates))
                       (aremove key_eqb k c.cache)
                   | S _ -> set_dups c (ainsert key_eqb k n1 c.duplicates)))
             | None -> c)
     in
     bind (rename_back g cached_ren ren cached) (fun r -> Ok (r, c'))
   | None ->
     let save = (&&) dup (negb (foreign_restriction c.free_doms ren)) in
     let finish = fun rc ->
       if save
       then Ok ((fst rc),
              (set_cache (snd rc)
                (ainsert key_eqb k ((fst rc), ren) (snd rc).cache)))
       else Ok rc
     in
     if (&&) (use_patterns sw) (is_attractor_pattern t)
     then bind (hctl_var_id g (pattern_var t)) (fun e ->
            bind (attractors g u e) (fun r -> finish (r, c)))
     else if (&&) (use_patterns sw) (is_fixed_point_pattern t)
          then Ok (steady, c)
          else (match t with
                | Terminal a ->
                  (match a with
                   | AProp name ->
                     (match index_of name names O with
                      | Some i -> finish ((eval_prop g u i), c)
                      | None -> Panic PPropLookup)
                   | AVar name ->
                     bind (hctl_var_id g name) (fun e ->
                       finish ((eval_hctl_var g u e), c))
                   | ATrue -> finish (u, c)
                   | AFalse -> finish ((empty g), c)
                   | AWild _ -> Panic PWildCardUnreachable)
                | Unary (o, ch) ->
                  bind (eval_node g names sw steady ch u c) (fun pat ->
                    let (x, c1) = pat in
                    bind
                      (match o with
                       | Not -> Ok (eval_neg u x)
                       | EX -> Ok (eval_ex g x steady)
                       | AX -> Ok (eval_ax g u x steady)
                       | EF -> eval_ef_saturated g u x
                       | AF -> eval_af g u x steady
                       | EG -> eval_eg g x steady
                       | AG -> eval_ag g u x) (fun r -> finish (r, c1)))
                | Binary (o, l, r) ->
                  bind (eval_node g names sw steady l u c) (fun pat ->
                    let (a, c1) = pat in
                    bind (eval_node g names sw steady r u c1) (fun pat0 ->
                      let (b, c2) = pat0 in
                      bind
                        (match o with
                         | And -> Ok (tand a b)
                         | Or -> Ok (tor a b)
                         | Xor -> Ok (eval_xor u a b)
                         | Imp -> Ok (eval_imp u a b)
                         | Iff -> Ok (eval_equiv u a b)
                         | EU -> eval_eu_saturated g a b
                         | AU -> eval_au g u a b steady
                         | EW -> eval_ew g u a b steady
                         | AW -> eval_aw g u a b) (fun res0 ->
                        finish (res0, c2))))
                | Hybrid (o, x, d, ch) ->
                  (match o with
                   | Bind ->
                     let c0 = set_free c (sinsert x d c.free_doms) in
                     let close = fun c1 ->
                       set_free c1 (aremove str_eqb x c1.free_doms)
                     in
                     (match d with
                      | Some dl ->
                        (match alookup str_eqb dl c0.domain_sets with
                         | Some dset ->
                           bind (hctl_var_id g x) (fun e ->
                             let var_domain =
                               compute_valid_domain_for_var g u dset e
                             in
                             let ur = tand u var_domain in
                             if is_empty ur
                             then Ok
                                    ((match o with
                                      | Forall -> u
                                      | _ -> empty g), (close c0))
                             else bind (eval_node g names sw steady ch ur c0)
                                    (fun pat ->
                                    let (a, c1) = pat in
                                    bind
                                      (eval_hybrid_quantifier g u ur o e a)
                                      (fun r -> finish (r, (close c1)))))
                         | None -> Panic PDomainLookup)
                      | None ->
                        bind (eval_node g names sw steady ch u c0)
                          (fun pat ->
                          let (a, c1) = pat in
                          bind (hctl_var_id g x) (fun e ->
                            bind (eval_hybrid_quantifier g u u o e a)
                              (fun r -> finish (r, (close c1))))))
                   | Jump ->
                     bind (eval_node g names sw steady ch u c) (fun pat ->
                       let (a, c1) = pat in
                       bind (hctl_var_id g x) (fun e ->
                         finish ((eval_jump g u a e), c1)))
                   | Exists ->
                     let c0 = set_free c (sinsert x d c.free_doms) in
                     let close = fun c1 ->
                       set_free c1 (aremove str_eqb x c1.free_doms)
                     in
                     (match d with
                      | Some dl ->
                        (match alookup str_eqb dl c0.domain_sets with
                         | Some dset ->
                           bind (hctl_var_id g x) (fun e ->
                             let var_domain =
                               compute_valid_domain_for_var g u dset e
                             in
                             let ur = tand u var_domain in
                             if is_empty ur
                             then Ok
                                    ((match o with
                                      | Forall -> u
                                      | _ -> empty g), (close c0))
                             else bind (eval_node g names sw steady ch ur c0)
                                    (fun pat ->
                                    let (a, c1) = pat in
                                    bind
                                      (eval_hybrid_quantifier g u ur o e a)
                                      (fun r -> finish (r, (close c1)))))
                         | None -> Panic PDomainLookup)
                      | None ->
                        bind (eval_node g names sw steady ch u c0)
                          (fun pat ->
                          let (a, c1) = pat in
                          bind (hctl_var_id g x) (fun e ->
                            bind (eval_hybrid_quantifier g u u o e a)
                              (fun r -> finish (r, (close c1))))))
                   | Forall ->
                     let c0 = set_free c (sinsert x d c.free_doms) in
                     let close = fun c1 ->
                       set_free c1 (aremove str_eqb x c1.free_doms)
                     in
                     (match d with
                      | Some dl ->
                        (match alookup str_eqb dl c0.domain_sets with
                         | Some dset ->
                           bind (hctl_var_id g x) (fun e ->
                             let var_domain =
                               compute_valid_domain_for_var g u dset e
                             in
                             let ur = tand u var_domain in
                             if is_empty ur
                             then Ok
                                    ((match o with
                                      | Forall -> u
                                      | _ -> empty g), (close c0))
                             else bind (eval_node g names sw steady ch ur c0)
                                    (fun pat ->
                                    let (a, c1) = pat in
                                    bind
                                      (eval_hybrid_quantifier g u ur o e a)
                                      (fun r -> finish (r, (close c1)))))
                         | None -> Panic PDomainLookup)
                      | None ->
                        bind (eval_node g names sw steady ch u c0)
                          (fun pat ->
                          let (a, c1) = pat in
                          bind (hctl_var_id g x) (fun e ->
                            bind (eval_hybrid_quantifier g u u o e a)
                              (fun r -> finish (r, (close c1)))))))))

type world = { w_p : nat; w_n : nat; w_names : str list; w_upd : tt list;
               w_unit : tt }

(** val not_extra : tag -> bool **)

let not_extra g =
  negb (is_extra_tag g)

(** val genv_of : world -> nat -> genv **)

let genv_of w k =
  mk_genv w.w_p w.w_n k w.w_upd

(** val lift : world -> nat -> tt -> tt **)

let lift w k s =
  expand not_extra (mk_layout w.w_p w.w_n k) s

(** val unit_of : world -> nat -> tt **)

let unit_of w k =
  lift w k w.w_unit

(** val parse_formula : (n -> bool) -> bool -> str -> tree res **)

let parse_formula ext_alnum ext s =
  bind (tokenize ext_alnum ext s) parse_tokens

(** val parse_and_minimize :
    (n -> bool) -> bool -> str list -> str -> tree res **)

let parse_and_minimize ext_alnum ext props s =
  bind (parse_formula ext_alnum ext s) (fun t -> preprocess props t)

(** val pick_context : str list -> (str * tt) list -> (str * tt) list res **)

let rec pick_context labels ctx =
  match labels with
  | [] -> Ok []
  | l :: rest ->
    (match alookup str_eqb l ctx with
     | Some s -> bind (pick_context rest ctx) (fun r -> Ok ((l, s) :: r))
     | None -> Err EMissingContext)

(** val divide_wild_cards :
    tree -> (str * tt) list -> ((str * tt) list * (str * tt) list) res **)

let divide_wild_cards t ctx =
  let (ps, ds) = collect_wild t ([], []) in
  bind (pick_context ps ctx) (fun cp ->
    bind (pick_context ds ctx) (fun cd -> Ok (cp, cd)))

(** val validate_all :
    (n -> bool) -> bool -> str list -> nat -> (str * tt) list -> str list ->
    ((tree list * (str * tt) list) * (str * tt) list) res **)

let rec validate_all ext_alnum ext props k ctx = function
| [] -> Ok (([], []), [])
| f :: rest ->
  bind (parse_and_minimize ext_alnum ext props f) (fun t ->
    if Nat.ltb k (num_hctl_vars t)
    then Err EVarSupport
    else bind (if ext then divide_wild_cards t ctx else Ok ([], []))
           (fun pat ->
           let (cp, cd) = pat in
           bind (validate_all ext_alnum ext props k ctx rest) (fun pat0 ->
             let (tsp, ds) = pat0 in
             Ok (((t :: (fst tsp)), (app cp (snd tsp))), (app cd ds)))))

(** val eval_all :
    genv -> str list -> switches -> tt -> tt -> tree list -> ectx -> tt list
    res **)

let rec eval_all g names sw steady u ts c =
  match ts with
  | [] -> Ok []
  | t :: rest ->
    bind (eval_node g names sw steady t u c) (fun pat ->
      let (r, c') = pat in
      bind (eval_all g names sw steady u rest c') (fun rs -> Ok (r :: rs)))

(** val sanitize : genv -> tt -> tt res **)

let sanitize g r =
  match restrict not_extra g.g_L r with
  | Some s -> Ok s
  | None -> Panic PSanitizeDependsOnExtras

(** val sanitize_all : genv -> tt list -> tt list res **)

let rec sanitize_all g = function
| [] -> Ok []
| r :: rest ->
  bind (sanitize g r) (fun s ->
    bind (sanitize_all g rest) (fun ss -> Ok (s :: ss)))

type mode = { m_ext : bool; m_sanitize : bool; m_unsafe_ex : bool;
              m_nocache : bool; m_nopatterns : bool }

(** val dedup_labels : (str * tt) list -> (str * tt) list **)

let dedup_labels l =
  fold_right (fun ps acc ->
    if amem str_eqb (fst ps) acc then acc else ps :: acc) [] l

(** val check_trees :
    world -> nat -> mode -> tree list -> (str * tt) list -> (str * tt) list
    -> tt list res **)

let check_trees w k m ts cprops cdoms =
  let g = genv_of w k in
  let u = unit_of w k in
  let dups = if m.m_nocache then [] else mark_duplicates ts in
  let c0 = ctx_new dups in
  let c1 =
    if m.m_ext
    then extend_context
           (map (fun ps -> ((fst ps), (lift w k (snd ps))))
             (dedup_labels cprops))
           (map (fun ps -> ((fst ps), (lift w k (snd ps))))
             (dedup_labels cdoms)) c0
    else c0
  in
  let steady = if m.m_unsafe_ex then empty g else steady_of g u in
  let sw = negb m.m_nopatterns in
  bind (eval_all g w.w_names sw steady u ts c1) (fun rs ->
    if m.m_sanitize then sanitize_all g rs else Ok rs)

(** val model_check :
    (n -> bool) -> world -> nat -> mode -> (str * tt) list -> str list -> tt
    list res **)

let model_check ext_alnum w k m ctx fs =
  bind (validate_all ext_alnum m.m_ext w.w_names k ctx fs) (fun pat ->
    let (tsp, cd) = pat in check_trees w k m (fst tsp) (snd tsp) cd)

(** val lp : nat -> layout **)

let lp p =
  map (fun x -> TP x) (range p)

(** val ln : nat -> layout **)

let ln n0 =
  map (fun x -> TS x) (range n0)

(** val lpn : nat -> nat -> layout **)

let lpn n0 p =
  app (lp p) (ln n0)

(** val join : val0 -> val0 -> val0 **)

let join c s g = match g with
| TP _ -> c g
| _ -> s g

(** val upd_at : nat -> nat -> tt list -> val0 -> val0 -> nat -> bool **)

let upd_at n0 p upd c s i =
  mem (lpn n0 p) (nth i upd (Leaf false)) (join c s)

(** val flip_state : val0 -> nat -> val0 **)

let flip_state s i g =
  if tag_eqb g (TS i) then negb (s g) else s g

(** val moves : nat -> nat -> tt list -> val0 -> val0 -> nat list **)

let moves n0 p upd c s =
  filter (fun i -> xorb (upd_at n0 p upd c s i) (s (TS i))) (range n0)

(** val succs : nat -> nat -> tt list -> val0 -> val0 -> val0 list **)

let succs n0 p upd c s =
  match moves n0 p upd c s with
  | [] -> s :: []
  | n1 :: l -> map (flip_state s) (n1 :: l)

type sset = tt

(** val smem : nat -> sset -> val0 -> bool **)

let smem n0 x s =
  mem (ln n0) x s

(** val stab : nat -> (val0 -> bool) -> sset **)

let stab n0 f =
  tabulate (ln n0) f

(** val all_vals : layout -> val0 list **)

let rec all_vals = function
| [] -> (fun _ -> false) :: []
| h :: l' ->
  let r = all_vals l' in
  app (map (fun v g -> if tag_eqb g h then false else v g) r)
    (map (fun v g -> if tag_eqb g h then true else v g) r)

(** val all_states : nat -> val0 list **)

let all_states n0 =
  all_vals (ln n0)

(** val state_eqb : nat -> val0 -> val0 -> bool **)

let state_eqb n0 s t =
  forallb (fun g -> eqb (s g) (t g)) (ln n0)

(** val fix_iter : nat -> (sset -> sset) -> sset -> sset res **)

let rec fix_iter fuel f x =
  match fuel with
  | O -> OutOfFuel
  | S f0 -> let y = f x in if tt_eqb y x then Ok x else fix_iter f0 f y

(** val sfuel : nat -> nat **)

let sfuel n0 =
  S (S (Nat.pow (S (S O)) n0))

(** val s_ex : nat -> nat -> tt list -> val0 -> sset -> sset **)

let s_ex n0 p upd c x =
  stab n0 (fun s -> existsb (smem n0 x) (succs n0 p upd c s))

(** val s_ax : nat -> nat -> tt list -> val0 -> sset -> sset **)

let s_ax n0 p upd c x =
  stab n0 (fun s -> forallb (smem n0 x) (succs n0 p upd c s))

(** val s_full : nat -> sset **)

let s_full n0 =
  const (ln n0) true

(** val s_empty : nat -> sset **)

let s_empty n0 =
  const (ln n0) false

(** val s_not : sset -> sset **)

let s_not x =
  map2 (fun a _ -> negb a) x x

(** val s_eu : nat -> nat -> tt list -> val0 -> sset -> sset -> sset res **)

let s_eu n0 p upd c p0 q =
  fix_iter (sfuel n0) (fun x -> tor q (tand p0 (s_ex n0 p upd c x)))
    (s_empty n0)

(** val s_au : nat -> nat -> tt list -> val0 -> sset -> sset -> sset res **)

let s_au n0 p upd c p0 q =
  fix_iter (sfuel n0) (fun x -> tor q (tand p0 (s_ax n0 p upd c x)))
    (s_empty n0)

(** val s_eg : nat -> nat -> tt list -> val0 -> sset -> sset res **)

let s_eg n0 p upd c p0 =
  fix_iter (sfuel n0) (fun x -> tand p0 (s_ex n0 p upd c x)) (s_full n0)

(** val s_ag : nat -> nat -> tt list -> val0 -> sset -> sset res **)

let s_ag n0 p upd c p0 =
  fix_iter (sfuel n0) (fun x -> tand p0 (s_ax n0 p upd c x)) (s_full n0)

(** val s_ew : nat -> nat -> tt list -> val0 -> sset -> sset -> sset res **)

let s_ew n0 p upd c p0 q =
  fix_iter (sfuel n0) (fun x -> tor q (tand p0 (s_ex n0 p upd c x)))
    (s_full n0)

(** val s_aw : nat -> nat -> tt list -> val0 -> sset -> sset -> sset res **)

let s_aw n0 p upd c p0 q =
  fix_iter (sfuel n0) (fun x -> tor q (tand p0 (s_ax n0 p upd c x)))
    (s_full n0)

(** val dom_set :
    nat -> nat -> (str * tt) list -> val0 -> str option -> sset res **)

let dom_set n0 p ctxs c = function
| Some l ->
  (match alookup str_eqb l ctxs with
   | Some x -> Ok (stab n0 (fun s -> mem (lpn n0 p) x (join c s)))
   | None -> Err EMissingContext)
| None -> Ok (s_full n0)

(** val for_states :
    val0 list -> (val0 -> 'a1 res) -> (val0 * 'a1) list res **)

let rec for_states l f =
  match l with
  | [] -> Ok []
  | u :: r ->
    bind (f u) (fun a ->
      bind (for_states r f) (fun rest -> Ok ((u, a) :: rest)))

(** val index_of_name : str -> str list -> nat -> nat option **)

let rec index_of_name x l i =
  match l with
  | [] -> None
  | y :: r -> if str_eqb x y then Some i else index_of_name x r (S i)

(** val sem :
    nat -> nat -> tt list -> str list -> (str * tt) list -> val0 ->
    (str * val0) list -> tree -> sset res **)

let rec sem n0 p upd names ctxs c env = function
| Terminal a ->
  (match a with
   | AProp name ->
     (match index_of_name name names O with
      | Some i -> Ok (stab n0 (fun s -> s (TS i)))
      | None -> Err EUnknownProp)
   | AVar x ->
     (match alookup str_eqb x env with
      | Some u -> Ok (stab n0 (fun s -> state_eqb n0 s u))
      | None -> Err EFreeVar)
   | ATrue -> Ok (s_full n0)
   | AFalse -> Ok (s_empty n0)
   | AWild l ->
     (match alookup str_eqb l ctxs with
      | Some x -> Ok (stab n0 (fun s -> mem (lpn n0 p) x (join c s)))
      | None -> Err EMissingContext))
| Unary (o, a) ->
  bind (sem n0 p upd names ctxs c env a) (fun a0 ->
    match o with
    | Not -> Ok (s_not a0)
    | EX -> Ok (s_ex n0 p upd c a0)
    | AX -> Ok (s_ax n0 p upd c a0)
    | EF -> s_eu n0 p upd c (s_full n0) a0
    | AF -> s_au n0 p upd c (s_full n0) a0
    | EG -> s_eg n0 p upd c a0
    | AG -> s_ag n0 p upd c a0)
| Binary (o, a, b) ->
  bind (sem n0 p upd names ctxs c env a) (fun a0 ->
    bind (sem n0 p upd names ctxs c env b) (fun b0 ->
      match o with
      | And -> Ok (tand a0 b0)
      | Or -> Ok (tor a0 b0)
      | Xor -> Ok (txor a0 b0)
      | Imp -> Ok (tor (s_not a0) b0)
      | Iff -> Ok (tiff a0 b0)
      | EU -> s_eu n0 p upd c a0 b0
      | AU -> s_au n0 p upd c a0 b0
      | EW -> s_ew n0 p upd c a0 b0
      | AW -> s_aw n0 p upd c a0 b0))
| Hybrid (o, x, d, a) ->
  (match o with
   | Jump ->
     (match alookup str_eqb x env with
      | Some u ->
        bind (sem n0 p upd names ctxs c env a) (fun a0 -> Ok
          (const (ln n0) (smem n0 a0 u)))
      | None -> Err EFreeVar)
   | _ ->
     bind (dom_set n0 p ctxs c d) (fun d0 ->
       bind
         (for_states (filter (smem n0 d0) (all_states n0)) (fun u ->
           sem n0 p upd names ctxs c ((x, u) :: env) a)) (fun rs ->
         match o with
         | Bind ->
           Ok
             (stab n0 (fun s ->
               existsb (fun ua ->
                 (&&) (state_eqb n0 (fst ua) s) (smem n0 (snd ua) s)) rs))
         | Exists ->
           Ok (stab n0 (fun s -> existsb (fun ua -> smem n0 (snd ua) s) rs))
         | _ ->
           Ok (stab n0 (fun s -> forallb (fun ua -> smem n0 (snd ua) s) rs)))))

(** val assemble :
    nat -> nat -> tt list -> str list -> (str * tt) list -> layout -> val0 ->
    tree -> tt res **)

let rec assemble n0 p upd names ctxs ps c t =
  match ps with
  | [] -> sem n0 p upd names ctxs c [] t
  | h :: r ->
    bind
      (assemble n0 p upd names ctxs r (fun g ->
        if tag_eqb g h then false else c g) t) (fun lo ->
      bind
        (assemble n0 p upd names ctxs r (fun g ->
          if tag_eqb g h then true else c g) t) (fun hi -> Ok (Node (lo, hi))))

(** val sem_eval :
    nat -> nat -> tt list -> str list -> (str * tt) list -> tt -> tree -> tt
    res **)

let sem_eval n0 p upd names ctxs unit_pn t =
  bind (assemble n0 p upd names ctxs (lp p) (fun _ -> false) t) (fun r -> Ok
    (tand r unit_pn))

type bop =
| BAnd
| BOr
| BXor
| BIff
| BImp

type fnupd =
| FConst of bool
| FVar of nat
| FNot of fnupd
| FBin of bop * fnupd * fnupd
| FParam of str * fnupd list

(** val ch0 : n **)

let ch0 =
  Npos (XO (XO (XO (XO (XI XH)))))

(** val ch1 : n **)

let ch1 =
  Npos (XI (XO (XO (XO (XI XH)))))

(** val chu : n **)

let chu =
  Npos (XI (XI (XI (XI (XI (XO XH))))))

(** val pname : str -> str **)

let pname name =
  app name (chu :: [])

(** val bump : (str -> bool) -> nat -> str -> str **)

let rec bump isvar fuel name =
  match fuel with
  | O -> name
  | S k -> if isvar name then bump isvar k (app name (chu :: [])) else name

(** val explode_rs : (str -> bool) -> nat -> fnupd list -> str -> fnupd **)

let rec explode_rs isvar fuel args prefix =
  match args with
  | [] -> FParam ((bump isvar fuel prefix), [])
  | a :: rest ->
    FBin (BAnd, (FBin (BImp, a,
      (explode_rs isvar fuel rest (app prefix (ch1 :: []))))), (FBin (BImp,
      (FNot a), (explode_rs isvar fuel rest (app prefix (ch0 :: []))))))

(** val flatten_rs : (str -> bool) -> nat -> fnupd -> fnupd **)

let rec flatten_rs isvar fuel = function
| FNot g -> FNot (flatten_rs isvar fuel g)
| FBin (op, l, r) ->
  FBin (op, (flatten_rs isvar fuel l), (flatten_rs isvar fuel r))
| FParam (name, args) ->
  explode_rs isvar fuel (map (flatten_rs isvar fuel) args) (pname name)
| x -> x

(** val eval_op : bop -> bool -> bool -> bool **)

let eval_op op a b =
  match op with
  | BAnd -> (&&) a b
  | BOr -> (||) a b
  | BXor -> xorb a b
  | BIff -> eqb a b
  | BImp -> implb a b

(** val eval_fn :
    (str -> bool list -> bool) -> (nat -> bool) -> fnupd -> bool **)

let rec eval_fn i s = function
| FConst b -> b
| FVar v -> s v
| FNot g -> negb (eval_fn i s g)
| FBin (op, l, r) -> eval_op op (eval_fn i s l) (eval_fn i s r)
| FParam (name, args) -> i name (map (eval_fn i s) args)

(** val eval_flat : (str -> bool) -> (nat -> bool) -> fnupd -> bool **)

let eval_flat rho s f =
  eval_fn (fun name _ -> rho name) s f

(** val c_nl : n **)

let c_nl =
  Npos (XO (XI (XO XH)))

(** val c_cr : n **)

let c_cr =
  Npos (XI (XO (XI XH)))

(** val c_hash : n **)

let c_hash =
  Npos (XI (XI (XO (XO (XO XH)))))

(** val c_dot : n **)

let c_dot =
  Npos (XO (XI (XI (XI (XO XH)))))

(** val c_slash : n **)

let c_slash =
  Npos (XI (XI (XI (XI (XO XH)))))

(** val s_bdd : str **)

let s_bdd =
  (Npos (XO (XI (XO (XO (XO (XI XH))))))) :: ((Npos (XO (XO (XI (XO (XO (XI
    XH))))))) :: ((Npos (XO (XO (XI (XO (XO (XI XH))))))) :: []))

(** val s_dot_bdd : str **)

let s_dot_bdd =
  c_dot :: s_bdd

(** val s_dot : str **)

let s_dot =
  c_dot :: []

(** val s_dotdot : str **)

let s_dotdot =
  c_dot :: (c_dot :: [])

(** val s_formula_dash : str **)

let s_formula_dash =
  (Npos (XO (XI (XI (XO (XO (XI XH))))))) :: ((Npos (XI (XI (XI (XI (XO (XI
    XH))))))) :: ((Npos (XO (XI (XO (XO (XI (XI XH))))))) :: ((Npos (XI (XO
    (XI (XI (XO (XI XH))))))) :: ((Npos (XI (XO (XI (XO (XI (XI
    XH))))))) :: ((Npos (XO (XO (XI (XI (XO (XI XH))))))) :: ((Npos (XI (XO
    (XO (XO (XO (XI XH))))))) :: ((Npos (XI (XO (XI (XI (XO
    XH)))))) :: [])))))))

(** val strip_prefix : str -> str -> str option **)

let rec strip_prefix p s =
  match p with
  | [] -> Some s
  | x :: p' ->
    (match s with
     | [] -> None
     | y :: s' -> if N.eqb x y then strip_prefix p' s' else None)

(** val strip_suffix : str -> str -> str option **)

let strip_suffix p s =
  match strip_prefix (rev p) (rev s) with
  | Some r -> Some (rev r)
  | None -> None

(** val split_inclusive : str -> str list **)

let rec split_inclusive = function
| [] -> []
| c :: s' ->
  if N.eqb c c_nl
  then (c :: []) :: (split_inclusive s')
  else (match split_inclusive s' with
        | [] -> (c :: []) :: []
        | piece :: pieces -> (c :: piece) :: pieces)

(** val lines_map : str -> str **)

let lines_map line =
  match strip_suffix (c_nl :: []) line with
  | Some l ->
    (match strip_suffix (c_cr :: []) l with
     | Some l' -> l'
     | None -> l)
  | None -> line

(** val lines : str -> str list **)

let lines s =
  map lines_map (split_inclusive s)

(** val trim_start : str -> str **)

let trim_start =
  skip_ws

(** val trim_end : str -> str **)

let trim_end s =
  rev (skip_ws (rev s))

(** val trim : str -> str **)

let trim s =
  trim_end (trim_start s)

(** val is_empty0 : 'a1 list -> bool **)

let is_empty0 = function
| [] -> true
| _ :: _ -> false

(** val split : n -> str -> str list **)

let rec split sep = function
| [] -> [] :: []
| c :: s' ->
  if N.eqb c sep
  then [] :: (split sep s')
  else (match split sep s' with
        | [] -> (c :: []) :: []
        | seg :: segs -> (c :: seg) :: segs)

(** val skip_trivial : str list -> str list **)

let rec skip_trivial segs = match segs with
| [] -> []
| seg :: rest ->
  if (||) (is_empty0 seg) (str_eqb seg s_dot) then skip_trivial rest else segs

(** val file_name : str -> str option **)

let file_name p =
  match skip_trivial (rev (split c_slash p)) with
  | [] -> None
  | seg :: _ -> if str_eqb seg s_dotdot then None else Some seg

(** val extension_of_file_name : str -> str option **)

let extension_of_file_name f =
  match rev (split c_dot f) with
  | [] -> None
  | after :: l ->
    (match l with
     | [] -> None
     | before_last :: before_rest ->
       if (&&) (is_empty0 before_last) (is_empty0 before_rest)
       then None
       else Some after)

(** val extension : str -> str option **)

let extension p =
  match file_name p with
  | Some f -> extension_of_file_name f
  | None -> None

(** val keep_formula : str -> bool **)

let keep_formula t =
  (&&) (negb (is_empty0 t)) (negb (peek_is c_hash t))

(** val load_formulae : str -> str list **)

let load_formulae content =
  filter keep_formula (map trim (lines content))

(** val result_label : nat -> str **)

let result_label i =
  app s_formula_dash (dec_of_N (N.of_nat i))

(** val ext_alnum_tbl : n -> bool **)

let ext_alnum_tbl c =
  existsb (N.eqb c) ((Npos (XI (XO (XO (XI (XO (XI (XI XH)))))))) :: ((Npos
    (XI (XI (XO (XI (XI (XI (XO (XI (XI XH)))))))))) :: ((Npos (XI (XI (XO
    (XO (XO (XI (XI (XO (XO (XI XH))))))))))) :: ((Npos (XI (XO (XI (XI (XI
    (XI (XO XH)))))))) :: ((Npos (XO (XI (XI (XO (XI (XI (XO (XO (XO (XO
    XH))))))))))) :: [])))))

(** val x_tokenize : bool -> str -> token list res **)

let x_tokenize =
  tokenize ext_alnum_tbl

(** val x_parse_formula : bool -> str -> tree res **)

let x_parse_formula =
  parse_formula ext_alnum_tbl

(** val x_parse_and_minimize : bool -> str list -> str -> tree res **)

let x_parse_and_minimize =
  parse_and_minimize ext_alnum_tbl

(** val x_model_check :
    world -> nat -> mode -> (str * tt) list -> str list -> tt list res **)

let x_model_check =
  model_check ext_alnum_tbl

(** val x_spec_eval : world -> bool -> (str * tt) list -> str -> tt res **)

let x_spec_eval w ext ctx f =
  bind (parse_formula ext_alnum_tbl ext f) (fun t ->
    sem_eval w.w_n w.w_p w.w_upd w.w_names ctx w.w_unit t)

(** val x_layout_pn : nat -> nat -> layout **)

let x_layout_pn p n0 =
  lpn n0 p
