
val implb : bool -> bool -> bool

val xorb : bool -> bool -> bool

val negb : bool -> bool

type nat =
| O
| S of nat

val fst : ('a1 * 'a2) -> 'a1

val snd : ('a1 * 'a2) -> 'a2

val length : 'a1 list -> nat

val app : 'a1 list -> 'a1 list -> 'a1 list

type comparison =
| Eq
| Lt
| Gt

val add : nat -> nat -> nat

val mul : nat -> nat -> nat

val eqb : bool -> bool -> bool

module Nat :
 sig
  val add : nat -> nat -> nat

  val mul : nat -> nat -> nat

  val eqb : nat -> nat -> bool

  val leb : nat -> nat -> bool

  val ltb : nat -> nat -> bool

  val max : nat -> nat -> nat

  val pow : nat -> nat -> nat
 end

val tl : 'a1 list -> 'a1 list

val nth : nat -> 'a1 list -> 'a1 -> 'a1

val rev : 'a1 list -> 'a1 list

val map : ('a1 -> 'a2) -> 'a1 list -> 'a2 list

val flat_map : ('a1 -> 'a2 list) -> 'a1 list -> 'a2 list

val fold_left : ('a1 -> 'a2 -> 'a1) -> 'a2 list -> 'a1 -> 'a1

val fold_right : ('a2 -> 'a1 -> 'a1) -> 'a1 -> 'a2 list -> 'a1

val existsb : ('a1 -> bool) -> 'a1 list -> bool

val forallb : ('a1 -> bool) -> 'a1 list -> bool

val filter : ('a1 -> bool) -> 'a1 list -> 'a1 list

val find : ('a1 -> bool) -> 'a1 list -> 'a1 option

type positive =
| XI of positive
| XO of positive
| XH

type n =
| N0
| Npos of positive

module Pos :
 sig
  type mask =
  | IsNul
  | IsPos of positive
  | IsNeg
 end

module Coq_Pos :
 sig
  val succ : positive -> positive

  val add : positive -> positive -> positive

  val add_carry : positive -> positive -> positive

  val pred_double : positive -> positive

  type mask = Pos.mask =
  | IsNul
  | IsPos of positive
  | IsNeg

  val succ_double_mask : mask -> mask

  val double_mask : mask -> mask

  val double_pred_mask : positive -> mask

  val sub_mask : positive -> positive -> mask

  val sub_mask_carry : positive -> positive -> mask

  val size : positive -> positive

  val compare_cont : comparison -> positive -> positive -> comparison

  val compare : positive -> positive -> comparison

  val eqb : positive -> positive -> bool

  val iter_op : ('a1 -> 'a1 -> 'a1) -> positive -> 'a1 -> 'a1

  val to_nat : positive -> nat

  val of_succ_nat : nat -> positive
 end

module N :
 sig
  val succ_double : n -> n

  val double : n -> n

  val add : n -> n -> n

  val sub : n -> n -> n

  val compare : n -> n -> comparison

  val eqb : n -> n -> bool

  val leb : n -> n -> bool

  val ltb : n -> n -> bool

  val log2 : n -> n

  val pos_div_eucl : positive -> n -> n * n

  val div_eucl : n -> n -> n * n

  val div : n -> n -> n

  val modulo : n -> n -> n

  val to_nat : n -> nat

  val of_nat : nat -> n
 end

type str = n list

val list_eqb : ('a1 -> 'a1 -> bool) -> 'a1 list -> 'a1 list -> bool

val str_eqb : str -> str -> bool

val opt_eqb : ('a1 -> 'a1 -> bool) -> 'a1 option -> 'a1 option -> bool

type errkind =
| ELex
| EParse
| EFreeVar
| ERequantified
| EUnknownProp
| EMissingContext
| EVarSupport

type panicsite =
| PWildCardUnreachable
| PDomainLookup
| PReverseRenaming
| PExtraVarIndex
| PRestrictedUnitEmpty
| PSanitizeDependsOnExtras
| PPropLookup
| PDupCounter
| PShape
| PHybridQuantifier

type 'a res =
| Ok of 'a
| Err of errkind
| Panic of panicsite
| OutOfFuel

val bind : 'a1 res -> ('a1 -> 'a2 res) -> 'a2 res

val alookup : ('a1 -> 'a1 -> bool) -> 'a1 -> ('a1 * 'a2) list -> 'a2 option

val aremove :
  ('a1 -> 'a1 -> bool) -> 'a1 -> ('a1 * 'a2) list -> ('a1 * 'a2) list

val ainsert :
  ('a1 -> 'a1 -> bool) -> 'a1 -> 'a2 -> ('a1 * 'a2) list -> ('a1 * 'a2) list

val amem : ('a1 -> 'a1 -> bool) -> 'a1 -> ('a1 * 'a2) list -> bool

val str_ltb : str -> str -> bool

val sinsert : str -> 'a1 -> (str * 'a1) list -> (str * 'a1) list

val dec_digits : nat -> n -> str -> str

val dec_of_N : n -> str

type unop =
| Not
| EX
| AX
| EF
| AF
| EG
| AG

type binop =
| And
| Or
| Xor
| Imp
| Iff
| EU
| AU
| EW
| AW

type hybop =
| Bind
| Jump
| Exists
| Forall

type atom =
| AProp of str
| AVar of str
| ATrue
| AFalse
| AWild of str

type tree =
| Terminal of atom
| Unary of unop * tree
| Binary of binop * tree * tree
| Hybrid of hybop * str * str option * tree

type token =
| TUn of unop
| TBin of binop
| THyb of hybop * str * str option
| TAtom of atom
| TGroup of token list

val unop_eqb : unop -> unop -> bool

val binop_eqb : binop -> binop -> bool

val hybop_eqb : hybop -> hybop -> bool

val atom_eqb : atom -> atom -> bool

val tree_eqb : tree -> tree -> bool

val c_lpar : n

val c_rpar : n

val c_tilde : n

val c_space : n

val c_lbrace : n

val c_rbrace : n

val c_pct : n

val c_colon : n

val c_bang : n

val c_three : n

val c_V : n

val c_at : n

val c_amp : n

val c_bar : n

val c_caret : n

val c_eq : n

val c_gt : n

val c_lt : n

val c_E : n

val c_A : n

val c_X : n

val c_F : n

val c_G : n

val c_U : n

val c_W : n

val c_i : n

val c_n : n

val c_bslash : n

val c_underscore : n

val c_x : n

val s_True : str

val s_False : str

val s_true : str

val s_false : str

val s_1 : str

val s_0 : str

val s_in : str

val s_var : str

val s_exists : str

val s_forall : str

val s_bind : str

val s_jump : str

val unop_str : unop -> str

val binop_str : binop -> str

val hybop_str : hybop -> str

val atom_str : atom -> str

val domain_str : str option -> str

val render : tree -> str

val height : tree -> nat

val tsize : tree -> nat

type snode =
| SNode of str * nat * sshape
and sshape =
| STerminal of atom
| SUnary of unop * snode
| SBinary of binop * snode * snode
| SHybrid of hybop * str * str option * snode

val stext : snode -> str

val sheight : snode -> nat

val mk_atom : atom -> snode

val mk_unary : snode -> unop -> snode

val mk_binary : snode -> snode -> binop -> snode

val mk_hybrid : snode -> str -> str option -> hybop -> snode

val annotate : tree -> snode

val forget : snode -> tree

val in_range : n -> n -> n -> bool

val is_alnum : (n -> bool) -> n -> bool

val is_ws : n -> bool

val is_name_char : (n -> bool) -> n -> bool

val is_temp_op_char : n -> bool

val collect_name : (n -> bool) -> str -> str * str

val skip_ws : str -> str

val peek_is : n -> str -> bool

val peek_name_char : (n -> bool) -> str -> bool

val expect : n -> str -> str res

val collect_var_dom :
  (n -> bool) -> str -> bool -> ((str * str option) * str) res

val temporal_token : n -> n -> token res

val tok :
  (n -> bool) -> nat -> str -> bool -> bool -> token list -> (token
  list * str) res

val tokenize : (n -> bool) -> bool -> str -> token list res

val split_first :
  (token -> bool) -> token list -> ((token list * token) * token list) option

val is_hybrid : token -> bool

val is_unary : token -> bool

val is_bin : binop -> token -> bool

val is_binary_temporal : token -> bool

val tok_size : token -> nat

val toks_size : token list -> nat

val level_binop : nat -> binop option

val atom_of_prop_name : str -> atom

val parse_lvl : nat -> nat -> token list -> tree res

val parse_fuel : token list -> nat

val parse_tokens : token list -> tree res

val is_quantifier : hybop -> bool

val prep : str list -> (str * str) list -> str -> tree -> tree res

val preprocess : str list -> tree -> tree res

val add_unique : str -> str list -> str list

val collect_vars : tree -> str list -> str list

val num_hctl_vars : tree -> nat

val collect_wild : tree -> (str list * str list) -> str list * str list

val read_to_rbrace : str -> str * str

val canon_name : n -> str

val canon_loop :
  nat -> str -> (str * str) list -> str -> n -> nat -> str * (str * str) list

val canonize : str -> str * (str * str) list

val get_canonical : str -> str

type dommap = (str * str option) list

type key = str * dommap

val dom_entry_eqb : (str * str option) -> (str * str option) -> bool

val key_eqb : key -> key -> bool

val canon_domains : dommap -> (str * str) list -> dommap -> dommap

val node_key : tree -> dommap -> key * (str * str) list

type hnode = tree * dommap

val max_height : hnode list -> nat

val pop_height : nat -> hnode list -> (hnode * hnode list) option

val is_wild_terminal : tree -> bool

val is_terminal : tree -> bool

val children : tree -> dommap -> hnode list

val incr_dup : key -> (key * nat) list -> (key * nat) list

val mark_loop :
  nat -> hnode list -> nat -> key list -> (key * nat) list -> (key * nat) list

val sum_sizes : tree list -> nat

val mark_duplicates : tree list -> (key * nat) list

type tag =
| TP of nat
| TS of nat
| TX of nat * nat

val tag_eqb : tag -> tag -> bool

type layout = tag list

type val0 = tag -> bool

type tt =
| Leaf of bool
| Node of tt * tt

val mem : layout -> tt -> val0 -> bool

val const : layout -> bool -> tt

val map2 : (bool -> bool -> bool) -> tt -> tt -> tt

val tand : tt -> tt -> tt

val tor : tt -> tt -> tt

val tminus : tt -> tt -> tt

val txor : tt -> tt -> tt

val tiff : tt -> tt -> tt

val lit : layout -> tag -> tt

val exq : (tag -> bool) -> layout -> tt -> tt

val flip : tag -> layout -> tt -> tt

val tt_eqb : tt -> tt -> bool

val is_empty : tt -> bool

val expand : (tag -> bool) -> layout -> tt -> tt

val restrict : (tag -> bool) -> layout -> tt -> tt option

val tabulate : layout -> (val0 -> bool) -> tt

val of_bits : layout -> bool list -> tt * bool list

val to_bits : tt -> bool list -> bool list

val range : nat -> nat list

val var_block : nat -> nat -> layout

val mk_layout : nat -> nat -> nat -> layout

val is_state_tag : tag -> bool

val is_extra_tag : tag -> bool

val is_copy : nat -> tag -> bool

type genv = { g_n : nat; g_p : nat; g_k : nat; g_L : layout; g_upd : tt list }

val mk_genv : nat -> nat -> nat -> tt list -> genv

val empty : genv -> tt

val full : genv -> tt

val upd_of : genv -> nat -> tt

val can_update : genv -> nat -> tt

val var_pre : genv -> nat -> tt -> tt

val pre : genv -> tt -> tt

val steady_of : genv -> tt -> tt

val eval_neg : tt -> tt -> tt

val eval_imp : tt -> tt -> tt -> tt

val eval_equiv : tt -> tt -> tt -> tt

val eval_xor : tt -> tt -> tt -> tt

val eval_ex : genv -> tt -> tt -> tt

val eval_ax : genv -> tt -> tt -> tt -> tt

val while_neq : nat -> (tt -> tt) -> tt -> tt -> tt res

val loop_fuel : genv -> nat

val sat_step : genv -> nat list -> tt -> tt -> tt option

val eu_loop : genv -> nat -> tt -> tt -> tt res

val eval_eu_saturated : genv -> tt -> tt -> tt res

val eval_ef_saturated : genv -> tt -> tt -> tt res

val eval_eg : genv -> tt -> tt -> tt res

val eval_au : genv -> tt -> tt -> tt -> tt -> tt res

val eval_af : genv -> tt -> tt -> tt -> tt res

val eval_ag : genv -> tt -> tt -> tt res

val eval_ew : genv -> tt -> tt -> tt -> tt -> tt res

val eval_aw : genv -> tt -> tt -> tt -> tt res

val hctl_var_id : genv -> str -> nat res

val comparator_var_state : genv -> tt -> nat -> tt

val comparator_two_vars : genv -> nat -> nat -> tt

val project_out_hctl_var : genv -> tt -> nat -> tt

val project_out_bn_vars : genv -> tt -> tt

val eval_hctl_var : genv -> tt -> nat -> tt

val eval_bind : genv -> tt -> tt -> nat -> tt

val eval_exists : genv -> tt -> nat -> tt

val eval_jump : genv -> tt -> tt -> nat -> tt

val substitute_hctl_var : genv -> tt -> nat -> nat -> tt

val compute_valid_domain_for_var : genv -> tt -> tt -> nat -> tt

val eval_prop : genv -> tt -> nat -> tt

type ectx = { duplicates : (key * nat) list;
              cache : (key * (tt * (str * str) list)) list;
              domain_sets : (str * tt) list; free_doms : dommap }

val ctx_new : (key * nat) list -> ectx

val set_dups : ectx -> (key * nat) list -> ectx

val set_cache : ectx -> (key * (tt * (str * str) list)) list -> ectx

val set_free : ectx -> dommap -> ectx

val set_domsets : ectx -> (str * tt) list -> ectx

val wild_key : str -> key

val extend_props : (str * tt) list -> ectx -> ectx

val extend_context : (str * tt) list -> (str * tt) list -> ectx -> ectx

type switches =
  bool
  (* singleton inductive, whose constructor was Build_switches *)

val use_patterns : switches -> bool

val is_attractor_pattern : tree -> bool

val is_fixed_point_pattern : tree -> bool

val pattern_var : tree -> str

val index_of : str -> str list -> nat -> nat option

val attractors : genv -> tt -> nat -> tt res

val foreign_restriction : dommap -> (str * str) list -> bool

val rename_back : genv -> (str * str) list -> (str * str) list -> tt -> tt res

val eval_hybrid_quantifier : genv -> tt -> tt -> hybop -> nat -> tt -> tt res

val eval_node :
  genv -> str list -> switches -> tt -> tree -> tt -> ectx -> (tt * ectx) res

type world = { w_p : nat; w_n : nat; w_names : str list; w_upd : tt list;
               w_unit : tt }

val not_extra : tag -> bool

val genv_of : world -> nat -> genv

val lift : world -> nat -> tt -> tt

val unit_of : world -> nat -> tt

val parse_formula : (n -> bool) -> bool -> str -> tree res

val parse_and_minimize : (n -> bool) -> bool -> str list -> str -> tree res

val pick_context : str list -> (str * tt) list -> (str * tt) list res

val divide_wild_cards :
  tree -> (str * tt) list -> ((str * tt) list * (str * tt) list) res

val validate_all :
  (n -> bool) -> bool -> str list -> nat -> (str * tt) list -> str list ->
  ((tree list * (str * tt) list) * (str * tt) list) res

val eval_all :
  genv -> str list -> switches -> tt -> tt -> tree list -> ectx -> tt list res

val sanitize : genv -> tt -> tt res

val sanitize_all : genv -> tt list -> tt list res

type mode = { m_ext : bool; m_sanitize : bool; m_unsafe_ex : bool;
              m_nocache : bool; m_nopatterns : bool }

val dedup_labels : (str * tt) list -> (str * tt) list

val check_trees :
  world -> nat -> mode -> tree list -> (str * tt) list -> (str * tt) list ->
  tt list res

val model_check :
  (n -> bool) -> world -> nat -> mode -> (str * tt) list -> str list -> tt
  list res

val lp : nat -> layout

val ln : nat -> layout

val lpn : nat -> nat -> layout

val join : val0 -> val0 -> val0

val upd_at : nat -> nat -> tt list -> val0 -> val0 -> nat -> bool

val flip_state : val0 -> nat -> val0

val moves : nat -> nat -> tt list -> val0 -> val0 -> nat list

val succs : nat -> nat -> tt list -> val0 -> val0 -> val0 list

type sset = tt

val smem : nat -> sset -> val0 -> bool

val stab : nat -> (val0 -> bool) -> sset

val all_vals : layout -> val0 list

val all_states : nat -> val0 list

val state_eqb : nat -> val0 -> val0 -> bool

val fix_iter : nat -> (sset -> sset) -> sset -> sset res

val sfuel : nat -> nat

val s_ex : nat -> nat -> tt list -> val0 -> sset -> sset

val s_ax : nat -> nat -> tt list -> val0 -> sset -> sset

val s_full : nat -> sset

val s_empty : nat -> sset

val s_not : sset -> sset

val s_eu : nat -> nat -> tt list -> val0 -> sset -> sset -> sset res

val s_au : nat -> nat -> tt list -> val0 -> sset -> sset -> sset res

val s_eg : nat -> nat -> tt list -> val0 -> sset -> sset res

val s_ag : nat -> nat -> tt list -> val0 -> sset -> sset res

val s_ew : nat -> nat -> tt list -> val0 -> sset -> sset -> sset res

val s_aw : nat -> nat -> tt list -> val0 -> sset -> sset -> sset res

val dom_set : nat -> nat -> (str * tt) list -> val0 -> str option -> sset res

val for_states : val0 list -> (val0 -> 'a1 res) -> (val0 * 'a1) list res

val index_of_name : str -> str list -> nat -> nat option

val sem :
  nat -> nat -> tt list -> str list -> (str * tt) list -> val0 ->
  (str * val0) list -> tree -> sset res

val assemble :
  nat -> nat -> tt list -> str list -> (str * tt) list -> layout -> val0 ->
  tree -> tt res

val sem_eval :
  nat -> nat -> tt list -> str list -> (str * tt) list -> tt -> tree -> tt res

type bop =
| BAnd
| BOr
| BXor
| BIff
| BImp

type fnupd =
| FConst of bool
| FVar of nat
| FNot of fnupd
| FBin of bop * fnupd * fnupd
| FParam of str * fnupd list

val ch0 : n

val ch1 : n

val chu : n

val pname : str -> str

val bump : (str -> bool) -> nat -> str -> str

val explode_rs : (str -> bool) -> nat -> fnupd list -> str -> fnupd

val flatten_rs : (str -> bool) -> nat -> fnupd -> fnupd

val eval_op : bop -> bool -> bool -> bool

val eval_fn : (str -> bool list -> bool) -> (nat -> bool) -> fnupd -> bool

val eval_flat : (str -> bool) -> (nat -> bool) -> fnupd -> bool

val c_nl : n

val c_cr : n

val c_hash : n

val c_dot : n

val c_slash : n

val s_bdd : str

val s_dot_bdd : str

val s_dot : str

val s_dotdot : str

val s_formula_dash : str

val strip_prefix : str -> str -> str option

val strip_suffix : str -> str -> str option

val split_inclusive : str -> str list

val lines_map : str -> str

val lines : str -> str list

val trim_start : str -> str

val trim_end : str -> str

val trim : str -> str

val is_empty0 : 'a1 list -> bool

val split : n -> str -> str list

val skip_trivial : str list -> str list

val file_name : str -> str option

val extension_of_file_name : str -> str option

val extension : str -> str option

val keep_formula : str -> bool

val load_formulae : str -> str list

val result_label : nat -> str

val ext_alnum_tbl : n -> bool

val x_tokenize : bool -> str -> token list res

val x_parse_formula : bool -> str -> tree res

val x_parse_and_minimize : bool -> str list -> str -> tree res

val x_model_check :
  world -> nat -> mode -> (str * tt) list -> str list -> tt list res

val x_spec_eval : world -> bool -> (str * tt) list -> str -> tt res

val x_layout_pn : nat -> nat -> layout
