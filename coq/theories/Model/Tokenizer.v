(** Character-level tokenizer; mirrors src/preprocessing/tokenizer.rs branch by branch. *)
From HCTL Require Import Base Syntax.

Section Tokenizer.
(** Classification of code points >= 128 as alphanumeric (Rust: char::is_alphanumeric).
    Every theorem about the front end holds for an arbitrary such classification. *)
Variable ext_alnum : N -> bool.

Definition in_range (lo hi c : N) : bool := N.leb lo c && N.leb c hi.

Definition is_alnum (c : N) : bool :=
  if N.ltb c 128 then in_range 48 57 c || in_range 65 90 c || in_range 97 122 c
  else ext_alnum c.

(** Unicode White_Space (Rust: char::is_whitespace) *)
Definition is_ws (c : N) : bool :=
  in_range 9 13 c || N.eqb c 32 || N.eqb c 133 || N.eqb c 160 || N.eqb c 5760
  || in_range 8192 8202 c || N.eqb c 8232 || N.eqb c 8233 || N.eqb c 8239
  || N.eqb c 8287 || N.eqb c 12288.

Definition is_name_char (c : N) : bool := is_alnum c || N.eqb c c_underscore.

Definition is_temp_op_char (c : N) : bool :=
  N.eqb c c_X || N.eqb c c_F || N.eqb c c_G || N.eqb c c_U || N.eqb c c_W.

(** collect_name: longest prefix of name characters *)
Fixpoint collect_name (cs : str) : str * str :=
  match cs with
  | c :: rest =>
      if is_name_char c then let (n, r) := collect_name rest in (c :: n, r) else ([], cs)
  | [] => ([], [])
  end.

Fixpoint skip_ws (cs : str) : str :=
  match cs with
  | c :: rest => if is_ws c then skip_ws rest else cs
  | [] => []
  end.

Definition peek_is (c : N) (cs : str) : bool :=
  match cs with x :: _ => N.eqb x c | [] => false end.

Definition peek_name_char (cs : str) : bool :=
  match cs with x :: _ => is_name_char x | [] => false end.

(** expect: the next character must be [c] (it is consumed whatever it is) *)
Definition expect (c : N) (cs : str) : res str :=
  match cs with
  | x :: rest => if N.eqb x c then Ok rest else Err ELex
  | [] => Err ELex
  end.

(** collect_var_and_dom_from_operator *)
Definition collect_var_dom (cs : str) (parse_domains : bool) : res (str * option str * str) :=
  let cs := skip_ws cs in
  let* cs := expect c_lbrace cs in
  let (name, cs) := collect_name cs in
  match name with
  | [] => Err ELex
  | _ =>
      let* cs := expect c_rbrace cs in
      let cs := skip_ws cs in
      let* (dom, cs) :=
        (if parse_domains && peek_is c_i cs then
           let cs := tl cs in
           let* cs := expect c_n cs in
           let cs := skip_ws cs in
           let* cs := expect c_pct cs in
           let (dname, cs) := collect_name cs in
           match dname with
           | [] => Err ELex
           | _ =>
               let* cs := expect c_pct cs in
               Ok (Some dname, skip_ws cs)
           end
         else Ok (None, cs)) in
      let* cs := expect c_colon cs in
      Ok (name, dom, cs)
  end.

Definition temporal_token (e_or_a c2 : N) : res token :=
  let e := N.eqb e_or_a c_E in
  if N.eqb c2 c_X then Ok (TUn (if e then EX else AX))
  else if N.eqb c2 c_F then Ok (TUn (if e then EF else AF))
  else if N.eqb c2 c_G then Ok (TUn (if e then EG else AG))
  else if N.eqb c2 c_U then Ok (TBin (if e then EU else AU))
  else if N.eqb c2 c_W then Ok (TBin (if e then EW else AW))
  else Err ELex.

(** try_tokenize_recursive.  [acc] is the output in reverse order.  Returns the tokens and the
    unread rest of the input (the shared iterator of the Rust code). *)
Fixpoint tok (fuel : nat) (cs : str) (top ext : bool) (acc : list token)
  : res (list token * str) :=
  match fuel with
  | O => OutOfFuel
  | S f =>
      match cs with
      | [] => if top then Ok (rev acc, []) else Err ELex
      | c :: rest =>
          if is_ws c then tok f rest top ext acc
          else if N.eqb c c_tilde then tok f rest top ext (TUn Not :: acc)
          else if N.eqb c c_amp then tok f rest top ext (TBin And :: acc)
          else if N.eqb c c_bar then tok f rest top ext (TBin Or :: acc)
          else if N.eqb c c_caret then tok f rest top ext (TBin Xor :: acc)
          else if N.eqb c c_eq then
            let* rest := expect c_gt rest in tok f rest top ext (TBin Imp :: acc)
          else if N.eqb c c_lt then
            let* rest := expect c_eq rest in
            let* rest := expect c_gt rest in tok f rest top ext (TBin Iff :: acc)
          else if N.eqb c c_gt then Err ELex
          else if (N.eqb c c_E || N.eqb c c_A)
                  && match rest with c2 :: _ => is_temp_op_char c2 | [] => false end then
            match rest with
            | c2 :: rest2 =>
                if peek_name_char rest2 then
                  let (name, rest3) := collect_name rest2 in
                  tok f rest3 top ext (TAtom (AProp (c :: c2 :: name)) :: acc)
                else
                  let* t := temporal_token c c2 in tok f rest2 top ext (t :: acc)
            | [] => Err ELex
            end
          else if N.eqb c c_bang then
            let* (nd, rest) := collect_var_dom rest ext in
            tok f rest top ext (THyb Bind (fst nd) (snd nd) :: acc)
          else if N.eqb c c_three && negb (peek_name_char rest) then
            let* (nd, rest) := collect_var_dom rest ext in
            tok f rest top ext (THyb Exists (fst nd) (snd nd) :: acc)
          else if N.eqb c c_V && negb (peek_name_char rest) then
            let* (nd, rest) := collect_var_dom rest ext in
            tok f rest top ext (THyb Forall (fst nd) (snd nd) :: acc)
          else if N.eqb c c_at then
            let* (nd, rest) := collect_var_dom rest false in
            tok f rest top ext (THyb Jump (fst nd) None :: acc)
          else if N.eqb c c_bslash then
            let (opname, rest) := collect_name rest in
            if str_eqb opname s_exists then
              let* (nd, rest) := collect_var_dom rest ext in
              tok f rest top ext (THyb Exists (fst nd) (snd nd) :: acc)
            else if str_eqb opname s_forall then
              let* (nd, rest) := collect_var_dom rest ext in
              tok f rest top ext (THyb Forall (fst nd) (snd nd) :: acc)
            else if str_eqb opname s_bind then
              let* (nd, rest) := collect_var_dom rest ext in
              tok f rest top ext (THyb Bind (fst nd) (snd nd) :: acc)
            else if str_eqb opname s_jump then
              let* (nd, rest) := collect_var_dom rest false in
              tok f rest top ext (THyb Jump (fst nd) None :: acc)
            else Err ELex
          else if N.eqb c c_rpar then
            if top then Err ELex else Ok (rev acc, rest)
          else if N.eqb c c_lpar then
            let* (grp, rest) := tok f rest false ext [] in
            tok f rest top ext (TGroup grp :: acc)
          else if N.eqb c c_lbrace then
            let (name, rest) := collect_name rest in
            match name with
            | [] => Err ELex
            | _ => let* rest := expect c_rbrace rest in
                   tok f rest top ext (TAtom (AVar name) :: acc)
            end
          else if N.eqb c c_pct && ext then
            let (name, rest) := collect_name rest in
            match name with
            | [] => Err ELex
            | _ => let* rest := expect c_pct rest in
                   tok f rest top ext (TAtom (AWild name) :: acc)
            end
          else if is_name_char c then
            let (name, rest) := collect_name rest in
            tok f rest top ext (TAtom (AProp (c :: name)) :: acc)
          else Err ELex
      end
  end.

Definition tokenize (ext : bool) (cs : str) : res (list token) :=
  let* (ts, _) := tok (S (length cs)) cs true ext [] in Ok ts.

End Tokenizer.
