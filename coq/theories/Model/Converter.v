(** Executable model of src/bin/convert_aeon_to_bnet.rs (property C19).

    The converter replaces every uninterpreted function symbol f(a1..ak) of an update
    function by its Shannon expansion over 2^k fresh zero-arity parameters.

    Correspondence with the Rust code
    - [fnupd]          = [FnUpdate] (Const / Var / Not / Binary / Param).  A [ParameterId] is
                         modelled by the parameter's NAME (a [str] = list of code points):
                         the library guarantees that distinct parameters have distinct names
                         ([BooleanNetwork::add_parameter] asserts it), so nothing is lost.  The
                         arity of a symbol is the length of the argument list of the occurrence.
    - [explode]        = [explode_function] without its collision loop,
      [explode_rs]     = [explode_function] with the loop
                           [while find_variable(name).is_some() { name.push('_') }]   ([bump]).
    - [flatten], [flatten_rs] = [flatten_fn_update] (over [explode] resp. [explode_rs]).
    - [flatten_update] = [flatten_update_function] for one variable.
    - Names.  Rust builds [format!("{name}_")] for the symbol [name], then appends one character
      per argument, in argument order: [format!("{name_prefix}1")] for the branch in which the
      argument is true and [format!("{name_prefix}0")] for the branch in which it is false.
      Here: [pname name = name ++ "_"], and the leaf reached by the argument values [bits] is
      named [gen (pname name) bits = name ++ "_" ++ map bitch bits], with [bitch true = '1'] (49),
      [bitch false = '0'] (48), '_' = 95.
    - Not modelled: the mutation of the network's parameter table ([find_parameter] /
      [add_parameter]); a zero-arity parameter of the output is identified by its name. *)
From HCTL Require Import Base.

Inductive bop := BAnd | BOr | BXor | BIff | BImp.

Inductive fnupd :=
| FConst (b : bool)
| FVar (v : nat)
| FNot (f : fnupd)
| FBin (op : bop) (l r : fnupd)
| FParam (name : str) (args : list fnupd).

(** ** Naming *)
Definition ch0 : N := 48.   (* '0' *)
Definition ch1 : N := 49.   (* '1' *)
Definition chu : N := 95.   (* '_' *)
Definition bitch (b : bool) : N := if b then ch1 else ch0.
Definition pname (name : str) : str := name ++ [chu].
Definition gen (prefix : str) (bits : list bool) : str := prefix ++ map bitch bits.

(** ** explode_function (without the collision loop) *)
Fixpoint explode (args : list fnupd) (prefix : str) : fnupd :=
  match args with
  | [] => FParam prefix []
  | a :: rest =>
      FBin BAnd (FBin BImp a (explode rest (prefix ++ [ch1])))
                (FBin BImp (FNot a) (explode rest (prefix ++ [ch0])))
  end.

(** ** flatten_fn_update *)
Fixpoint flatten (f : fnupd) : fnupd :=
  match f with
  | FConst b => FConst b
  | FVar v => FVar v
  | FNot g => FNot (flatten g)
  | FBin op l r => FBin op (flatten l) (flatten r)
  | FParam name args => explode (map flatten args) (pname name)
  end.

(** ** The collision loop.  [isvar name] = [network.as_graph().find_variable(name).is_some()].
    The Rust loop has no bound (it terminates because there are finitely many variables and the
    candidate names get longer); the model takes a fuel and returns the current candidate when
    it runs out.  All theorems about [bump] hold for every fuel. *)
Fixpoint bump (isvar : str -> bool) (fuel : nat) (name : str) : str :=
  match fuel with
  | 0 => name
  | S k => if isvar name then bump isvar k (name ++ [chu]) else name
  end.

Fixpoint explode_rs (isvar : str -> bool) (fuel : nat) (args : list fnupd) (prefix : str) : fnupd :=
  match args with
  | [] => FParam (bump isvar fuel prefix) []
  | a :: rest =>
      FBin BAnd (FBin BImp a (explode_rs isvar fuel rest (prefix ++ [ch1])))
                (FBin BImp (FNot a) (explode_rs isvar fuel rest (prefix ++ [ch0])))
  end.

Fixpoint flatten_rs (isvar : str -> bool) (fuel : nat) (f : fnupd) : fnupd :=
  match f with
  | FConst b => FConst b
  | FVar v => FVar v
  | FNot g => FNot (flatten_rs isvar fuel g)
  | FBin op l r => FBin op (flatten_rs isvar fuel l) (flatten_rs isvar fuel r)
  | FParam name args => explode_rs isvar fuel (map (flatten_rs isvar fuel) args) (pname name)
  end.

(** ** flatten_update_function for one variable: [name] its name, [regs] its regulators (in the
    order of [network.regulators]), [upd] its update function if it has one.  Variables without
    regulators are skipped. *)
Definition flatten_update (name : str) (regs : list nat) (upd : option fnupd) : option fnupd :=
  match regs with
  | [] => upd
  | _ :: _ =>
      Some (match upd with
            | Some f => flatten f
            | None => explode (map FVar regs) (pname name)
            end)
  end.

(** ** Semantics *)
Definition eval_op (op : bop) (a b : bool) : bool :=
  match op with
  | BAnd => a && b
  | BOr => a || b
  | BXor => xorb a b
  | BIff => Bool.eqb a b
  | BImp => implb a b
  end.

(** [I] interprets the function symbols, [s] is the state (variable index -> value). *)
Fixpoint eval_fn (I : str -> list bool -> bool) (s : nat -> bool) (f : fnupd) : bool :=
  match f with
  | FConst b => b
  | FVar v => s v
  | FNot g => negb (eval_fn I s g)
  | FBin op l r => eval_op op (eval_fn I s l) (eval_fn I s r)
  | FParam name args => I name (map (eval_fn I s) args)
  end.

(** Semantics of the converter's output: only zero-arity parameters, valued by [rho]. *)
Definition eval_flat (rho : str -> bool) (s : nat -> bool) (f : fnupd) : bool :=
  eval_fn (fun name _ => rho name) s f.

(** No [Param] at all (a fully specified update function). *)
Fixpoint has_param (f : fnupd) : bool :=
  match f with
  | FConst _ | FVar _ => false
  | FNot g => has_param g
  | FBin _ l r => has_param l || has_param r
  | FParam _ _ => true
  end.

(** Every [Param] has arity zero (the shape of the converter's output). *)
Fixpoint is_flat (f : fnupd) : bool :=
  match f with
  | FConst _ | FVar _ => true
  | FNot g => is_flat g
  | FBin _ l r => is_flat l && is_flat r
  | FParam _ [] => true
  | FParam _ (_ :: _) => false
  end.
