(** Precedence parser by recursive splitting at the first operator of each level;
    mirrors src/preprocessing/parser.rs (parse_1_hybrid .. parse_9_terminal_and_parentheses). *)
From HCTL Require Import Base Syntax.

Fixpoint split_first (p : token -> bool) (ts : list token)
  : option (list token * token * list token) :=
  match ts with
  | [] => None
  | t :: rest =>
      if p t then Some ([], t, rest)
      else match split_first p rest with
           | Some (l, x, r) => Some (t :: l, x, r)
           | None => None
           end
  end.

Definition is_hybrid (t : token) : bool := match t with THyb _ _ _ => true | _ => false end.
Definition is_unary (t : token) : bool := match t with TUn _ => true | _ => false end.
Definition is_bin (o : binop) (t : token) : bool :=
  match t with TBin o' => binop_eqb o o' | _ => false end.
Definition is_binary_temporal (t : token) : bool :=
  match t with TBin EU | TBin AU | TBin EW | TBin AW => true | _ => false end.

Fixpoint tok_size (t : token) : nat :=
  match t with
  | TGroup ts => S ((fix go (l : list token) : nat :=
                       match l with [] => 0 | x :: l' => tok_size x + go l' end) ts)
  | _ => 1
  end.
Definition toks_size (ts : list token) : nat :=
  (fix go (l : list token) : nat := match l with [] => 0 | x :: l' => tok_size x + go l' end) ts.

(** levels: 1 hybrid, 2 iff, 3 imp, 4 or, 5 xor, 6 and, 7 binary temporal, 8 unary, 9 terminal *)
Definition level_binop (lvl : nat) : option binop :=
  match lvl with
  | 2 => Some Iff | 3 => Some Imp | 4 => Some Or | 5 => Some Xor | 6 => Some And
  | _ => None
  end.

Definition atom_of_prop_name (name : str) : atom :=
  if str_eqb name s_true || str_eqb name s_True || str_eqb name s_1 then ATrue
  else if str_eqb name s_false || str_eqb name s_False || str_eqb name s_0 then AFalse
  else AProp name.

Fixpoint parse_lvl (fuel : nat) (lvl : nat) (ts : list token) : res tree :=
  match fuel with
  | O => OutOfFuel
  | S f =>
      match lvl with
      | 1 =>
          match split_first is_hybrid ts with
          | Some (l, THyb o x d, r) =>
              (* the first hybrid token must be the first token *)
              match l with
              | [] => let* c := parse_lvl f 1 r in Ok (Hybrid o x d c)
              | _ => Err EParse
              end
          | Some _ => Panic PShape
          | None => parse_lvl f 2 ts
          end
      | 2 | 3 | 4 | 5 | 6 =>
          match level_binop lvl with
          | Some o =>
              match split_first (is_bin o) ts with
              | Some (l, _, r) =>
                  let* a := parse_lvl f (S lvl) l in
                  let* b := parse_lvl f lvl r in
                  Ok (Binary o a b)
              | None => parse_lvl f (S lvl) ts
              end
          | None => Panic PShape
          end
      | 7 =>
          match split_first is_binary_temporal ts with
          | Some (l, TBin o, r) =>
              let* a := parse_lvl f 8 l in
              let* b := parse_lvl f 7 r in
              Ok (Binary o a b)
          | Some _ => Panic PShape
          | None => parse_lvl f 8 ts
          end
      | 8 =>
          match split_first is_unary ts with
          | Some (l, TUn o, r) =>
              (* a unary operator must not be preceded by anything at this level *)
              match l with
              | [] => let* c := parse_lvl f 8 r in Ok (Unary o c)
              | _ => Err EParse
              end
          | Some _ => Panic PShape
          | None => parse_lvl f 9 ts
          end
      | _ =>
          match ts with
          | [TAtom (AProp name)] => Ok (Terminal (atom_of_prop_name name))
          | [TAtom (AVar name)] => Ok (Terminal (AVar name))
          | [TAtom (AWild name)] => Ok (Terminal (AWild name))
          | [TGroup inner] => parse_lvl f 1 inner
          | _ => Err EParse
          end
      end
  end.

Definition parse_fuel (ts : list token) : nat := 10 * S (toks_size ts).

Definition parse_tokens (ts : list token) : res tree := parse_lvl (parse_fuel ts) 1 ts.
