(** Coloured sets with spare copies as complete binary decision trees over a tagged layout
    ("a BDD without reduction or sharing").  A level of the tree is identified by its tag,
    never by an index, so no index arithmetic appears in the model or in the proofs. *)
From HCTL Require Import Base.

(** BDD variables: parameter bit j, state bit of network variable i, spare copy e of variable i *)
Inductive tag := TP (j : nat) | TS (i : nat) | TX (i e : nat).

Definition tag_eqb (a b : tag) : bool :=
  match a, b with
  | TP j, TP j' => Nat.eqb j j'
  | TS i, TS i' => Nat.eqb i i'
  | TX i e, TX i' e' => Nat.eqb i i' && Nat.eqb e e'
  | _, _ => false
  end.

Definition layout := list tag.
Definition val := tag -> bool.

Inductive tt := Leaf (b : bool) | Node (lo hi : tt).

Fixpoint mem (L : layout) (t : tt) (v : val) : bool :=
  match t with
  | Leaf b => b
  | Node lo hi =>
      match L with
      | g :: L' => mem L' (if v g then hi else lo) v
      | [] => false
      end
  end.

Fixpoint const (L : layout) (b : bool) : tt :=
  match L with
  | [] => Leaf b
  | _ :: L' => let r := const L' b in Node r r
  end.

Fixpoint map2 (f : bool -> bool -> bool) (a b : tt) : tt :=
  match a, b with
  | Leaf x, Leaf y => Leaf (f x y)
  | Node a0 a1, Node b0 b1 => Node (map2 f a0 b0) (map2 f a1 b1)
  | _, _ => Leaf false
  end.

Definition tand := map2 andb.
Definition tor := map2 orb.
Definition tminus := map2 (fun x y => x && negb y).
Definition txor := map2 xorb.
Definition tiff := map2 Bool.eqb.

(** the set of valuations in which the variable [g] is true *)
Fixpoint lit (L : layout) (g : tag) : tt :=
  match L with
  | [] => Leaf false
  | h :: L' =>
      if tag_eqb h g then Node (const L' false) (const L' true)
      else let r := lit L' g in Node r r
  end.

(** existential quantification of every variable whose tag satisfies [q] *)
Fixpoint exq (q : tag -> bool) (L : layout) (t : tt) : tt :=
  match L, t with
  | h :: L', Node lo hi =>
      if q h then let r := tor (exq q L' lo) (exq q L' hi) in Node r r
      else Node (exq q L' lo) (exq q L' hi)
  | _, _ => t
  end.

(** image under flipping variable [g] *)
Fixpoint flip (g : tag) (L : layout) (t : tt) : tt :=
  match L, t with
  | h :: L', Node lo hi =>
      if tag_eqb h g then Node hi lo else Node (flip g L' lo) (flip g L' hi)
  | _, _ => t
  end.

Fixpoint tt_eqb (a b : tt) : bool :=
  match a, b with
  | Leaf x, Leaf y => Bool.eqb x y
  | Node a0 a1, Node b0 b1 => tt_eqb a0 b0 && tt_eqb a1 b1
  | _, _ => false
  end.

Fixpoint is_empty (t : tt) : bool :=
  match t with
  | Leaf b => negb b
  | Node lo hi => is_empty lo && is_empty hi
  end.

(** number of members *)
Fixpoint card (t : tt) : nat :=
  match t with
  | Leaf b => if b then 1 else 0
  | Node lo hi => card lo + card hi
  end.

(** complete tree of the shape dictated by the layout *)
Fixpoint shaped (L : layout) (t : tt) : Prop :=
  match L, t with
  | [], Leaf _ => True
  | _ :: L', Node lo hi => shaped L' lo /\ shaped L' hi
  | _, _ => False
  end.

Fixpoint shapedb (L : layout) (t : tt) : bool :=
  match L, t with
  | [], Leaf _ => true
  | _ :: L', Node lo hi => shapedb L' lo && shapedb L' hi
  | _, _ => false
  end.

(** Embedding of a tree over the sub-layout [filter keep L] into the layout [L]
    (levels not kept are don't-cares). *)
Fixpoint expand (keep : tag -> bool) (L : layout) (t : tt) : tt :=
  match L with
  | [] => t
  | h :: L' =>
      if keep h then
        match t with
        | Node lo hi => Node (expand keep L' lo) (expand keep L' hi)
        | Leaf b => const L b
        end
      else let r := expand keep L' t in Node r r
  end.

(** Projection onto the kept levels; [None] when the set depends on a dropped level
    (the model of SymbolicContext::transfer_from returning None). *)
Fixpoint restrict (keep : tag -> bool) (L : layout) (t : tt) : option tt :=
  match L, t with
  | h :: L', Node lo hi =>
      if keep h then
        match restrict keep L' lo, restrict keep L' hi with
        | Some a, Some b => Some (Node a b)
        | _, _ => None
        end
      else if tt_eqb lo hi then restrict keep L' lo else None
  | _, _ => Some t
  end.

(** Tabulation of a predicate on valuations. *)
Fixpoint tabulate (L : layout) (f : val -> bool) : tt :=
  match L with
  | [] => Leaf (f (fun _ => false))
  | h :: L' =>
      Node (tabulate L' (fun v => f (fun g => if tag_eqb g h then false else v g)))
           (tabulate L' (fun v => f (fun g => if tag_eqb g h then true else v g)))
  end.

(** bit strings (leftmost level most significant, lo = 0 first) *)
Fixpoint of_bits (L : layout) (bs : list bool) : tt * list bool :=
  match L with
  | [] => match bs with b :: r => (Leaf b, r) | [] => (Leaf false, []) end
  | _ :: L' =>
      let (lo, r1) := of_bits L' bs in
      let (hi, r2) := of_bits L' r1 in
      (Node lo hi, r2)
  end.

Fixpoint to_bits (t : tt) (acc : list bool) : list bool :=
  match t with
  | Leaf b => b :: acc
  | Node lo hi => to_bits lo (to_bits hi acc)
  end.

(** update / flip of a valuation at one tag (used by specifications and proofs) *)
Definition upd (v : val) (g : tag) (b : bool) : val :=
  fun h => if tag_eqb h g then b else v h.
Definition vflip (g : tag) (v : val) : val :=
  fun h => if tag_eqb h g then negb (v h) else v h.
