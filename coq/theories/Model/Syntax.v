(** Syntax of HCTL formulae: operators, atoms, trees, tokens, rendering.
    Mirrors src/preprocessing/operator_enums.rs, hctl_tree.rs and the token enum of tokenizer.rs. *)
From HCTL Require Import Base.

Inductive unop := Not | EX | AX | EF | AF | EG | AG.
Inductive binop := And | Or | Xor | Imp | Iff | EU | AU | EW | AW.
Inductive hybop := Bind | Jump | Exists | Forall.
Inductive atom :=
| AProp (s : str) | AVar (s : str) | ATrue | AFalse | AWild (s : str).

Inductive tree :=
| Terminal (a : atom)
| Unary (o : unop) (t : tree)
| Binary (o : binop) (l r : tree)
| Hybrid (o : hybop) (x : str) (d : option str) (t : tree).

Inductive token :=
| TUn (o : unop)
| TBin (o : binop)
| THyb (o : hybop) (x : str) (d : option str)
| TAtom (a : atom)
| TGroup (ts : list token).

Definition unop_eqb (a b : unop) : bool :=
  match a, b with
  | Not, Not | EX, EX | AX, AX | EF, EF | AF, AF | EG, EG | AG, AG => true
  | _, _ => false
  end.
Definition binop_eqb (a b : binop) : bool :=
  match a, b with
  | And, And | Or, Or | Xor, Xor | Imp, Imp | Iff, Iff | EU, EU | AU, AU | EW, EW | AW, AW => true
  | _, _ => false
  end.
Definition hybop_eqb (a b : hybop) : bool :=
  match a, b with
  | Bind, Bind | Jump, Jump | Exists, Exists | Forall, Forall => true
  | _, _ => false
  end.
Definition atom_eqb (a b : atom) : bool :=
  match a, b with
  | AProp x, AProp y | AVar x, AVar y | AWild x, AWild y => str_eqb x y
  | ATrue, ATrue | AFalse, AFalse => true
  | _, _ => false
  end.
Fixpoint tree_eqb (a b : tree) : bool :=
  match a, b with
  | Terminal x, Terminal y => atom_eqb x y
  | Unary o t, Unary o' t' => unop_eqb o o' && tree_eqb t t'
  | Binary o l r, Binary o' l' r' => binop_eqb o o' && tree_eqb l l' && tree_eqb r r'
  | Hybrid o x d t, Hybrid o' x' d' t' =>
      hybop_eqb o o' && str_eqb x x' && opt_eqb str_eqb d d' && tree_eqb t t'
  | _, _ => false
  end.

(** Character constants (code points). *)
Definition c_lpar : N := 40.   Definition c_rpar : N := 41.
Definition c_tilde : N := 126. Definition c_space : N := 32.
Definition c_lbrace : N := 123. Definition c_rbrace : N := 125.
Definition c_pct : N := 37.    Definition c_colon : N := 58.
Definition c_bang : N := 33.   Definition c_three : N := 51.
Definition c_V : N := 86.      Definition c_at : N := 64.
Definition c_amp : N := 38.    Definition c_bar : N := 124.
Definition c_caret : N := 94.  Definition c_eq : N := 61.
Definition c_gt : N := 62.     Definition c_lt : N := 60.
Definition c_E : N := 69.      Definition c_A : N := 65.
Definition c_X : N := 88.      Definition c_F : N := 70.
Definition c_G : N := 71.      Definition c_U : N := 85.
Definition c_W : N := 87.      Definition c_i : N := 105.
Definition c_n : N := 110.     Definition c_bslash : N := 92.
Definition c_underscore : N := 95. Definition c_x : N := 120.

Definition s_True : str := [84; 114; 117; 101]%N.
Definition s_False : str := [70; 97; 108; 115; 101]%N.
Definition s_true : str := [116; 114; 117; 101]%N.
Definition s_false : str := [102; 97; 108; 115; 101]%N.
Definition s_1 : str := [49]%N.
Definition s_0 : str := [48]%N.
Definition s_in : str := [c_i; c_n].
Definition s_var : str := [118; 97; 114]%N.
Definition s_exists : str := [101; 120; 105; 115; 116; 115]%N.
Definition s_forall : str := [102; 111; 114; 97; 108; 108]%N.
Definition s_bind : str := [98; 105; 110; 100]%N.
Definition s_jump : str := [106; 117; 109; 112]%N.

(** Display impls of operator_enums.rs *)
Definition unop_str (o : unop) : str :=
  match o with
  | Not => [c_tilde]
  | EX => [c_E; c_X] | AX => [c_A; c_X]
  | EF => [c_E; c_F] | AF => [c_A; c_F]
  | EG => [c_E; c_G] | AG => [c_A; c_G]
  end.
Definition binop_str (o : binop) : str :=
  match o with
  | And => [c_amp] | Or => [c_bar] | Xor => [c_caret]
  | Imp => [c_eq; c_gt] | Iff => [c_lt; c_eq; c_gt]
  | EU => [c_E; c_U] | AU => [c_A; c_U] | EW => [c_E; c_W] | AW => [c_A; c_W]
  end.
Definition hybop_str (o : hybop) : str :=
  match o with
  | Bind => [c_bang] | Exists => [c_three] | Forall => [c_V] | Jump => [c_at]
  end.
Definition atom_str (a : atom) : str :=
  match a with
  | AVar x => c_lbrace :: x ++ [c_rbrace]
  | AProp x => x
  | ATrue => s_True
  | AFalse => s_False
  | AWild x => c_pct :: x ++ [c_pct]
  end.

Definition domain_str (d : option str) : str :=
  match d with
  | Some l => c_space :: s_in ++ c_space :: c_pct :: l ++ [c_pct]
  | None => []
  end.

(** formula_str as the constructors mk_hybrid / mk_unary / mk_binary / mk_atom compute it *)
Fixpoint render (t : tree) : str :=
  match t with
  | Terminal a => atom_str a
  | Unary o c =>
      match o with
      | Not => c_lpar :: unop_str o ++ render c ++ [c_rpar]
      | _ => c_lpar :: unop_str o ++ c_space :: render c ++ [c_rpar]
      end
  | Binary o l r =>
      c_lpar :: render l ++ c_space :: binop_str o ++ c_space :: render r ++ [c_rpar]
  | Hybrid o x d c =>
      c_lpar :: hybop_str o ++ c_lbrace :: x ++ c_rbrace :: domain_str d
        ++ c_colon :: c_space :: render c ++ [c_rpar]
  end.

Fixpoint height (t : tree) : nat :=
  match t with
  | Terminal _ => 0
  | Unary _ c => S (height c)
  | Binary _ l r => S (Nat.max (height l) (height r))
  | Hybrid _ _ _ c => S (height c)
  end.

Fixpoint tsize (t : tree) : nat :=
  match t with
  | Terminal _ => 1
  | Unary _ c => S (tsize c)
  | Binary _ l r => S (tsize l + tsize r)
  | Hybrid _ _ _ c => S (tsize c)
  end.

(** The node record of the Rust code stores text and height; [snode] mirrors that record and
    [annotate] builds it bottom-up through the mirrors of the public constructors. *)
Inductive snode :=
| SNode (text : str) (h : nat) (shape : sshape)
with sshape :=
| STerminal (a : atom)
| SUnary (o : unop) (c : snode)
| SBinary (o : binop) (l r : snode)
| SHybrid (o : hybop) (x : str) (d : option str) (c : snode).

Definition stext (s : snode) : str := match s with SNode t _ _ => t end.
Definition sheight (s : snode) : nat := match s with SNode _ h _ => h end.

Definition mk_atom (a : atom) : snode := SNode (atom_str a) 0 (STerminal a).
Definition mk_unary (c : snode) (o : unop) : snode :=
  SNode (match o with
         | Not => c_lpar :: unop_str o ++ stext c ++ [c_rpar]
         | _ => c_lpar :: unop_str o ++ c_space :: stext c ++ [c_rpar]
         end)
        (S (sheight c)) (SUnary o c).
Definition mk_binary (l r : snode) (o : binop) : snode :=
  SNode (c_lpar :: stext l ++ c_space :: binop_str o ++ c_space :: stext r ++ [c_rpar])
        (S (Nat.max (sheight l) (sheight r))) (SBinary o l r).
Definition mk_hybrid (c : snode) (x : str) (d : option str) (o : hybop) : snode :=
  SNode (c_lpar :: hybop_str o ++ c_lbrace :: x ++ c_rbrace :: domain_str d
           ++ c_colon :: c_space :: stext c ++ [c_rpar])
        (S (sheight c)) (SHybrid o x d c).

Fixpoint annotate (t : tree) : snode :=
  match t with
  | Terminal a => mk_atom a
  | Unary o c => mk_unary (annotate c) o
  | Binary o l r => mk_binary (annotate l) (annotate r) o
  | Hybrid o x d c => mk_hybrid (annotate c) x d o
  end.

Fixpoint forget (s : snode) : tree :=
  match s with
  | SNode _ _ sh =>
      match sh with
      | STerminal a => Terminal a
      | SUnary o c => Unary o (forget c)
      | SBinary o l r => Binary o (forget l) (forget r)
      | SHybrid o x d c => Hybrid o x d (forget c)
      end
  end.
