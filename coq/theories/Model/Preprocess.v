(** Validation of scoping/propositions and renaming of variables to x, xx, xxx...;
    mirrors src/preprocessing/utils.rs and the collectors of src/mc_utils.rs. *)
From HCTL Require Import Base Syntax.

Definition is_quantifier (o : hybop) : bool :=
  match o with Jump => false | _ => true end.

(** validate_and_rename_recursive; [ren] is the old->new map, [last] the last used name *)
Fixpoint prep (props : list str) (ren : list (str * str)) (last : str) (t : tree) : res tree :=
  match t with
  | Terminal (AVar name) =>
      match alookup str_eqb name ren with
      | Some n => Ok (Terminal (AVar n))
      | None => Err EFreeVar
      end
  | Terminal (AProp name) =>
      if existsb (str_eqb name) props then Ok t else Err EUnknownProp
  | Terminal _ => Ok t
  | Unary o c => let* c' := prep props ren last c in Ok (Unary o c')
  | Binary o l r =>
      let* l' := prep props ren last l in
      let* r' := prep props ren last r in
      Ok (Binary o l' r')
  | Hybrid o x d c =>
      if is_quantifier o then
        if amem str_eqb x ren then Err ERequantified
        else
          let last' := last ++ [c_x] in
          let ren' := ainsert str_eqb x last' ren in
          let* c' := prep props ren' last' c in
          Ok (Hybrid o last' d c')
      else
        let* c' := prep props ren last c in
        match alookup str_eqb x ren with
        | Some n => Ok (Hybrid o n d c')
        | None => Err EFreeVar
        end
  end.

Definition preprocess (props : list str) (t : tree) : res tree := prep props [] [] t.

Definition add_unique (x : str) (l : list str) : list str :=
  if existsb (str_eqb x) l then l else l ++ [x].

(** collect_unique_hctl_vars: names bound by bind / exists / forall *)
Fixpoint collect_vars (t : tree) (seen : list str) : list str :=
  match t with
  | Terminal _ => seen
  | Unary _ c => collect_vars c seen
  | Binary _ l r => collect_vars r (collect_vars l seen)
  | Hybrid o x _ c => collect_vars c (if is_quantifier o then add_unique x seen else seen)
  end.

Definition num_hctl_vars (t : tree) : nat := length (collect_vars t []).

(** collect_unique_wild_cards: (wild-card propositions, domains) *)
Fixpoint collect_wild (t : tree) (acc : list str * list str) : list str * list str :=
  match t with
  | Terminal (AWild p) => (add_unique p (fst acc), snd acc)
  | Terminal _ => acc
  | Unary _ c => collect_wild c acc
  | Binary _ l r => collect_wild r (collect_wild l acc)
  | Hybrid _ _ d c =>
      collect_wild c (match d with Some l => (fst acc, add_unique l (snd acc)) | None => acc end)
  end.
