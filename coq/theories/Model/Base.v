(** Base definitions shared by the executable model: strings as lists of code points,
    the outcome type with explicit Panic / OutOfFuel outcomes, association lists. *)
From Coq Require Export List Bool Arith NArith Lia.
Export ListNotations.

Definition str := list N.

Fixpoint list_eqb {A} (eqb : A -> A -> bool) (a b : list A) : bool :=
  match a, b with
  | [], [] => true
  | x :: a', y :: b' => eqb x y && list_eqb eqb a' b'
  | _, _ => false
  end.

Definition str_eqb (a b : str) : bool := list_eqb N.eqb a b.

Definition opt_eqb {A} (eqb : A -> A -> bool) (a b : option A) : bool :=
  match a, b with
  | None, None => true
  | Some x, Some y => eqb x y
  | _, _ => false
  end.

(** Error classes of the entry points (compared by class, never by message). *)
Inductive errkind :=
| ELex | EParse | EFreeVar | ERequantified | EUnknownProp | EMissingContext | EVarSupport.

(** Sites at which the Rust code would panic (unwrap / unreachable / library Err unwrap). *)
Inductive panicsite :=
| PWildCardUnreachable | PDomainLookup | PReverseRenaming | PExtraVarIndex
| PRestrictedUnitEmpty | PSanitizeDependsOnExtras | PPropLookup | PDupCounter | PShape
| PHybridQuantifier.

Inductive res (A : Type) :=
| Ok (a : A)
| Err (e : errkind)
| Panic (p : panicsite)
| OutOfFuel.
Arguments Ok {A} a.
Arguments Err {A} e.
Arguments Panic {A} p.
Arguments OutOfFuel {A}.

Definition bind {A B} (r : res A) (f : A -> res B) : res B :=
  match r with
  | Ok a => f a
  | Err e => Err e
  | Panic p => Panic p
  | OutOfFuel => OutOfFuel
  end.

Notation "'let*' x ':=' r 'in' k" := (bind r (fun x => k))
  (at level 200, x pattern, r at level 100, k at level 200, right associativity).

(** Association lists keyed by strings (model of HashMap<String, _> / BTreeMap<String, _>:
    only keyed operations are used, so iteration order never matters except where noted). *)
Fixpoint alookup {A B} (eqb : A -> A -> bool) (k : A) (l : list (A * B)) : option B :=
  match l with
  | [] => None
  | (k', v) :: l' => if eqb k k' then Some v else alookup eqb k l'
  end.

Fixpoint aremove {A B} (eqb : A -> A -> bool) (k : A) (l : list (A * B)) : list (A * B) :=
  match l with
  | [] => []
  | (k', v) :: l' => if eqb k k' then aremove eqb k l' else (k', v) :: aremove eqb k l'
  end.

Definition ainsert {A B} (eqb : A -> A -> bool) (k : A) (v : B) (l : list (A * B)) : list (A * B) :=
  (k, v) :: aremove eqb k l.

Definition amem {A B} (eqb : A -> A -> bool) (k : A) (l : list (A * B)) : bool :=
  match alookup eqb k l with Some _ => true | None => false end.

(** Lexicographic order on strings (for the BTreeMap keyed by canonical variable names). *)
Fixpoint str_ltb (a b : str) : bool :=
  match a, b with
  | [], [] => false
  | [], _ :: _ => true
  | _ :: _, [] => false
  | x :: a', y :: b' => if N.ltb x y then true else if N.eqb x y then str_ltb a' b' else false
  end.

(** Sorted insertion into a key-sorted association list (BTreeMap model). *)
Fixpoint sinsert {B} (k : str) (v : B) (l : list (str * B)) : list (str * B) :=
  match l with
  | [] => [(k, v)]
  | (k', v') :: l' =>
      if str_eqb k k' then (k, v) :: l'
      else if str_ltb k k' then (k, v) :: (k', v') :: l'
      else (k', v') :: sinsert k v l'
  end.

Fixpoint repeat_n {A} (n : nat) (x : A) : list A :=
  match n with O => [] | S n' => x :: repeat_n n' x end.

(** decimal rendering of a natural number as code points (for "var{n}") *)
Fixpoint dec_digits (fuel : nat) (n : N) (acc : str) : str :=
  match fuel with
  | O => acc
  | S f =>
      let d := N.modulo n 10 in
      let q := N.div n 10 in
      let acc' := (48 + d)%N :: acc in
      if N.eqb q 0 then acc' else dec_digits f q acc'
  end.
Definition dec_of_N (n : N) : str := dec_digits (S (N.to_nat (N.log2 n))) n [].
