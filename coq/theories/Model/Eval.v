(** eval_node with the evaluation context (duplicates, cache, domain sets, open scopes),
    pattern shortcuts and restricted units; mirrors src/evaluation/algorithm.rs and
    eval_context.rs. *)
From HCTL Require Import Base Syntax Canon MarkDup TT Ops.

Record ectx := {
  duplicates : list (key * nat);
  cache : list (key * (tt * list (str * str)));
  domain_sets : list (str * tt);
  free_doms : dommap;
}.

Definition ctx_new (dups : list (key * nat)) : ectx :=
  {| duplicates := dups; cache := []; domain_sets := []; free_doms := [] |}.

Definition set_dups (c : ectx) d :=
  {| duplicates := d; cache := cache c; domain_sets := domain_sets c; free_doms := free_doms c |}.
Definition set_cache (c : ectx) x :=
  {| duplicates := duplicates c; cache := x; domain_sets := domain_sets c; free_doms := free_doms c |}.
Definition set_free (c : ectx) x :=
  {| duplicates := duplicates c; cache := cache c; domain_sets := domain_sets c; free_doms := x |}.
Definition set_domsets (c : ectx) x :=
  {| duplicates := duplicates c; cache := cache c; domain_sets := x; free_doms := free_doms c |}.

(** extend_context_with_wild_cards *)
Definition wild_key (p : str) : key := (c_pct :: p ++ [c_pct], []).

Fixpoint extend_props (props : list (str * tt)) (c : ectx) : ectx :=
  match props with
  | [] => c
  | (p, s) :: rest =>
      let k := wild_key p in
      let c1 := set_dups c (incr_dup k (duplicates c)) in
      let c2 := set_cache c1 (ainsert key_eqb k (s, []) (cache c1)) in
      extend_props rest c2
  end.

Definition extend_context (props doms : list (str * tt)) (c : ectx) : ectx :=
  let c1 := extend_props props c in
  set_domsets c1 (fold_left (fun acc pd => ainsert str_eqb (fst pd) (snd pd) acc) doms
                            (domain_sets c1)).

(** Switches used to derive the reference evaluators from the same definition. *)
Record switches := { use_patterns : bool }.

Definition is_attractor_pattern (t : tree) : bool :=
  match t with
  | Hybrid Bind x None (Unary AG (Unary EF (Terminal (AVar y)))) => str_eqb x y
  | _ => false
  end.
Definition is_fixed_point_pattern (t : tree) : bool :=
  match t with
  | Hybrid Bind x None (Unary AX (Terminal (AVar y))) => str_eqb x y
  | _ => false
  end.
Definition pattern_var (t : tree) : str :=
  match t with Hybrid _ x _ _ => x | _ => [] end.

Fixpoint index_of (x : str) (l : list str) (i : nat) : option nat :=
  match l with
  | [] => None
  | y :: r => if str_eqb x y then Some i else index_of x r (S i)
  end.

Section Eval.
Variable G : genv.
Variable names : list str.       (* names of the network variables, by id *)
Variable sw : switches.
Variable steady : tt.            (* self-loop states handed to eval_node *)

(** compute_attractor_states(graph, unit): modelled by its specification -- the states of the
    unit lying in a bottom SCC, i.e. the generic meaning of  !x: AG EF x  (computed with the
    spare copy of the pattern's own variable). *)
Definition attractors (U : tt) (e : nat) : res tt :=
  let* ef := eval_ef_saturated G U (eval_hctl_var G U e) in
  let* ag := eval_ag G U ef in
  Ok (eval_bind G U (tand ag U) e).

Definition foreign_restriction (fd : dommap) (ren : list (str * str)) : bool :=
  existsb (fun vd => negb (amem str_eqb (fst vd) ren)
                     && match snd vd with Some _ => true | None => false end) fd.

(** rename the variables of a cached set back to the names used at the current node *)
Fixpoint rename_back (result_ren : list (str * str)) (ren : list (str * str)) (r : tt)
  : res tt :=
  match result_ren with
  | [] => Ok r
  | (var_res, var_canon) :: rest =>
      match find (fun cc => str_eqb (snd cc) var_canon) ren with
      | Some (var_curr, _) =>
          let* e1 := hctl_var_id G var_res in
          let* e2 := hctl_var_id G var_curr in
          rename_back rest ren (substitute_hctl_var G r e1 e2)
      | None => Panic PReverseRenaming
      end
  end.

Definition eval_hybrid_quantifier (U Ur : tt) (o : hybop) (e : nat) (child : tt) : res tt :=
  match o with
  | Bind => Ok (eval_bind G U (tand child Ur) e)
  | Exists => Ok (eval_exists G (tand child Ur) e)
  | Forall => Ok (eval_neg U (eval_exists G (eval_neg Ur child) e))
  | Jump => Panic PHybridQuantifier
  end.

Fixpoint eval_node (t : tree) (U : tt) (c : ectx) {struct t} : res (tt * ectx) :=
  let (canon, ren) := canonize (render t) in
  let k : key := (canon, canon_domains (free_doms c) ren []) in
  let dup := amem key_eqb k (duplicates c) in
  match (if dup then alookup key_eqb k (cache c) else None) with
  | Some (cached, cached_ren) =>
      (* cache hit: decrement (wild-card sets are never evicted), evict at zero, rename back *)
      let c' :=
        if is_wild_terminal t then c
        else match alookup key_eqb k (duplicates c) with
             | Some (S O) | Some O =>
                 set_cache (set_dups c (aremove key_eqb k (duplicates c)))
                           (aremove key_eqb k (cache c))
             | Some (S n) => set_dups c (ainsert key_eqb k n (duplicates c))
             | None => c
             end in
      let* r := rename_back cached_ren ren cached in
      Ok (r, c')
  | None =>
      let save := dup && negb (foreign_restriction (free_doms c) ren) in
      let finish (rc : tt * ectx) : res (tt * ectx) :=
        if save then Ok (fst rc, set_cache (snd rc) (ainsert key_eqb k (fst rc, ren) (cache (snd rc))))
        else Ok rc in
      if use_patterns sw && is_attractor_pattern t then
        let* e := hctl_var_id G (pattern_var t) in
        let* r := attractors U e in
        finish (r, c)
      else if use_patterns sw && is_fixed_point_pattern t then Ok (steady, c)
      else
      match t with
      | Terminal a =>
          match a with
          | ATrue => finish (U, c)
          | AFalse => finish (empty G, c)
          | AVar name => let* e := hctl_var_id G name in finish (eval_hctl_var G U e, c)
          | AProp name =>
              match index_of name names 0 with
              | Some i => finish (eval_prop G U i, c)
              | None => Panic PPropLookup
              end
          | AWild _ => Panic PWildCardUnreachable
          end
      | Unary o ch =>
          let* (x, c1) := eval_node ch U c in
          let* r :=
            match o with
            | Not => Ok (eval_neg U x)
            | EX => Ok (eval_ex G x steady)
            | AX => Ok (eval_ax G U x steady)
            | EF => eval_ef_saturated G U x
            | AF => eval_af G U x steady
            | EG => eval_eg G x steady
            | AG => eval_ag G U x
            end in
          finish (r, c1)
      | Binary o l r =>
          let* (a, c1) := eval_node l U c in
          let* (b, c2) := eval_node r U c1 in
          let* res :=
            match o with
            | And => Ok (tand a b)
            | Or => Ok (tor a b)
            | Xor => Ok (eval_xor U a b)
            | Imp => Ok (eval_imp U a b)
            | Iff => Ok (eval_equiv U a b)
            | EU => eval_eu_saturated G a b
            | AU => eval_au G U a b steady
            | EW => eval_ew G U a b steady
            | AW => eval_aw G U a b
            end in
          finish (res, c2)
      | Hybrid Jump x _ ch =>
          let* (a, c1) := eval_node ch U c in
          let* e := hctl_var_id G x in
          finish (eval_jump G U a e, c1)
      | Hybrid o x d ch =>
          let c0 := set_free c (sinsert x d (free_doms c)) in
          let close (c1 : ectx) := set_free c1 (aremove str_eqb x (free_doms c1)) in
          match d with
          | None =>
              let* (a, c1) := eval_node ch U c0 in
              let* e := hctl_var_id G x in
              let* r := eval_hybrid_quantifier U U o e a in
              finish (r, close c1)
          | Some dl =>
              match alookup str_eqb dl (domain_sets c0) with
              | None => Panic PDomainLookup
              | Some dset =>
                  let* e := hctl_var_id G x in
                  let var_domain := compute_valid_domain_for_var G U dset e in
                  let Ur := tand U var_domain in
                  if is_empty Ur then
                    (* no admissible value for the variable (for any colour): early return,
                       the scope is closed, nothing is saved to the cache *)
                    Ok (match o with Forall => U | _ => empty G end, close c0)
                  else
                    let* (a, c1) := eval_node ch Ur c0 in
                    let* r := eval_hybrid_quantifier U Ur o e a in
                    finish (r, close c1)
              end
          end
      end
  end.

End Eval.
