(** Entry points; mirrors src/model_checking.rs, src/mc_utils.rs (check_hctl_var_support),
    src/preprocessing/utils.rs (validate_and_divide_wild_cards) and
    src/postprocessing/sanitizing.rs. *)
From HCTL Require Import Base Syntax Tokenizer Parser Preprocess Canon MarkDup TT Ops Eval.

Section Pipeline.
Variable ext_alnum : N -> bool.

(** A network as the library presents it: dimensions, variable names, the value of every
    update function and the unit set, all over the layout  params ++ states. *)
Record world := {
  w_p : nat; w_n : nat;
  w_names : list str;
  w_upd : list tt;
  w_unit : tt;
}.

Definition not_extra (g : tag) : bool := negb (is_extra_tag g).

Definition genv_of (w : world) (k : nat) : genv := mk_genv (w_p w) (w_n w) k (w_upd w).
Definition lift (w : world) (k : nat) (s : tt) : tt :=
  expand not_extra (mk_layout (w_p w) (w_n w) k) s.
Definition unit_of (w : world) (k : nat) : tt := lift w k (w_unit w).

(** parse_hctl_formula / parse_extended_formula *)
Definition parse_formula (ext : bool) (s : str) : res tree :=
  let* ts := tokenize ext_alnum ext s in parse_tokens ts.

(** parse_and_minimize_* *)
Definition parse_and_minimize (ext : bool) (props : list str) (s : str) : res tree :=
  let* t := parse_formula ext s in preprocess props t.

(** validate_and_divide_wild_cards *)
Fixpoint pick_context (labels : list str) (ctx : list (str * tt)) : res (list (str * tt)) :=
  match labels with
  | [] => Ok []
  | l :: rest =>
      match alookup str_eqb l ctx with
      | Some s => let* r := pick_context rest ctx in Ok ((l, s) :: r)
      | None => Err EMissingContext
      end
  end.

Definition divide_wild_cards (t : tree) (ctx : list (str * tt))
  : res (list (str * tt) * list (str * tt)) :=
  let (ps, ds) := collect_wild t ([], []) in
  let* cp := pick_context ps ctx in
  let* cd := pick_context ds ctx in
  Ok (cp, cd).

(** parse_and_validate(_extended): per formula -- parse, preprocess, variable support,
    context labels; the first failing check of the first failing formula decides *)
Fixpoint validate_all (ext : bool) (props : list str) (k : nat) (ctx : list (str * tt))
         (fs : list str) : res (list tree * list (str * tt) * list (str * tt)) :=
  match fs with
  | [] => Ok ([], [], [])
  | f :: rest =>
      let* t := parse_and_minimize ext props f in
      if Nat.ltb k (num_hctl_vars t) then Err EVarSupport
      else
        let* (cp, cd) := (if ext then divide_wild_cards t ctx else Ok ([], [])) in
        let* (tsp, ds) := validate_all ext props k ctx rest in
        Ok (t :: fst tsp, cp ++ snd tsp, cd ++ ds)
  end.

Fixpoint eval_all (G : genv) (names : list str) (sw : switches) (steady U : tt)
         (ts : list tree) (c : ectx) : res (list tt) :=
  match ts with
  | [] => Ok []
  | t :: rest =>
      let* (r, c') := eval_node G names sw steady t U c in
      let* rs := eval_all G names sw steady U rest c' in
      Ok (r :: rs)
  end.

(** sanitize_colored_vertices: transfer into the canonical context *)
Definition sanitize (G : genv) (r : tt) : res tt :=
  match restrict not_extra (g_L G) r with
  | Some s => Ok s
  | None => Panic PSanitizeDependsOnExtras
  end.

Fixpoint sanitize_all (G : genv) (rs : list tt) : res (list tt) :=
  match rs with
  | [] => Ok []
  | r :: rest => let* s := sanitize G r in let* ss := sanitize_all G rest in Ok (s :: ss)
  end.

Record mode := {
  m_ext : bool;          (* extended entry points *)
  m_sanitize : bool;     (* sanitised or dirty *)
  m_unsafe_ex : bool;    (* model_check_formula_unsafe_ex: empty self-loop set *)
  m_nocache : bool;      (* evaluation context that marks no duplicates *)
  m_nopatterns : bool;   (* pattern shortcuts disabled (reference evaluator) *)
}.

(** _model_check_multiple_trees_dirty / _model_check_multiple_extended_formulae_dirty on
    already validated trees *)
(** HashMap::extend: one entry per label *)
Definition dedup_labels (l : list (str * tt)) : list (str * tt) :=
  fold_right (fun ps acc => if amem str_eqb (fst ps) acc then acc else ps :: acc) [] l.

Definition check_trees (w : world) (k : nat) (m : mode) (ts : list tree)
           (cprops cdoms : list (str * tt)) : res (list tt) :=
  let G := genv_of w k in
  let U := unit_of w k in
  let dups := if m_nocache m then [] else mark_duplicates ts in
  let c0 := ctx_new dups in
  let c1 := if m_ext m
            then extend_context
                   (map (fun ps => (fst ps, lift w k (snd ps))) (dedup_labels cprops))
                   (map (fun ps => (fst ps, lift w k (snd ps))) (dedup_labels cdoms)) c0
            else c0 in
  let steady := if m_unsafe_ex m then empty G else steady_of G U in
  let sw := {| use_patterns := negb (m_nopatterns m) |} in
  let* rs := eval_all G (w_names w) sw steady U ts c1 in
  if m_sanitize m then sanitize_all G rs else Ok rs.

(** the string entry points *)
Definition model_check (w : world) (k : nat) (m : mode) (ctx : list (str * tt))
           (fs : list str) : res (list tt) :=
  let* (tsp, cd) := validate_all (m_ext m) (w_names w) k ctx fs in
  check_trees w k m (fst tsp) (snd tsp) cd.

End Pipeline.
