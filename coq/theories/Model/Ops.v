(** The symbolic graph (modelled library interface) and the HCTL operators;
    mirrors src/evaluation/hctl_operators_eval.rs and low_level_operations.rs. *)
From HCTL Require Import Base TT.

(** range 0..n-1 *)
Fixpoint range (n : nat) : list nat :=
  match n with O => [] | S m => range m ++ [m] end.

(** Layout: parameter bits first, then for every network variable its state bit followed by
    its k spare copies (the interleaving of get_extended_symbolic_graph). *)
Definition var_block (k i : nat) : layout := TS i :: map (TX i) (range k).
Definition mk_layout (p n k : nat) : layout :=
  map TP (range p) ++ flat_map (var_block k) (range n).

Definition is_state_tag (g : tag) : bool := match g with TS _ => true | _ => false end.
Definition is_extra_tag (g : tag) : bool := match g with TX _ _ => true | _ => false end.
Definition is_copy (e : nat) (g : tag) : bool :=
  match g with TX _ e' => Nat.eqb e e' | _ => false end.

(** Static data of one symbolic graph: dimensions, layout, the update functions
    ("function is true" sets, over the full layout).  Which colours are valid, and the value
    of every update function, are inputs: lib-param-bn is modelled, not verified. *)
Record genv := {
  g_n : nat; g_p : nat; g_k : nat;
  g_L : layout;
  g_upd : list tt;
}.

Definition mk_genv (p n k : nat) (upd_pn : list tt) : genv :=
  let L := mk_layout p n k in
  {| g_n := n; g_p := p; g_k := k; g_L := L;
     g_upd := map (expand (fun g => negb (is_extra_tag g)) L) upd_pn |}.

Section Ops.
Variable G : genv.
Let L := g_L G.

Definition empty : tt := const L false.
Definition full : tt := const L true.
Definition upd_of (i : nat) : tt := nth i (g_upd G) empty.

(** "variable i can be updated": fn_transition = var xor function *)
Definition can_update (i : nat) : tt := txor (upd_of i) (lit L (TS i)).

(** SymbolicAsyncGraph::var_pre -- flip(set) & can_apply_function; no unit involved *)
Definition var_pre (i : nat) (S : tt) : tt := tand (flip (TS i) L S) (can_update i).

(** SymbolicAsyncGraph::pre -- union over all variables *)
Definition pre (S : tt) : tt :=
  fold_left (fun acc i => tor acc (var_pre i S)) (range (g_n G)) empty.

(** FixedPoints::symbolic(graph, unit): states of the unit without any enabled update *)
Definition steady_of (U : tt) : tt :=
  fold_left (fun acc i => tminus acc (can_update i)) (range (g_n G)) U.

(** ---- hctl_operators_eval.rs ---- *)
Definition eval_neg (U S : tt) : tt := tminus U S.
Definition eval_imp (U a b : tt) : tt := tor (eval_neg U a) b.
Definition eval_equiv (U a b : tt) : tt :=
  tor (tand a b) (tand (eval_neg U a) (eval_neg U b)).
Definition eval_xor (U a b : tt) : tt := eval_neg U (eval_equiv U a b).

Definition eval_ex (S steady : tt) : tt := tor (pre S) (tand S steady).
Definition eval_ax (U S steady : tt) : tt := eval_neg U (eval_ex (eval_neg U S) steady).

(** `while old != new { new = old; old = F(old) }` returning old *)
Fixpoint while_neq (fuel : nat) (F : tt -> tt) (old new : tt) : res tt :=
  if tt_eqb old new then Ok old
  else match fuel with
       | O => OutOfFuel
       | S f => while_neq f F (F old) old
       end.

(** enough rounds for any monotone loop over the layout *)
Definition loop_fuel : nat := S (Nat.pow 2 (length L)).

(** one round of the saturation loop: the first variable (in reverse order) with a
    non-empty update *)
Fixpoint sat_step (vars : list nat) (phi1 result : tt) : option tt :=
  match vars with
  | [] => None
  | i :: rest =>
      let update := tminus (tand phi1 (var_pre i result)) result in
      if is_empty update then sat_step rest phi1 result
      else Some (tor result update)
  end.

Fixpoint eu_loop (fuel : nat) (phi1 result : tt) : res tt :=
  match fuel with
  | O => OutOfFuel
  | S f =>
      match sat_step (rev (range (g_n G))) phi1 result with
      | None => Ok result
      | Some r => eu_loop f phi1 r
      end
  end.

Definition eval_eu_saturated (phi1 phi2 : tt) : res tt := eu_loop loop_fuel phi1 phi2.
Definition eval_ef_saturated (U phi : tt) : res tt := eval_eu_saturated U phi.

Definition eval_eg (phi steady : tt) : res tt :=
  while_neq loop_fuel (fun old => tand old (eval_ex old steady)) phi empty.

Definition eval_au (U phi1 phi2 steady : tt) : res tt :=
  while_neq loop_fuel (fun old => tor old (tand phi1 (eval_ax U old steady))) phi2 empty.

Definition eval_af (U phi steady : tt) : res tt :=
  let* r := eval_eg (eval_neg U phi) steady in Ok (eval_neg U r).
Definition eval_ag (U phi : tt) : res tt :=
  let* r := eval_ef_saturated U (eval_neg U phi) in Ok (eval_neg U r).

(** E[phi1 W phi2] = not A[not phi2 U (not phi1 and not phi2)] *)
Definition eval_ew (U phi1 phi2 steady : tt) : res tt :=
  let* r := eval_au U (eval_neg U phi2) (tand (eval_neg U phi1) (eval_neg U phi2)) steady in
  Ok (eval_neg U r).
(** A[phi1 W phi2] = not E[not phi2 U (not phi1 and not phi2)] *)
Definition eval_aw (U phi1 phi2 : tt) : res tt :=
  let* r := eval_eu_saturated (eval_neg U phi2) (tand (eval_neg U phi1) (eval_neg U phi2)) in
  Ok (eval_neg U r).

(** ---- low_level_operations.rs ---- *)
(** HCTL variables are named x, xx, xxx: the length of the name selects the spare copy *)
Definition hctl_var_id (name : str) : res nat :=
  match name with
  | [] => Panic PExtraVarIndex
  | _ :: r => if Nat.ltb (length r) (g_k G) then Ok (length r) else Panic PExtraVarIndex
  end.

(** create_equalizer(graph, x, None): unit & AND_i (x_i <=> s_i), intersected with the unit *)
Definition comparator_var_state (U : tt) (e : nat) : tt :=
  tand (fold_left (fun acc i => tand acc (tiff (lit L (TX i e)) (lit L (TS i))))
                  (range (g_n G)) U) U.

(** create_equalizer(graph, x, Some(y)): AND_i (x_i <=> y_i); the renaming comparator does not
    restrict either variable *)
Definition comparator_two_vars (e1 e2 : nat) : tt :=
  fold_left (fun acc i => tand acc (tiff (lit L (TX i e1)) (lit L (TX i e2))))
            (range (g_n G)) full.

Definition project_out_hctl_var (S : tt) (e : nat) : tt := exq (is_copy e) L S.
Definition project_out_bn_vars (S : tt) : tt := exq is_state_tag L S.

Definition eval_hctl_var (U : tt) (e : nat) : tt := comparator_var_state U e.
Definition eval_bind (U phi : tt) (e : nat) : tt :=
  project_out_hctl_var (tand (comparator_var_state U e) phi) e.
Definition eval_exists (phi : tt) (e : nat) : tt := project_out_hctl_var phi e.
Definition eval_jump (U phi : tt) (e : nat) : tt :=
  project_out_bn_vars (tand (comparator_var_state U e) phi).

Definition substitute_hctl_var (S : tt) (e_before e_after : nat) : tt :=
  if Nat.eqb e_before e_after then S
  else project_out_hctl_var (tand S (comparator_two_vars e_before e_after)) e_before.

Definition compute_valid_domain_for_var (U domain : tt) (e : nat) : tt :=
  project_out_bn_vars (tand domain (comparator_var_state U e)).

(** eval_prop: the state variable is true, inside the unit *)
Definition eval_prop (U : tt) (i : nat) : tt := tand (lit L (TS i)) U.

End Ops.
