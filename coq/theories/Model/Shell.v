(** The file-level shell of the CLI: the formula-file loader, the result archive writer and
    the result archive loader, plus the labels under which the CLI stores its results.

    Rust sources mirrored here:
      src/load_inputs.rs      [load_formulae], [load_bdd_bundle] (+ [read_zipped_file])
      src/generate_output.rs  [build_result_archive]
      src/analysis.rs         [results.insert(format!("formula-{i}"), result)]
    Library functions modelled (Rust std 1.95, zip 0.6.6, Unix paths):
      [str::lines], [str::trim], [str::strip_suffix], [str::starts_with(char)],
      [Path::file_name], [Path::extension], [ZipArchive::file_names], [ZipArchive::by_name].

    Strings are lists of code points ([str] of Base.v).  A zip archive is the ordered list of
    its entries (entry name, content) in the order in which they were written.  The file system
    is not modelled: [load_formulae] takes the content of the file, the archive functions take
    and return the archive value (I/O errors are outside the model). *)
From HCTL Require Import Base Tokenizer TT.

(** * Characters and string constants *)
Definition c_nl : N := 10.     (* '\n' *)
Definition c_cr : N := 13.     (* '\r' *)
Definition c_hash : N := 35.   (* '#' *)
Definition c_dot : N := 46.    (* '.' *)
Definition c_slash : N := 47.  (* '/' : the only path separator (Unix) *)

Definition s_bdd : str := [98; 100; 100]%N.                                   (* "bdd" *)
Definition s_dot_bdd : str := c_dot :: s_bdd.                               (* ".bdd" *)
Definition s_dot : str := [c_dot].                                          (* "." *)
Definition s_dotdot : str := [c_dot; c_dot].                                (* ".." *)
Definition s_model_aeon : str := [109; 111; 100; 101; 108; 46; 97; 101; 111; 110]%N.
                                                                            (* "model.aeon" *)
Definition s_formulae_txt : str := [102; 111; 114; 109; 117; 108; 97; 101; 46; 116; 120; 116]%N.
                                                                            (* "formulae.txt" *)
Definition s_formula_dash : str := [102; 111; 114; 109; 117; 108; 97; 45]%N.  (* "formula-" *)

(** * String functions of the Rust standard library *)

(** [s.strip_prefix(p)] / [s.strip_suffix(p)]: the rest of [s] if it starts / ends with [p] *)
Fixpoint strip_prefix (p s : str) : option str :=
  match p, s with
  | [], _ => Some s
  | x :: p', y :: s' => if N.eqb x y then strip_prefix p' s' else None
  | _ :: _, [] => None
  end.

Definition strip_suffix (p s : str) : option str :=
  match strip_prefix (rev p) (rev s) with
  | Some r => Some (rev r)
  | None => None
  end.

(** [s.split_inclusive('\n')]: the maximal pieces of [s] that end with their first '\n' (the
    last piece is the unterminated rest, present only if it is not empty). *)
Fixpoint split_inclusive (s : str) : list str :=
  match s with
  | [] => []
  | c :: s' =>
      if N.eqb c c_nl then [c] :: split_inclusive s'
      else match split_inclusive s' with
           | [] => [[c]]
           | piece :: pieces => (c :: piece) :: pieces
           end
  end.

(** [str::lines] is (library source, str/mod.rs)
      [self.split_inclusive('\n').map(|line| {
         let Some(line) = line.strip_suffix('\n') else { return line };
         let Some(line) = line.strip_suffix('\r') else { return line };
         line })]
    i.e. one "\r" is removed only in front of a removed "\n"; a final line "a\r" without
    line feed keeps its carriage return. *)
Definition lines_map (line : str) : str :=
  match strip_suffix [c_nl] line with
  | None => line
  | Some l =>
      match strip_suffix [c_cr] l with
      | None => l
      | Some l' => l'
      end
  end.

Definition lines (s : str) : list str := map lines_map (split_inclusive s).

(** [str::trim]: remove the longest prefix and the longest suffix of [char::is_whitespace]
    characters ([is_ws] and [skip_ws] of Tokenizer.v). *)
Definition trim_start (s : str) : str := skip_ws s.
Definition trim_end (s : str) : str := rev (skip_ws (rev s)).
Definition trim (s : str) : str := trim_end (trim_start s).

Definition is_empty {A} (s : list A) : bool := match s with [] => true | _ :: _ => false end.

(** [s.starts_with(c)] for a character [c] is [peek_is c s] of Tokenizer.v. *)

(** [s.split(sep)] for a character: all the segments between separators (never an empty list:
    the empty string has the single segment ""). *)
Fixpoint split (sep : N) (s : str) : list str :=
  match s with
  | [] => [[]]
  | c :: s' =>
      if N.eqb c sep then [] :: split sep s'
      else match split sep s' with
           | [] => [[c]]                       (* not reachable: [split] is never empty *)
           | seg :: segs => (c :: seg) :: segs
           end
  end.

(** * Paths (std::path, Unix) *)

(** [Path::file_name]: the last component of the path if it is a normal one.  The component
    iterator of std ignores empty segments (repeated or trailing '/') and "." segments (a
    leading "." is the component CurDir, which is not a normal component either), so we look
    at the '/'-separated segments from the back, skip the empty and the "." ones, and answer
    [None] if nothing is left (the path is empty, "/" or ".") or if the segment found is ".."
    (ParentDir).  Rust examples: "a/b.bdd" -> "b.bdd", "a.bdd/" -> "a.bdd", "a.bdd/./." ->
    "a.bdd", "a/.." -> None, "a/.bdd" -> ".bdd". *)
Fixpoint skip_trivial (segs : list str) : list str :=
  match segs with
  | seg :: rest => if is_empty seg || str_eqb seg s_dot then skip_trivial rest else segs
  | [] => []
  end.

Definition file_name (p : str) : option str :=
  match skip_trivial (rev (split c_slash p)) with
  | [] => None
  | seg :: _ => if str_eqb seg s_dotdot then None else Some seg
  end.

(** [Path::extension] = [file_name().map(rsplit_file_at_dot).and_then(|(before, after)|
    before.and(after))] where [rsplit_file_at_dot] splits at the last '.':
      [let mut iter = file.rsplitn(2, '.'); let after = iter.next(); let before = iter.next();
       if before == Some(b"") { (Some(file), None) } else { (before, after) }].
    So: no '.' in the file name -> None; the only '.' is the first character (".bdd") -> None;
    otherwise the part after the last '.' (possibly empty: "foo." -> Some ""; and a name that
    merely starts with '.' still has an extension: ".x.bdd" -> Some "bdd").
    On the '.'-separated segments of the file name read from the back, [after] is the first one
    and [before] is empty exactly when there is one more segment and that one is empty. *)
Definition extension_of_file_name (f : str) : option str :=
  match rev (split c_dot f) with
  | after :: before_last :: before_rest =>
      if is_empty before_last && is_empty before_rest then None else Some after
  | _ => None
  end.

Definition extension (p : str) : option str :=
  match file_name p with
  | Some f => extension_of_file_name f
  | None => None
  end.

(** * load_inputs.rs :: load_formulae *)

(** [if !trimmed_line.is_empty() && !trimmed_line.starts_with('#')] *)
Definition keep_formula (t : str) : bool := negb (is_empty t) && negb (peek_is c_hash t).

(** [for line in formulae_string.lines() { let trimmed_line = line.trim(); if ... { push } }]
    The argument is the content of the file ([read_to_string]; an I/O error is not modelled). *)
Definition load_formulae (content : str) : list str :=
  filter keep_formula (map trim (lines content)).

(** * Result maps, archives *)

(** outcome of the loader: [Result::Ok], [Result::Err], or a panic *)
Inductive lres (A : Type) := LOk (a : A) | LErr | LPanic.
Arguments LOk {A} a.
Arguments LErr {A}.
Arguments LPanic {A}.

Definition archive := list (str * str).

(** [LabelToSetMap = HashMap<String, GraphColoredVertices>]: an association list used through
    [ainsert] / [alookup] only.  Where the Rust code iterates over a map, the list order stands
    for the (unspecified) iteration order, hence the theorems quantify over it. *)
Definition setmap := list (str * tt).

(** [ZipArchive::by_name]: zip 0.6.6 resolves names through [names_map], filled by
    [names_map.insert(file.file_name.clone(), files.len())] in entry order, so that among
    entries with equal names the last one is found. *)
Definition by_name (n : str) (a : archive) : option str := alookup str_eqb n (rev a).

(** [ZipArchive::file_names] = [names_map.keys()]: every distinct entry name once, in an
    unspecified order (keys of a HashMap).  [is_file_names a names] describes the possible
    results; [file_names a] is the one that follows the entry order (last occurrences). *)
Definition is_file_names (a : archive) (names : list str) : Prop :=
  NoDup names /\ forall n, In n names <-> In n (map fst a).

Fixpoint dedup (l : list str) : list str :=
  match l with
  | [] => []
  | x :: r => if existsb (str_eqb x) r then dedup r else x :: dedup r
  end.

Definition file_names (a : archive) : list str := dedup (map fst a).

(** [formulae.txt]: [for formula in formulae { writeln!(zip_writer, "{formula}")?; }] *)
Definition formulae_txt (formulae : list str) : str :=
  concat (map (fun f => f ++ [c_nl]) formulae).

Section Codec.
  (** The BDD text codec of lib-bdd: [print] is [Bdd::write_as_string], [parse] is
      [Bdd::from_string] (which panics on malformed text: [None]).  [GraphColoredVertices::new]
      and [as_bdd] only wrap / unwrap the BDD, so a coloured set is its [tt].
      The codec is a parameter together with its round-trip law (the law is used in
      Proofs/ShellFacts.v only; no definition below depends on it). *)
  Variable print : tt -> str.
  Variable parse : str -> option tt.
  Hypothesis parse_print : forall b, parse (print b) = Some b.

  (** generate_output.rs :: build_result_archive.
      [for (set_name, set) in results.iter() { start_file(format!("{}.bdd", set_name));
         set.as_bdd().write_as_string(..) }]   -- [results] in its iteration order
      [start_file("model.aeon"); write!("{original_model_str}")]
      [start_file("formulae.txt"); for formula in formulae { writeln!("{formula}") }]
      (zip 0.6.6 [start_file] stores the name unchanged and does not reject duplicates). *)
  Definition build_result_archive (results : setmap) (model : str) (formulae : list str)
    : archive :=
    map (fun ls => (fst ls ++ s_dot_bdd, print (snd ls))) results
    ++ [(s_model_aeon, model); (s_formulae_txt, formulae_txt formulae)].

  (** load_inputs.rs :: load_bdd_bundle, the loop [for filename in files] over the collected
      [archive.file_names()], with [loaded_sets] as accumulator:
      - [if !matches!(Path::new(&filename).extension().and_then(|s| s.to_str()), Some("bdd"))
         { continue; }]
      - [filename.strip_suffix(".bdd").ok_or(..)?]            -> [LErr]   (e.g. "a.bdd/")
      - [read_zipped_file] = [by_name(..).map_err(..)?] + read -> [LErr] if there is no entry
      - [Bdd::from_string] panics on malformed text           -> [LPanic]
      - [loaded_sets.insert(name.to_string(), set)]           -> [ainsert] *)
  Fixpoint load_names (names : list str) (a : archive) (loaded : setmap) : lres setmap :=
    match names with
    | [] => LOk loaded
    | filename :: rest =>
        if opt_eqb str_eqb (extension filename) (Some s_bdd) then
          match strip_suffix s_dot_bdd filename with
          | None => LErr
          | Some name =>
              match by_name filename a with
              | None => LErr
              | Some bdd_string =>
                  match parse bdd_string with
                  | None => LPanic
                  | Some bdd => load_names rest a (ainsert str_eqb name bdd loaded)
                  end
              end
          end
        else load_names rest a loaded
    end.

  (** the loader with the names visited in entry order *)
  Definition load_bdd_bundle (a : archive) : lres setmap := load_names (file_names a) a [].
End Codec.

(** * analysis.rs : labels of the results *)

(** [format!("formula-{i}")] *)
Definition result_label (i : nat) : str := s_formula_dash ++ dec_of_N (N.of_nat i).

(** [for (i, ..) in ..enumerate() { ...; results.insert(format!("formula-{i}"), result); }]
    where [results] is the i-th computed set, for i from 0. *)
Fixpoint insert_results (i : nat) (rs : list tt) (results : setmap) : setmap :=
  match rs with
  | [] => results
  | r :: rs' => insert_results (S i) rs' (ainsert str_eqb (result_label i) r results)
  end.

Definition analysis_results (rs : list tt) : setmap := insert_results 0 rs [].

(** * Vocabulary of the specifications (used by Proofs/ShellFacts.v, Properties/C16.v, C17.v) *)

(** A label [l] is admissible if the file name of the path "l.bdd" has a non-empty stem: [l]
    is not empty and does not end with '/'.  (Exactly the labels with
    [extension (l ++ ".bdd") = Some "bdd"], see [extension_bdd_iff].) *)
Definition admissible (l : str) : Prop := l <> [] /\ last l 0%N <> c_slash.

(** no white space at either end *)
Definition no_ws_ends (t : str) : Prop :=
  (forall c r, t = c :: r -> is_ws c = false) /\ (forall r c, t = r ++ [c] -> is_ws c = false).

(** a line survives [load_formulae] if, once trimmed, it is neither empty nor a '#' comment *)
Definition kept_line (l : str) : Prop := trim l <> [] /\ hd_error (trim l) <> Some c_hash.

(** a string that can be written as one line and read back by [lines] unchanged: no line feed
    inside and no carriage return at the end *)
Definition one_line (f : str) : Prop := ~ In c_nl f /\ (forall r, f <> r ++ [c_cr]).

(** the strings that [load_formulae] can return (see [load_formulae_clean] and
    [load_formulae_fixed]): not empty, not a comment, trimmed, on one line *)
Definition clean_formula (f : str) : Prop :=
  f <> [] /\ hd_error f <> Some c_hash /\ no_ws_ends f /\ ~ In c_nl f.

(** strictly increasing list of positions *)
Fixpoint increasing (l : list nat) : Prop :=
  match l with
  | [] => True
  | x :: r => (forall y, In y r -> x < y) /\ increasing r
  end.

(** [s.join("\n")] *)
Fixpoint join_nl (l : list str) : str :=
  match l with
  | [] => []
  | [x] => x
  | x :: r => x ++ c_nl :: join_nl r
  end.
