(** Duplicate sub-formula marking; mirrors src/evaluation/mark_duplicates.rs.
    The BinaryHeap is modelled by a list from which the first node of maximal height is popped
    (ties of the real heap are unspecified; the result does not depend on them). *)
From HCTL Require Import Base Syntax Canon.

Definition dommap := list (str * option str).          (* BTreeMap: sorted by key *)
Definition key := (str * dommap)%type.                 (* FormulaWithDomains *)

Definition dom_entry_eqb (a b : str * option str) : bool :=
  str_eqb (fst a) (fst b) && opt_eqb str_eqb (snd a) (snd b).
Definition key_eqb (a b : key) : bool :=
  str_eqb (fst a) (fst b) && list_eqb dom_entry_eqb (snd a) (snd b).

(** canonical domains: for every (variable, domain) of [doms] whose variable is renamed *)
Fixpoint canon_domains (doms : dommap) (ren : list (str * str)) (acc : dommap) : dommap :=
  match doms with
  | [] => acc
  | (v, d) :: rest =>
      match alookup str_eqb v ren with
      | Some cv => canon_domains rest ren (sinsert cv d acc)
      | None => canon_domains rest ren acc
      end
  end.

Definition node_key (t : tree) (doms : dommap) : key * list (str * str) :=
  let (c, ren) := canonize (render t) in
  ((c, canon_domains doms ren []), ren).

Definition hnode := (tree * dommap)%type.

Fixpoint max_height (l : list hnode) : nat :=
  match l with [] => 0 | (t, _) :: l' => Nat.max (height t) (max_height l') end.

(** pop the first node whose height is [h] *)
Fixpoint pop_height (h : nat) (l : list hnode) : option (hnode * list hnode) :=
  match l with
  | [] => None
  | x :: l' =>
      if Nat.eqb (height (fst x)) h then Some (x, l')
      else match pop_height h l' with
           | Some (y, r) => Some (y, x :: r)
           | None => None
           end
  end.

Definition is_wild_terminal (t : tree) : bool :=
  match t with Terminal (AWild _) => true | _ => false end.
Definition is_terminal (t : tree) : bool :=
  match t with Terminal _ => true | _ => false end.

Definition children (t : tree) (doms : dommap) : list hnode :=
  match t with
  | Terminal _ => []
  | Unary _ c => [(c, doms)]
  | Binary _ l r => [(l, doms); (r, doms)]
  | Hybrid o x d c =>
      (* the domain of the quantified variable joins the map; jump is not a quantifier *)
      match o with
      | Jump => [(c, doms)]
      | _ => [(c, sinsert x d doms)]
      end
  end.

Definition incr_dup (k : key) (dups : list (key * nat)) : list (key * nat) :=
  match alookup key_eqb k dups with
  | Some n => ainsert key_eqb k (S n) dups
  | None => ainsert key_eqb k 1 dups
  end.

Fixpoint mark_loop (fuel : nat) (queue : list hnode) (last_h : nat) (same : list key)
         (dups : list (key * nat)) : list (key * nat) :=
  match fuel with
  | O => dups
  | S f =>
      match pop_height (max_height queue) queue with
      | None => dups
      | Some ((t, doms), queue') =>
          if is_terminal t && negb (is_wild_terminal t) then mark_loop f queue' last_h same dups
          else
            let (k, ren) := node_key t doms in
            if Nat.eqb last_h (height t) then
              if Nat.leb (length ren) 1 && existsb (key_eqb k) same then
                mark_loop f queue' last_h same (incr_dup k dups)
              else
                mark_loop f (queue' ++ children t doms) last_h (k :: same) dups
            else
              mark_loop f (queue' ++ children t doms) (height t) [k] dups
      end
  end.

Fixpoint sum_sizes (ts : list tree) : nat :=
  match ts with [] => 0 | t :: l => tsize t + sum_sizes l end.

(** mark_duplicates_canonized_multiple *)
Definition mark_duplicates (roots : list tree) : list (key * nat) :=
  let q := map (fun t => (t, [] : dommap)) roots in
  mark_loop (S (sum_sizes roots)) q (max_height q) [] [].
