(** Character-level canonisation of variable names; mirrors src/evaluation/canonization.rs.
    The recursion of canonize_subform on parentheses threads all of its state through, so it is
    a flat loop with a depth counter (an unmatched ')' at depth 0 stops the loop). *)
From HCTL Require Import Base Syntax.

(** read characters up to (and consuming) the next '}' *)
Fixpoint read_to_rbrace (cs : str) : str * str :=
  match cs with
  | [] => ([], [])
  | c :: rest =>
      if N.eqb c c_rbrace then ([], rest)
      else let (n, r) := read_to_rbrace rest in (c :: n, r)
  end.

Definition canon_name (n : N) : str := s_var ++ dec_of_N n.

(** [out] is the canonical text in reverse *)
Fixpoint canon_loop (fuel : nat) (cs : str) (ren : list (str * str)) (out : str)
         (cnt : N) (depth : nat) : str * list (str * str) :=
  match fuel with
  | O => (rev out, ren)
  | S f =>
      match cs with
      | [] => (rev out, ren)
      | c :: rest =>
          if N.eqb c c_lpar then canon_loop f rest ren (c :: out) cnt (S depth)
          else if N.eqb c c_rpar then
            match depth with
            | O => (rev (c :: out), ren)
            | S d => canon_loop f rest ren (c :: out) cnt d
            end
          else if (N.eqb c c_bang || N.eqb c c_three || N.eqb c c_V)
                  && match rest with c2 :: _ => N.eqb c2 c_lbrace | [] => false end then
            let (name, rest') := read_to_rbrace (tl rest) in
            let cn := canon_name cnt in
            canon_loop f rest' (ainsert str_eqb name cn ren)
                       (rev (c :: c_lbrace :: cn ++ [c_rbrace]) ++ out) (cnt + 1)%N depth
          else if N.eqb c c_lbrace then
            let (name, rest') := read_to_rbrace rest in
            match alookup str_eqb name ren with
            | Some cn =>
                canon_loop f rest' ren (rev (c_lbrace :: cn ++ [c_rbrace]) ++ out) cnt depth
            | None =>
                let cn := canon_name cnt in
                canon_loop f rest' (ainsert str_eqb name cn ren)
                           (rev (c_lbrace :: cn ++ [c_rbrace]) ++ out) (cnt + 1)%N depth
            end
          else canon_loop f rest ren (c :: out) cnt depth
      end
  end.

(** get_canonical_and_renaming *)
Definition canonize (cs : str) : str * list (str * str) :=
  canon_loop (S (length cs)) cs [] [] 0%N 0.

Definition get_canonical (cs : str) : str := fst (canonize cs).
