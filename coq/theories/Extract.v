(** The only file with extraction directives.  ExtrOcamlBasic maps bool, option, list, prod,
    unit, sumbool, sumor to the OCaml types; nat, N, positive stay the extracted inductives. *)
From HCTL Require Import Base Syntax Tokenizer Parser Preprocess Canon MarkDup TT Ops Eval Pipeline Sem Converter Shell.
Require Extraction.
Require Import ExtrOcamlBasic.

(** Non-ASCII alphanumeric code points used by the generators (the harness asserts this table
    against Rust's char::is_alphanumeric at start-up): e-acute, lambda, arabic-indic three,
    vulgar half, cyrillic zhe. *)
Definition ext_alnum_tbl (c : N) : bool :=
  existsb (N.eqb c) [233; 955; 1635; 189; 1078]%N.

Definition x_tokenize := tokenize ext_alnum_tbl.
Definition x_parse_formula := parse_formula ext_alnum_tbl.
Definition x_parse_and_minimize := parse_and_minimize ext_alnum_tbl.
Definition x_model_check := model_check ext_alnum_tbl.

(** oracle on the parsed (not preprocessed) tree of a formula string *)
Definition x_spec_eval (w : world) (ext : bool) (ctx : list (str * tt)) (f : str) : res tt :=
  let* t := parse_formula ext_alnum_tbl ext f in
  sem_eval (w_n w) (w_p w) (w_upd w) (w_names w) ctx (w_unit w) t.

Definition x_layout_pn (p n : nat) : layout := Lpn n p.

Extraction "hctl_model.ml"
  x_tokenize x_parse_formula x_parse_and_minimize x_model_check x_spec_eval x_layout_pn
  parse_tokens preprocess canonize get_canonical mark_duplicates render annotate forget height
  of_bits to_bits mk_layout Build_world Build_mode num_hctl_vars collect_wild
  N.of_nat N.to_nat tree_eqb
  flatten_rs explode_rs eval_flat pname
  load_formulae extension strip_suffix s_dot_bdd s_bdd result_label.
