(** Specification: satisfaction of an (extended) HCTL formula at a valuation.

    The valuation carries the colour, the current state and the environment of state
    variables: the HCTL variable named by a string of length l+1 (x, xx, xxx, ... after
    preprocessing) is stored in spare copy l.  [Gamma l] is the user's context set for label l
    (it only reads the colour and the state of a valuation). *)
From HCTL Require Import Base Syntax TT Ops Kripke.

Section Sat.
Variable G : genv.
Variable names : list str.
Variable Gamma : str -> val -> Prop.
Let n := g_n G.
Let k := g_k G.

(** the spare copy that holds variable x *)
Definition var_of (x : str) : option nat :=
  match x with
  | [] => None
  | _ :: r => if Nat.ltb (length r) k then Some (length r) else None
  end.

Fixpoint prop_index (x : str) (l : list str) (i : nat) : option nat :=
  match l with
  | [] => None
  | y :: r => if str_eqb x y then Some i else prop_index x r (S i)
  end.

(** copy e of v holds the state of v *)
Definition copy_is_state (e : nat) (v : val) : Prop := forall i, i < n -> v (TX i e) = v (TS i).

(** v with copy e := the state of u *)
Definition set_copy (e : nat) (u v : val) : val :=
  fun g => match g with
           | TX i e' => if Nat.eqb e e' then u (TS i) else v g
           | _ => v g
           end.
(** v with state := copy e of v *)
Definition set_state (e : nat) (v : val) : val :=
  fun g => match g with TS i => v (TX i e) | _ => v g end.
(** the colour and copies of v with the state of u *)
Definition with_state (u v : val) : val :=
  fun g => match g with TS i => u (TS i) | _ => v g end.

Definition dom (d : option str) (v : val) : Prop :=
  match d with None => True | Some l => Gamma l v end.

Fixpoint sat (t : tree) (v : val) : Prop :=
  match t with
  | Terminal ATrue => True
  | Terminal AFalse => False
  | Terminal (AProp nm) => exists i, prop_index nm names 0 = Some i /\ v (TS i) = true
  | Terminal (AVar x) => exists e, var_of x = Some e /\ copy_is_state e v
  | Terminal (AWild l) => Gamma l v
  | Unary Not a => ~ sat a v
  | Unary EX a => EXs G (sat a) v
  | Unary AX a => AXs G (sat a) v
  | Unary EF a => EFs G (sat a) v
  | Unary AF a => AFs G (sat a) v
  | Unary EG a => EGs G (sat a) v
  | Unary AG a => AGs G (sat a) v
  | Binary And a b => sat a v /\ sat b v
  | Binary Or a b => sat a v \/ sat b v
  | Binary Xor a b => ~ (sat a v <-> sat b v)
  | Binary Imp a b => sat a v -> sat b v
  | Binary Iff a b => sat a v <-> sat b v
  | Binary EU a b => EUs G (sat a) (sat b) v
  | Binary AU a b => AUs G (sat a) (sat b) v
  | Binary EW a b => EWs G (sat a) (sat b) v
  | Binary AW a b => AWs G (sat a) (sat b) v
  | Hybrid Bind x d a =>
      exists e, var_of x = Some e /\ dom d v /\ sat a (set_copy e v v)
  | Hybrid Jump x _ a =>
      exists e, var_of x = Some e /\ sat a (set_state e v)
  | Hybrid Exists x d a =>
      exists e, var_of x = Some e /\ exists u, dom d (with_state u v) /\ sat a (set_copy e u v)
  | Hybrid Forall x d a =>
      exists e, var_of x = Some e /\ forall u, dom d (with_state u v) -> sat a (set_copy e u v)
  end.

End Sat.
