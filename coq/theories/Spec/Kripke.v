(** Specification: the asynchronous transition system on valuations and the meaning of the
    CTL operators on it (least fixed points as inductive predicates, greatest fixed points as
    unions of post-fixed points).  No algorithm of the code appears here.

    A valuation [v : tag -> bool] carries a colour (tags TP), a state (tags TS) and the spare
    copies (tags TX) that hold the values of HCTL state variables.  A transition flips one
    state bit whose update function (in the colour of v) disagrees with it; the colour and the
    copies never change, so a path stays inside one colour's transition system.  A state
    without enabled update carries a self-loop. *)
From HCTL Require Import Base TT Ops.

Section Kripke.
Variable G : genv.
Let L := g_L G.
Let n := g_n G.

Definition enabled (i : nat) (v : val) : bool :=
  xorb (mem L (upd_of G i) v) (v (TS i)).

Definition vsteady (v : val) : Prop := forall i, i < n -> enabled i v = false.

(** successors reached by a proper move *)
Definition moves (P : val -> Prop) (v : val) : Prop :=
  exists i, i < n /\ enabled i v = true /\ P (vflip (TS i) v).

(** EX / AX with the self-loop on steady states *)
Definition EXs (P : val -> Prop) (v : val) : Prop := moves P v \/ (vsteady v /\ P v).
Definition AXs (P : val -> Prop) (v : val) : Prop :=
  (forall i, i < n -> enabled i v = true -> P (vflip (TS i) v)) /\ (vsteady v -> P v).

(** E[P U Q]: least fixed point (a self-loop never helps to reach Q) *)
Inductive EUs (P Q : val -> Prop) : val -> Prop :=
| EUs_here v : Q v -> EUs P Q v
| EUs_step v i : P v -> i < n -> enabled i v = true -> EUs P Q (vflip (TS i) v) -> EUs P Q v.

(** A[P U Q]: least fixed point of  Q or (P and AX .) *)
Inductive AUs (P Q : val -> Prop) : val -> Prop :=
| AUs_here v : Q v -> AUs P Q v
| AUs_step v : P v ->
    (forall i, i < n -> enabled i v = true -> AUs P Q (vflip (TS i) v)) ->
    (vsteady v -> AUs P Q v) -> AUs P Q v.

Definition EFs (P : val -> Prop) : val -> Prop := EUs (fun _ => True) P.
Definition AFs (P : val -> Prop) : val -> Prop := AUs (fun _ => True) P.

(** greatest fixed points: union of the post-fixed points *)
Definition EGs (P : val -> Prop) (v : val) : Prop :=
  exists X : val -> Prop, X v /\ forall u, X u -> P u /\ EXs X u.
Definition AGs (P : val -> Prop) (v : val) : Prop :=
  exists X : val -> Prop, X v /\ forall u, X u -> P u /\ AXs X u.
(** weak until: greatest fixed point of the until unfolding *)
Definition EWs (P Q : val -> Prop) (v : val) : Prop :=
  exists X : val -> Prop, X v /\ forall u, X u -> Q u \/ (P u /\ EXs X u).
Definition AWs (P Q : val -> Prop) (v : val) : Prop :=
  exists X : val -> Prop, X v /\ forall u, X u -> Q u \/ (P u /\ AXs X u).

End Kripke.
