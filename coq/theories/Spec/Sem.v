(** Specification-level explicit-state evaluator [sem_eval]: one colour at a time, sets of
    states, naive fixed points, hybrid operators by enumeration of all states.
    It shares no algorithm with the symbolic evaluator of Model/ (it uses only the tree
    data structure [tt] of TT.v to materialise sets of states). *)
From HCTL Require Import Base Syntax TT Ops.

Section Sem.
Variable n p : nat.
Variable upd : list tt.              (* "update function of variable i is true", over Lpn *)
Variable names : list str.           (* names of the network variables, by id *)
Variable ctxs : list (str * tt).     (* context sets, over Lpn *)

Definition Lp : layout := map TP (range p).
Definition Ln : layout := map TS (range n).
Definition Lpn : layout := Lp ++ Ln.

(** a colour and a state together *)
Definition join (c s : val) : val :=
  fun g => match g with TP _ => c g | _ => s g end.

Definition upd_at (c s : val) (i : nat) : bool := mem Lpn (nth i upd (Leaf false)) (join c s).

Definition flip_state (s : val) (i : nat) : val :=
  fun g => if tag_eqb g (TS i) then negb (s g) else s g.

(** enabled updates and successors; a state without enabled update has a self-loop *)
Definition moves (c s : val) : list nat :=
  filter (fun i => xorb (upd_at c s i) (s (TS i))) (range n).
Definition succs (c s : val) : list val :=
  match moves c s with
  | [] => [s]
  | ms => map (flip_state s) ms
  end.

Definition sset := tt.                (* a set of states, over Ln *)
Definition smem (X : sset) (s : val) : bool := mem Ln X s.
Definition stab (f : val -> bool) : sset := tabulate Ln f.

Fixpoint all_vals (L : layout) : list val :=
  match L with
  | [] => [fun _ => false]
  | h :: L' =>
      let r := all_vals L' in
      map (fun v g => if tag_eqb g h then false else v g) r
      ++ map (fun v g => if tag_eqb g h then true else v g) r
  end.
Definition all_states : list val := all_vals Ln.

Definition state_eqb (s t : val) : bool := forallb (fun g => Bool.eqb (s g) (t g)) Ln.

(** iterate F until a fixed point is reached *)
Fixpoint fix_iter (fuel : nat) (F : sset -> sset) (x : sset) : res sset :=
  match fuel with
  | O => OutOfFuel
  | S f => let y := F x in if tt_eqb y x then Ok x else fix_iter f F y
  end.
Definition sfuel : nat := S (S (Nat.pow 2 n)).

Definition s_ex (c : val) (X : sset) : sset := stab (fun s => existsb (smem X) (succs c s)).
Definition s_ax (c : val) (X : sset) : sset := stab (fun s => forallb (smem X) (succs c s)).
Definition s_full : sset := const Ln true.
Definition s_empty : sset := const Ln false.
Definition s_not (X : sset) : sset := map2 (fun a _ => negb a) X X.

Definition s_eu c (P Q : sset) := fix_iter sfuel (fun X => tor Q (tand P (s_ex c X))) s_empty.
Definition s_au c (P Q : sset) := fix_iter sfuel (fun X => tor Q (tand P (s_ax c X))) s_empty.
Definition s_eg c (P : sset) := fix_iter sfuel (fun X => tand P (s_ex c X)) s_full.
Definition s_ag c (P : sset) := fix_iter sfuel (fun X => tand P (s_ax c X)) s_full.
(** weak until: greatest fixed points of the until unfolding *)
Definition s_ew c (P Q : sset) := fix_iter sfuel (fun X => tor Q (tand P (s_ex c X))) s_full.
Definition s_aw c (P Q : sset) := fix_iter sfuel (fun X => tor Q (tand P (s_ax c X))) s_full.

Definition ctx_holds (c : val) (l : str) (s : val) : res bool :=
  match alookup str_eqb l ctxs with
  | Some X => Ok (mem Lpn X (join c s))
  | None => Err EMissingContext
  end.

Definition dom_set (c : val) (d : option str) : res sset :=
  match d with
  | None => Ok s_full
  | Some l =>
      match alookup str_eqb l ctxs with
      | Some X => Ok (stab (fun s => mem Lpn X (join c s)))
      | None => Err EMissingContext
      end
  end.

(** evaluate [f] for every state of [l], collecting (state, result) *)
Fixpoint for_states {A} (l : list val) (f : val -> res A) : res (list (val * A)) :=
  match l with
  | [] => Ok []
  | u :: r => let* a := f u in let* rest := for_states r f in Ok ((u, a) :: rest)
  end.

Fixpoint index_of_name (x : str) (l : list str) (i : nat) : option nat :=
  match l with
  | [] => None
  | y :: r => if str_eqb x y then Some i else index_of_name x r (S i)
  end.

Fixpoint sem (c : val) (env : list (str * val)) (t : tree) : res sset :=
  match t with
  | Terminal ATrue => Ok s_full
  | Terminal AFalse => Ok s_empty
  | Terminal (AProp name) =>
      match index_of_name name names 0 with
      | Some i => Ok (stab (fun s => s (TS i)))
      | None => Err EUnknownProp
      end
  | Terminal (AVar x) =>
      match alookup str_eqb x env with
      | Some u => Ok (stab (fun s => state_eqb s u))
      | None => Err EFreeVar
      end
  | Terminal (AWild l) =>
      match alookup str_eqb l ctxs with
      | Some X => Ok (stab (fun s => mem Lpn X (join c s)))
      | None => Err EMissingContext
      end
  | Unary o a =>
      let* A := sem c env a in
      match o with
      | Not => Ok (s_not A)
      | EX => Ok (s_ex c A)
      | AX => Ok (s_ax c A)
      | EF => s_eu c s_full A
      | AF => s_au c s_full A
      | EG => s_eg c A
      | AG => s_ag c A
      end
  | Binary o a b =>
      let* A := sem c env a in
      let* B := sem c env b in
      match o with
      | And => Ok (tand A B)
      | Or => Ok (tor A B)
      | Xor => Ok (txor A B)
      | Imp => Ok (tor (s_not A) B)
      | Iff => Ok (tiff A B)
      | EU => s_eu c A B
      | AU => s_au c A B
      | EW => s_ew c A B
      | AW => s_aw c A B
      end
  | Hybrid Jump x _ a =>
      match alookup str_eqb x env with
      | Some u => let* A := sem c env a in Ok (const Ln (smem A u))
      | None => Err EFreeVar
      end
  | Hybrid o x d a =>
      let* D := dom_set c d in
      let* rs := for_states (filter (smem D) all_states)
                            (fun u => sem c ((x, u) :: env) a) in
      match o with
      | Bind => Ok (stab (fun s => existsb (fun ua => state_eqb (fst ua) s && smem (snd ua) s) rs))
      | Exists => Ok (stab (fun s => existsb (fun ua => smem (snd ua) s) rs))
      | _ => Ok (stab (fun s => forallb (fun ua => smem (snd ua) s) rs))
      end
  end.

(** all colours: a tree over Lpn whose sub-tree below colour c is [sem c [] t] *)
Fixpoint assemble (ps : layout) (c : val) (t : tree) : res tt :=
  match ps with
  | [] => sem c [] t
  | h :: r =>
      let* lo := assemble r (fun g => if tag_eqb g h then false else c g) t in
      let* hi := assemble r (fun g => if tag_eqb g h then true else c g) t in
      Ok (Node lo hi)
  end.

(** the specified answer for a closed formula: satisfying (state, colour) pairs of the unit *)
Definition sem_eval (unit_pn : tt) (t : tree) : res tt :=
  let* r := assemble Lp (fun _ => false) t in Ok (tand r unit_pn).

End Sem.
