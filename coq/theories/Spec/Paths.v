(** Specification: infinite paths of the asynchronous transition system of Spec/Kripke.v and
    the path definitions of the CTL operators.  No algorithm of the code appears here.

    A path is an infinite sequence of valuations in which every element is followed by one
    of its successors: the result of one enabled move, or the valuation itself when it is
    steady (the self-loop).  Valuations are functions, so "the same valuation" is pointwise
    equality [veq]. *)
From HCTL Require Import Base TT Ops Kripke.

Definition veq (v w : val) : Prop := forall g, v g = w g.

(** predicates that do not distinguish pointwise equal valuations *)
Definition respects (P : val -> Prop) : Prop := forall v w, veq v w -> P v -> P w.

Section Paths.
Variable G : genv.

Definition step (v w : val) : Prop :=
  (exists i, i < g_n G /\ enabled G i v = true /\ veq w (vflip (TS i) v)) \/
  (vsteady G v /\ veq w v).

Definition path (pi : nat -> val) : Prop := forall k, step (pi k) (pi (S k)).

(** linear-time operators on one path *)
Definition until (P Q : val -> Prop) (pi : nat -> val) : Prop :=
  exists j, Q (pi j) /\ forall i, i < j -> P (pi i).
Definition always (P : val -> Prop) (pi : nat -> val) : Prop := forall i, P (pi i).

(** weak until without a case distinction on the infinite future: P holds at every position
    up to which Q has not held.  Classically the same as [until P Q pi \/ always P pi];
    constructively it is the double negation of that disjunction (PathFacts.wuntil_nn) and
    the disjunction itself needs to know whether Q ever holds on the path. *)
Definition wuntil (P Q : val -> Prop) (pi : nat -> val) : Prop :=
  forall k, (forall i, i <= k -> ~ Q (pi i)) -> P (pi k).

(** branching-time operators through paths *)
Definition EU_p (P Q : val -> Prop) (v : val) : Prop :=
  exists pi, path pi /\ veq (pi 0) v /\ until P Q pi.
Definition AU_p (P Q : val -> Prop) (v : val) : Prop :=
  forall pi, path pi -> veq (pi 0) v -> until P Q pi.
Definition EG_p (P : val -> Prop) (v : val) : Prop :=
  exists pi, path pi /\ veq (pi 0) v /\ always P pi.
Definition AG_p (P : val -> Prop) (v : val) : Prop :=
  forall pi, path pi -> veq (pi 0) v -> always P pi.
Definition EW_p (P Q : val -> Prop) (v : val) : Prop :=
  exists pi, path pi /\ veq (pi 0) v /\ (until P Q pi \/ always P pi).
Definition AW_p (P Q : val -> Prop) (v : val) : Prop :=
  forall pi, path pi -> veq (pi 0) v -> (until P Q pi \/ always P pi).

(** the variants of AW that are provable without a principle of omniscience *)
Definition AW_w (P Q : val -> Prop) (v : val) : Prop :=
  forall pi, path pi -> veq (pi 0) v -> wuntil P Q pi.
Definition AW_nn (P Q : val -> Prop) (v : val) : Prop :=
  forall pi, path pi -> veq (pi 0) v -> ~ ~ (until P Q pi \/ always P pi).

Definition EF_p (P : val -> Prop) : val -> Prop := EU_p (fun _ => True) P.
Definition AF_p (P : val -> Prop) : val -> Prop := AU_p (fun _ => True) P.

End Paths.
