(** Every operator of Model/Ops.v, and hence the cache-free evaluator [peval], is parametric
    in the spare copy that holds a variable -- for ANY self-loop set handed to the evaluator
    that does not read the spare copies (in particular [steady_of G U] and [empty G]).

    [srel e e0 a a0]: the sets [a] and [a0] have the same members up to "copy [e] of the one
    valuation is copy [e0] of the other" ([crel], CacheFacts.v).  The fixed-point loops of the
    two sides run in lockstep (the relation is total in both directions, so related sets are
    equal or different together), so no termination argument and no semantics are needed.

    Consequence ([peval_rename]): for a formula with a single variable name,
      peval (the formula with the name x) = substitute_hctl_var (peval (... with x0)) e0 e. *)
From HCTL Require Import Base Syntax Preprocess Canon MarkDup TT Ops Eval Pipeline Kripke HCTL.
From HCTL Require Import TTFacts OpsFacts FixFacts SemFacts HybridFacts EvalPure Main Termination.
From HCTL Require Import IndepFacts PrepFacts RoundTrip CanonFacts CanonAlpha MarkDupFacts RenameFacts CacheFacts.
From HCTL Require Import ExtSem ExtFix ExtFacts ExtHybrid ExtEval.

Lemma bool_eq_iff (a b : bool) : (a = true <-> b = true) -> a = b.
Proof. destruct a, b; intros [H1 H2]; try reflexivity; [symmetry; apply H1 | apply H2]; reflexivity. Qed.

(** outcomes of the same kind, related sets *)
Definition rrel (R : tt -> tt -> Prop) (r r0 : res tt) : Prop :=
  match r, r0 with
  | Ok a, Ok a0 => R a a0
  | Err x, Err y => x = y
  | Panic p, Panic q => p = q
  | OutOfFuel, OutOfFuel => True
  | _, _ => False
  end.

Lemma rrel_bind (R : tt -> tt -> Prop) r r0 f f0 :
  rrel R r r0 -> (forall a a0, R a a0 -> rrel R (f a) (f0 a0)) ->
  rrel R (bind r f) (bind r0 f0).
Proof. destruct r, r0; cbn [rrel bind]; intros H K; try contradiction; auto. Qed.

Section CopyRel.
Variable G : genv.
Variable names : list str.
Variable U : tt.
Hypothesis WF : wf_env G names U.
Local Notation L := (g_L G).
Local Notation n := (g_n G).
Local Notation k := (g_k G).

Variables e e0 : nat.
Hypothesis He : e < k.
Hypothesis He0 : e0 < k.

Definition srel (a a0 : tt) : Prop :=
  shaped L a /\ shaped L a0 /\ forall v w, crel e e0 v w -> mem L a v = mem L a0 w.

Local Notation ND := (wf_nodup _ _ _ WF).

Lemma rho_r w : crel e e0 (copy_from e e0 w) w.
Proof.
  split; [|split]; intros; cbn [copy_from]; try reflexivity. rewrite Nat.eqb_refl. reflexivity.
Qed.

Lemma srel_eq a a0 b b0 : srel a a0 -> srel b b0 -> (a = b <-> a0 = b0).
Proof.
  intros (S1 & S2 & H) (S3 & S4 & K). split; intro E.
  - apply (tt_ext L); try assumption; [apply ND|]. intro w.
    rewrite <- (H _ _ (rho_r w)), <- (K _ _ (rho_r w)), E. reflexivity.
  - apply (tt_ext L); try assumption; [apply ND|]. intro v.
    rewrite (H _ _ (crel_copy_from e e0 v)), (K _ _ (crel_copy_from e e0 v)), E. reflexivity.
Qed.

Lemma srel_eqb a a0 b b0 : srel a a0 -> srel b b0 -> tt_eqb a b = tt_eqb a0 b0.
Proof.
  intros H K. apply bool_eq_iff. rewrite !tt_eqb_eq. apply srel_eq; assumption.
Qed.

Lemma srel_is_empty a a0 : srel a a0 -> is_empty a = is_empty a0.
Proof.
  intros (S1 & S2 & H). apply bool_eq_iff.
  rewrite (is_empty_iff L a ND S1), (is_empty_iff L a0 ND S2). split; intro E.
  - intro w. rewrite <- (H _ _ (rho_r w)). apply E.
  - intro v. rewrite (H _ _ (crel_copy_from e e0 v)). apply E.
Qed.

Lemma srel_map2 f a a0 b b0 : srel a a0 -> srel b b0 -> srel (map2 f a b) (map2 f a0 b0).
Proof.
  intros (S1 & S2 & H) (S3 & S4 & K). split; [apply shaped_map2; assumption|].
  split; [apply shaped_map2; assumption|]. intros v w Hr.
  rewrite !mem_map2 by assumption. rewrite (H v w Hr), (K v w Hr). reflexivity.
Qed.

Lemma srel_const b : srel (const L b) (const L b).
Proof. split; [apply shaped_const|]. split; [apply shaped_const|]. intros. rewrite !mem_const. reflexivity. Qed.

Lemma srel_top : srel U U.
Proof.
  split; [apply (wf_U_shaped _ _ _ WF)|]. split; [apply (wf_U_shaped _ _ _ WF)|].
  intros v w (H1 & _). apply (wf_U_colour _ _ _ WF). exact H1.
Qed.

(** a set that reads the colour and the state only is related to itself *)
Lemma srel_self S : shaped L S ->
  (forall v w, (forall j, v (TP j) = w (TP j)) -> (forall i, v (TS i) = w (TS i)) ->
     mem L S v = mem L S w) -> srel S S.
Proof.
  intros SS H. split; [exact SS|]. split; [exact SS|]. intros v w (H1 & H2 & _). apply H; assumption.
Qed.

Lemma srel_can_update i : i < n -> srel (can_update G i) (can_update G i).
Proof.
  intro Hi. destruct WF.
  split; [apply shaped_can_update; assumption|]. split; [apply shaped_can_update; assumption|].
  intros v w Hr. rewrite !mem_can_update by assumption. apply (crel_en G names U WF e e0 i v w Hi Hr).
Qed.

Lemma srel_flip i a a0 : srel a a0 -> srel (flip (TS i) L a) (flip (TS i) L a0).
Proof.
  intros (S1 & S2 & H). split; [apply shaped_flip; assumption|].
  split; [apply shaped_flip; assumption|]. intros v w Hr.
  rewrite !mem_flip by (try apply ND; assumption). apply H, crel_flip, Hr.
Qed.

Lemma srel_var_pre i a a0 : i < n -> srel a a0 -> srel (var_pre G i a) (var_pre G i a0).
Proof. intros Hi H. unfold var_pre. apply srel_map2; [apply srel_flip, H | apply srel_can_update, Hi]. Qed.

Lemma srel_fold f (g g0 : nat -> tt) l : forall acc acc0,
  (forall i, In i l -> srel (g i) (g0 i)) -> srel acc acc0 ->
  srel (fold_left (fun a i => map2 f a (g i)) l acc) (fold_left (fun a i => map2 f a (g0 i)) l acc0).
Proof.
  induction l as [|x l IH]; intros acc acc0 Hg Ha; cbn [fold_left]; [exact Ha|].
  apply IH; [intros i Hi; apply Hg; right; exact Hi|].
  apply srel_map2; [exact Ha | apply Hg; left; reflexivity].
Qed.

Lemma srel_pre a a0 : srel a a0 -> srel (pre G a) (pre G a0).
Proof.
  intro H. unfold pre.
  apply (srel_fold orb (fun i => var_pre G i a) (fun i => var_pre G i a0)); [|apply srel_const].
  intros i Hi. apply srel_var_pre; [apply in_range, Hi | exact H].
Qed.

Lemma srel_exq_copy a a0 : srel a a0 -> srel (exq (is_copy e) L a) (exq (is_copy e0) L a0).
Proof.
  intros (S1 & S2 & H). split; [apply shaped_exq, S1|]. split; [apply shaped_exq, S2|].
  intros v w Hr. apply bool_eq_iff. rewrite !mem_exq by (try apply ND; assumption).
  pose proof Hr as (H1 & H2 & H3). split.
  - intros [v' [Hv Hm]].
    exists (fun g => match g with TX i e' => if Nat.eqb e0 e' then v' (TX i e) else w g | _ => w g end).
    split.
    + intros g Hg. destruct g as [j|i|i e']; try reflexivity. cbn [is_copy] in Hg. rewrite Hg. reflexivity.
    + rewrite <- Hm. symmetry. apply H. split; [|split].
      * intro j. rewrite (Hv (TP j) eq_refl). apply H1.
      * intro i. rewrite (Hv (TS i) eq_refl). apply H2.
      * intro i. rewrite Nat.eqb_refl. reflexivity.
  - intros [w' [Hw Hm]].
    exists (fun g => match g with TX i e' => if Nat.eqb e e' then w' (TX i e0) else v g | _ => v g end).
    split.
    + intros g Hg. destruct g as [j|i|i e']; try reflexivity. cbn [is_copy] in Hg. rewrite Hg. reflexivity.
    + rewrite <- Hm. apply H. split; [|split].
      * intro j. rewrite (Hw (TP j) eq_refl). apply H1.
      * intro i. rewrite (Hw (TS i) eq_refl). apply H2.
      * intro i. rewrite Nat.eqb_refl. reflexivity.
Qed.

Lemma srel_exq_state a a0 : srel a a0 -> srel (exq is_state_tag L a) (exq is_state_tag L a0).
Proof.
  intros (S1 & S2 & H). split; [apply shaped_exq, S1|]. split; [apply shaped_exq, S2|].
  intros v w Hr. apply bool_eq_iff. rewrite !mem_exq by (try apply ND; assumption).
  pose proof Hr as (H1 & H2 & H3). split.
  - intros [v' [Hv Hm]].
    exists (fun g => match g with TS i => v' (TS i) | _ => w g end). split.
    + intros g Hg. destruct g as [j|i|i e']; try reflexivity. discriminate Hg.
    + rewrite <- Hm. symmetry. apply H. split; [|split].
      * intro j. rewrite (Hv (TP j) eq_refl). apply H1.
      * intro i. reflexivity.
      * intro i. rewrite (Hv (TX i e) eq_refl). apply H3.
  - intros [w' [Hw Hm]].
    exists (fun g => match g with TS i => w' (TS i) | _ => v g end). split.
    + intros g Hg. destruct g as [j|i|i e']; try reflexivity. discriminate Hg.
    + rewrite <- Hm. apply H. split; [|split].
      * intro j. rewrite (Hw (TP j) eq_refl). apply H1.
      * intro i. reflexivity.
      * intro i. rewrite (Hw (TX i e0) eq_refl). apply H3.
Qed.

Variable steady : tt.
Hypothesis steady_rel : srel steady steady.

(** the current units of the two sides: [Ua] ~ [Ub] *)
Section Units.
Variables Ua Ub : tt.
Hypothesis HU : srel Ua Ub.

Lemma srel_ex a a0 : srel a a0 -> srel (eval_ex G a steady) (eval_ex G a0 steady).
Proof. intro H. unfold eval_ex. apply srel_map2; [apply srel_pre, H | apply srel_map2; assumption]. Qed.

Lemma srel_neg a a0 : srel a a0 -> srel (eval_neg Ua a) (eval_neg Ub a0).
Proof. intro H. unfold eval_neg. apply srel_map2; [exact HU | exact H]. Qed.

Lemma srel_ax a a0 : srel a a0 -> srel (eval_ax G Ua a steady) (eval_ax G Ub a0 steady).
Proof. intro H. unfold eval_ax. apply srel_neg, srel_ex, srel_neg, H. Qed.

Lemma srel_equiv a a0 b b0 : srel a a0 -> srel b b0 -> srel (eval_equiv Ua a b) (eval_equiv Ub a0 b0).
Proof.
  intros H K. unfold eval_equiv. apply srel_map2; apply srel_map2; try assumption; apply srel_neg; assumption.
Qed.

(** ** the loops run in lockstep *)
Local Notation rr := (rrel srel).

Lemma while_neq_rel F F0 : (forall a a0, srel a a0 -> srel (F a) (F0 a0)) ->
  forall fuel old old0 new new0, srel old old0 -> srel new new0 ->
    rr (while_neq fuel F old new) (while_neq fuel F0 old0 new0).
Proof.
  intros HF. induction fuel as [|f IH]; intros old old0 new new0 Ho Hn; cbn [while_neq];
    rewrite <- (srel_eqb _ _ _ _ Ho Hn); destruct (tt_eqb old new); cbn [rrel]; auto.
Qed.

Lemma sat_step_rel vars : (forall i, In i vars -> i < n) ->
  forall p p0 r r0, srel p p0 -> srel r r0 ->
    match sat_step G vars p r, sat_step G vars p0 r0 with
    | Some a, Some a0 => srel a a0
    | None, None => True
    | _, _ => False
    end.
Proof.
  induction vars as [|i vars IH]; intros Hv p p0 r r0 Hp Hr; cbn [sat_step]; [exact I|].
  assert (srel (tminus (tand p (var_pre G i r)) r) (tminus (tand p0 (var_pre G i r0)) r0)) as Hu.
  { apply srel_map2; [|exact Hr]. apply srel_map2; [exact Hp|].
    apply srel_var_pre; [apply Hv; left; reflexivity | exact Hr]. }
  rewrite <- (srel_is_empty _ _ Hu).
  destruct (is_empty (tminus (tand p (var_pre G i r)) r)).
  - apply IH; try assumption. intros j Hj. apply Hv. right. exact Hj.
  - apply srel_map2; assumption.
Qed.

Lemma eu_loop_rel : forall fuel p p0 r r0, srel p p0 -> srel r r0 ->
  rr (eu_loop G fuel p r) (eu_loop G fuel p0 r0).
Proof.
  induction fuel as [|f IH]; intros p p0 r r0 Hp Hr; cbn [eu_loop]; [exact I|].
  assert (forall i, In i (rev (range n)) -> i < n) as Hv
    by (intros i Hi; apply in_range, in_rev, Hi).
  pose proof (sat_step_rel (rev (range n)) Hv p p0 r r0 Hp Hr) as K.
  destruct (sat_step G (rev (range n)) p r), (sat_step G (rev (range n)) p0 r0);
    try contradiction; [apply IH; assumption | exact Hr].
Qed.

Lemma eu_rel a a0 b b0 : srel a a0 -> srel b b0 ->
  rr (eval_eu_saturated G a b) (eval_eu_saturated G a0 b0).
Proof. intros. unfold eval_eu_saturated. apply eu_loop_rel; assumption. Qed.

Lemma ef_rel a a0 : srel a a0 -> rr (eval_ef_saturated G Ua a) (eval_ef_saturated G Ub a0).
Proof. intro H. unfold eval_ef_saturated. apply eu_rel; [exact HU | exact H]. Qed.

Lemma eg_rel a a0 : srel a a0 -> rr (eval_eg G a steady) (eval_eg G a0 steady).
Proof.
  intro H. unfold eval_eg. apply while_neq_rel; [|exact H | apply srel_const].
  intros x x0 Hx. apply srel_map2; [exact Hx | apply srel_ex, Hx].
Qed.

Lemma au_rel a a0 b b0 : srel a a0 -> srel b b0 ->
  rr (eval_au G Ua a b steady) (eval_au G Ub a0 b0 steady).
Proof.
  intros H K. unfold eval_au. apply while_neq_rel; [|exact K | apply srel_const].
  intros x x0 Hx. apply srel_map2; [exact Hx|]. apply srel_map2; [exact H | apply srel_ax, Hx].
Qed.

Lemma rr_neg r r0 : rr r r0 ->
  rr (let* x := r in Ok (eval_neg Ua x)) (let* x := r0 in Ok (eval_neg Ub x)).
Proof. intro H. apply rrel_bind; [exact H|]. intros a a0 K. cbn [rrel]. apply srel_neg, K. Qed.

Lemma af_rel a a0 : srel a a0 -> rr (eval_af G Ua a steady) (eval_af G Ub a0 steady).
Proof. intro H. unfold eval_af. apply rr_neg, eg_rel, srel_neg, H. Qed.

Lemma ag_rel a a0 : srel a a0 -> rr (eval_ag G Ua a) (eval_ag G Ub a0).
Proof. intro H. unfold eval_ag. apply rr_neg, ef_rel, srel_neg, H. Qed.

Lemma ew_rel a a0 b b0 : srel a a0 -> srel b b0 ->
  rr (eval_ew G Ua a b steady) (eval_ew G Ub a0 b0 steady).
Proof.
  intros H K. unfold eval_ew. apply rr_neg, au_rel; [apply srel_neg, K|].
  apply srel_map2; apply srel_neg; assumption.
Qed.

Lemma aw_rel a a0 b b0 : srel a a0 -> srel b b0 -> rr (eval_aw G Ua a b) (eval_aw G Ub a0 b0).
Proof.
  intros H K. unfold eval_aw. apply rr_neg, eu_rel; [apply srel_neg, K|].
  apply srel_map2; apply srel_neg; assumption.
Qed.

(** ** hybrid operators: copy [e] on the one side, copy [e0] on the other *)

Lemma srel_cmp : srel (comparator_var_state G Ua e) (comparator_var_state G Ub e0).
Proof.
  pose proof HU as (SUa & SUb & HUm).
  split; [apply shaped_comparator, SUa|]. split; [apply shaped_comparator, SUb|].
  intros v w Hr. apply bool_eq_iff. destruct WF.
  rewrite !mem_comparator by assumption.
  pose proof Hr as (H1 & H2 & H3).
  rewrite (HUm v w Hr). unfold copy_is_state.
  split; intros [Hu Hc]; (split; [exact Hu|]); intros i Hi.
  - rewrite <- H3, <- H2. apply Hc, Hi.
  - rewrite H3, H2. apply Hc, Hi.
Qed.

Lemma srel_bind a a0 : srel a a0 -> srel (eval_bind G Ua a e) (eval_bind G Ub a0 e0).
Proof.
  intro H. unfold eval_bind, project_out_hctl_var. apply srel_exq_copy, srel_map2; [apply srel_cmp | exact H].
Qed.

Lemma srel_exists a a0 : srel a a0 -> srel (eval_exists G a e) (eval_exists G a0 e0).
Proof. intro H. unfold eval_exists, project_out_hctl_var. apply srel_exq_copy, H. Qed.

Lemma srel_jump a a0 : srel a a0 -> srel (eval_jump G Ua a e) (eval_jump G Ub a0 e0).
Proof.
  intro H. unfold eval_jump, project_out_bn_vars. apply srel_exq_state, srel_map2; [apply srel_cmp | exact H].
Qed.

(** the restricted unit of a quantifier with a domain *)
Lemma srel_restricted dset : srel dset dset ->
  srel (tand Ua (compute_valid_domain_for_var G Ua dset e))
       (tand Ub (compute_valid_domain_for_var G Ub dset e0)).
Proof.
  intro HD. apply srel_map2; [exact HU|]. unfold compute_valid_domain_for_var, project_out_bn_vars.
  apply srel_exq_state, srel_map2; [exact HD | apply srel_cmp].
Qed.

Lemma srel_prop i : i < n -> srel (eval_prop G Ua i) (eval_prop G Ub i).
Proof.
  intro Hi. unfold eval_prop. apply srel_map2; [|exact HU].
  split; [apply shaped_lit|]. split; [apply shaped_lit|]. intros v w (_ & H2 & _).
  rewrite !mem_lit by (try apply ND; apply (wf_TS_in _ _ _ WF), Hi). apply H2.
Qed.

Lemma attractors_rel : rr (attractors G Ua e) (attractors G Ub e0).
Proof.
  unfold attractors. apply rrel_bind; [apply ef_rel; unfold eval_hctl_var; apply srel_cmp|].
  intros a a0 H. apply rrel_bind; [apply ag_rel, H|].
  intros b b0 K. cbn [rrel]. apply srel_bind, srel_map2; [exact K | exact HU].
Qed.

End Units.

Local Notation rr := (rrel srel).

(** the quantifier: [U] is the unit of the scope, [Ur] the (possibly restricted) unit of the body *)
Lemma ehq_rel Ua Ub Ura Urb o a a0 : srel Ua Ub -> srel Ura Urb -> srel a a0 ->
  rr (eval_hybrid_quantifier G Ua Ura o e a) (eval_hybrid_quantifier G Ub Urb o e0 a0).
Proof.
  intros HU HR H. destruct o; cbn [eval_hybrid_quantifier rrel]; try reflexivity.
  - apply (srel_bind Ua Ub HU), srel_map2; [exact H | exact HR].
  - apply srel_exists, srel_map2; [exact H | exact HR].
  - apply (srel_neg Ua Ub HU), srel_exists, (srel_neg Ura Urb HR), H.
Qed.

(** ** the evaluators *)

Variable sw : switches.
Variables x x0 : str.
Hypothesis Hx : hctl_var_id G x = Ok e.
Hypothesis Hx0 : hctl_var_id G x0 = Ok e0.

Ltac pattern_crush :=
  repeat (cbn [vmap is_attractor_pattern is_fixed_point_pattern]; try reflexivity;
          match goal with
          | |- context [vmap _ ?t] => is_var t; destruct t
          | |- context [match ?o with _ => _ end] => is_var o; destruct o
          end);
  cbn [vmap is_attractor_pattern is_fixed_point_pattern]; rewrite ?str_eqb_refl; try reflexivity.

Lemma attractor_pattern_vmap o y d a :
  is_attractor_pattern (vmap (fun _ => x) (Hybrid o y d a))
  = is_attractor_pattern (vmap (fun _ => x0) (Hybrid o y d a)).
Proof. pattern_crush. Qed.

Lemma fixed_point_pattern_vmap o y d a :
  is_fixed_point_pattern (vmap (fun _ => x) (Hybrid o y d a))
  = is_fixed_point_pattern (vmap (fun _ => x0) (Hybrid o y d a)).
Proof. pattern_crush. Qed.

Variables wild doms : list (str * tt).
Hypothesis wild_rel : forall l s, alookup str_eqb l wild = Some s -> srel s s.
Hypothesis doms_rel : forall l s, alookup str_eqb l doms = Some s -> srel s s.

Local Notation pevx := (peval_ext G names sw steady wild doms).

(** the extended evaluator, in related units *)
Theorem peval_ext_rel : forall s Ua Ub, srel Ua Ub ->
  rr (pevx (vmap (fun _ => x) s) Ua) (pevx (vmap (fun _ => x0) s) Ub).
Proof.
  induction s as [a | o a IH | o a IHa b IHb | o y d a IH]; intros Ua Ub HU.
  - destruct a as [nm | y | | | l]; cbn [vmap peval_ext is_attractor_pattern is_fixed_point_pattern];
      rewrite ?andb_false_r; cbn [rrel].
    + destruct (index_of nm names 0) as [i|] eqn:E; cbn [rrel]; [|reflexivity].
      apply srel_prop; [exact HU|]. exact (wf_names _ _ _ WF nm i E).
    + rewrite Hx, Hx0. cbn [bind rrel]. unfold eval_hctl_var. apply srel_cmp, HU.
    + exact HU.
    + apply srel_const.
    + destruct (alookup str_eqb l wild) as [s|] eqn:E; cbn [rrel]; [|reflexivity].
      eapply wild_rel; exact E.
  - cbn [vmap peval_ext is_attractor_pattern is_fixed_point_pattern].
    rewrite !andb_false_r. apply rrel_bind; [apply IH, HU|]. intros A A0 H.
    destruct o; cbn [rrel].
    + apply (srel_neg Ua Ub HU), H.
    + apply srel_ex, H.
    + apply (srel_ax Ua Ub HU), H.
    + apply (ef_rel Ua Ub HU), H.
    + apply (af_rel Ua Ub HU), H.
    + apply eg_rel, H.
    + apply (ag_rel Ua Ub HU), H.
  - cbn [vmap peval_ext is_attractor_pattern is_fixed_point_pattern].
    rewrite !andb_false_r. apply rrel_bind; [apply IHa, HU|]. intros A A0 H.
    apply rrel_bind; [apply IHb, HU|]. intros B B0 K.
    destruct o; cbn [rrel].
    + apply srel_map2; assumption.
    + apply srel_map2; assumption.
    + unfold eval_xor. apply (srel_neg Ua Ub HU), (srel_equiv Ua Ub HU); assumption.
    + unfold eval_imp. apply srel_map2; [apply (srel_neg Ua Ub HU), H | exact K].
    + apply (srel_equiv Ua Ub HU); assumption.
    + apply eu_rel; assumption.
    + apply (au_rel Ua Ub HU); assumption.
    + apply (ew_rel Ua Ub HU); assumption.
    + apply (aw_rel Ua Ub HU); assumption.
  - pose proof (attractor_pattern_vmap o y d a) as PA.
    pose proof (fixed_point_pattern_vmap o y d a) as PF.
    cbn [vmap] in *. rewrite !peval_ext_eq. rewrite PA, PF.
    destruct (use_patterns sw && is_attractor_pattern (Hybrid o x0 d (vmap (fun _ => x0) a))).
    { cbn [pattern_var]. rewrite Hx, Hx0. cbn [bind]. apply attractors_rel, HU. }
    destruct (use_patterns sw && is_fixed_point_pattern (Hybrid o x0 d (vmap (fun _ => x0) a))).
    { cbn [rrel]. exact steady_rel. }
    cbn [peval_ext_body]. destruct o.
    + destruct d as [dl|].
      * destruct (alookup str_eqb dl doms) as [dset|] eqn:ED; cbn [rrel]; [|reflexivity].
        rewrite Hx, Hx0. cbn [bind].
        pose proof (srel_restricted Ua Ub HU dset (doms_rel _ _ ED)) as HR.
        rewrite <- (srel_is_empty _ _ HR).
        destruct (is_empty (tand Ua (compute_valid_domain_for_var G Ua dset e))); cbn [rrel].
        -- apply srel_const.
        -- apply rrel_bind; [apply IH, HR|]. intros A A0 H. apply ehq_rel; assumption.
      * apply rrel_bind; [apply IH, HU|]. intros A A0 H. rewrite Hx, Hx0. cbn [bind].
        apply ehq_rel; assumption.
    + apply rrel_bind; [apply IH, HU|]. intros A A0 H. rewrite Hx, Hx0. cbn [bind rrel].
      apply (srel_jump Ua Ub HU), H.
    + destruct d as [dl|].
      * destruct (alookup str_eqb dl doms) as [dset|] eqn:ED; cbn [rrel]; [|reflexivity].
        rewrite Hx, Hx0. cbn [bind].
        pose proof (srel_restricted Ua Ub HU dset (doms_rel _ _ ED)) as HR.
        rewrite <- (srel_is_empty _ _ HR).
        destruct (is_empty (tand Ua (compute_valid_domain_for_var G Ua dset e))); cbn [rrel].
        -- apply srel_const.
        -- apply rrel_bind; [apply IH, HR|]. intros A A0 H. apply ehq_rel; assumption.
      * apply rrel_bind; [apply IH, HU|]. intros A A0 H. rewrite Hx, Hx0. cbn [bind].
        apply ehq_rel; assumption.
    + destruct d as [dl|].
      * destruct (alookup str_eqb dl doms) as [dset|] eqn:ED; cbn [rrel]; [|reflexivity].
        rewrite Hx, Hx0. cbn [bind].
        pose proof (srel_restricted Ua Ub HU dset (doms_rel _ _ ED)) as HR.
        rewrite <- (srel_is_empty _ _ HR).
        destruct (is_empty (tand Ua (compute_valid_domain_for_var G Ua dset e))); cbn [rrel].
        -- exact HU.
        -- apply rrel_bind; [apply IH, HR|]. intros A A0 H. apply ehq_rel; assumption.
      * apply rrel_bind; [apply IH, HU|]. intros A A0 H. rewrite Hx, Hx0. cbn [bind].
        apply ehq_rel; assumption.
Qed.

(** the plain evaluator is the extended one on plain formulae *)
Theorem peval_rel : forall s, plainf s ->
  rr (peval G names sw steady (vmap (fun _ => x) s) U) (peval G names sw steady (vmap (fun _ => x0) s) U).
Proof.
  intros s Pl.
  assert (forall y, plainf (vmap (fun _ => y) s)) as PV.
  { intro y. clear -Pl. induction s as [a | o a IH | o a IHa b IHb | o z d a IH]; cbn [vmap plainf] in *.
    - destruct a; exact Pl.
    - apply IH, Pl.
    - destruct Pl; split; [apply IHa | apply IHb]; assumption.
    - destruct Pl; split; [assumption | apply IH; assumption]. }
  rewrite <- !(peval_ext_plain G names sw steady wild doms) by apply PV.
  apply peval_ext_rel, srel_top.
Qed.

End CopyRel.

(** ** the renaming of a spare copy, for arbitrary shaped sets *)
Section Substitute.
Variable G : genv.
Variable names : list str.
Variable U : tt.
Hypothesis WF : wf_env G names U.
Local Notation L := (g_L G).

Lemma mem_substitute S e0 e v : shaped L S -> e0 < g_k G -> e < g_k G -> e0 <> e ->
  mem L (substitute_hctl_var G S e0 e) v = mem L S (copy_from e0 e v).
Proof.
  intros SS H0 He NE. unfold substitute_hctl_var.
  apply Nat.eqb_neq in NE. rewrite NE. unfold project_out_hctl_var.
  pose proof (shaped_cmp2 G e0 e) as SC. pose proof (wf_nodup _ _ _ WF) as ND.
  apply bool_eq_iff. rewrite mem_exq by (try apply shaped_tand; assumption). split.
  - intros [w [Hw Hm]]. rewrite mem_tand in Hm by assumption.
    apply andb_true_iff in Hm. destruct Hm as [Ha Hc].
    rewrite (mem_cmp2 G names U WF e0 e w H0 He) in Hc.
    rewrite <- Ha. symmetry. apply mem_agree.
    intros g Hg. destruct g as [j|i|i e']; cbn [copy_from]; try (apply Hw; reflexivity).
    destruct (Nat.eqb e0 e') eqn:E.
    + apply Nat.eqb_eq in E. subst e'. rewrite (Hc i (wf_TX_bound _ _ _ WF _ _ Hg)).
      apply Hw. cbn [is_copy]. exact NE.
    + apply Hw. cbn [is_copy]. exact E.
  - intro Hm. exists (copy_from e0 e v). split.
    + intros g Hg. destruct g as [j|i|i e']; cbn [copy_from]; try reflexivity.
      cbn [is_copy] in Hg. rewrite Hg. reflexivity.
    + rewrite mem_tand by assumption. apply andb_true_iff. split; [exact Hm|].
      apply (mem_cmp2 G names U WF e0 e _ H0 He). intros i Hi. cbn [copy_from].
      rewrite Nat.eqb_refl, NE. reflexivity.
Qed.

Lemma shaped_substitute S e0 e : shaped L S -> shaped L (substitute_hctl_var G S e0 e).
Proof.
  intro SS. unfold substitute_hctl_var. destruct (Nat.eqb e0 e); [exact SS|].
  apply shaped_exq, shaped_tand; [exact SS | apply shaped_cmp2].
Qed.

(** the commutation: the evaluator on the renamed formula is the renamed set *)
Theorem peval_rename sw steady x x0 e e0 s S0 :
  shaped L steady ->
  (forall v w, (forall j, v (TP j) = w (TP j)) -> (forall i, v (TS i) = w (TS i)) ->
     mem L steady v = mem L steady w) ->
  hctl_var_id G x = Ok e -> hctl_var_id G x0 = Ok e0 -> e0 <> e -> plainf s ->
  peval G names sw steady (vmap (fun _ => x0) s) U = Ok S0 ->
  peval G names sw steady (vmap (fun _ => x) s) U = Ok (substitute_hctl_var G S0 e0 e).
Proof.
  intros SS SX Hx Hx0 NE Pl P0.
  destruct (var_id_of G x e Hx) as [_ He]. destruct (var_id_of G x0 e0 Hx0) as [_ He0].
  assert (srel G e e0 steady steady) as SR.
  { split; [exact SS|]. split; [exact SS|]. intros v w (H1 & H2 & _). apply SX; assumption. }
  assert (forall l s1, alookup str_eqb l (@nil (str * tt)) = Some s1 -> srel G e e0 s1 s1) as NIL
    by (intros l s1 H; discriminate H).
  pose proof (peval_rel G names U WF e e0 He He0 steady SR sw x x0 Hx Hx0 [] [] NIL NIL s Pl) as R.
  rewrite P0 in R. destruct (peval G names sw steady (vmap (fun _ => x) s) U) as [S| | |];
    cbn [rrel] in R; try contradiction.
  destruct R as (S1 & S2 & H). f_equal.
  apply (tt_ext L); try assumption; [apply (wf_nodup _ _ _ WF) | apply shaped_substitute, S2|].
  intro v. rewrite (mem_substitute S0 e0 e v S2 He0 He NE). apply H, crel_copy_from.
Qed.

(** the same for the extended evaluator (wild-cards, domains), at the top-level unit *)
Theorem peval_ext_rename sw steady wild doms x x0 e e0 s S0 :
  shaped L steady ->
  (forall v w, (forall j, v (TP j) = w (TP j)) -> (forall i, v (TS i) = w (TS i)) ->
     mem L steady v = mem L steady w) ->
  (forall l s1, alookup str_eqb l wild = Some s1 -> shaped L s1 /\
     forall v w, (forall j, v (TP j) = w (TP j)) -> (forall i, v (TS i) = w (TS i)) ->
       mem L s1 v = mem L s1 w) ->
  (forall l s1, alookup str_eqb l doms = Some s1 -> shaped L s1 /\
     forall v w, (forall j, v (TP j) = w (TP j)) -> (forall i, v (TS i) = w (TS i)) ->
       mem L s1 v = mem L s1 w) ->
  hctl_var_id G x = Ok e -> hctl_var_id G x0 = Ok e0 -> e0 <> e ->
  peval_ext G names sw steady wild doms (vmap (fun _ => x0) s) U = Ok S0 ->
  peval_ext G names sw steady wild doms (vmap (fun _ => x) s) U = Ok (substitute_hctl_var G S0 e0 e).
Proof.
  intros SS SX WX DX Hx Hx0 NE P0.
  destruct (var_id_of G x e Hx) as [_ He]. destruct (var_id_of G x0 e0 Hx0) as [_ He0].
  assert (srel G e e0 steady steady) as SR by (apply srel_self; assumption).
  assert (forall l s1, alookup str_eqb l wild = Some s1 -> srel G e e0 s1 s1) as WR
    by (intros l s1 H; destruct (WX l s1 H); apply srel_self; assumption).
  assert (forall l s1, alookup str_eqb l doms = Some s1 -> srel G e e0 s1 s1) as DR
    by (intros l s1 H; destruct (DX l s1 H); apply srel_self; assumption).
  pose proof (peval_ext_rel G names U WF e e0 He He0 steady SR sw x x0 Hx Hx0 wild doms WR DR s U U
                (srel_top G names U WF e e0)) as R.
  rewrite P0 in R. destruct (peval_ext G names sw steady wild doms (vmap (fun _ => x) s) U) as [S| | |];
    cbn [rrel] in R; try contradiction.
  destruct R as (S1 & S2 & H). f_equal.
  apply (tt_ext L); try assumption; [apply (wf_nodup _ _ _ WF) | apply shaped_substitute, S2|].
  intro v. rewrite (mem_substitute S0 e0 e v S2 He0 He NE). apply H, crel_copy_from.
Qed.

End Substitute.
