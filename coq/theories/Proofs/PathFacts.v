(** The fixed-point operators of Spec/Kripke.v coincide with their path definitions of
    Spec/Paths.v (C13b).

    Where a path has to be *constructed* (EG, EW from left to right, AU from right to left)
    the successor must be chosen by a function.  The hypotheses only give decidability in
    Prop ([X u \/ ~ X u]), from which no function [val -> bool] can be extracted directly;
    but the valuations reachable from a fixed valuation differ from it only in the n state
    bits, and a Boolean table of a decidable predicate over those 2^n valuations can be
    built inside a proof of an existential statement ([table]).  The path is then defined by
    recursion on nat with a successor function that uses [find] over [range n]. *)
From HCTL Require Import Base TT Ops Kripke Paths TTFacts OpsFacts SemFacts Laws.

(** ---- pointwise equality ---- *)
Lemma veq_refl v : veq v v.
Proof. intro g; reflexivity. Qed.
Lemma veq_sym v w : veq v w -> veq w v.
Proof. intros H g; symmetry; apply H. Qed.
Lemma veq_trans u v w : veq u v -> veq v w -> veq u w.
Proof. intros H1 H2 g; rewrite H1; apply H2. Qed.

Lemma vflip_veq g v w : veq v w -> veq (vflip g v) (vflip g w).
Proof. intros H h. unfold vflip. rewrite (H h). reflexivity. Qed.

Lemma mem_veq L t v w : veq v w -> mem L t v = mem L t w.
Proof. intro H. apply mem_agree. intros g _. apply H. Qed.

Lemma respects_mem L A : respects (fun v => mem L A v = true).
Proof. intros v w H Hv. rewrite <- (mem_veq L A v w H). exact Hv. Qed.

(** the closure of a predicate under pointwise equality *)
Definition vcl (X : val -> Prop) (u : val) : Prop := exists u', veq u' u /\ X u'.

Lemma vcl_in (X : val -> Prop) u : X u -> vcl X u.
Proof. intro H. exists u. split; [apply veq_refl | exact H]. Qed.

Lemma vcl_respects X : respects (vcl X).
Proof. intros v w H [u [Hu Xu]]. exists u. split; [eapply veq_trans; eassumption | exact Xu]. Qed.

Section PathFacts.
Variable G : genv.
Local Notation n := (g_n G).

Lemma enabled_veq i v w : veq v w -> enabled G i v = enabled G i w.
Proof. intro H. unfold enabled. rewrite (mem_veq _ _ v w H), (H (TS i)). reflexivity. Qed.

Lemma vsteady_veq v w : veq v w -> vsteady G v -> vsteady G w.
Proof. intros H Hs i Hi. rewrite <- (enabled_veq i v w H). apply Hs, Hi. Qed.

Lemma step_veq u u' w w' : veq u u' -> veq w w' -> step G u w -> step G u' w'.
Proof.
  intros Hu Hw [[i [Hi [He Hm]]]|[Hs Hm]].
  - left. exists i. split; [exact Hi|]. split; [rewrite <- (enabled_veq i u u' Hu); exact He|].
    eapply veq_trans; [apply veq_sym; exact Hw|]. eapply veq_trans; [exact Hm|]. apply vflip_veq, Hu.
  - right. split; [eapply vsteady_veq; eassumption|].
    eapply veq_trans; [apply veq_sym; exact Hw|]. eapply veq_trans; eassumption.
Qed.

Lemma step_move i v : i < n -> enabled G i v = true -> step G v (vflip (TS i) v).
Proof. intros Hi He. left. exists i. split; [exact Hi|]. split; [exact He | apply veq_refl]. Qed.

Lemma step_loop v : vsteady G v -> step G v v.
Proof. intro Hs. right. split; [exact Hs | apply veq_refl]. Qed.

(** EXs / AXs through [step] *)
Lemma EXs_step (X : val -> Prop) u : EXs G X u -> exists w, step G u w /\ X w.
Proof.
  intros [[i [Hi [He Xi]]]|[Hs Xu]].
  - exists (vflip (TS i) u). split; [apply step_move; assumption | exact Xi].
  - exists u. split; [apply step_loop; exact Hs | exact Xu].
Qed.

Lemma step_EXs (X : val -> Prop) u w : respects X -> step G u w -> X w -> EXs G X u.
Proof.
  intros RX [[i [Hi [He Hm]]]|[Hs Hm]] Xw.
  - left. exists i. split; [exact Hi|]. split; [exact He|]. eapply RX; eassumption.
  - right. split; [exact Hs|]. eapply RX; eassumption.
Qed.

Lemma AXs_step (X : val -> Prop) u w : respects X -> AXs G X u -> step G u w -> X w.
Proof.
  intros RX [A1 A2] [[i [Hi [He Hm]]]|[Hs Hm]].
  - eapply RX; [apply veq_sym; exact Hm|]. apply A1; assumption.
  - eapply RX; [apply veq_sym; exact Hm|]. apply A2; assumption.
Qed.

Lemma step_AXs (X : val -> Prop) u : (forall w, step G u w -> X w) -> AXs G X u.
Proof.
  intro H. split.
  - intros i Hi He. apply H. apply step_move; assumption.
  - intro Hs. apply H. apply step_loop; exact Hs.
Qed.

(** closing a set under pointwise equality keeps it a post-fixed point *)
Lemma EXs_vcl (X : val -> Prop) u u' : veq u' u -> EXs G X u' -> EXs G (vcl X) u.
Proof.
  intros Hu H. destruct (EXs_step X u' H) as [w [Hs Xw]].
  eapply step_EXs; [apply vcl_respects | | apply vcl_in; exact Xw].
  eapply step_veq; [exact Hu | apply veq_refl | exact Hs].
Qed.

Lemma AXs_vcl (X : val -> Prop) u u' : veq u' u -> AXs G X u' -> AXs G (vcl X) u.
Proof.
  intros Hu [A1 A2]. split.
  - intros i Hi He. exists (vflip (TS i) u'). split; [apply vflip_veq; exact Hu|].
    apply A1; [exact Hi|]. rewrite (enabled_veq i u' u Hu). exact He.
  - intro Hs. exists u'. split; [exact Hu|]. apply A2. eapply vsteady_veq; [apply veq_sym; exact Hu | exact Hs].
Qed.

(** ---- the operators of the specification respect pointwise equality ---- *)
Section Respect.
Variables P Q : val -> Prop.
Hypothesis RP : respects P.
Hypothesis RQ : respects Q.

Lemma EUs_respects : respects (EUs G P Q).
Proof.
  intros v w Hvw H. revert w Hvw. induction H as [v Hq | v i Hp Hi He _ IH]; intros w Hvw.
  - apply EUs_here. eapply RQ; eassumption.
  - apply EUs_step with (i := i); [eapply RP; eassumption | exact Hi | |].
    + rewrite <- (enabled_veq i v w Hvw). exact He.
    + apply IH. apply vflip_veq, Hvw.
Qed.

Lemma AUs_respects : respects (AUs G P Q).
Proof.
  intros v w Hvw H. revert w Hvw. induction H as [v Hq | v Hp Hm IHm Hs IHs]; intros w Hvw.
  - apply AUs_here. eapply RQ; eassumption.
  - apply AUs_step; [eapply RP; eassumption | |].
    + intros i Hi He. apply (IHm i Hi); [rewrite (enabled_veq i v w Hvw); exact He | apply vflip_veq, Hvw].
    + intro Hw. apply IHs; [eapply vsteady_veq; [apply veq_sym; exact Hvw | exact Hw] | exact Hvw].
Qed.

Lemma EGs_respects : respects (EGs G P).
Proof.
  intros v w Hvw [X [Xv HX]]. exists (vcl X). split; [exists v; split; assumption|].
  intros u [u' [Hu Xu]]. destruct (HX u' Xu) as [Pu Eu].
  split; [eapply RP; eassumption | eapply EXs_vcl; eassumption].
Qed.

Lemma AGs_respects : respects (AGs G P).
Proof.
  intros v w Hvw [X [Xv HX]]. exists (vcl X). split; [exists v; split; assumption|].
  intros u [u' [Hu Xu]]. destruct (HX u' Xu) as [Pu Eu].
  split; [eapply RP; eassumption | eapply AXs_vcl; eassumption].
Qed.

Lemma EWs_respects : respects (EWs G P Q).
Proof.
  intros v w Hvw [X [Xv HX]]. exists (vcl X). split; [exists v; split; assumption|].
  intros u [u' [Hu Xu]]. destruct (HX u' Xu) as [Qu|[Pu Eu]].
  - left. eapply RQ; eassumption.
  - right. split; [eapply RP; eassumption | eapply EXs_vcl; eassumption].
Qed.

Lemma AWs_respects : respects (AWs G P Q).
Proof.
  intros v w Hvw [X [Xv HX]]. exists (vcl X). split; [exists v; split; assumption|].
  intros u [u' [Hu Xu]]. destruct (HX u' Xu) as [Qu|[Pu Eu]].
  - left. eapply RQ; eassumption.
  - right. split; [eapply RP; eassumption | eapply AXs_vcl; eassumption].
Qed.
End Respect.

(** ---- a successor function: every valuation has a successor ---- *)
(** [nextf f v]: the first enabled move whose target satisfies [f]; otherwise the first
    enabled move; otherwise (steady) [v] itself *)
Definition next (v : val) : val :=
  match find (fun i => enabled G i v) (range n) with
  | Some i => vflip (TS i) v
  | None => v
  end.

Definition nextf (f : val -> bool) (v : val) : val :=
  match find (fun i => enabled G i v && f (vflip (TS i) v)) (range n) with
  | Some i => vflip (TS i) v
  | None => next v
  end.

Lemma step_next v : step G v (next v).
Proof.
  unfold next. destruct (find (fun i => enabled G i v) (range n)) as [i|] eqn:E.
  - apply find_some in E. destruct E as [Hin He]. apply in_range in Hin. apply step_move; assumption.
  - apply step_loop. intros i Hi.
    pose proof (find_none _ _ E i (proj2 (in_range i n) Hi)) as H. exact H.
Qed.

Theorem step_total v : exists w, step G v w.
Proof. exists (next v). apply step_next. Qed.

Lemma next_steady v : vsteady G v -> next v = v.
Proof.
  intro Hs. unfold next. destruct (find (fun i => enabled G i v) (range n)) as [i|] eqn:E; [|reflexivity].
  apply find_some in E. destruct E as [Hin He]. apply in_range in Hin. rewrite (Hs i Hin) in He. discriminate.
Qed.

Lemma step_nextf f v : step G v (nextf f v).
Proof.
  unfold nextf. destruct (find (fun i => enabled G i v && f (vflip (TS i) v)) (range n)) as [i|] eqn:E.
  - apply find_some in E. destruct E as [Hin He]. apply in_range in Hin.
    apply andb_true_iff in He. destruct He as [He _]. apply step_move; assumption.
  - apply step_next.
Qed.

Lemma nextf_steady f v : vsteady G v -> nextf f v = v.
Proof.
  intro Hs. unfold nextf.
  destruct (find (fun i => enabled G i v && f (vflip (TS i) v)) (range n)) as [i|] eqn:E; [|apply next_steady, Hs].
  apply find_some in E. destruct E as [Hin He]. apply in_range in Hin. rewrite (Hs i Hin) in He. discriminate.
Qed.

Lemma nextf_found f v i : i < n -> enabled G i v = true -> f (vflip (TS i) v) = true ->
  f (nextf f v) = true.
Proof.
  intros Hi He Hf. unfold nextf.
  destruct (find (fun i => enabled G i v && f (vflip (TS i) v)) (range n)) as [j|] eqn:E.
  - apply find_some in E. destruct E as [_ Hj]. apply andb_true_iff in Hj. tauto.
  - pose proof (find_none _ _ E i (proj2 (in_range i n) Hi)) as H. cbv beta in H.
    rewrite He, Hf in H. discriminate.
Qed.

(** the path that follows [nextf f] *)
Fixpoint run (f : val -> bool) (v : val) (k : nat) : val :=
  match k with O => v | S k' => nextf f (run f v k') end.

Lemma path_run f v : path G (run f v).
Proof. intro k. cbn [run]. apply step_nextf. Qed.

Theorem path_total v : exists pi, path G pi /\ pi 0 = v.
Proof. exists (run (fun _ => true) v). split; [apply path_run | reflexivity]. Qed.

(** ---- suffixes and extensions of paths ---- *)
Definition shift (pi : nat -> val) : nat -> val := fun k => pi (S k).
Definition pcons (v : val) (pi : nat -> val) : nat -> val :=
  fun k => match k with O => v | S k' => pi k' end.

Lemma path_shift pi : path G pi -> path G (shift pi).
Proof. intros H k. apply (H (S k)). Qed.

Lemma path_pcons v pi : step G v (pi 0) -> path G pi -> path G (pcons v pi).
Proof. intros Hs H k. destruct k as [|k]; [exact Hs | apply (H k)]. Qed.

(** ---- the valuations reachable from v differ from v in the state bits only ---- *)
Definition same_out (m : nat) (v w : val) : Prop :=
  forall g, (forall i, i < m -> g <> TS i) -> w g = v g.

Lemma same_out_veq m v w : veq w v -> same_out m v w.
Proof. intros H g _. apply H. Qed.

Lemma same_out_step v u w : same_out n v u -> step G u w -> same_out n v w.
Proof.
  intros Hu [[i [Hi [He Hm]]]|[Hs Hm]] g Hg.
  - rewrite (Hm g). unfold vflip.
    assert (E : tag_eqb g (TS i) = false) by (apply tag_eqb_neq; apply Hg; exact Hi).
    rewrite E. apply Hu; exact Hg.
  - rewrite (Hm g). apply Hu; exact Hg.
Qed.

Lemma same_out_path v pi : path G pi -> veq (pi 0) v -> forall k, same_out n v (pi k).
Proof.
  intros Hp H0 k. induction k as [|k IH]; [apply same_out_veq; exact H0|].
  eapply same_out_step; [exact IH | apply Hp].
Qed.

(** fixing one more state bit *)
Lemma same_out_split m v w : same_out (S m) v w -> same_out m (upd v (TS m) (w (TS m))) w.
Proof.
  intros Hw g Hg. unfold upd. destruct (tag_eqb g (TS m)) eqn:E.
  - apply tag_eqb_eq in E. subst g. reflexivity.
  - apply tag_eqb_neq in E. apply Hw. intros i Hi.
    destruct (Nat.eq_dec i m) as [->|Hne]; [exact E | apply Hg; lia].
Qed.

Lemma same_out_weaken m v b w : same_out m (upd v (TS m) b) w -> same_out (S m) v w.
Proof.
  intros H g Hg. rewrite (H g); [|intros i Hi; apply Hg; lia].
  unfold upd. assert (E : tag_eqb g (TS m) = false) by (apply tag_eqb_neq, Hg; lia).
  rewrite E. reflexivity.
Qed.

Lemma same_out_0 v w : same_out 0 v w -> veq v w.
Proof. intros Hw g. symmetry. apply Hw. intros i Hi. lia. Qed.

(** Boolean predicates that respect pointwise equality *)
Definition bresp (f : val -> bool) : Prop := respects (fun v => f v = true).

(** a Boolean table of a decidable predicate over the valuations that differ from v in the
    first m state bits: no choice principle is needed because there are finitely many *)
Lemma table (D : val -> Prop) : respects D -> (forall u, D u \/ ~ D u) ->
  forall m v, exists f : val -> bool,
    bresp f /\ forall w, same_out m v w -> (f w = true <-> D w).
Proof.
  intros RD Dec m. induction m as [|m IH]; intro v.
  - destruct (Dec v) as [Hd|Hd].
    + exists (fun _ => true). split; [intros u w _ _; reflexivity|]. intros w Hw.
      split; [intros _; eapply RD; [apply same_out_0; exact Hw | exact Hd] | reflexivity].
    + exists (fun _ => false). split; [intros u w _ H; exact H|]. intros w Hw.
      split; [discriminate|]. intro Hdw. exfalso. apply Hd.
      eapply RD; [apply veq_sym, same_out_0; exact Hw | exact Hdw].
  - destruct (IH (upd v (TS m) true)) as [f1 [R1 H1]]. destruct (IH (upd v (TS m) false)) as [f0 [R0 H0]].
    exists (fun w : val => if w (TS m) then f1 w else f0 w). split.
    + intros u w Huw. cbv beta. rewrite <- (Huw (TS m)).
      destruct (u (TS m)); [apply R1 | apply R0]; exact Huw.
    + intros w Hw. pose proof (same_out_split m v w Hw) as So.
      destruct (w (TS m)) eqn:Eb; [apply H1 | apply H0]; exact So.
Qed.

(** ---- bounded search along a path ---- *)
Lemma first_hit (Q : val -> Prop) (pi : nat -> val) : (forall u, Q u \/ ~ Q u) ->
  forall k, (exists j, j <= k /\ Q (pi j) /\ forall i, i < j -> ~ Q (pi i)) \/
            (forall i, i <= k -> ~ Q (pi i)).
Proof.
  intros Dec k. induction k as [|k IH].
  - destruct (Dec (pi 0)) as [Hq|Hq].
    + left. exists 0. split; [lia|]. split; [exact Hq|]. intros i Hi. lia.
    + right. intros i Hi. assert (i = 0) as -> by lia. exact Hq.
  - destruct IH as [[j [Hj [Hq Hb]]]|Hn].
    + left. exists j. split; [lia|]. split; assumption.
    + destruct (Dec (pi (S k))) as [Hq|Hq].
      * left. exists (S k). split; [lia|]. split; [exact Hq|]. intros i Hi. apply Hn. lia.
      * right. intros i Hi. destruct (Nat.eq_dec i (S k)) as [->|Hne]; [exact Hq | apply Hn; lia].
Qed.

(** ---- linear-time facts ---- *)
Lemma until_wuntil (P Q : val -> Prop) (pi : nat -> val) : until P Q pi \/ always P pi -> wuntil P Q pi.
Proof.
  intros [[j [Hq Hp]]|Ha] k Hk; [|apply Ha].
  destruct (Nat.lt_ge_cases k j) as [Hlt|Hge]; [apply Hp; exact Hlt|].
  exfalso. apply (Hk j Hge). exact Hq.
Qed.

(** [wuntil] is the double negation of "until or always" *)
Lemma wuntil_nn (P Q : val -> Prop) (pi : nat -> val) : (forall u, Q u \/ ~ Q u) ->
  wuntil P Q pi -> ~ ~ (until P Q pi \/ always P pi).
Proof.
  intros QD Hw Hn. apply Hn. right. intro k.
  destruct (first_hit Q pi QD k) as [[j [Hj [Hq Hb]]]|Hnq]; [|apply Hw; exact Hnq].
  exfalso. apply Hn. left. exists j. split; [exact Hq|].
  intros i Hi. apply Hw. intros i' Hi'. apply Hb. lia.
Qed.

Lemma nn_wuntil (P Q : val -> Prop) (pi : nat -> val) : (forall u, P u \/ ~ P u) ->
  ~ ~ (until P Q pi \/ always P pi) -> wuntil P Q pi.
Proof.
  intros PD Hnn k Hk. destruct (PD (pi k)) as [Hp|Hp]; [exact Hp|].
  exfalso. apply Hnn. intro H. apply Hp. exact (until_wuntil P Q pi H k Hk).
Qed.

(** with the (omniscient) knowledge whether Q ever holds on the path, the disjunction *)
Lemma wuntil_until (P Q : val -> Prop) (pi : nat -> val) : (forall u, Q u \/ ~ Q u) ->
  ((exists j, Q (pi j)) \/ (forall j, ~ Q (pi j))) ->
  wuntil P Q pi -> until P Q pi \/ always P pi.
Proof.
  intros QD [[j Hq]|Hn] Hw.
  - left. destruct (first_hit Q pi QD j) as [[j' [Hj [Hq' Hb]]]|Hnq].
    + exists j'. split; [exact Hq'|]. intros i Hi. apply Hw. intros i' Hi'. apply Hb. lia.
    + exfalso. apply (Hnq j (Nat.le_refl j)). exact Hq.
  - right. intro k. apply Hw. intros i _. apply Hn.
Qed.

Lemma until_shift (P Q : val -> Prop) (pi : nat -> val) : ~ Q (pi 0) -> until P Q pi -> until P Q (shift pi).
Proof.
  intros Hn [j [Hq Hp]]. destruct j as [|j]; [contradiction|].
  exists j. split; [exact Hq|]. intros i Hi. apply (Hp (S i)). lia.
Qed.

Lemma until_pcons (P Q : val -> Prop) (v : val) (pi : nat -> val) : P v -> until P Q pi -> until P Q (pcons v pi).
Proof.
  intros Hv [j [Hq Hp]]. exists (S j). split; [exact Hq|].
  intros i Hi. destruct i as [|i]; [exact Hv | apply Hp; lia].
Qed.

(** ================= E[P U Q] ================= *)
Section Operators.
Variables P Q : val -> Prop.

Theorem EUs_EU_p v : EUs G P Q v -> EU_p G P Q v.
Proof.
  intro H. induction H as [v Hq | v i Hp Hi He _ [pi [Hpath [H0 Hu]]]].
  - destruct (path_total v) as [pi [Hpath H0]]. exists pi. split; [exact Hpath|].
    split; [rewrite H0; apply veq_refl|]. exists 0. split; [rewrite H0; exact Hq|]. intros i Hi. lia.
  - exists (pcons v pi). split; [|split; [apply veq_refl | apply until_pcons; assumption]].
    apply path_pcons; [|exact Hpath]. left. exists i. split; [exact Hi|]. split; [exact He | exact H0].
Qed.

Theorem EU_p_EUs v : respects P -> respects Q -> EU_p G P Q v -> EUs G P Q v.
Proof.
  intros RP RQ [pi [Hpath [H0 [j [Hq Hp]]]]]. revert pi v Hpath H0 Hq Hp.
  induction j as [|j IH]; intros pi v Hpath H0 Hq Hp.
  - apply EUs_here. eapply RQ; eassumption.
  - assert (Pv : P v) by (eapply RP; [exact H0 | apply Hp; lia]).
    assert (St : step G v (pi 1)) by (eapply step_veq; [exact H0 | apply veq_refl | apply (Hpath 0)]).
    assert (T : forall w, veq (pi 1) w -> EUs G P Q w).
    { intros w Hw. apply (IH (shift pi) w); [apply path_shift; exact Hpath | exact Hw | exact Hq |].
      intros i Hi. apply (Hp (S i)). lia. }
    destruct St as [[i [Hi [He Hm]]]|[Hs Hm]].
    + apply EUs_step with (i := i); [exact Pv | exact Hi | exact He | apply T; exact Hm].
    + apply T. exact Hm.
Qed.

(** ================= A[P U Q] ================= *)
Theorem AUs_AU_p v : respects P -> respects Q -> AUs G P Q v -> AU_p G P Q v.
Proof.
  intros RP RQ H. induction H as [v Hq | v Hp Hm IHm Hs IHs]; intros pi Hpath H0.
  - exists 0. split; [eapply RQ; [apply veq_sym; exact H0 | exact Hq]|]. intros i Hi. lia.
  - assert (St : step G v (pi 1)) by (eapply step_veq; [exact H0 | apply veq_refl | apply (Hpath 0)]).
    assert (T : until P Q (shift pi) -> until P Q pi).
    { intro Hu. assert (E : until P Q (pcons (pi 0) (shift pi))).
      { apply until_pcons; [eapply RP; [apply veq_sym; exact H0 | exact Hp] | exact Hu]. }
      destruct E as [j [Hq Hb]]. exists j. split.
      - destruct j as [|j]; exact Hq.
      - intros i Hi. specialize (Hb i Hi). destruct i as [|i]; exact Hb. }
    apply T. destruct St as [[i [Hi [He Hmv]]]|[Hst Hmv]].
    + apply (IHm i Hi He); [apply path_shift; exact Hpath | exact Hmv].
    + apply (IHs Hst); [apply path_shift; exact Hpath | exact Hmv].
Qed.

(** the converse constructs a path that violates the until from a valuation outside AUs:
    this needs to know, at every valuation, whether it belongs to AUs *)
Theorem AU_p_AUs v : respects P -> respects Q -> (forall u, AUs G P Q u \/ ~ AUs G P Q u) ->
  AU_p G P Q v -> AUs G P Q v.
Proof.
  intros RP RQ Dec H. destruct (Dec v) as [Hv|Hv]; [exact Hv | exfalso].
  pose (Y := fun u => ~ AUs G P Q u).
  assert (RY : respects Y).
  { intros u w Huw Hu Hw. apply Hu. eapply (AUs_respects P Q RP RQ); [apply veq_sym; exact Huw | exact Hw]. }
  assert (DY : forall u, Y u \/ ~ Y u).
  { intro u. destruct (Dec u) as [Hu|Hu]; [right; intro Hy; apply Hy; exact Hu | left; exact Hu]. }
  destruct (table Y RY DY n v) as [f [_ Hf]].
  pose (pi := run f v).
  assert (Hpath : path G pi) by apply path_run.
  assert (Hso : forall k, same_out n v (pi k)) by (apply same_out_path; [exact Hpath | apply veq_refl]).
  assert (Inv : forall k, (forall i, i < k -> P (pi i)) -> Y (pi k)).
  { induction k as [|k IH]; intro Hb; [exact Hv|].
    assert (Yk : Y (pi k)) by (apply IH; intros i Hi; apply Hb; lia).
    assert (Pk : P (pi k)) by (apply Hb; lia).
    set (u := pi k) in *. change (pi (S k)) with (nextf f u).
    destruct (finite_search (fun i => enabled G i u = true -> AUs G P Q (vflip (TS i) u)) n) as [All|[i [Hi Hni]]].
    - intros i Hi. destruct (enabled G i u) eqn:He.
      + destruct (Dec (vflip (TS i) u)) as [X|X]; [left; intros _; exact X | right; intro Z; apply X, Z; reflexivity].
      + left. discriminate.
    - destruct (vsteady_dec G u) as [Hs|Hs].
      + rewrite (nextf_steady f u Hs). exact Yk.
      + exfalso. apply Yk. apply AUs_step; [exact Pk | exact All | intro; contradiction].
    - destruct (enabled G i u) eqn:He; [|exfalso; apply Hni; discriminate].
      assert (Yi : Y (vflip (TS i) u)) by (intro Z; apply Hni; intros _; exact Z).
      assert (Si : same_out n v (vflip (TS i) u)).
      { eapply same_out_step; [apply (Hso k) | apply step_move; assumption]. }
      apply (Hf _ (Hso (S k))). change (pi (S k)) with (nextf f u).
      apply nextf_found with (i := i); [exact Hi | exact He | apply (Hf _ Si); exact Yi]. }
  destruct (H pi Hpath (veq_refl v)) as [j [Hq Hb]].
  apply (Inv j Hb). apply AUs_here. exact Hq.
Qed.

End Operators.

(** ================= EG P ================= *)
Section OperatorsG.
Variable P : val -> Prop.

(** a path inside a decidable post-fixed point of  X -> EX X *)
Lemma postfixed_path (X : val -> Prop) v : respects X -> (forall u, X u \/ ~ X u) ->
  (forall u, X u -> EXs G X u) -> X v ->
  exists pi, path G pi /\ pi 0 = v /\ forall k, X (pi k).
Proof.
  intros RX DX HX Xv. destruct (table X RX DX n v) as [f [_ Hf]].
  exists (run f v). split; [apply path_run|]. split; [reflexivity|].
  assert (Hso : forall k, same_out n v (run f v k)).
  { apply same_out_path; [apply path_run | apply veq_refl]. }
  intro k. induction k as [|k IH]; [exact Xv|].
  cbn [run]. set (u := run f v k) in *.
  destruct (HX u IH) as [[i [Hi [He Xi]]]|[Hs _]].
  - assert (Si : same_out n v (vflip (TS i) u)).
    { eapply same_out_step; [apply (Hso k) | apply step_move; assumption]. }
    apply (Hf _ (Hso (S k))). apply nextf_found with (i := i); [exact Hi | exact He | apply (Hf _ Si); exact Xi].
  - rewrite (nextf_steady f u Hs). exact IH.
Qed.

Theorem EGs_EG_p v : respects P -> (forall u, EGs G P u \/ ~ EGs G P u) ->
  EGs G P v -> EG_p G P v.
Proof.
  intros RP Dec Hv.
  destruct (postfixed_path (EGs G P) v (EGs_respects P RP) Dec) as [pi [Hpath [H0 Hk]]].
  - intros u Hu. apply (EGs_unfold G P u) in Hu. tauto.
  - exact Hv.
  - exists pi. split; [exact Hpath|]. split; [rewrite H0; apply veq_refl|].
    intro k. specialize (Hk k). apply (EGs_unfold G P) in Hk. tauto.
Qed.

Theorem EG_p_EGs v : respects P -> EG_p G P v -> EGs G P v.
Proof.
  intros RP Hv. exists (EG_p G P). split; [exact Hv|].
  intros u [pi [Hpath [H0 Ha]]]. split; [eapply RP; [exact H0 | apply Ha]|].
  assert (St : step G u (pi 1)) by (eapply step_veq; [exact H0 | apply veq_refl | apply (Hpath 0)]).
  assert (T : forall w, veq (pi 1) w -> EG_p G P w).
  { intros w Hw. exists (shift pi). split; [apply path_shift; exact Hpath|]. split; [exact Hw|].
    intro k. apply (Ha (S k)). }
  destruct St as [[i [Hi [He Hm]]]|[Hs Hm]].
  - left. exists i. split; [exact Hi|]. split; [exact He | apply T; exact Hm].
  - right. split; [exact Hs | apply T; exact Hm].
Qed.

(** ================= AG P ================= *)
Theorem AGs_AG_p v : respects P -> AGs G P v -> AG_p G P v.
Proof.
  intros RP [X [Xv HX]] pi Hpath H0.
  assert (Inv : forall k, vcl X (pi k)).
  { induction k as [|k IH]; [exists v; split; [apply veq_sym; exact H0 | exact Xv]|].
    destruct IH as [u [Hu Xu]]. destruct (HX u Xu) as [_ HA].
    eapply AXs_step; [apply vcl_respects | eapply AXs_vcl; [exact Hu | exact HA] | apply Hpath]. }
  intro k. destruct (Inv k) as [u [Hu Xu]]. eapply RP; [exact Hu|]. apply (HX u Xu).
Qed.

Theorem AG_p_AGs v : AG_p G P v -> AGs G P v.
Proof.
  intro Hv. exists (AG_p G P). split; [exact Hv|].
  intros u Hu. split.
  - destruct (path_total u) as [pi [Hpath H0]].
    pose proof (Hu pi Hpath) as H. rewrite H0 in H. specialize (H (veq_refl u) 0). rewrite H0 in H. exact H.
  - apply step_AXs. intros w Hs pi Hpath H0 k.
    assert (Hp : path G (pcons u pi)).
    { apply path_pcons; [|exact Hpath]. eapply step_veq; [apply veq_refl | apply veq_sym; exact H0 | exact Hs]. }
    exact (Hu (pcons u pi) Hp (veq_refl u) (S k)).
Qed.

End OperatorsG.

(** ================= E[P W Q] ================= *)
Section OperatorsW.
Variables P Q : val -> Prop.

Theorem EW_p_EWs v : respects P -> respects Q -> EW_p G P Q v -> EWs G P Q v.
Proof.
  intros RP RQ [pi [Hpath [H0 [Hu|Ha]]]].
  - assert (E : EUs G P Q v) by (apply EU_p_EUs; [exact RP | exact RQ | exists pi; auto]).
    exists (EUs G P Q). split; [exact E|]. intros u Hu'. apply (EUs_unfold G P Q u). exact Hu'.
  - assert (E : EGs G P v) by (apply EG_p_EGs; [exact RP | exists pi; auto]).
    destruct E as [X [Xv HX]]. exists X. split; [exact Xv|]. intros u Xu. right. apply HX, Xu.
Qed.

(** left to right a path is constructed, and one of the two disjuncts has to be announced
    for it: decide E[P U Q] at the start, then stay inside EG P *)
Theorem EWs_EW_p v : respects P ->
  (forall u, EUs G P Q u \/ ~ EUs G P Q u) -> (forall u, EGs G P u \/ ~ EGs G P u) ->
  EWs G P Q v -> EW_p G P Q v.
Proof.
  intros RP DU DG Hv. apply (EW_split G P Q v DU) in Hv. destruct Hv as [Hu|Hg].
  - destruct (EUs_EU_p P Q v Hu) as [pi [Hpath [H0 H]]]. exists pi. auto.
  - destruct (EGs_EG_p P v RP DG Hg) as [pi [Hpath [H0 H]]]. exists pi. auto.
Qed.

(** ================= A[P W Q] ================= *)
Theorem AWs_AW_w v : respects P -> respects Q -> AWs G P Q v -> AW_w G P Q v.
Proof.
  intros RP RQ [X [Xv HX]] pi Hpath H0.
  assert (Inv : forall k, (forall i, i < k -> ~ Q (pi i)) -> vcl X (pi k)).
  { induction k as [|k IH]; intro Hn; [exists v; split; [apply veq_sym; exact H0 | exact Xv]|].
    destruct IH as [u [Hu Xu]]; [intros i Hi; apply Hn; lia|].
    destruct (HX u Xu) as [Qu|[_ HA]].
    - exfalso. apply (Hn k (Nat.lt_succ_diag_r k)). eapply RQ; eassumption.
    - eapply AXs_step; [apply vcl_respects | eapply AXs_vcl; [exact Hu | exact HA] | apply Hpath]. }
  intros k Hk. destruct (Inv k) as [u [Hu Xu]]; [intros i Hi; apply Hk; lia|].
  destruct (HX u Xu) as [Qu|[Pu _]].
  - exfalso. apply (Hk k (Nat.le_refl k)). eapply RQ; eassumption.
  - eapply RP; eassumption.
Qed.

Theorem AW_w_AWs v : (forall u, Q u \/ ~ Q u) -> AW_w G P Q v -> AWs G P Q v.
Proof.
  intros QD Hv. exists (AW_w G P Q). split; [exact Hv|].
  intros u Hu. destruct (QD u) as [Qu|Qu]; [left; exact Qu | right]. split.
  - destruct (path_total u) as [pi [Hpath H0]].
    pose proof (Hu pi Hpath) as H. rewrite H0 in H. specialize (H (veq_refl u) 0). rewrite H0 in H.
    apply H. intros i Hi. assert (i = 0) as -> by lia. rewrite H0. exact Qu.
  - apply step_AXs. intros w Hs pi Hpath H0 k Hk.
    assert (Hp : path G (pcons u pi)).
    { apply path_pcons; [|exact Hpath]. eapply step_veq; [apply veq_refl | apply veq_sym; exact H0 | exact Hs]. }
    apply (Hu (pcons u pi) Hp (veq_refl u) (S k)).
    intros i Hi. destruct i as [|i]; [exact Qu | apply Hk; lia].
Qed.

Theorem AW_p_AW_w v : AW_p G P Q v -> AW_w G P Q v.
Proof. intros H pi Hpath H0. apply until_wuntil. apply H; assumption. Qed.

Theorem AW_p_AWs v : (forall u, Q u \/ ~ Q u) -> AW_p G P Q v -> AWs G P Q v.
Proof. intros QD H. apply AW_w_AWs; [exact QD | apply AW_p_AW_w; exact H]. Qed.

Theorem AWs_AW_nn v : respects P -> respects Q -> (forall u, Q u \/ ~ Q u) ->
  AWs G P Q v -> AW_nn G P Q v.
Proof.
  intros RP RQ QD H pi Hpath H0. apply wuntil_nn; [exact QD|].
  apply (AWs_AW_w v RP RQ H); assumption.
Qed.

Theorem AW_nn_AWs v : (forall u, P u \/ ~ P u) -> (forall u, Q u \/ ~ Q u) ->
  AW_nn G P Q v -> AWs G P Q v.
Proof.
  intros PD QD H. apply AW_w_AWs; [exact QD|]. intros pi Hpath H0.
  apply nn_wuntil; [exact PD | apply H; assumption].
Qed.

(** the disjunctive form for all paths needs to know, for every path, whether Q ever holds
    on it; this instance of the limited principle of omniscience is not provable (see the
    comment at C13b_aw_partial) *)
Theorem AWs_AW_p v : respects P -> respects Q -> (forall u, Q u \/ ~ Q u) ->
  (forall pi, path G pi -> (exists j, Q (pi j)) \/ (forall j, ~ Q (pi j))) ->
  AWs G P Q v -> AW_p G P Q v.
Proof.
  intros RP RQ QD Omn H pi Hpath H0. apply wuntil_until; [exact QD | apply Omn; exact Hpath|].
  apply (AWs_AW_w v RP RQ H); assumption.
Qed.

End OperatorsW.
End PathFacts.
