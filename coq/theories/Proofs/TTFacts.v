(** Facts about truth-table trees: every operation is characterised through [mem];
    shaped trees with the same members are equal (so `while old != new` is exact). *)
From HCTL Require Import Base TT.

Lemma tag_eqb_refl g : tag_eqb g g = true.
Proof. destruct g; simpl; rewrite ?Nat.eqb_refl; reflexivity. Qed.

Lemma tag_eqb_eq a b : tag_eqb a b = true <-> a = b.
Proof.
  split.
  - destruct a, b; simpl; intro H; try discriminate.
    + apply Nat.eqb_eq in H; congruence.
    + apply Nat.eqb_eq in H; congruence.
    + apply andb_true_iff in H; destruct H as [H1 H2].
      apply Nat.eqb_eq in H1; apply Nat.eqb_eq in H2; congruence.
  - intros ->; apply tag_eqb_refl.
Qed.

Lemma tag_eqb_neq a b : tag_eqb a b = false <-> a <> b.
Proof.
  split.
  - intros H E; apply tag_eqb_eq in E; congruence.
  - intro H; destruct (tag_eqb a b) eqn:E; [apply tag_eqb_eq in E; contradiction | reflexivity].
Qed.

Lemma tag_eqb_sym a b : tag_eqb a b = tag_eqb b a.
Proof.
  destruct (tag_eqb a b) eqn:E.
  - apply tag_eqb_eq in E; subst; symmetry; apply tag_eqb_refl.
  - symmetry; apply tag_eqb_neq; apply tag_eqb_neq in E; congruence.
Qed.

(** valuations that agree on the tags of a layout *)
Definition agree (L : layout) (v w : val) : Prop := forall g, In g L -> v g = w g.

Lemma agree_refl L v : agree L v v.
Proof. intros g _; reflexivity. Qed.

Lemma agree_sym L v w : agree L v w -> agree L w v.
Proof. intros H g Hg; symmetry; apply H; assumption. Qed.

Lemma agree_tail h L v w : agree (h :: L) v w -> agree L v w.
Proof. intros H g Hg; apply H; right; assumption. Qed.

Lemma mem_agree L : forall t v w, agree L v w -> mem L t v = mem L t w.
Proof.
  induction L as [|h L IH]; intros t v w H; destruct t as [b|lo hi]; simpl; try reflexivity.
  rewrite (H h (or_introl eq_refl)).
  apply IH; eapply agree_tail; eassumption.
Qed.


Lemma upd_same v g b : upd v g b g = b.
Proof. unfold upd; rewrite tag_eqb_refl; reflexivity. Qed.

Lemma upd_other v g b h : h <> g -> upd v g b h = v h.
Proof. intro H; unfold upd; apply tag_eqb_neq in H; rewrite H; reflexivity. Qed.

Lemma agree_upd_notin L v g b : ~ In g L -> agree L (upd v g b) v.
Proof.
  intros H h Hh; apply upd_other; intro E; subst; contradiction.
Qed.

Lemma mem_upd_notin L t v g b : ~ In g L -> mem L t (upd v g b) = mem L t v.
Proof. intro H; apply mem_agree, agree_upd_notin; assumption. Qed.

(** ---- shape ---- *)
Lemma shapedb_iff L : forall t, shapedb L t = true <-> shaped L t.
Proof.
  induction L as [|h L IH]; intros [b|lo hi]; simpl; try tauto; try (split; [discriminate|tauto]).
  rewrite andb_true_iff, !IH; tauto.
Qed.

Lemma shaped_const L b : shaped L (const L b).
Proof. induction L; simpl; auto. Qed.

Lemma mem_const L b v : mem L (const L b) v = b.
Proof. induction L as [|h L IH]; simpl; [reflexivity|]. destruct (v h); apply IH. Qed.

Lemma shaped_map2 f L : forall a b, shaped L a -> shaped L b -> shaped L (map2 f a b).
Proof.
  induction L as [|h L IH]; intros [x|a0 a1] [y|b0 b1]; simpl; try tauto.
  intros [H1 H2] [H3 H4]; split; apply IH; assumption.
Qed.

Lemma mem_map2 f L : forall a b v, shaped L a -> shaped L b ->
  mem L (map2 f a b) v = f (mem L a v) (mem L b v).
Proof.
  induction L as [|h L IH]; intros [x|a0 a1] [y|b0 b1] v; simpl; try tauto.
  intros [H1 H2] [H3 H4]. destruct (v h); apply IH; assumption.
Qed.

Lemma shaped_lit L g : shaped L (lit L g).
Proof.
  induction L as [|h L IH]; simpl; [exact I|].
  destruct (tag_eqb h g); simpl; auto using shaped_const.
Qed.

Lemma mem_lit L g v : NoDup L -> In g L -> mem L (lit L g) v = v g.
Proof.
  induction L as [|h L IH]; simpl; intros ND Hin; [contradiction|].
  inversion ND as [|? ? Hnotin ND']; subst.
  destruct (tag_eqb h g) eqn:E.
  - apply tag_eqb_eq in E; subst. simpl. destruct (v g); apply mem_const.
  - simpl. destruct Hin as [->|Hin]; [rewrite tag_eqb_refl in E; discriminate|].
    destruct (v h); apply IH; assumption.
Qed.

(** ---- flip ---- *)

Lemma shaped_flip g L : forall t, shaped L t -> shaped L (flip g L t).
Proof.
  induction L as [|h L IH]; intros [b|lo hi]; simpl; try tauto.
  intros [H1 H2]. destruct (tag_eqb h g); simpl; auto.
Qed.

Lemma mem_flip g L : forall t v, NoDup L -> shaped L t ->
  mem L (flip g L t) v = mem L t (vflip g v).
Proof.
  induction L as [|h L IH]; intros [b|lo hi] v ND; simpl; try tauto.
  intros [H1 H2]. inversion ND as [|? ? Hnotin ND']; subst.
  destruct (tag_eqb h g) eqn:E.
  - apply tag_eqb_eq in E; subst. simpl. unfold vflip at 1. rewrite tag_eqb_refl.
    assert (A : agree L (vflip g v) v).
    { intros k Hk. unfold vflip. destruct (tag_eqb k g) eqn:E2; [|reflexivity].
      apply tag_eqb_eq in E2; subst; contradiction. }
    destruct (v g); simpl; symmetry; apply mem_agree; assumption.
  - simpl. unfold vflip at 1. rewrite E.
    destruct (v h); apply IH; assumption.
Qed.

Lemma vflip_invol g v h : vflip g (vflip g v) h = v h.
Proof. unfold vflip. destruct (tag_eqb h g); [apply negb_involutive|reflexivity]. Qed.

(** ---- existential quantification ---- *)
Lemma shaped_exq q L : forall t, shaped L t -> shaped L (exq q L t).
Proof.
  induction L as [|h L IH]; intros [b|lo hi]; simpl; try tauto.
  intros [H1 H2]. destruct (q h); simpl.
  - split; apply shaped_map2; auto.
  - auto.
Qed.

(** [w] differs from [v] at most on tags satisfying [q] *)
Definition same_outside (q : tag -> bool) (v w : val) : Prop :=
  forall g, q g = false -> w g = v g.

Lemma mem_exq q L : forall t v, NoDup L -> shaped L t ->
  (mem L (exq q L t) v = true <-> exists w, same_outside q v w /\ mem L t w = true).
Proof.
  induction L as [|h L IH]; intros [b|lo hi] v ND; simpl; try tauto.
  - intros _. split.
    + intro H; exists v; split; [intros g _; reflexivity|assumption].
    + intros [w [_ H]]; assumption.
  - intros [H1 H2]. inversion ND as [|? ? Hnotin ND']; subst.
    destruct (q h) eqn:Q.
    + assert (E : mem (h :: L) (let r := tor (exq q L lo) (exq q L hi) in Node r r) v
                  = mem L (tor (exq q L lo) (exq q L hi)) v).
      { simpl. destruct (v h); reflexivity. }
      simpl in E. simpl. rewrite E. unfold tor.
      rewrite mem_map2 by (apply shaped_exq; assumption).
      rewrite orb_true_iff, (IH lo v ND' H1), (IH hi v ND' H2).
      split.
      * intros [[w [Hw Hm]]|[w [Hw Hm]]].
        -- exists (upd w h false). split.
           ++ intros g Hg. unfold upd. destruct (tag_eqb g h) eqn:E2.
              ** apply tag_eqb_eq in E2; subst; congruence.
              ** apply Hw; assumption.
           ++ rewrite upd_same. rewrite mem_upd_notin by assumption. assumption.
        -- exists (upd w h true). split.
           ++ intros g Hg. unfold upd. destruct (tag_eqb g h) eqn:E2.
              ** apply tag_eqb_eq in E2; subst; congruence.
              ** apply Hw; assumption.
           ++ rewrite upd_same. rewrite mem_upd_notin by assumption. assumption.
      * intros [w [Hw Hm]]. destruct (w h); [right|left]; exists w; split; assumption.
    + simpl. destruct (v h) eqn:Vh.
      * rewrite (IH hi v ND' H2). split.
        -- intros [w [Hw Hm]]. exists w. split; [assumption|].
           rewrite (Hw h Q), Vh. assumption.
        -- intros [w [Hw Hm]]. exists w. split; [assumption|].
           rewrite (Hw h Q), Vh in Hm. assumption.
      * rewrite (IH lo v ND' H1). split.
        -- intros [w [Hw Hm]]. exists w. split; [assumption|].
           rewrite (Hw h Q), Vh. assumption.
        -- intros [w [Hw Hm]]. exists w. split; [assumption|].
           rewrite (Hw h Q), Vh in Hm. assumption.
Qed.

(** ---- equality, emptiness ---- *)
Lemma tt_eqb_eq : forall a b, tt_eqb a b = true <-> a = b.
Proof.
  induction a as [x|a0 IH0 a1 IH1]; intros [y|b0 b1]; simpl; try (split; [discriminate|congruence]).
  - rewrite Bool.eqb_true_iff. split; congruence.
  - rewrite andb_true_iff, IH0, IH1. split; [intros [-> ->]; reflexivity|intro H; injection H; auto].
Qed.

Lemma tt_eqb_refl a : tt_eqb a a = true.
Proof. apply tt_eqb_eq; reflexivity. Qed.

(** extensionality of shaped trees *)
Lemma tt_ext L : forall a b, NoDup L -> shaped L a -> shaped L b ->
  (forall v, mem L a v = mem L b v) -> a = b.
Proof.
  induction L as [|h L IH]; intros [x|a0 a1] [y|b0 b1] ND; simpl; try tauto.
  - intros _ _ H. specialize (H (fun _ => false)). congruence.
  - intros [H1 H2] [H3 H4] H. inversion ND as [|? ? Hnotin ND']; subst.
    f_equal.
    + apply IH; try assumption. intro v.
      specialize (H (upd v h false)). rewrite upd_same in H.
      rewrite !mem_upd_notin in H by assumption. assumption.
    + apply IH; try assumption. intro v.
      specialize (H (upd v h true)). rewrite upd_same in H.
      rewrite !mem_upd_notin in H by assumption. assumption.
Qed.

Lemma is_empty_iff L : forall t, NoDup L -> shaped L t ->
  (is_empty t = true <-> forall v, mem L t v = false).
Proof.
  induction L as [|h L IH]; intros [b|lo hi] ND; simpl; try tauto.
  - intros _. destruct b; simpl.
    + split; [discriminate | intro H; specialize (H (fun _ => false)); discriminate].
    + split; [intros _ v; reflexivity | intros _; reflexivity].
  - intros [H1 H2]. inversion ND as [|? ? Hnotin ND']; subst.
    rewrite andb_true_iff, (IH lo ND' H1), (IH hi ND' H2). split.
    + intros [A B] v. destruct (v h); auto.
    + intro H. split; intro v.
      * specialize (H (upd v h false)). rewrite upd_same in H.
        rewrite mem_upd_notin in H by assumption. assumption.
      * specialize (H (upd v h true)). rewrite upd_same in H.
        rewrite mem_upd_notin in H by assumption. assumption.
Qed.

Lemma is_empty_false_iff L t : NoDup L -> shaped L t ->
  (is_empty t = false <-> exists v, mem L t v = true).
Proof.
  intros ND Sh. split.
  - revert t Sh. induction L as [|h L IH]; intros [b|lo hi]; simpl; try tauto.
    + intros _ H. destruct b; [exists (fun _ => false); reflexivity|discriminate].
    + intros [H1 H2] H. inversion ND as [|? ? Hnotin ND']; subst.
      apply andb_false_iff in H. destruct H as [H|H].
      * destruct (IH ND' lo H1 H) as [v Hv]. exists (upd v h false).
        rewrite upd_same, mem_upd_notin by assumption. assumption.
      * destruct (IH ND' hi H2 H) as [v Hv]. exists (upd v h true).
        rewrite upd_same, mem_upd_notin by assumption. assumption.
  - intros [v Hv]. destruct (is_empty t) eqn:E; [|reflexivity].
    rewrite (is_empty_iff L t ND Sh) in E. rewrite E in Hv. discriminate.
Qed.

(** ---- derived set operations ---- *)
Lemma mem_tand L a b v : shaped L a -> shaped L b ->
  mem L (tand a b) v = mem L a v && mem L b v.
Proof. apply mem_map2. Qed.
Lemma mem_tor L a b v : shaped L a -> shaped L b ->
  mem L (tor a b) v = mem L a v || mem L b v.
Proof. apply mem_map2. Qed.
Lemma mem_tminus L a b v : shaped L a -> shaped L b ->
  mem L (tminus a b) v = mem L a v && negb (mem L b v).
Proof. apply (mem_map2 (fun x y => x && negb y)). Qed.
Lemma mem_txor L a b v : shaped L a -> shaped L b ->
  mem L (txor a b) v = xorb (mem L a v) (mem L b v).
Proof. apply mem_map2. Qed.
Lemma mem_tiff L a b v : shaped L a -> shaped L b ->
  mem L (tiff a b) v = Bool.eqb (mem L a v) (mem L b v).
Proof. apply mem_map2. Qed.

Lemma shaped_tand L a b : shaped L a -> shaped L b -> shaped L (tand a b).
Proof. apply shaped_map2. Qed.
Lemma shaped_tor L a b : shaped L a -> shaped L b -> shaped L (tor a b).
Proof. apply shaped_map2. Qed.
Lemma shaped_tminus L a b : shaped L a -> shaped L b -> shaped L (tminus a b).
Proof. apply shaped_map2. Qed.
Lemma shaped_txor L a b : shaped L a -> shaped L b -> shaped L (txor a b).
Proof. apply shaped_map2. Qed.
Lemma shaped_tiff L a b : shaped L a -> shaped L b -> shaped L (tiff a b).
Proof. apply shaped_map2. Qed.

(** ---- cardinality (termination of the fixed-point loops) ---- *)
Definition subset (L : layout) (a b : tt) : Prop := forall v, mem L a v = true -> mem L b v = true.

Lemma card_const_false L : card (const L false) = 0.
Proof. induction L as [|h L IH]; simpl; [reflexivity|]. rewrite IH; reflexivity. Qed.

Lemma card_const_true L : card (const L true) = 2 ^ length L.
Proof. induction L as [|h L IH]; simpl; [reflexivity|]. rewrite IH. lia. Qed.

Lemma card_le L : forall t, shaped L t -> card t <= 2 ^ length L.
Proof.
  induction L as [|h L IH]; intros [b|lo hi]; simpl; try tauto.
  - intros _; destruct b; lia.
  - intros [H1 H2]. specialize (IH lo H1) as A. specialize (IH hi H2) as B. lia.
Qed.

Lemma subset_card L : forall a b, NoDup L -> shaped L a -> shaped L b -> subset L a b ->
  card a <= card b /\ (card a = card b -> a = b).
Proof.
  induction L as [|h L IH]; intros [x|a0 a1] [y|b0 b1] ND; simpl; try tauto.
  - intros _ _ H. unfold subset in H. simpl in H.
    destruct x, y; simpl.
    + split; [lia | reflexivity].
    + specialize (H (fun _ => false) eq_refl). discriminate.
    + split; [lia | intro; lia].
    + split; [lia | reflexivity].
  - intros [H1 H2] [H3 H4] H. inversion ND as [|? ? Hnotin ND']; subst.
    assert (S0 : subset L a0 b0).
    { intros v Hv. specialize (H (upd v h false)). simpl in H. rewrite upd_same in H.
      rewrite !mem_upd_notin in H by assumption. auto. }
    assert (S1 : subset L a1 b1).
    { intros v Hv. specialize (H (upd v h true)). simpl in H. rewrite upd_same in H.
      rewrite !mem_upd_notin in H by assumption. auto. }
    destruct (IH a0 b0 ND' H1 H3 S0) as [A0 E0].
    destruct (IH a1 b1 ND' H2 H4 S1) as [A1 E1].
    split; [lia|]. intro E. f_equal; [apply E0|apply E1]; lia.
Qed.
