(** The sub-formula cache for EXTENDED formulae (wild-card propositions, quantifier domains).

    Inside a scope whose unit [Uc] is restricted by the domains of enclosing quantifiers a
    cached set may have been computed in a LARGER unit (a cache hit does not look at the
    domains of variables that do not occur in the sub-formula), so at node level the result
    of [eval_node] is only determined INSIDE the current unit:

      [spec_in G Uc R (sat ... t)]   (tier 1, every scope);

    where no enclosing quantifier has a domain ("clean" scope, in particular at top level)
    the result is exactly that of the cache-free evaluator:

      [peval_ext ... t Uc = Ok R]    (tier 2).

    The quantifiers with a domain intersect the result of their body with their unit, which
    restores exactness. *)
From Coq Require Import Permutation.
From HCTL Require Import Base Syntax Tokenizer Preprocess Canon MarkDup TT Ops Eval Pipeline Kripke HCTL.
From HCTL Require Import TTFacts OpsFacts FixFacts SemFacts HybridFacts EvalPure Main Termination.
From HCTL Require Import IndepFacts PrepFacts RoundTrip CanonFacts CanonAlpha MarkDupFacts RenameFacts
  LayoutFacts PipelineFacts NoPanic ParsedNamed CacheFacts CopyRel CacheGen.
From HCTL Require Import ExtSem ExtFix ExtFacts ExtHybrid ExtEval ExtLink.

(** * 1. Preliminaries *)

(** ** association lists *)

Lemma alookup_sinsert_same {B} (x : str) (v : B) (l : list (str * B)) :
  alookup str_eqb x (sinsert x v l) = Some v.
Proof.
  induction l as [|[k' v'] l IH]; cbn [sinsert alookup].
  - rewrite str_eqb_refl. reflexivity.
  - destruct (str_eqb x k') eqn:E.
    + cbn [alookup]. rewrite str_eqb_refl. reflexivity.
    + destruct (str_ltb x k'); cbn [alookup]; rewrite ?str_eqb_refl, ?E; [reflexivity | exact IH].
Qed.

Lemma sinsert_keys {B} (x : str) (v : B) (l : list (str * B)) y :
  In y (map fst (sinsert x v l)) -> y = x \/ In y (map fst l).
Proof.
  induction l as [|[k' v'] l IH]; cbn [sinsert map fst In].
  - intros [<- | []]. left. reflexivity.
  - destruct (str_eqb x k') eqn:E.
    + cbn [map fst In]. intros [<- | H]; [left; reflexivity | right; right; exact H].
    + destruct (str_ltb x k'); cbn [map fst In].
      * intros [<- | [<- | H]]; [left; reflexivity | right; left; reflexivity | right; right; exact H].
      * intros [<- | H]; [right; left; reflexivity|]. destruct (IH H) as [-> | H']; [left; reflexivity | right; right; exact H'].
Qed.

Lemma alookup_none_notin {B} (x : str) (l : list (str * B)) :
  alookup str_eqb x l = None <-> ~ In x (map fst l).
Proof.
  induction l as [|[k' v'] l IH]; cbn [alookup map fst In]; [split; [intros _ [] | reflexivity]|].
  destruct (str_eqb x k') eqn:E; str_eq.
  - split; [discriminate | intro H; exfalso; apply H; left; symmetry; exact E].
  - rewrite IH. split; [intros H [H' | H']; [congruence | contradiction] | intros H H'; apply H; right; exact H'].
Qed.

Lemma sinsert_nodup_fresh {B} (x : str) (v : B) (l : list (str * B)) :
  NoDup (map fst l) -> ~ In x (map fst l) -> NoDup (map fst (sinsert x v l)).
Proof.
  induction l as [|[k' v'] l IH]; cbn [sinsert map fst]; intros ND NI.
  - constructor; [intros [] | constructor].
  - inversion ND as [|? ? NI' ND']; subst. destruct (str_eqb x k') eqn:E.
    + str_eq. exfalso. apply NI. left. symmetry. exact E.
    + destruct (str_ltb x k'); cbn [map fst].
      * constructor; [exact NI | exact ND].
      * constructor; [|apply IH; [exact ND' | intro H; apply NI; right; exact H]].
        intro H. destruct (sinsert_keys x v l k' H) as [-> | H']; [str_eq; congruence | contradiction].
Qed.

Lemma alookup_in_nodup {B} (x : str) (d : B) (l : list (str * B)) :
  NoDup (map fst l) -> In (x, d) l -> alookup str_eqb x l = Some d.
Proof.
  induction l as [|[k' v'] l IH]; cbn [map fst alookup In]; intros ND IN; [destruct IN|].
  inversion ND as [|? ? NI ND']; subst. destruct IN as [E | IN].
  - injection E as -> ->. rewrite str_eqb_refl. reflexivity.
  - destruct (str_eqb x k') eqn:E; [|apply IH; assumption].
    str_eq. subst k'. exfalso. apply NI. apply in_map_iff. exists (x, d). split; [reflexivity | exact IN].
Qed.

Lemma alookup_some_in {B} (x : str) (d : B) (l : list (str * B)) :
  alookup str_eqb x l = Some d -> In (x, d) l.
Proof.
  induction l as [|[k' v'] l IH]; cbn [alookup In]; [discriminate|].
  destruct (str_eqb x k') eqn:E; [|intro H; right; apply IH, H].
  str_eq. subst k'. intro H. injection H as <-. left. reflexivity.
Qed.

(** ** the canonical domains of a one-entry renaming map *)
Lemma canon_domains_single fd x cn : NoDup (map fst fd) -> forall acc,
  canon_domains fd [(x, cn)] acc
  = match alookup str_eqb x fd with Some d => sinsert cn d acc | None => acc end.
Proof.
  induction fd as [|[v d] fd IH]; intros ND acc; cbn [canon_domains alookup]; [reflexivity|].
  inversion ND as [|? ? NI ND']; subst. cbn [map fst] in *.
  destruct (str_eqb v x) eqn:E.
  - str_eq. subst v. rewrite str_eqb_refl. rewrite (IH ND').
    rewrite (proj2 (alookup_none_notin x fd) NI). reflexivity.
  - assert (str_eqb x v = false) as E' by (str_eq; apply str_eqb_neq; congruence).
    rewrite E'. apply IH, ND'.
Qed.

Lemma foreign_false fd ren : foreign_restriction fd ren = false ->
  forall v d, In (v, d) fd -> amem str_eqb v ren = true \/ d = None.
Proof.
  unfold foreign_restriction. intros H v d IN.
  destruct (amem str_eqb v ren) eqn:A; [left; reflexivity | right].
  destruct d as [dl|]; [|reflexivity]. exfalso.
  assert (existsb (fun vd => negb (amem str_eqb (fst vd) ren)
                   && match snd vd with Some _ => true | None => false end) fd = true) as X.
  { apply existsb_exists. exists (v, Some dl). split; [exact IN|]. cbn [fst snd]. rewrite A. reflexivity. }
  rewrite H in X. discriminate.
Qed.

(** ** renaming the only variable of an extended formula *)
Section SatRenameExt.
Variable G : genv.
Variable names : list str.
Variable U : tt.
Hypothesis WF : wf_env G names U.
Variable Gamma : str -> val -> Prop.
Hypothesis Gx : ctx_ignores_copies Gamma.

Lemma crel_nonextra e e0 v w : crel e e0 v w -> forall g, is_extra_tag g = false -> v g = w g.
Proof. intros (H1 & H2 & _) [j|i|i e'] Hg; [apply H1 | apply H2 | discriminate Hg]. Qed.

Lemma dom_crel e e0 d v w : crel e e0 v w -> (dom Gamma d v <-> dom Gamma d w).
Proof.
  intro Hr. destruct d as [l|]; cbn [dom]; [|tauto].
  apply (Gamma_agree Gamma Gx). apply (crel_nonextra e e0), Hr.
Qed.

Lemma dom_with_state e e0 d u v w : crel e e0 v w ->
  (dom Gamma d (with_state u v) <-> dom Gamma d (with_state u w)).
Proof.
  intros (H1 & H2 & _). destruct d as [l|]; cbn [dom]; [|tauto].
  apply (Gamma_agree Gamma Gx). intros [j|i|i e'] Hg; cbn [with_state]; [apply H1 | reflexivity | discriminate Hg].
Qed.

Theorem sat_rename_ext x x0 e e0 : var_of G x = Some e -> var_of G x0 = Some e0 ->
  forall s v w, crel e e0 v w ->
    (sat G names Gamma (vmap (fun _ => x) s) v <-> sat G names Gamma (vmap (fun _ => x0) s) w).
Proof.
  intros Ex Ex0.
  induction s as [a | o a IH | o a IHa b IHb | o y d a IH]; intros v w Hr.
  - destruct a as [nm|y| | |l]; cbn [vmap sat] in *.
    + destruct Hr as (_ & H2 & _).
      split; intros [i [Hi Hv]]; exists i; (split; [exact Hi|]); [rewrite <- H2 | rewrite H2]; exact Hv.
    + destruct Hr as (_ & H2 & H3). unfold copy_is_state. split.
      * intros (e' & He' & Hc). assert (e' = e) by congruence. subst e'.
        exists e0. split; [exact Ex0|]. intros i Hi. rewrite <- H3, <- H2. apply Hc, Hi.
      * intros (e' & He' & Hc). assert (e' = e0) by congruence. subst e'.
        exists e. split; [exact Ex|]. intros i Hi. rewrite H3, H2. apply Hc, Hi.
    + tauto.
    + tauto.
    + apply (Gamma_agree Gamma Gx). apply (crel_nonextra e e0), Hr.
  - destruct o; cbn [vmap sat].
    + specialize (IH v w Hr). tauto.
    + apply (EXs_bisim G G (crel e e0) eq_refl (crel_en G names U WF e e0) (crel_flip e e0)); assumption.
    + apply (AXs_bisim G G (crel e e0) eq_refl (crel_en G names U WF e e0) (crel_flip e e0)); assumption.
    + apply (EFs_bisim G G (crel e e0) eq_refl (crel_en G names U WF e e0) (crel_flip e e0)); assumption.
    + apply (AFs_bisim G G (crel e e0) eq_refl (crel_en G names U WF e e0) (crel_flip e e0)); assumption.
    + apply (EGs_bisim G G (crel e e0) eq_refl (crel_en G names U WF e e0) (crel_flip e e0)); assumption.
    + apply (AGs_bisim G G (crel e e0) eq_refl (crel_en G names U WF e e0) (crel_flip e e0)); assumption.
  - destruct o; cbn [vmap sat].
    + specialize (IHa v w Hr). specialize (IHb v w Hr). tauto.
    + specialize (IHa v w Hr). specialize (IHb v w Hr). tauto.
    + specialize (IHa v w Hr). specialize (IHb v w Hr). tauto.
    + specialize (IHa v w Hr). specialize (IHb v w Hr). tauto.
    + specialize (IHa v w Hr). specialize (IHb v w Hr). tauto.
    + apply (EUs_bisim G G (crel e e0) eq_refl (crel_en G names U WF e e0) (crel_flip e e0)); assumption.
    + apply (AUs_bisim G G (crel e e0) eq_refl (crel_en G names U WF e e0) (crel_flip e e0)); assumption.
    + apply (EWs_bisim G G (crel e e0) eq_refl (crel_en G names U WF e e0) (crel_flip e e0)); assumption.
    + apply (AWs_bisim G G (crel e e0) eq_refl (crel_en G names U WF e e0) (crel_flip e e0)); assumption.
  - assert (Kb : forall u u', (forall i, u (TS i) = u' (TS i)) ->
              (sat G names Gamma (vmap (fun _ => x) a) (set_copy e u v)
               <-> sat G names Gamma (vmap (fun _ => x0) a) (set_copy e0 u' w)))
      by (intros u u' Hu; apply IH; apply crel_set_copy; assumption).
    pose proof Hr as (H1 & H2 & H3).
    pose proof (dom_crel e e0 d v w Hr) as Dv.
    destruct o; cbn [vmap sat].
    + split.
      * intros (e' & He' & Hd & Hs). assert (e' = e) by congruence. subst e'.
        exists e0. split; [exact Ex0|]. split; [apply Dv, Hd|]. apply (Kb v w H2), Hs.
      * intros (e' & He' & Hd & Hs). assert (e' = e0) by congruence. subst e'.
        exists e. split; [exact Ex|]. split; [apply Dv, Hd|]. apply (Kb v w H2), Hs.
    + split.
      * intros (e' & He' & Hs). assert (e' = e) by congruence. subst e'.
        exists e0. split; [exact Ex0|]. apply (IH _ _ (crel_set_state e e0 v w Hr)), Hs.
      * intros (e' & He' & Hs). assert (e' = e0) by congruence. subst e'.
        exists e. split; [exact Ex|]. apply (IH _ _ (crel_set_state e e0 v w Hr)), Hs.
    + split.
      * intros (e' & He' & u & Hd & Hs). assert (e' = e) by congruence. subst e'.
        exists e0. split; [exact Ex0|]. exists u. split; [apply (dom_with_state e e0 d u v w Hr), Hd|].
        apply (Kb u u (fun _ => eq_refl)), Hs.
      * intros (e' & He' & u & Hd & Hs). assert (e' = e0) by congruence. subst e'.
        exists e. split; [exact Ex|]. exists u. split; [apply (dom_with_state e e0 d u v w Hr), Hd|].
        apply (Kb u u (fun _ => eq_refl)), Hs.
    + split.
      * intros (e' & He' & Hs). assert (e' = e) by congruence. subst e'.
        exists e0. split; [exact Ex0|]. intros u Hd. apply (Kb u u (fun _ => eq_refl)), Hs.
        apply (dom_with_state e e0 d u v w Hr), Hd.
      * intros (e' & He' & Hs). assert (e' = e0) by congruence. subst e'.
        exists e. split; [exact Ex|]. intros u Hd. apply (Kb u u (fun _ => eq_refl)), Hs.
        apply (dom_with_state e e0 d u v w Hr), Hd.
Qed.

End SatRenameExt.

(** ** the extended evaluator is total *)
Section ExtTotal.
Variable G : genv.
Variable names : list str.
Variable sw : switches.
Variable steady : tt.
Variable wild doms : list (str * tt).
Local Notation L := (g_L G).
Hypothesis L_nodup : NoDup L.
Hypothesis upd_shaped : forall i, shaped L (upd_of G i).
Hypothesis steady_shaped : shaped L steady.
Hypothesis wild_shaped : forall l s, alookup str_eqb l wild = Some s -> shaped L s.
Hypothesis doms_shaped : forall l s, alookup str_eqb l doms = Some s -> shaped L s.

(** propositions, wild-card labels and domain labels are known *)
Fixpoint knownx (t : tree) : Prop :=
  match t with
  | Terminal (AProp nm) => index_of nm names 0 <> None
  | Terminal (AWild l) => alookup str_eqb l wild <> None
  | Terminal _ => True
  | Unary _ a => knownx a
  | Binary _ a b => knownx a /\ knownx b
  | Hybrid o _ d a =>
      match o, d with
      | Jump, _ | _, None => True
      | _, Some dl => alookup str_eqb dl doms <> None
      end /\ knownx a
  end.

Ltac shpx := repeat first
  [ assumption
  | apply shaped_comparator
  | apply shaped_tand | apply shaped_tor | apply shaped_tminus | apply shaped_txor | apply shaped_tiff
  | apply shaped_exq | apply shaped_comparator | apply shaped_const | apply shaped_lit
  | apply shaped_flip ].

Lemma shaped_restricted U dset e : shaped L U -> shaped L dset ->
  shaped L (tand U (compute_valid_domain_for_var G U dset e)).
Proof. intros. unfold compute_valid_domain_for_var, project_out_bn_vars. shpx. Qed.

Lemma total_ehq U Ur o e a : o <> Jump -> shaped L U -> shaped L Ur -> shaped L a ->
  total G (eval_hybrid_quantifier G U Ur o e a).
Proof.
  intros Ho HU HR Ha. destruct o; cbn [eval_hybrid_quantifier]; try congruence; eexists; (split; [reflexivity|]);
    unfold eval_bind, eval_exists, eval_neg, project_out_hctl_var; shpx.
Qed.

Lemma total_attractorsx U e : shaped L U -> total G (attractors G U e).
Proof.
  intro HU. unfold attractors.
  destruct (ef_terminates G L_nodup upd_shaped U (eval_hctl_var G U e) HU) as (ef & E1 & S1);
    [unfold eval_hctl_var; shpx|]. rewrite E1. cbn [bind].
  destruct (ag_terminates G L_nodup upd_shaped U ef HU S1) as (ag & E2 & S2). rewrite E2. cbn [bind].
  eexists. split; [reflexivity|]. unfold eval_bind, project_out_hctl_var. shpx.
Qed.

Theorem peval_ext_total : forall t U, shaped L U -> knownx t -> supported G t ->
  total G (peval_ext G names sw steady wild doms t U).
Proof.
  induction t as [a | o a IH | o a IHa b IHb | o x d a IH]; intros U HU Hk Hs; rewrite peval_ext_eq.
  - cbn [is_attractor_pattern is_fixed_point_pattern]. rewrite !andb_false_r.
    destruct a as [nm | y | | | l]; cbn [peval_ext_body knownx supported] in *.
    + destruct (index_of nm names 0); [|congruence]. eexists. split; [reflexivity|].
      unfold eval_prop. shpx.
    + apply (total_var_bind G y); [exact Hs|]. intro e. eexists. split; [reflexivity|].
      unfold eval_hctl_var. shpx.
    + eexists. split; [reflexivity | exact HU].
    + eexists. split; [reflexivity | apply shaped_const].
    + destruct (alookup str_eqb l wild) as [s|] eqn:E; [|congruence].
      eexists. split; [reflexivity | eapply wild_shaped; exact E].
  - cbn [is_attractor_pattern is_fixed_point_pattern]. rewrite !andb_false_r.
    cbn [peval_ext_body knownx supported] in *.
    apply total_bind; [apply IH; assumption|]. intros A HA.
    destruct o.
    + eexists. split; [reflexivity|]. unfold eval_neg. shpx.
    + eexists. split; [reflexivity|]. apply shaped_eval_ex; assumption.
    + eexists. split; [reflexivity|]. apply shaped_eval_ax; assumption.
    + apply ef_terminates; assumption.
    + apply af_terminates; assumption.
    + apply eg_terminates; assumption.
    + apply ag_terminates; assumption.
  - cbn [is_attractor_pattern is_fixed_point_pattern]. rewrite !andb_false_r.
    cbn [peval_ext_body knownx supported] in *. destruct Hk as [Hka Hkb]. destruct Hs as [Hsa Hsb].
    apply total_bind; [apply IHa; assumption|]. intros A HA.
    apply total_bind; [apply IHb; assumption|]. intros B HB.
    destruct o.
    + eexists. split; [reflexivity|]. shpx.
    + eexists. split; [reflexivity|]. shpx.
    + eexists. split; [reflexivity|]. unfold eval_xor, eval_equiv, eval_neg. shpx.
    + eexists. split; [reflexivity|]. unfold eval_imp, eval_neg. shpx.
    + eexists. split; [reflexivity|]. unfold eval_equiv, eval_neg. shpx.
    + apply eu_terminates; assumption.
    + apply au_terminates; assumption.
    + apply ew_terminates; assumption.
    + apply aw_terminates; assumption.
  - cbn [knownx supported] in *. destruct Hk as [Hkd Hka]. destruct Hs as [Hvx Hsa].
    destruct (use_patterns sw && is_attractor_pattern (Hybrid o x d a)).
    { cbn [pattern_var]. apply (total_var_bind G x); [exact Hvx|]. intro e. apply total_attractorsx, HU. }
    destruct (use_patterns sw && is_fixed_point_pattern (Hybrid o x d a)).
    { eexists. split; [reflexivity | exact steady_shaped]. }
    cbn [peval_ext_body].
    assert (Q : forall o', o' <> Jump -> o = o' ->
      total G (match d with
               | Some dl =>
                   match alookup str_eqb dl doms with
                   | Some dset =>
                       let* e := hctl_var_id G x in
                       let var_domain := compute_valid_domain_for_var G U dset e in
                       let Ur := tand U var_domain in
                       if is_empty Ur then Ok match o' with Forall => U | _ => empty G end
                       else let* r := peval_ext G names sw steady wild doms a Ur in
                            eval_hybrid_quantifier G U Ur o' e r
                   | None => Panic PDomainLookup
                   end
               | None =>
                   let* r := peval_ext G names sw steady wild doms a U in
                   let* e := hctl_var_id G x in eval_hybrid_quantifier G U U o' e r
               end)).
    { intros o' Ho' ->. destruct d as [dl|].
      - destruct (alookup str_eqb dl doms) as [dset|] eqn:ED;
          [|exfalso; destruct o'; try congruence; apply Hkd; reflexivity].
        pose proof (doms_shaped _ _ ED) as SD.
        apply (total_var_bind G x); [exact Hvx|]. intro e. cbv zeta.
        pose proof (shaped_restricted U dset e HU SD) as SR.
        destruct (is_empty (tand U (compute_valid_domain_for_var G U dset e))).
        + eexists. split; [reflexivity|]. destruct o'; try exact HU; apply shaped_const.
        + apply total_bind; [apply IH; assumption|]. intros A HA. apply total_ehq; assumption.
      - apply total_bind; [apply IH; assumption|]. intros A HA.
        apply (total_var_bind G x); [exact Hvx|]. intro e. apply total_ehq; assumption. }
    destruct o.
    + apply (Q Bind); [discriminate | reflexivity].
    + apply total_bind; [apply IH; assumption|]. intros A HA.
      apply (total_var_bind G x); [exact Hvx|]. intro e. eexists. split; [reflexivity|].
      unfold eval_jump, project_out_bn_vars. shpx.
    + apply (Q Exists); [discriminate | reflexivity].
    + apply (Q Forall); [discriminate | reflexivity].
Qed.

End ExtTotal.

(** every well-named tree is linkable *)
Lemma name_char_not (ea : N -> bool) c k : is_name_char ea c = true -> (k < 128)%N ->
  is_name_char ea k = false -> N.eqb c k = false.
Proof.
  intros Hc _ Hk. destruct (N.eqb c k) eqn:E; [|reflexivity]. apply N.eqb_eq in E. subst c. congruence.
Qed.

Lemma name_ok_inert ea p : name_ok ea p -> forallb canon_inert p = true.
Proof.
  intros [_ F]. induction F as [|c p Hc _ IH]; [reflexivity|]. cbn [forallb]. rewrite IH, andb_true_r.
  unfold canon_inert.
  rewrite (name_char_not ea c c_lpar Hc) by (try reflexivity; unfold c_lpar; lia).
  rewrite (name_char_not ea c c_rpar Hc) by (try reflexivity; unfold c_rpar; lia).
  rewrite (name_char_not ea c c_lbrace Hc) by (try reflexivity; unfold c_lbrace; lia).
  reflexivity.
Qed.

Lemma well_named_linkable ea ext t : well_named ea ext t -> linkable t.
Proof.
  induction t as [a | o c IH | o l IHl r IHr | o x d c IH]; cbn [well_named linkable].
  - destruct a as [nm | y | | | p]; cbn [atom_ok]; try (intros; exact I).
    + intros ((NE & F) & _) r E. subst nm. inversion F as [|? ? Hc _]; subst.
      cbv in Hc. discriminate Hc.
    + intros (_ & N). apply canonize_plain_label, (name_ok_inert ea), N.
  - exact IH.
  - intros [A B]. split; [apply IHl, A | apply IHr, B].
  - intros (_ & _ & W). apply IH, W.
Qed.

(** * 2. The invariants *)

Section CacheX.
Variable ea : N -> bool.
Variable G : genv.
Variable names : list str.
Variable Utop : tt.
Hypothesis WF : wf_env G names Utop.
Variable Gamma : str -> val -> Prop.
Hypothesis Gx : ctx_ignores_copies Gamma.
Variable sw : switches.
Variable wild doms : list (str * tt).
Hypothesis wild_ok : wild_sets_ok G Gamma wild.
Hypothesis doms_ok : dom_sets_ok G Gamma doms.

Local Notation L := (g_L G).
Local Notation st := (steady_of G Utop).
Local Notation pevx := (peval_ext G names sw st wild doms).
Local Notation Sat := (sat G names Gamma).
Local Notation unit_ok := (unit_ok G Utop).
Local Notation scoped := (scoped G).
Local Notation knownx := (knownx names wild doms).

(** static side conditions on a (sub-)formula *)
Definition gx (t : tree) : Prop :=
  well_named ea true t /\ knownx t /\ supported G t.

Lemma gx_unary o a : gx (Unary o a) -> gx a.
Proof. intros (A & B & C). repeat split; assumption. Qed.
Lemma gx_binary o a b : gx (Binary o a b) -> gx a /\ gx b.
Proof. intros ([A A'] & [B B'] & [C C']). repeat split; assumption. Qed.
Lemma gx_hybrid o x d a : gx (Hybrid o x d a) -> gx a.
Proof. intros ((_ & _ & A) & (_ & B) & (_ & C)). repeat split; assumption. Qed.

(** no quantifier in scope has a domain *)
Definition clean (fd : dommap) : Prop := forall y d, alookup str_eqb y fd = Some d -> d = None.

(** the restrictions the domains in scope put on a valuation *)
Definition restr (fd : dommap) (w : val) : Prop :=
  forall y dl dset e, alookup str_eqb y fd = Some (Some dl) -> alookup str_eqb dl doms = Some dset ->
    var_of G y = Some e -> mem L dset (set_state e w) = true.

(** the evaluation context of a sub-formula found below [d] quantifiers *)
Definition ctxinv (c : ectx) (bound : list nat) (Uc : tt) (d : nat) : Prop :=
  domain_sets c = doms
  /\ unit_ok bound Uc
  /\ NoDup (map fst (free_doms c))
  /\ (forall j, d <= j -> alookup str_eqb (xs (S j)) (free_doms c) = None)
  /\ (forall w, mem L Uc w = true <-> (mem L Utop w = true /\ restr (free_doms c) w)).

(** the result of a node: exact inside the unit; equal to the cache-free result when [C] *)
Definition nres (C : Prop) (t : tree) (Uc R : tt) : Prop :=
  spec_in G Uc R (Sat t) /\ (C -> pevx t Uc = Ok R).

(** ** cache entries *)

Definition all_none (kd : dommap) : Prop := forall cn d, In (cn, d) kd -> d = None.

Definition key_restr (kd : dommap) (rn : list (str * str)) (w : val) : Prop :=
  forall x0 cn dl dset e0, rn = [(x0, cn)] -> alookup str_eqb cn kd = Some (Some dl) ->
    alookup str_eqb dl doms = Some dset -> var_of G x0 = Some e0 ->
    mem L dset (set_state e0 w) = true.

Definition reg_entry (k : key) (S : tt) (rn : list (str * str)) : Prop :=
  exists t0 d0 bound0 U0,
    gx t0 /\ depth_named d0 t0 /\ is_wild_terminal t0 = false /\ scoped bound0 t0 /\ unit_ok bound0 U0
    /\ canonize (render t0) = (fst k, rn) /\ length rn <= 1
    /\ spec_in G U0 S (Sat t0)
    /\ (forall w, mem L Utop w = true -> key_restr (snd k) rn w -> mem L U0 w = true)
    /\ (all_none (snd k) -> pevx t0 Utop = Ok S).

Definition wild_key_like (k : key) : Prop := exists r, fst k = c_pct :: r.

Definition cache_okX (c : ectx) : Prop :=
  forall k S rn, In (k, (S, rn)) (cache c) -> wild_key_like k \/ reg_entry k S rn.

Definition dups_okX (c : ectx) : Prop :=
  forall k m, In (k, m) (duplicates c) -> wild_key_like k \/ single_text ea true (fst k).

Definition wild_present (c : ectx) : Prop :=
  forall p s, alookup str_eqb p wild = Some s ->
    amem key_eqb (wild_key p) (duplicates c) = true
    /\ alookup key_eqb (wild_key p) (cache c) = Some (s, []).

Definition storeinv (c : ectx) : Prop := cache_okX c /\ dups_okX c /\ wild_present c.

Definition frame (c c' : ectx) : Prop :=
  free_doms c' = free_doms c /\ domain_sets c' = domain_sets c.

Lemma frame_refl c : frame c c.
Proof. split; reflexivity. Qed.

Lemma frame_trans c1 c2 c3 : frame c1 c2 -> frame c2 c3 -> frame c1 c3.
Proof. intros [A B] [A' B']. split; congruence. Qed.

(** ** facts about units and sets *)

Lemma wild_copies l s : alookup str_eqb l wild = Some s ->
  shaped L s /\ forall v w, (forall j, v (TP j) = w (TP j)) -> (forall i, v (TS i) = w (TS i)) ->
    mem L s v = mem L s w.
Proof.
  intro E. destruct (wild_ok l s E) as [SS ES]. split; [exact SS|]. intros v w H1 H2.
  apply bool_eq_iff. rewrite !ES. apply (Gamma_agree Gamma Gx).
  intros [j|i|i e'] Hg; [apply H1 | apply H2 | discriminate Hg].
Qed.

Lemma doms_copies l s : alookup str_eqb l doms = Some s ->
  shaped L s /\ forall v w, (forall j, v (TP j) = w (TP j)) -> (forall i, v (TS i) = w (TS i)) ->
    mem L s v = mem L s w.
Proof.
  intro E. destruct (doms_ok l s E) as (SS & XS & _). split; [exact SS|]. intros v w H1 H2.
  apply XS. intros [j|i|i e'] Hg; [apply H1 | apply H2 | discriminate Hg].
Qed.

Lemma st_shapedX : shaped L st.
Proof. destruct WF. apply shaped_steady_of; assumption. Qed.

Lemma st_copiesX : forall v w, (forall j, v (TP j) = w (TP j)) -> (forall i, v (TS i) = w (TS i)) ->
  mem L st v = mem L st w.
Proof. exact (CacheGen.steady_of_ignores_copies G names Utop WF). Qed.

(** in a clean scope the unit is the top-level unit *)
Lemma clean_unit c bound Uc d : ctxinv c bound Uc d -> clean (free_doms c) -> Uc = Utop.
Proof.
  intros (_ & HU & _ & _ & HR) CL. apply (tt_ext L).
  - apply (wf_nodup _ _ _ WF).
  - apply (uo_shaped _ _ _ _ HU).
  - apply (wf_U_shaped _ _ _ WF).
  - intro w. apply bool_eq_iff. rewrite HR. split; [tauto|]. intro H. split; [exact H|].
    intros y dl dset e E. apply CL in E. discriminate E.
Qed.

(** agreement inside the unit transfers the weak invariant *)
Lemma spec_in_sub Uc U0 S P : (forall w, mem L Uc w = true -> mem L U0 w = true) ->
  spec_in G U0 S P -> spec_in G Uc S P.
Proof. intros H [SS E]. split; [exact SS|]. intros w Hw. apply E, H, Hw. Qed.

(** the quantifier only looks at its body inside the (restricted) unit *)
Lemma ehq_exact U Ur o e a a' : shaped L Ur -> shaped L a -> shaped L a' ->
  (forall w, mem L Ur w = true -> mem L a w = mem L a' w) ->
  eval_hybrid_quantifier G U Ur o e a = eval_hybrid_quantifier G U Ur o e a'.
Proof.
  intros SR Sa Sa' H. pose proof (wf_nodup _ _ _ WF) as ND.
  assert (tand a Ur = tand a' Ur) as E1.
  { apply (tt_ext L); try apply shaped_tand; try assumption. intro w.
    rewrite !mem_tand by assumption. destruct (mem L Ur w) eqn:E; [rewrite (H w E); reflexivity|].
    rewrite !andb_false_r. reflexivity. }
  assert (eval_neg Ur a = eval_neg Ur a') as E2.
  { unfold eval_neg. apply (tt_ext L); try apply shaped_tminus; try assumption. intro w.
    rewrite !mem_tminus by assumption. destruct (mem L Ur w) eqn:E; [rewrite (H w E); reflexivity|].
    reflexivity. }
  destruct o; cbn [eval_hybrid_quantifier]; rewrite ?E1, ?E2; reflexivity.
Qed.

(** ** a hit on a regular entry *)

Lemma set_state_copy_from dset e0 e w : extras_indep G dset ->
  mem L dset (set_state e0 (copy_from e0 e w)) = mem L dset (set_state e w).
Proof.
  intro XD. apply XD. intros [j|i|i e'] Hg; cbn [set_state copy_from]; try reflexivity.
  - rewrite Nat.eqb_refl. reflexivity.
  - discriminate Hg.
Qed.

Theorem hit_okX t c bound Uc d canon ren S rn :
  gx t -> depth_named d t -> ctxinv c bound Uc d ->
  canonize (render t) = (canon, ren) ->
  reg_entry (canon, canon_domains (free_doms c) ren []) S rn ->
  exists R, rename_back G rn ren S = Ok R /\ nres (clean (free_doms c)) t Uc R.
Proof.
  intros GT DN CI CT (t0 & d0 & bound0 & U0 & GT0 & DN0 & NW0 & SC0 & HU0 & CT0 & LEN & SP0 & PR & T2).
  cbn [fst snd] in CT0, PR, T2.
  pose proof GT as (W & Kn & Su). pose proof GT0 as (W0 & Kn0 & Su0).
  pose proof CI as (_ & HU & NDf & _ & HR).
  assert (forall w, mem L Uc w = true -> mem L Utop w = true) as USub by apply (uo_sub _ _ _ _ HU).
  assert (fst (canonize (render t)) = fst (canonize (render t0))) as E by (rewrite CT, CT0; reflexivity).
  assert (length (snd (canonize (render t0))) <= 1) as LEN0 by (rewrite CT0; exact LEN).
  destruct (hit_shape ea true d d0 t t0 W W0 DN DN0 E LEN0)
    as [[M0 ->] | (x0 & x & cn & M0 & M & O0 & O & OV0 & ET)];
    rewrite CT0 in M0; cbn [snd] in M0; subst rn.
  - (* no variable at all: the same tree *)
    exists S. split; [reflexivity|].
    assert (ren = []) as -> by (rewrite CT in CT0; congruence).
    rewrite canon_domains_nil in PR, T2. split.
    + eapply spec_in_sub; [|exact SP0]. intros w Hw. apply PR; [apply USub, Hw|].
      intros ? ? ? ? ? X. discriminate X.
    + intro CL. rewrite (clean_unit c bound Uc d CI CL). apply T2. intros ? ? [].
  - rewrite CT in M. cbn [snd] in M. subst ren.
    rewrite (canon_domains_single _ x cn NDf) in PR, T2.
    destruct (var_of G x0) as [e0|] eqn:V0; [|exfalso; exact (supported_occurs G t0 x0 Su0 O0 V0)].
    destruct (var_of G x) as [e|] eqn:V; [|exfalso; exact (supported_occurs G t x Su O V)].
    pose proof (var_of_id G x0 e0 V0) as I0. pose proof (var_of_id G x e V) as I1.
    destruct (var_id_of G x0 e0 I0) as [_ K0]. destruct (var_id_of G x e I1) as [_ K1].
    exists (substitute_hctl_var G S e0 e). split.
    { cbn [rename_back find snd]. rewrite str_eqb_refl. rewrite I0, I1. reflexivity. }
    pose proof (only_var_vmap x0 t0 OV0) as ET0.
    destruct SP0 as [SS ES].
    (* the restrictions of the key hold at the renamed valuation *)
    assert (forall w, mem L Uc w = true -> mem L U0 (copy_from e0 e w) = true) as INU.
    { intros w Hw. apply PR.
      - rewrite <- (USub w Hw). apply (wf_U_colour _ _ _ WF). intro j. reflexivity.
      - intros x0' cn' dl dset e0' X LK ED V0'. injection X as <- <-.
        assert (e0' = e0) by congruence. subst e0'.
        destruct (alookup str_eqb x (free_doms c)) as [dx|] eqn:FX; [|discriminate LK].
        cbn [sinsert alookup] in LK. rewrite str_eqb_refl in LK. injection LK as ->.
        destruct (doms_ok dl dset ED) as (_ & XD & _).
        rewrite (set_state_copy_from dset e0 e w XD).
        apply (proj1 (HR w) Hw) with (y := x) (dl := dl); assumption. }
    assert (clean (free_doms c) -> all_none
              (match alookup str_eqb x (free_doms c) with Some d1 => sinsert cn d1 [] | None => [] end)) as AN.
    { intros CL cn' d' IN. destruct (alookup str_eqb x (free_doms c)) as [dx|] eqn:FX; [|destruct IN].
      cbn [sinsert In] in IN. destruct IN as [X | []]. injection X as <- <-. exact (CL x dx FX). }
    destruct (Nat.eq_dec e0 e) as [EQ | NE].
    + (* same copy: same name, same tree *)
      subst e0. unfold substitute_hctl_var. rewrite Nat.eqb_refl.
      destruct (occurs_depth_named t0 d0 x0 DN0 O0) as [j0 ->].
      destruct (occurs_depth_named t d x DN O) as [j ->].
      unfold var_of in V0, V. cbn [xs repeat_n] in V0, V. fold (xs j0) in V0. fold (xs j) in V.
      rewrite xs_length in V0, V.
      destruct (Nat.ltb j0 (g_k G)); [|discriminate]. destruct (Nat.ltb j (g_k G)); [|discriminate].
      assert (j0 = j) by congruence. subst j0. rewrite ET, ET0. split.
      * split; [exact SS|]. intros w Hw. apply ES. specialize (INU w Hw).
        rewrite <- INU. apply mem_agree. intros g Hg. destruct g as [j1|i|i e']; cbn [copy_from]; try reflexivity.
        destruct (Nat.eqb e e') eqn:Q; [|reflexivity]. apply Nat.eqb_eq in Q. subst e'. reflexivity.
      * intro CL. rewrite (clean_unit c bound Uc d CI CL). apply T2, AN, CL.
    + split.
      * split; [apply (shaped_substitute G), SS|]. intros w Hw.
        rewrite (mem_substitute G names Utop WF S e0 e w SS K0 K1 NE).
        rewrite (ES _ (INU w Hw)). rewrite ET. rewrite <- ET0 at 1. symmetry.
        apply (sat_rename_ext G names Utop WF Gamma Gx x x0 e e0 V V0 t0). apply crel_copy_from.
      * intro CL. rewrite (clean_unit c bound Uc d CI CL). rewrite ET.
        specialize (T2 (AN CL)). rewrite <- ET0 in T2.
        exact (peval_ext_rename G names Utop WF sw st wild doms x x0 e e0 t0 S st_shapedX st_copiesX
                 wild_copies doms_copies I1 I0 NE T2).
Qed.

(** ** the store: hits and saves keep the invariants *)

Lemma non_wild_text t : gx t -> is_wild_terminal t = false ->
  forall r, fst (canonize (render t)) <> c_pct :: r.
Proof. intros (W & _) NW. apply render_head; [eapply well_named_linkable; exact W | exact NW]. Qed.

Lemma not_wild_key (k : key) p : (forall r, fst k <> c_pct :: r) -> wild_key p <> k.
Proof. intros H E. subst k. apply (H (p ++ [c_pct])). reflexivity. Qed.

Lemma wild_present_cache_other c k (f : list (key * (tt * list (str * str))) -> list (key * (tt * list (str * str)))) :
  (forall r, fst k <> c_pct :: r) ->
  (forall k', k' <> k -> alookup key_eqb k' (f (cache c)) = alookup key_eqb k' (cache c)) ->
  wild_present c -> wild_present (set_cache c (f (cache c))).
Proof.
  intros NK HF WP p s E. destruct (WP p s E) as [A B]. split; [exact A|].
  cbn [cache set_cache]. rewrite HF; [exact B | apply not_wild_key, NK].
Qed.

Lemma amem_aremove_other {B} (k k' : key) (l : list (key * B)) : k' <> k ->
  amem key_eqb k' (aremove key_eqb k l) = amem key_eqb k' l.
Proof. intro NE. unfold amem. rewrite (alookup_aremove_other key_eqb key_eqb_eq) by exact NE. reflexivity. Qed.

Lemma amem_ainsert_other {B} (k k' : key) (v : B) (l : list (key * B)) : k' <> k ->
  amem key_eqb k' (ainsert key_eqb k v l) = amem key_eqb k' l.
Proof. intro NE. unfold amem. rewrite (alookup_ainsert_other key_eqb key_eqb_eq) by exact NE. reflexivity. Qed.

Lemma hit_ctx_okX t k c : is_wild_terminal t = false -> (forall r, fst k <> c_pct :: r) ->
  storeinv c -> storeinv (hit_ctx t k c) /\ frame c (hit_ctx t k c).
Proof.
  intros NW NK (CO & DO & WP). unfold hit_ctx. rewrite NW.
  destruct (alookup key_eqb k (duplicates c)) as [[|[|m]]|] eqn:E.
  - split; [|split; reflexivity]. split; [|split].
    + intros k' S rn IN. apply (CO k' S rn). cbn [cache set_cache set_dups] in IN. eapply in_aremove; exact IN.
    + intros k' m' IN. apply (DO k' m'). cbn [duplicates set_cache set_dups] in IN. eapply in_aremove; exact IN.
    + intros p s Ep. destruct (WP p s Ep) as [A B]. cbn [duplicates cache set_cache set_dups].
      rewrite amem_aremove_other by (apply not_wild_key, NK).
      rewrite (alookup_aremove_other key_eqb key_eqb_eq) by (apply not_wild_key, NK).
      split; assumption.
  - split; [|split; reflexivity]. split; [|split].
    + intros k' S rn IN. apply (CO k' S rn). cbn [cache set_cache set_dups] in IN. eapply in_aremove; exact IN.
    + intros k' m' IN. apply (DO k' m'). cbn [duplicates set_cache set_dups] in IN. eapply in_aremove; exact IN.
    + intros p s Ep. destruct (WP p s Ep) as [A B]. cbn [duplicates cache set_cache set_dups].
      rewrite amem_aremove_other by (apply not_wild_key, NK).
      rewrite (alookup_aremove_other key_eqb key_eqb_eq) by (apply not_wild_key, NK).
      split; assumption.
  - split; [|split; reflexivity]. split; [exact CO|]. split.
    + intros k' m' [EQ | IN].
      * injection EQ as <- <-. apply (DO k (S (S m))). apply alookup_key_in, E.
      * apply (DO k' m'). eapply in_aremove; exact IN.
    + intros p s Ep. destruct (WP p s Ep) as [A B]. cbn [duplicates cache set_dups].
      rewrite amem_ainsert_other by (apply not_wild_key, NK). split; assumption.
  - split; [exact (conj CO (conj DO WP)) | split; reflexivity].
Qed.

Lemma finishX k ren save R c1 :
  (save = true -> reg_entry k R ren) -> (forall r, fst k <> c_pct :: r) -> storeinv c1 ->
  exists c', finish_at k ren save (R, c1) = Ok (R, c') /\ storeinv c' /\ frame c1 c'.
Proof.
  intros HE NK (CO & DO & WP). unfold finish_at. destruct save.
  - eexists. split; [reflexivity|]. cbn [fst snd]. split; [|split; reflexivity].
    split; [|split; [exact DO|]].
    + intros k' S rn [EQ | IN].
      * injection EQ as <- <- <-. right. apply HE. reflexivity.
      * apply (CO k' S rn). eapply in_aremove; exact IN.
    + intros p s Ep. destruct (WP p s Ep) as [A B]. cbn [duplicates cache set_cache]. split; [exact A|].
      rewrite (alookup_ainsert_other key_eqb key_eqb_eq) by (apply not_wild_key, NK).
      exact B.
  - exists c1. split; [reflexivity|]. split; [exact (conj CO (conj DO WP)) | apply frame_refl].
Qed.

(** the entry stored at the end of a cache miss *)
Lemma save_entry t c bound Uc d R :
  gx t -> depth_named d t -> is_wild_terminal t = false -> scoped bound t ->
  ctxinv c bound Uc d -> nres (clean (free_doms c)) t Uc R -> dups_okX c ->
  amem key_eqb (key_of c t) (duplicates c)
  && negb (foreign_restriction (free_doms c) (snd (canonize (render t)))) = true ->
  reg_entry (key_of c t) R (snd (canonize (render t))).
Proof.
  intros GT DN NW SC CI [SP EX] DO SV. apply andb_true_iff in SV. destruct SV as [DUP NF].
  apply negb_true_iff in NF. pose proof GT as (W & _).
  pose proof CI as (_ & HU & NDf & _ & HR).
  destruct (in_amem _ _ DUP) as [m IN].
  assert (length (snd (canonize (render t))) <= 1) as LEN.
  { destruct (DO _ _ IN) as [[r Hr] | ST]; [exfalso; exact (non_wild_text t GT NW r Hr)|].
    apply (ST t d W DN). reflexivity. }
  set (ren := snd (canonize (render t))) in *.
  (* a restricted variable in scope is the variable of the one-entry map *)
  assert (forall y dl, alookup str_eqb y (free_doms c) = Some (Some dl) ->
            exists cn, ren = [(y, cn)] /\ snd (key_of c t) = [(cn, Some dl)]) as ONE.
  { intros y dl FY. destruct (foreign_false _ _ NF y (Some dl) (alookup_some_in _ _ _ FY)) as [AM | X];
      [|discriminate X].
    destruct (short_list _ LEN) as [E0 | [[x cn] E1]].
    - rewrite E0 in AM. discriminate AM.
    - rewrite E1 in AM. unfold amem in AM. cbn [alookup] in AM.
      destruct (str_eqb y x) eqn:Q; [|discriminate AM]. str_eq. subst x.
      exists cn. split; [exact E1|]. unfold key_of. cbn [snd]. fold ren. rewrite E1.
      rewrite (canon_domains_single _ y cn NDf), FY. reflexivity. }
  exists t, d, bound, Uc. split; [exact GT|]. split; [exact DN|]. split; [exact NW|].
  split; [exact SC|]. split; [exact HU|].
  split; [unfold key_of; cbn [fst]; subst ren; destruct (canonize (render t)); reflexivity|].
  split; [exact LEN|]. split; [exact SP|]. split.
  - intros w Hw KR. apply HR. split; [exact Hw|]. intros y dl dset e FY ED VY.
    destruct (ONE y dl FY) as (cn & E1 & E2).
    apply (KR y cn dl dset e E1); try assumption. rewrite E2. cbn [alookup]. rewrite str_eqb_refl. reflexivity.
  - intro AN.
    assert (clean (free_doms c)) as CL.
    { intros y [dl|] FY; [|reflexivity]. destruct (ONE y dl FY) as (cn & _ & E2).
      apply (AN cn). rewrite E2. left. reflexivity. }
    specialize (EX CL). rewrite (clean_unit c bound Uc d CI CL) in EX. exact EX.
Qed.

(** ** one step of the evaluator, on results that are exact inside the unit *)

Ltac pevx_unfold :=
  rewrite peval_ext_eq; cbn [is_attractor_pattern is_fixed_point_pattern];
  rewrite ?andb_false_r; cbn [peval_ext_body].

Lemma unary_stepX bound Uc (C : Prop) o a A :
  unit_ok bound Uc -> nres C a Uc A ->
  exists R,
    match o with
    | Not => Ok (eval_neg Uc A)
    | EX => Ok (eval_ex G A st)
    | AX => Ok (eval_ax G Uc A st)
    | EF => eval_ef_saturated G Uc A
    | AF => eval_af G Uc A st
    | EG => eval_eg G A st
    | AG => eval_ag G Uc A
    end = Ok R /\ nres C (Unary o a) Uc R.
Proof.
  intros HU [SP EX]. pose proof SP as [SA _]. pose proof st_shapedX as SST.
  destruct HU as [US USt USub UC]. destruct WF.
  assert (forall R, match o with
    | Not => Ok (eval_neg Uc A) | EX => Ok (eval_ex G A st) | AX => Ok (eval_ax G Uc A st)
    | EF => eval_ef_saturated G Uc A | AF => eval_af G Uc A st | EG => eval_eg G A st
    | AG => eval_ag G Uc A end = Ok R -> C -> pevx (Unary o a) Uc = Ok R) as EXA.
  { intros R E HC. pevx_unfold. rewrite (EX HC). cbn [bind]. exact E. }
  destruct o.
  - eexists. split; [reflexivity|]. split; [eapply in_neg; eauto | apply EXA; reflexivity].
  - eexists. split; [reflexivity|]. split; [eapply in_ex; eauto | apply EXA; reflexivity].
  - eexists. split; [reflexivity|]. split; [eapply in_ax; eauto | apply EXA; reflexivity].
  - destruct (ef_terminates G wf_nodup wf_upd_shaped Uc A US SA) as (R & E & _).
    exists R. split; [exact E|]. split; [eapply in_ef; eauto | apply EXA; exact E].
  - destruct (af_terminates G wf_nodup wf_upd_shaped Uc A st US SA SST) as (R & E & _).
    exists R. split; [exact E|]. split; [eapply in_af; eauto | apply EXA; exact E].
  - destruct (eg_terminates G wf_nodup wf_upd_shaped A st SA SST) as (R & E & _).
    exists R. split; [exact E|]. split; [eapply in_eg; eauto | apply EXA; exact E].
  - destruct (ag_terminates G wf_nodup wf_upd_shaped Uc A US SA) as (R & E & _).
    exists R. split; [exact E|]. split; [eapply in_ag; eauto | apply EXA; exact E].
Qed.

Lemma binary_stepX bound Uc (C : Prop) o a b A B :
  unit_ok bound Uc -> nres C a Uc A -> nres C b Uc B ->
  exists R,
    match o with
    | And => Ok (tand A B)
    | Or => Ok (tor A B)
    | Xor => Ok (eval_xor Uc A B)
    | Imp => Ok (eval_imp Uc A B)
    | Iff => Ok (eval_equiv Uc A B)
    | EU => eval_eu_saturated G A B
    | AU => eval_au G Uc A B st
    | EW => eval_ew G Uc A B st
    | AW => eval_aw G Uc A B
    end = Ok R /\ nres C (Binary o a b) Uc R.
Proof.
  intros HU [SPa EXa] [SPb EXb]. pose proof SPa as [SA _]. pose proof SPb as [SB _].
  pose proof st_shapedX as SST.
  destruct HU as [US USt USub UC]. destruct WF.
  assert (forall R, match o with
    | And => Ok (tand A B) | Or => Ok (tor A B) | Xor => Ok (eval_xor Uc A B)
    | Imp => Ok (eval_imp Uc A B) | Iff => Ok (eval_equiv Uc A B)
    | EU => eval_eu_saturated G A B | AU => eval_au G Uc A B st
    | EW => eval_ew G Uc A B st | AW => eval_aw G Uc A B end = Ok R ->
    C -> pevx (Binary o a b) Uc = Ok R) as EXA.
  { intros R E HC. pevx_unfold. rewrite (EXa HC), (EXb HC). cbn [bind]. exact E. }
  destruct o.
  - eexists. split; [reflexivity|]. split; [eapply in_and; eauto | apply EXA; reflexivity].
  - eexists. split; [reflexivity|]. split; [eapply in_or; eauto | apply EXA; reflexivity].
  - eexists. split; [reflexivity|]. split; [eapply in_xor; eauto | apply EXA; reflexivity].
  - eexists. split; [reflexivity|]. split; [eapply in_imp; eauto | apply EXA; reflexivity].
  - eexists. split; [reflexivity|]. split; [eapply in_equiv; eauto | apply EXA; reflexivity].
  - destruct (eu_terminates G wf_nodup wf_upd_shaped A B SA SB) as (R & E & _).
    exists R. split; [exact E|]. split; [eapply in_eu; eauto | apply EXA; exact E].
  - destruct (au_terminates G wf_nodup wf_upd_shaped Uc A B st US SA SB SST) as (R & E & _).
    exists R. split; [exact E|]. split; [eapply in_au; eauto | apply EXA; exact E].
  - destruct (ew_terminates G wf_nodup wf_upd_shaped Uc A B st US SA SB SST) as (R & E & _).
    exists R. split; [exact E|]. split; [eapply in_ew; eauto | apply EXA; exact E].
  - destruct (aw_terminates G wf_nodup wf_upd_shaped Uc A B US SA SB) as (R & E & _).
    exists R. split; [exact E|]. split; [eapply in_aw; eauto | apply EXA; exact E].
Qed.

Lemma terminal_stepX bound Uc (C : Prop) a :
  unit_ok bound Uc ->
  match a with
  | AProp nm => forall i, index_of nm names 0 = Some i -> nres C (Terminal a) Uc (eval_prop G Uc i)
  | AVar y => forall e, hctl_var_id G y = Ok e -> nres C (Terminal a) Uc (eval_hctl_var G Uc e)
  | ATrue => nres C (Terminal a) Uc Uc
  | AFalse => nres C (Terminal a) Uc (empty G)
  | AWild l => forall s, alookup str_eqb l wild = Some s -> nres C (Terminal a) Uc s
  end.
Proof.
  intros HU. destruct HU as [US USt USub UC]. destruct WF.
  destruct a as [nm | y | | | l].
  - intros i E. split; [|intros _; pevx_unfold; rewrite E; reflexivity].
    eapply in_ext; [eapply in_prop; eauto|].
    intros w Hu. simpl. rewrite <- index_of_prop_index. split.
    + intro Hv. exists i. auto.
    + intros [j [Hj Hv]]. congruence.
  - intros e E. split; [|intros _; pevx_unfold; rewrite E; reflexivity].
    destruct (var_id_of _ _ _ E) as [Ev Hk].
    eapply in_ext; [eapply in_var; eauto|].
    intros w Hu. simpl. split.
    + intro Hc. exists e. auto.
    + intros [e' [He' Hc]]. assert (e' = e) by congruence. subst. exact Hc.
  - split; [apply in_unit; assumption | intros _; pevx_unfold; reflexivity].
  - split; [apply in_empty | intros _; pevx_unfold; reflexivity].
  - intros s E. split; [|intros _; pevx_unfold; rewrite E; reflexivity].
    destruct (wild_ok _ _ E) as [Ss Es]. split; [assumption|]. intros w _. simpl. apply Es.
Qed.

Lemma jump_stepX bound Uc (C : Prop) x d a A :
  unit_ok bound Uc -> var_of G x <> None -> nres C a Uc A ->
  exists e, hctl_var_id G x = Ok e /\ nres C (Hybrid Jump x d a) Uc (eval_jump G Uc A e).
Proof.
  intros HU Hx [SP EX].
  destruct (var_of G x) as [e|] eqn:Ev; [|congruence].
  pose proof (var_of_id G x e Ev) as E. destruct (var_id_of _ _ _ E) as [_ Hk].
  exists e. split; [exact E|]. split.
  - destruct HU as [US USt USub UC]. destruct WF.
    eapply in_ext; [eapply in_jump; eauto|].
    intros w Hu. simpl. split.
    + intro Hs. exists e. auto.
    + intros [e' [He' Hs]]. assert (e' = e) by congruence. subst. exact Hs.
  - intro HC. rewrite peval_ext_eq. cbn [is_attractor_pattern is_fixed_point_pattern].
    rewrite !andb_false_r. cbn [peval_ext_body]. rewrite (EX HC). cbn [bind]. rewrite E. reflexivity.
Qed.

(** a quantifier without domain *)
Lemma quant_stepX bound Uc (C : Prop) o x a A e :
  o <> Jump -> unit_ok bound Uc -> var_of G x = Some e -> ~ In e bound ->
  use_patterns sw && is_attractor_pattern (Hybrid o x None a) = false ->
  use_patterns sw && is_fixed_point_pattern (Hybrid o x None a) = false ->
  nres C a Uc A ->
  exists R, eval_hybrid_quantifier G Uc Uc o e A = Ok R /\ nres C (Hybrid o x None a) Uc R.
Proof.
  intros Ho HU Ev Hnb PA PF [SP EX].
  pose proof (var_of_id G x e Ev) as E. destruct (var_id_of _ _ _ E) as [_ Hk].
  pose proof (uo_copy _ _ _ _ HU e Hnb) as Hce.
  assert (forall R, eval_hybrid_quantifier G Uc Uc o e A = Ok R -> C -> pevx (Hybrid o x None a) Uc = Ok R) as EXA.
  { intros R ER HC. rewrite peval_ext_eq, PA, PF. destruct o; try congruence;
      cbn [peval_ext_body]; rewrite (EX HC); cbn [bind]; rewrite E; cbn [bind]; exact ER. }
  destruct HU as [US USt USub UC]. destruct WF.
  destruct o; try congruence; cbn [eval_hybrid_quantifier] in *; eexists; (split; [reflexivity|]);
    (split; [|apply EXA; reflexivity]).
  - eapply in_ext; [eapply in_bind; eauto|].
    intros w Hu. simpl. split.
    + intro Hs. exists e. auto.
    + intros [e' [He' [_ Hs]]]. assert (e' = e) by congruence. subst. exact Hs.
  - eapply in_ext; [eapply in_exists; eauto|].
    intros w Hu. simpl. split.
    + intros [u Hs]. exists e. split; [assumption|]. exists u. auto.
    + intros [e' [He' [u [_ Hs]]]]. assert (e' = e) by congruence. subst. exists u. exact Hs.
  - eapply in_ext; [eapply in_forall; eauto|].
    intros w Hu. simpl. split.
    + intro Hs. exists e. split; [assumption|]. intros u _. apply Hs.
    + intros [e' [He' Hs]]. assert (e' = e) by congruence. subst. intro u. apply Hs. exact I.
Qed.

(** the pattern shortcuts *)
Lemma attractor_stepX bound Uc (C : Prop) o x d a :
  unit_ok bound Uc -> scoped bound (Hybrid o x d a) ->
  use_patterns sw && is_attractor_pattern (Hybrid o x d a) = true ->
  exists e R, hctl_var_id G (pattern_var (Hybrid o x d a)) = Ok e /\ attractors G Uc e = Ok R
              /\ nres C (Hybrid o x d a) Uc R.
Proof.
  intros HU Hsc PA. pose proof PA as PA'. apply andb_true_iff in PA'. destruct PA' as [_ PA'].
  destruct (attractor_pattern_inv _ PA') as [y Ey]. injection Ey as -> -> -> ->.
  destruct Hsc as [e [Ev [Hnb _]]]. pose proof (var_of_id G y e Ev) as E.
  destruct (var_id_of _ _ _ E) as [_ Hk].
  destruct (total_attractorsx G (wf_nodup _ _ _ WF) (wf_upd_shaped _ _ _ WF) Uc e (uo_shaped _ _ _ _ HU))
    as (R & ER & _).
  exists e, R. cbn [pattern_var]. split; [exact E|]. split; [exact ER|]. split.
  - eapply attractor_pattern_in; eauto. apply (uo_copy _ _ _ _ HU). exact Hnb.
  - intros _. rewrite peval_ext_eq, PA. cbn [pattern_var]. rewrite E. cbn [bind]. exact ER.
Qed.

Lemma fixed_point_stepX bound Uc (C : Prop) o x d a :
  unit_ok bound Uc -> scoped bound (Hybrid o x d a) ->
  use_patterns sw && is_attractor_pattern (Hybrid o x d a) = false ->
  use_patterns sw && is_fixed_point_pattern (Hybrid o x d a) = true ->
  nres C (Hybrid o x d a) Uc st.
Proof.
  intros HU Hsc PA PF. pose proof PF as PF'. apply andb_true_iff in PF'. destruct PF' as [_ PF'].
  destruct (fixed_point_pattern_inv _ PF') as [y Ey]. injection Ey as -> -> -> ->.
  destruct Hsc as [e [Ev _]]. split.
  - eapply steady_pattern_in; eauto. congruence.
  - intros _. rewrite peval_ext_eq, PA, PF. reflexivity.
Qed.

(** a quantifier with a domain whose restricted unit is empty: the early return *)
Lemma dom_empty_stepX bound Uc (C : Prop) o x dl a dset e :
  o <> Jump -> unit_ok bound Uc -> var_of G x = Some e -> ~ In e bound ->
  alookup str_eqb dl doms = Some dset ->
  is_empty (tand Uc (compute_valid_domain_for_var G Uc dset e)) = true ->
  nres C (Hybrid o x (Some dl) a) Uc (match o with Forall => Uc | _ => empty G end).
Proof.
  intros Ho HU Ev Hnb ED Emp.
  pose proof (var_of_id G x e Ev) as E. destruct (var_id_of _ _ _ E) as [_ Hk].
  destruct (doms_ok _ _ ED) as [SD [XD GD]].
  pose proof (uo_copy _ _ _ _ HU e Hnb) as Hce.
  split; [|intros _; apply (peval_ext_early_return G names Utop sw wild doms o x dl a dset e Uc); assumption].
  destruct HU as [US USt USub UC]. destruct WF.
  pose proof (Ur_empty G wf_nodup wf_TS_in wf_TX_in wf_TS_bound Uc US USt dset e Hk SD XD Hce Emp) as Hno.
  destruct o; try congruence.
  - eapply in_ext; [apply in_empty|]. intros w Hw. simpl. split; [tauto|].
    intros [e' [_ [Hd _]]]. apply GD in Hd.
    rewrite <- (with_state_self_mem G dset w XD) in Hd. rewrite (Hno w w Hw) in Hd. discriminate.
  - eapply in_ext; [apply in_empty|]. intros w Hw. simpl. split; [tauto|].
    intros [e' [_ [u [Hd _]]]]. apply GD in Hd. rewrite (Hno u w Hw) in Hd. discriminate.
  - eapply in_ext; [apply in_unit; assumption|]. intros w Hw. simpl. split; [|tauto].
    intros _. exists e. split; [assumption|]. intros u Hd. apply GD in Hd.
    rewrite (Hno u w Hw) in Hd. discriminate.
Qed.

(** a quantifier with a domain: the body is only needed inside the restricted unit, and the
    result is EXACTLY that of the cache-free evaluator *)
Lemma dom_stepX bound Uc (C : Prop) o x dl a dset e A :
  o <> Jump -> unit_ok bound Uc -> var_of G x = Some e -> ~ In e bound ->
  alookup str_eqb dl doms = Some dset ->
  is_empty (tand Uc (compute_valid_domain_for_var G Uc dset e)) = false ->
  gx a -> scoped (e :: bound) a ->
  spec_in G (tand Uc (compute_valid_domain_for_var G Uc dset e)) A (Sat a) ->
  exists R, eval_hybrid_quantifier G Uc (tand Uc (compute_valid_domain_for_var G Uc dset e)) o e A = Ok R
            /\ nres C (Hybrid o x (Some dl) a) Uc R.
Proof.
  intros Ho HU Ev Hnb ED Emp (Wa & Ka & Sa) Hsa SP.
  pose proof (var_of_id G x e Ev) as E. destruct (var_id_of _ _ _ E) as [_ Hk].
  destruct (doms_ok _ _ ED) as [SD [XD GD]].
  pose proof (uo_copy _ _ _ _ HU e Hnb) as Hce.
  set (Ur := tand Uc (compute_valid_domain_for_var G Uc dset e)) in *.
  assert (HUr : unit_ok (e :: bound) Ur) by (apply (restricted_unit_ok G names Utop WF); assumption).
  assert (exists R, eval_hybrid_quantifier G Uc Ur o e A = Ok R) as [R ER]
    by (destruct o; try congruence; eexists; reflexivity).
  exists R. split; [exact ER|]. split.
  - destruct HU as [US USt USub UC]. destruct WF. subst Ur.
    destruct o; try congruence; cbn [eval_hybrid_quantifier] in ER; injection ER as <-.
    + eapply in_ext; [eapply in_bind_domain; eauto|].
      intros w Hw. simpl. split.
      * intros [Hd Hs]. exists e. split; [assumption|]. split; [apply GD; exact Hd | exact Hs].
      * intros [e' [He' [Hd Hs]]]. assert (e' = e) by congruence. subst e'.
        split; [apply GD; exact Hd | exact Hs].
    + eapply in_ext; [eapply in_exists_domain; eauto|].
      intros w Hw. simpl. split.
      * intros [u [Hd Hs]]. exists e. split; [assumption|]. exists u.
        split; [apply GD; exact Hd | exact Hs].
      * intros [e' [He' [u [Hd Hs]]]]. assert (e' = e) by congruence. subst e'.
        exists u. split; [apply GD; exact Hd | exact Hs].
    + eapply in_ext; [eapply in_forall_domain; eauto|].
      intros w Hw. simpl. split.
      * intros Hall. exists e. split; [assumption|]. intros u Hd. apply Hall. apply GD. exact Hd.
      * intros [e' [He' Hall]]. assert (e' = e) by congruence. subst e'.
        intros u Hd. apply Hall. apply GD. exact Hd.
  - intros _.
    assert (shaped L Ur) as SUr by apply (uo_shaped _ _ _ _ HUr).
    destruct (peval_ext_total G names sw st wild doms (wf_nodup _ _ _ WF) (wf_upd_shaped _ _ _ WF)
                st_shapedX (fun l s0 H => proj1 (wild_ok l s0 H)) (fun l s0 H => proj1 (doms_ok l s0 H))
                a Ur SUr Ka Sa) as (A' & EA' & SA').
    pose proof (peval_ext_sound G names Utop WF Gamma sw wild doms wild_ok doms_ok a (e :: bound) Ur A' HUr Hsa EA')
      as [_ ES'].
    destruct SP as [SA ES].
    rewrite peval_ext_eq.
    assert (use_patterns sw && is_attractor_pattern (Hybrid o x (Some dl) a) = false) as ->
      by (destruct o; cbn; apply andb_false_r).
    assert (use_patterns sw && is_fixed_point_pattern (Hybrid o x (Some dl) a) = false) as ->
      by (destruct o; cbn; apply andb_false_r).
    assert (eval_hybrid_quantifier G Uc Ur o e A' = Ok R) as ER'.
    { rewrite <- ER. apply ehq_exact; try assumption. intros w Hw. apply bool_eq_iff.
      rewrite (ES' w Hw), (ES w Hw). reflexivity. }
    destruct o; try congruence; cbn [peval_ext_body]; rewrite ED, E; cbn [bind]; fold Ur; rewrite Emp, EA';
      cbn [bind]; exact ER'.
Qed.

(** ** opening and closing scopes *)

Lemma nres_mono (C C' : Prop) t Uc R : (C' -> C) -> nres C t Uc R -> nres C' t Uc R.
Proof. intros H [A B]. split; [exact A | intro HC; apply B, H, HC]. Qed.

Lemma ctxinv_frame c c1 bound Uc d : frame c c1 -> ctxinv c bound Uc d -> ctxinv c1 bound Uc d.
Proof.
  intros [F1 F2] (A & B & C0 & D & E). unfold ctxinv. rewrite F1, F2.
  exact (conj A (conj B (conj C0 (conj D E)))).
Qed.

Lemma clean_open_none fd x : alookup str_eqb x fd = None ->
  (clean (sinsert x None fd) <-> clean fd).
Proof.
  intro FX. split; intros CL y dy E.
  - destruct (str_eqb y x) eqn:Q; str_eq.
    + subst y. congruence.
    + apply (CL y). rewrite alookup_sinsert by exact Q. exact E.
  - destruct (str_eqb y x) eqn:Q; str_eq.
    + subst y. rewrite alookup_sinsert_same in E. congruence.
    + rewrite alookup_sinsert in E by exact Q. exact (CL y dy E).
Qed.

Lemma ctxinv_open c bound Uc d x dm :
  ctxinv c bound Uc d -> x = xs (S d) ->
  let c0 := set_free c (sinsert x dm (free_doms c)) in
  domain_sets c0 = doms /\ NoDup (map fst (free_doms c0))
  /\ (forall j, S d <= j -> alookup str_eqb (xs (S j)) (free_doms c0) = None)
  /\ alookup str_eqb x (free_doms c) = None.
Proof.
  intros (A & _ & ND & FR & _) ->. cbn zeta. cbn [free_doms domain_sets set_free].
  assert (alookup str_eqb (xs (S d)) (free_doms c) = None) as FX by (apply FR; lia).
  split; [exact A|]. split; [apply sinsert_nodup_fresh; [exact ND | apply alookup_none_notin, FX]|].
  split; [|exact FX]. intros j LE. rewrite alookup_sinsert; [apply FR; lia|].
  intro EQ. apply xs_inj in EQ. lia.
Qed.

Lemma ctxinv_open_none c bound Uc d x :
  ctxinv c bound Uc d -> x = xs (S d) ->
  ctxinv (set_free c (sinsert x None (free_doms c))) bound Uc (S d).
Proof.
  intros CI EX. destruct (ctxinv_open c bound Uc d x None CI EX) as (A & B & C0 & FX).
  destruct CI as (_ & HU & _ & _ & HR).
  split; [exact A|]. split; [exact HU|]. split; [exact B|]. split; [exact C0|].
  intro w. rewrite HR. cbn [free_doms set_free]. split; intros [H1 H2]; (split; [exact H1|]);
    intros y dl dset e FY ED VY.
  - destruct (str_eqb y x) eqn:Q; str_eq.
    + subst y. rewrite alookup_sinsert_same in FY. discriminate FY.
    + rewrite alookup_sinsert in FY by exact Q. exact (H2 y dl dset e FY ED VY).
  - apply (H2 y dl dset e); try assumption.
    destruct (str_eqb y x) eqn:Q; str_eq; [subst y; congruence|]. rewrite alookup_sinsert by exact Q. exact FY.
Qed.

Lemma ctxinv_open_some c bound Uc d x dl dset e :
  ctxinv c bound Uc d -> x = xs (S d) -> alookup str_eqb dl doms = Some dset ->
  var_of G x = Some e -> ~ In e bound ->
  ctxinv (set_free c (sinsert x (Some dl) (free_doms c))) (e :: bound)
         (tand Uc (compute_valid_domain_for_var G Uc dset e)) (S d).
Proof.
  intros CI EX ED Ev Hnb. destruct (ctxinv_open c bound Uc d x (Some dl) CI EX) as (A & B & C0 & FX).
  destruct CI as (_ & HU & _ & _ & HR).
  destruct (doms_ok _ _ ED) as [SD [XD _]].
  pose proof (var_of_id G x e Ev) as E. destruct (var_id_of _ _ _ E) as [_ Hk].
  destruct (ops_domain_in G names Utop WF bound Uc HU dset e Uc (fun _ => True) Hk Hnb SD XD) as (MU & HUr & _).
  split; [exact A|]. split; [exact HUr|]. split; [exact B|]. split; [exact C0|].
  intro w. rewrite MU, HR. cbn [free_doms set_free]. split.
  - intros [[H1 H2] H3]. split; [exact H1|]. intros y dl' dset' e' FY ED' VY.
    destruct (str_eqb y x) eqn:Q; str_eq.
    + subst y. rewrite alookup_sinsert_same in FY. injection FY as <-.
      assert (dset' = dset) by congruence. assert (e' = e) by congruence. subst. exact H3.
    + rewrite alookup_sinsert in FY by exact Q. exact (H2 y dl' dset' e' FY ED' VY).
  - intros [H1 H2]. split; [split; [exact H1|]|].
    + intros y dl' dset' e' FY ED' VY. apply (H2 y dl' dset' e'); try assumption.
      destruct (str_eqb y x) eqn:Q; str_eq; [subst y; congruence|]. rewrite alookup_sinsert by exact Q. exact FY.
    + apply (H2 x dl dset e); try assumption. apply alookup_sinsert_same.
Qed.

Lemma frame_close c x dm c1 :
  alookup str_eqb x (free_doms c) = None ->
  frame (set_free c (sinsert x dm (free_doms c))) c1 ->
  frame c (set_free c1 (aremove str_eqb x (free_doms c1))).
Proof.
  intros FX [F1 F2]. cbn [free_doms domain_sets set_free] in *. split; cbn [free_doms domain_sets set_free].
  - rewrite F1, aremove_sinsert. apply aremove_absent, FX.
  - exact F2.
Qed.

(** * 3. The main invariant *)

Theorem eval_node_cacheX : forall t c bound Uc d,
  gx t -> depth_named d t -> scoped bound t -> ctxinv c bound Uc d -> storeinv c ->
  exists R c', eval_node G names sw st t Uc c = Ok (R, c')
               /\ nres (clean (free_doms c)) t Uc R /\ storeinv c' /\ frame c c'.
Proof.
  induction t as [a | o a IH | o a IHa b IHb | o x dm a IH]; intros c bound Uc d GT DN SC CI SI;
    rewrite (eval_node_unfold G names sw).
  1: destruct (is_wild_terminal (Terminal a)) eqn:NW.
  1: { (* a wild-card proposition: served from the entries of extend_context *)
    destruct a as [nm | y | | | p]; try discriminate NW.
    destruct GT as (W & Kn & _). cbn [knownx] in Kn.
    destruct (alookup str_eqb p wild) as [s|] eqn:Ep; [|congruence].
    assert (key_of c (Terminal (AWild p)) = wild_key p) as KE.
    { unfold key_of. cbn [render atom_str].
      pose proof (well_named_linkable ea true _ W) as LK. cbn [linkable] in LK. rewrite LK.
      cbn [fst snd]. rewrite canon_domains_nil. reflexivity. }
    rewrite KE. destruct SI as (CO & DO & WP). destruct (WP p s Ep) as [AM AL]. rewrite AM, AL.
    cbn [rename_back bind]. exists s, (hit_ctx (Terminal (AWild p)) (wild_key p) c).
    split; [reflexivity|]. unfold hit_ctx. cbn [is_wild_terminal].
    destruct CI as (_ & HU & _).
    split; [exact (terminal_stepX bound Uc _ (AWild p) HU s Ep)|].
    split; [exact (conj CO (conj DO WP)) | apply frame_refl]. }
  all: try (assert (is_wild_terminal (Unary o a) = false) as NW by reflexivity).
  all: try (assert (is_wild_terminal (Binary o a b) = false) as NW by reflexivity).
  all: try (assert (is_wild_terminal (Hybrid o x dm a) = false) as NW by reflexivity).
  all: pose proof (non_wild_text _ GT NW) as NK;
    pose proof CI as (DSE & HU & NDf & FR & HR);
    match goal with
    | |- context [eval_miss ?g ?nm ?s0 ?s (finish_at ?k ?ren ?save) ?t ?U ?cc] =>
        assert (forall R c1, nres (clean (free_doms c)) t Uc R -> storeinv c1 -> frame c c1 ->
                  exists c', finish_at k ren save (R, c1) = Ok (R, c') /\ storeinv c' /\ frame c c') as FIN;
        [ intros R c1 NR SI1 FR1;
          destruct (finishX k ren save R c1
                      (fun Hs => save_entry t c bound Uc d R GT DN NW SC CI NR (proj1 (proj2 SI)) Hs)
                      NK SI1) as (c' & E' & SI' & FR');
          exists c'; split; [exact E'|]; split; [exact SI' | eapply frame_trans; eassumption]
        | let F := fresh "F" in set (F := finish_at k ren save) in *; clearbody F ]
    end;
    match goal with
    | |- context [eval_miss ?g ?nm ?s0 ?s ?F ?t ?U ?cc] =>
        assert (exists R c', eval_miss g nm s0 s F t U cc = Ok (R, c')
                  /\ nres (clean (free_doms c)) t U R /\ storeinv c' /\ frame c c') as MISS;
        [| destruct (amem key_eqb (key_of c t) (duplicates c)) eqn:Dup;
           [destruct (alookup key_eqb (key_of c t) (cache c)) as [[cached cren]|] eqn:Hit;
            [| exact MISS] | exact MISS] ]
    end.
  (* the hit cases *)
  all: try (
    apply alookup_key_in in Hit;
    destruct (proj1 SI _ _ _ Hit) as [[r Hr] | RE]; [exfalso; exact (NK r Hr)|];
    destruct (hit_okX _ c bound Uc d _ _ cached cren GT DN CI (surjective_pairing _) RE) as (R & RB & NR);
    rewrite RB; cbn [bind];
    destruct (hit_ctx_okX _ (key_of c _) c NW NK SI) as [SI' FR'];
    exists R; eexists; split; [reflexivity|]; split; [exact NR|]; split; assumption).
  - (* terminals *)
    unfold eval_miss. cbn [is_attractor_pattern is_fixed_point_pattern]. rewrite !andb_false_r.
    destruct GT as (W & Kn & Su).
    destruct a as [nm | y | | | p]; cbn [knownx supported] in *; try discriminate NW.
    + destruct (index_of nm names 0) as [i|] eqn:E; [|congruence].
      destruct (FIN _ c (terminal_stepX bound Uc _ (AProp nm) HU i E) SI (frame_refl c)) as (c' & E' & SI' & FR').
      eexists. exists c'. split; [exact E'|]. split; [exact (terminal_stepX bound Uc _ (AProp nm) HU i E)|].
      split; assumption.
    + destruct (var_of G y) as [e|] eqn:Ev; [|congruence]. pose proof (var_of_id G y e Ev) as E.
      rewrite E. cbn [bind].
      destruct (FIN _ c (terminal_stepX bound Uc _ (AVar y) HU e E) SI (frame_refl c)) as (c' & E' & SI' & FR').
      eexists. exists c'. split; [exact E'|]. split; [exact (terminal_stepX bound Uc _ (AVar y) HU e E)|].
      split; assumption.
    + destruct (FIN _ c (terminal_stepX bound Uc _ ATrue HU) SI (frame_refl c)) as (c' & E' & SI' & FR').
      eexists. exists c'. split; [exact E'|]. split; [exact (terminal_stepX bound Uc _ ATrue HU)|].
      split; assumption.
    + destruct (FIN _ c (terminal_stepX bound Uc _ AFalse HU) SI (frame_refl c)) as (c' & E' & SI' & FR').
      eexists. exists c'. split; [exact E'|]. split; [exact (terminal_stepX bound Uc _ AFalse HU)|].
      split; assumption.
  - (* unary *)
    cbn [depth_named scoped] in DN, SC.
    destruct (IH c bound Uc d (gx_unary _ _ GT) DN SC CI SI) as (A & c1 & EA & NA & SI1 & FR1).
    destruct (unary_stepX bound Uc _ o a A HU NA) as (R & ER & NR).
    unfold eval_miss. cbn [is_attractor_pattern is_fixed_point_pattern]. rewrite !andb_false_r.
    rewrite EA. cbn [bind]. rewrite ER. cbn [bind].
    destruct (FIN R c1 NR SI1 FR1) as (c' & E' & SI' & FR').
    exists R, c'. split; [exact E'|]. split; [exact NR|]. split; assumption.
  - (* binary *)
    cbn [depth_named scoped] in DN, SC. destruct DN as [DNa DNb]. destruct SC as [SCa SCb].
    destruct (gx_binary _ _ _ GT) as [GA GB].
    destruct (IHa c bound Uc d GA DNa SCa CI SI) as (A & c1 & EA & NA & SI1 & FR1).
    destruct (IHb c1 bound Uc d GB DNb SCb (ctxinv_frame _ _ _ _ _ FR1 CI) SI1) as (B & c2 & EB & NB & SI2 & FR2).
    rewrite (proj1 FR1) in NB.
    destruct (binary_stepX bound Uc _ o a b A B HU NA NB) as (R & ER & NR).
    unfold eval_miss. cbn [is_attractor_pattern is_fixed_point_pattern]. rewrite !andb_false_r.
    rewrite EA. cbn [bind]. rewrite EB. cbn [bind]. rewrite ER. cbn [bind].
    destruct (FIN R c2 NR SI2 (frame_trans _ _ _ FR1 FR2)) as (c' & E' & SI' & FR').
    exists R, c'. split; [exact E'|]. split; [exact NR|]. split; assumption.
  - (* hybrid *)
    pose proof (gx_hybrid _ _ _ _ GT) as GA. unfold eval_miss.
    destruct (use_patterns sw && is_attractor_pattern (Hybrid o x dm a)) eqn:PA.
    { destruct (attractor_stepX bound Uc (clean (free_doms c)) o x dm a HU SC PA) as (e & R & E & ER & NR).
      rewrite E. cbn [bind]. rewrite ER. cbn [bind].
      destruct (FIN R c NR SI (frame_refl c)) as (c' & E' & SI' & FR').
      exists R, c'. split; [exact E'|]. split; [exact NR|]. split; assumption. }
    destruct (use_patterns sw && is_fixed_point_pattern (Hybrid o x dm a)) eqn:PF.
    { exists st, c. split; [reflexivity|].
      split; [exact (fixed_point_stepX bound Uc _ o x dm a HU SC PA PF)|]. split; [exact SI | apply frame_refl]. }
    assert (Q : forall o', o' <> Jump -> o = o' ->
      exists R c',
        (let c0 := set_free c (sinsert x dm (free_doms c)) in
         let close := fun c1 : ectx => set_free c1 (aremove str_eqb x (free_doms c1)) in
         match dm with
         | Some dl =>
             match alookup str_eqb dl (domain_sets c0) with
             | Some dset =>
                 let* e := hctl_var_id G x in
                 let var_domain := compute_valid_domain_for_var G Uc dset e in
                 let Ur := tand Uc var_domain in
                 if is_empty Ur
                 then Ok (match o' with Forall => Uc | _ => empty G end, close c0)
                 else
                  let* (a0, c1) := eval_node G names sw st a Ur c0 in
                  let* r := eval_hybrid_quantifier G Uc Ur o' e a0 in F (r, close c1)
             | None => Panic PDomainLookup
             end
         | None =>
             let* (a0, c1) := eval_node G names sw st a Uc c0 in
             let* e := hctl_var_id G x in
             let* r := eval_hybrid_quantifier G Uc Uc o' e a0 in F (r, close c1)
         end) = Ok (R, c')
        /\ nres (clean (free_doms c)) (Hybrid o x dm a) Uc R /\ storeinv c' /\ frame c c').
    { intros o' Ho' ->. cbn zeta.
      assert (is_quantifier o' = true) as IQ by (destruct o'; try congruence; reflexivity).
      cbn [depth_named] in DN. rewrite IQ in DN. destruct DN as [EX DNa].
      assert (exists e, var_of G x = Some e /\ ~ In e bound
                /\ scoped (match dm with Some _ => e :: bound | None => bound end) a) as (e & Ev & Hnb & SCa)
        by (destruct o'; try congruence; exact SC).
      pose proof (var_of_id G x e Ev) as E.
      destruct (ctxinv_open c bound Uc d x dm CI EX) as (_ & _ & _ & FX).
      destruct dm as [dl|].
      - (* with a domain *)
        cbn [domain_sets set_free]. rewrite DSE.
        destruct GT as (_ & Kn & _). cbn [knownx] in Kn.
        destruct (alookup str_eqb dl doms) as [dset|] eqn:ED;
          [|exfalso; destruct o'; try congruence; apply (proj1 Kn); reflexivity].
        rewrite E. cbn [bind].
        destruct (is_empty (tand Uc (compute_valid_domain_for_var G Uc dset e))) eqn:Emp.
        + eexists. eexists. split; [reflexivity|].
          split; [exact (dom_empty_stepX bound Uc _ o' x dl a dset e Ho' HU Ev Hnb ED Emp)|].
          split; [exact SI|].
          apply (frame_close c x (Some dl)); [exact FX | apply frame_refl].
        + destruct (IH _ (e :: bound) _ (S d) GA DNa SCa
                      (ctxinv_open_some c bound Uc d x dl dset e CI EX ED Ev Hnb) SI)
            as (A & c1 & EA & [SPA _] & SI1 & FR1).
          destruct (dom_stepX bound Uc (clean (free_doms c)) o' x dl a dset e A Ho' HU Ev Hnb ED Emp GA SCa SPA)
            as (R & ER & NR).
          rewrite EA. cbn [bind]. rewrite ER. cbn [bind].
          destruct (FIN R (set_free c1 (aremove str_eqb x (free_doms c1))) NR SI1
                      (frame_close c x (Some dl) c1 FX FR1)) as (c' & E' & SI' & FR').
          exists R, c'. split; [exact E'|]. split; [exact NR|]. split; assumption.
      - (* without *)
        destruct (IH _ bound Uc (S d) GA DNa SCa (ctxinv_open_none c bound Uc d x CI EX) SI)
          as (A & c1 & EA & NA & SI1 & FR1).
        cbn [free_doms set_free] in NA.
        apply (nres_mono _ (clean (free_doms c))) in NA; [|apply (clean_open_none _ x FX)].
        destruct (quant_stepX bound Uc _ o' x a A e Ho' HU Ev Hnb PA PF NA) as (R & ER & NR).
        rewrite EA. cbn [bind]. rewrite E. cbn [bind]. rewrite ER. cbn [bind].
        destruct (FIN R (set_free c1 (aremove str_eqb x (free_doms c1))) NR SI1
                    (frame_close c x None c1 FX FR1)) as (c' & E' & SI' & FR').
        exists R, c'. split; [exact E'|]. split; [exact NR|]. split; assumption. }
    destruct o.
    + apply (Q Bind); [discriminate | reflexivity].
    + (* jump *)
      cbn [depth_named is_quantifier scoped] in DN, SC. destruct DN as [_ DNa]. destruct SC as [Hx SCa].
      destruct (IH c bound Uc d GA DNa SCa CI SI) as (A & c1 & EA & NA & SI1 & FR1).
      destruct (jump_stepX bound Uc _ x dm a A HU Hx NA) as (e & E & NR).
      rewrite EA. cbn [bind]. rewrite E. cbn [bind].
      destruct (FIN _ c1 NR SI1 FR1) as (c' & E' & SI' & FR').
      eexists. exists c'. split; [exact E'|]. split; [exact NR|]. split; assumption.
    + apply (Q Exists); [discriminate | reflexivity].
    + apply (Q Forall); [discriminate | reflexivity].
Qed.

End CacheX.

(** * 4. Batches of closed formulae at the top-level unit *)

Section BatchX.
Variable ea : N -> bool.
Variable G : genv.
Variable names : list str.
Variable Utop : tt.
Hypothesis WF : wf_env G names Utop.
Variable Gamma : str -> val -> Prop.
Hypothesis Gx : ctx_ignores_copies Gamma.
Variable sw : switches.
Variable wild doms : list (str * tt).
Hypothesis wild_ok : wild_sets_ok G Gamma wild.
Hypothesis doms_ok : dom_sets_ok G Gamma doms.

Local Notation st := (steady_of G Utop).
Local Notation pevx := (peval_ext G names sw st wild doms).
Local Notation storeinv := (storeinv ea G names Utop Gamma sw wild doms).

(** a closed formula as the extended entry points hand it to the evaluator *)
Definition topx (t : tree) : Prop :=
  gx ea G names wild doms t /\ depth_named 0 t /\ scoped G [] t.

(** no open scope, the domain sets of the context *)
Definition top_ctx (c : ectx) : Prop := free_doms c = [] /\ domain_sets c = doms.

Lemma top_ctxinv c : top_ctx c -> ctxinv G Utop doms c [] Utop 0.
Proof.
  intros [F D]. split; [exact D|]. split; [apply (top_unit_ok G names Utop WF)|]. rewrite F.
  split; [constructor|]. split; [reflexivity|]. intro w. split; [|tauto].
  intro H. split; [exact H|]. intros y dl dset e X. discriminate X.
Qed.

Theorem eval_all_cacheX : forall ts c,
  List.Forall topx ts -> top_ctx c -> storeinv c ->
  exists rs, eval_all G names sw st Utop ts c = Ok rs
             /\ List.Forall2 (fun t R => pevx t Utop = Ok R) ts rs.
Proof.
  induction ts as [|t ts IH]; intros c F TC SI; cbn [eval_all].
  - exists []. split; [reflexivity | constructor].
  - inversion F as [|? ? (GT & DN & SC) F']; subst.
    destruct (eval_node_cacheX ea G names Utop WF Gamma Gx sw wild doms wild_ok doms_ok
                t c [] Utop 0 GT DN SC (top_ctxinv c TC) SI) as (R & c' & E & [_ EX] & SI' & [F1 F2]).
    rewrite E. cbn [bind].
    assert (top_ctx c') as TC' by (destruct TC as [A B]; split; congruence).
    destruct (IH c' F' TC' SI') as (rs & E' & F2').
    rewrite E'. cbn [bind]. exists (R :: rs). split; [reflexivity|]. constructor; [|exact F2'].
    apply EX. destruct TC as [A _]. rewrite A. intros y d0 X. discriminate X.
Qed.

End BatchX.

(** ** the context built by the extended entry points *)

Lemma extend_props_free : forall props c, free_doms (extend_props props c) = free_doms c.
Proof. induction props as [|[p s] rest IH]; intro c; [reflexivity|]. cbn [extend_props]. rewrite IH. reflexivity. Qed.

Lemma extend_props_cache : forall props c k v,
  In (k, v) (cache (extend_props props c)) -> (exists p, k = wild_key p) \/ In (k, v) (cache c).
Proof.
  induction props as [|[p s] rest IH]; intros c k v IN; [right; exact IN|].
  cbn [extend_props] in IN. apply IH in IN. destruct IN as [W | IN]; [left; exact W|].
  cbn [cache set_cache set_dups] in IN. destruct IN as [E | IN].
  - injection E as <- _. left. exists p. reflexivity.
  - right. eapply in_aremove; exact IN.
Qed.

Lemma incr_dup_in k k' m dups : In (k, m) (incr_dup k' dups) -> k = k' \/ In (k, m) dups.
Proof.
  unfold incr_dup. destruct (alookup key_eqb k' dups); intros [E | IN];
    try (injection E as <- _; left; reflexivity); right; eapply in_aremove; exact IN.
Qed.

Lemma extend_props_dups : forall props c k m,
  In (k, m) (duplicates (extend_props props c)) -> (exists p, k = wild_key p) \/ In (k, m) (duplicates c).
Proof.
  induction props as [|[p s] rest IH]; intros c k m IN; [right; exact IN|].
  cbn [extend_props] in IN. apply IH in IN. destruct IN as [W | IN]; [left; exact W|].
  cbn [duplicates set_cache set_dups] in IN. apply incr_dup_in in IN.
  destruct IN as [-> | IN]; [left; exists p; reflexivity | right; exact IN].
Qed.

Section InitX.
Variable ea : N -> bool.
Variable G : genv.
Variable names : list str.
Variable Utop : tt.
Variable Gamma : str -> val -> Prop.
Variable sw : switches.
Variable wprops dprops : list (str * tt).
Variable dups : list (key * nat).
Hypothesis dups_okH : dups_ok ea true (ctx_new dups).

Let c0 := extend_context wprops dprops (ctx_new dups).

Lemma init_top_ctx : top_ctx (domain_sets c0) c0.
Proof.
  split; [|reflexivity]. unfold c0, extend_context. cbn [free_doms set_domsets].
  rewrite extend_props_free. reflexivity.
Qed.

Lemma init_storeinv : storeinv ea G names Utop Gamma sw (rev wprops) (domain_sets c0) c0.
Proof.
  unfold c0, extend_context. split; [|split].
  - intros k S rn IN. cbn [cache set_domsets] in IN. apply extend_props_cache in IN.
    destruct IN as [[p ->] | []]. left. exists (p ++ [c_pct]). reflexivity.
  - intros k m IN. cbn [duplicates set_domsets] in IN. apply extend_props_dups in IN.
    destruct IN as [[p ->] | IN]; [left; exists (p ++ [c_pct]); reflexivity | right].
    exact (dups_okH k m IN).
  - intros p s E. cbn [duplicates cache set_domsets].
    pose proof (extend_props_view wprops (ctx_new dups) p) as V. rewrite E in V. exact V.
Qed.

End InitX.

(** * 5. The extended entry point *)

Section WorldX.
Variable ea : N -> bool.
Variable w : world.
Variable k : nat.
Hypothesis upd_ok : List.Forall (shaped (Lpn (w_p w) (w_n w))) (w_upd w).
Hypothesis unit_ok : shaped (Lpn (w_p w) (w_n w)) (w_unit w).
Hypothesis unit_colour : forall v v', (forall j, v (TP j) = v' (TP j)) ->
  mem (Lpn (w_p w) (w_n w)) (w_unit w) v = mem (Lpn (w_p w) (w_n w)) (w_unit w) v'.
Hypothesis names_ok : length (w_names w) <= w_n w.

Local Notation G := (genv_of w k).
Local Notation U := (unit_of w k).

Variable cprops cdoms : list (str * tt).

(** the wild-card sets and the domain sets as the evaluator sees them *)
Definition wprops_of : list (str * tt) :=
  map (fun ps => (fst ps, lift w k (snd ps))) (dedup_labels cprops).
Definition dprops_of : list (str * tt) :=
  map (fun ps => (fst ps, lift w k (snd ps))) (dedup_labels cdoms).
Definition wild_of : list (str * tt) := rev wprops_of.
Definition doms_of : list (str * tt) :=
  domain_sets (extend_context wprops_of dprops_of (ctx_new [])).

Lemma doms_of_dups dups :
  domain_sets (extend_context wprops_of dprops_of (ctx_new dups)) = doms_of.
Proof.
  unfold doms_of, extend_context. cbn [domain_sets set_domsets]. rewrite !extend_props_domsets. reflexivity.
Qed.

Variable Gamma : str -> val -> Prop.
Hypothesis Gx : ctx_ignores_copies Gamma.
Hypothesis wild_ok : wild_sets_ok G Gamma wild_of.
Hypothesis doms_ok : dom_sets_ok G Gamma doms_of.

Local Notation topx := (topx ea G (w_names w) wild_of doms_of).

(** what the extended entry point returns for one formula *)
Definition singleX (m : mode) (t : tree) : res tt :=
  let* r := peval_ext G (w_names w) {| use_patterns := negb (m_nopatterns m) |} (steady_of G U)
                      wild_of doms_of t U in
  if m_sanitize m then sanitize G r else Ok r.

Lemma post_mapX m ts rs :
  List.Forall2 (fun t R => peval_ext G (w_names w) {| use_patterns := negb (m_nopatterns m) |}
                             (steady_of G U) wild_of doms_of t U = Ok R) ts rs ->
  (if m_sanitize m then sanitize_all G rs else Ok rs) = mapM (singleX m) ts.
Proof.
  intro F. induction F as [|t R ts rs E _ IH]; cbn [mapM sanitize_all].
  - destruct (m_sanitize m); reflexivity.
  - unfold singleX at 1. rewrite E. cbn [bind]. rewrite <- IH.
    destruct (m_sanitize m); [|reflexivity].
    destruct (sanitize G R); cbn [bind]; reflexivity.
Qed.

Theorem check_trees_mapX m ts :
  m_ext m = true -> m_unsafe_ex m = false -> List.Forall topx ts ->
  check_trees w k m ts cprops cdoms = mapM (singleX m) ts.
Proof.
  intros He Hu F. unfold check_trees. rewrite He, Hu.
  fold wprops_of dprops_of.
  pose proof (world_wf w k upd_ok unit_ok unit_colour names_ok) as WF.
  set (sw := {| use_patterns := negb (m_nopatterns m) |}).
  set (dups := if m_nocache m then [] else mark_duplicates ts).
  assert (dups_ok ea true (ctx_new dups)) as DO.
  { unfold dups. destruct (m_nocache m); [intros k0 m0 [] |].
    apply mark_duplicates_dups_ok. eapply Forall_impl; [|exact F].
    intros t ((W & _) & DN & _). split; [exact W | exists 0; exact DN]. }
  pose proof (init_top_ctx wprops_of dprops_of dups) as TC. rewrite doms_of_dups in TC.
  pose proof (init_storeinv ea G (w_names w) U Gamma sw wprops_of dprops_of dups DO) as SI.
  rewrite doms_of_dups in SI. fold wild_of in SI.
  destruct (eval_all_cacheX ea G (w_names w) U WF Gamma Gx sw wild_of doms_of wild_ok doms_ok ts _ F TC SI)
    as (rs & E & F2).
  rewrite E. cbn [bind]. apply post_mapX, F2.
Qed.

Local Notation ctm := check_trees_mapX.

Theorem cache_mode_irrelevantX m m' ts :
  m_ext m = true -> m_unsafe_ex m = false -> m_ext m' = true -> m_unsafe_ex m' = false ->
  m_sanitize m = m_sanitize m' -> m_nopatterns m = m_nopatterns m' ->
  List.Forall topx ts ->
  check_trees w k m ts cprops cdoms = check_trees w k m' ts cprops cdoms.
Proof.
  intros He Hu He' Hu' Hs Hp F. rewrite (ctm m ts He Hu F), (ctm m' ts He' Hu' F).
  unfold singleX. rewrite Hs, Hp. reflexivity.
Qed.

Theorem batch_positionX m ts rs i dt dr :
  m_ext m = true -> m_unsafe_ex m = false -> List.Forall topx ts ->
  check_trees w k m ts cprops cdoms = Ok rs -> i < length ts ->
  check_trees w k m [nth i ts dt] cprops cdoms = Ok [nth i rs dr].
Proof.
  intros He Hu F H LT. rewrite (ctm m ts He Hu F) in H.
  assert (topx (nth i ts dt)) as GI by (rewrite Forall_forall in F; apply F, nth_In, LT).
  rewrite (ctm m [nth i ts dt] He Hu (Forall_cons _ GI (Forall_nil _))).
  apply mapM_Forall2 in H. pose proof (Forall2_nth _ ts rs i dt dr H LT) as E.
  cbn [mapM]. rewrite E. reflexivity.
Qed.

Theorem batch_permutationX m ts ts' rs :
  m_ext m = true -> m_unsafe_ex m = false -> List.Forall topx ts -> Permutation ts ts' ->
  check_trees w k m ts cprops cdoms = Ok rs ->
  exists rs', check_trees w k m ts' cprops cdoms = Ok rs'
              /\ Permutation (combine ts rs) (combine ts' rs').
Proof.
  intros He Hu F PM H. rewrite (ctm m ts He Hu F) in H.
  assert (List.Forall topx ts') as F'.
  { rewrite Forall_forall in *. intros t IN. apply F.
    eapply Permutation_in; [apply Permutation_sym; exact PM | exact IN]. }
  rewrite (ctm m ts' He Hu F'). exact (mapM_permutation (singleX m) (Leaf false) ts ts' rs PM H).
Qed.

Theorem batch_repetitionX m t ts r1 r2 rs :
  m_ext m = true -> m_unsafe_ex m = false -> List.Forall topx (t :: t :: ts) ->
  check_trees w k m (t :: t :: ts) cprops cdoms = Ok (r1 :: r2 :: rs) ->
  r1 = r2 /\ check_trees w k m (t :: ts) cprops cdoms = Ok (r1 :: rs).
Proof.
  intros He Hu F H. rewrite (ctm m _ He Hu F) in H.
  assert (List.Forall topx (t :: ts)) as F' by (inversion F; assumption).
  rewrite (ctm m _ He Hu F'). apply mapM_Forall2 in H.
  inversion H as [|? ? ? ? E1 H']; subst. inversion H' as [|? ? ? ? E2 H'']; subst.
  split; [congruence|]. apply mapM_Forall2. constructor; assumption.
Qed.

End WorldX.
