(** Why  AWs G P Q v -> AW_p G P Q v  (every path satisfies "P until Q  or  always P", as a
    disjunction) is not proved in PathFacts: for all networks it is equivalent to the limited
    principle of omniscience, which plain Coq does not prove.

    The network below has two variables: x toggles for ever (its update function is "not x"),
    y can only be switched on (its update function is "true").  With P = "y is off" and
    Q = "y is on" every valuation satisfies A[P W Q]; a Boolean sequence a determines the
    path that switches y on at the first k with a k = true and toggles x otherwise; and the
    disjunction for this path decides whether a is ever true. *)
From HCTL Require Import Base TT Ops Kripke Paths TTFacts OpsFacts SemFacts Laws PathFacts.

Definition lpo_net : genv :=
  {| g_n := 2; g_p := 0; g_k := 0; g_L := [TS 0; TS 1];
     g_upd := [Node (Node (Leaf true) (Leaf true)) (Node (Leaf false) (Leaf false));
               Node (Node (Leaf true) (Leaf true)) (Node (Leaf true) (Leaf true))] |}.

Definition y_off (v : val) : Prop := v (TS 1) = false.
Definition y_on (v : val) : Prop := v (TS 1) = true.

Lemma lpo_enabled0 v : enabled lpo_net 0 v = true.
Proof. unfold enabled, upd_of. cbn. destruct (v (TS 0)); destruct (v (TS 1)); reflexivity. Qed.

Lemma lpo_enabled1 v : enabled lpo_net 1 v = negb (v (TS 1)).
Proof. unfold enabled, upd_of. cbn. destruct (v (TS 0)); destruct (v (TS 1)); reflexivity. Qed.

Lemma y_off_respects : respects y_off.
Proof. intros v w H Hv. unfold y_off. rewrite <- (H (TS 1)). exact Hv. Qed.
Lemma y_on_respects : respects y_on.
Proof. intros v w H Hv. unfold y_on. rewrite <- (H (TS 1)). exact Hv. Qed.
Lemma y_off_dec v : y_off v \/ ~ y_off v.
Proof. unfold y_off. destruct (v (TS 1)); [right; discriminate | left; reflexivity]. Qed.
Lemma y_on_dec v : y_on v \/ ~ y_on v.
Proof. unfold y_on. destruct (v (TS 1)); [left; reflexivity | right; discriminate]. Qed.

Lemma lpo_AWs v : AWs lpo_net y_off y_on v.
Proof.
  exists (fun _ => True). split; [exact I|]. intros u _.
  destruct (u (TS 1)) eqn:E; [left; exact E | right].
  split; [exact E|]. split; intros; exact I.
Qed.

Section Sequence.
Variable a : nat -> bool.

Fixpoint lpo_path (k : nat) : val :=
  match k with
  | O => fun _ => false
  | S k' => if a k' && negb (lpo_path k' (TS 1)) then vflip (TS 1) (lpo_path k')
            else vflip (TS 0) (lpo_path k')
  end.

Lemma lpo_path_path : path lpo_net lpo_path.
Proof.
  intro k. cbn [lpo_path]. destruct (a k && negb (lpo_path k (TS 1))) eqn:E.
  - apply andb_true_iff in E. destruct E as [_ E].
    apply step_move; [cbn; lia | rewrite lpo_enabled1; exact E].
  - apply step_move; [cbn; lia | apply lpo_enabled0].
Qed.

Lemma lpo_on_witness j : lpo_path j (TS 1) = true -> exists k, a k = true.
Proof.
  induction j as [|j IH]; cbn [lpo_path]; [discriminate|].
  destruct (a j && negb (lpo_path j (TS 1))) eqn:E.
  - intros _. apply andb_true_iff in E. exists j. tauto.
  - unfold vflip. cbn [tag_eqb Nat.eqb]. exact IH.
Qed.

Lemma lpo_off_none : (forall j, lpo_path j (TS 1) = false) -> forall k, a k = false.
Proof.
  intros H k. pose proof (H (S k)) as H1. cbn [lpo_path] in H1. rewrite (H k) in H1.
  destruct (a k); [|reflexivity]. cbn [andb negb] in H1. unfold vflip in H1.
  cbn [tag_eqb Nat.eqb] in H1. rewrite (H k) in H1. discriminate.
Qed.
End Sequence.

(** the left-to-right direction of the AW characterisation, for all networks and decidable
    arguments, implies the limited principle of omniscience *)
Theorem AW_paths_lr_implies_LPO :
  (forall G (P Q : val -> Prop) v, respects P -> respects Q ->
     (forall u, P u \/ ~ P u) -> (forall u, Q u \/ ~ Q u) -> AWs G P Q v -> AW_p G P Q v) ->
  forall a : nat -> bool, (exists k, a k = true) \/ (forall k, a k = false).
Proof.
  intros H a.
  destruct (H lpo_net y_off y_on (fun _ => false) y_off_respects y_on_respects y_off_dec y_on_dec
              (lpo_AWs _) (lpo_path a) (lpo_path_path a) (veq_refl _)) as [[j [Hq _]]|Ha].
  - left. apply (lpo_on_witness a j). exact Hq.
  - right. apply lpo_off_none. exact Ha.
Qed.

(** ---- the same for the sets computed by the model: the network is well formed ---- *)
Definition lpo_unit : tt := full lpo_net.
Definition lpo_on : tt := lit (g_L lpo_net) (TS 1).
Definition lpo_off : tt := eval_neg lpo_unit lpo_on.

Lemma lpo_wf : wf_graph lpo_net lpo_unit.
Proof.
  split.
  - cbn. repeat constructor; cbn; intuition discriminate.
  - intro i. unfold upd_of. destruct i as [|[|i]]; cbn; try tauto. destruct i; cbn; tauto.
  - intros i Hi. cbn in Hi. destruct i as [|[|i]]; cbn; [tauto | tauto | lia].
  - apply shaped_const.
  - intros v i. unfold lpo_unit. rewrite !mem_full. reflexivity.
Qed.

Lemma lpo_mem_on u : mem (g_L lpo_net) lpo_on u = u (TS 1).
Proof. cbn. destruct (u (TS 0)); destruct (u (TS 1)); reflexivity. Qed.

Lemma lpo_mem_off u : mem (g_L lpo_net) lpo_off u = negb (u (TS 1)).
Proof. cbn. destruct (u (TS 0)); destruct (u (TS 1)); reflexivity. Qed.

Lemma lpo_eval_aw : eval_aw lpo_net lpo_unit lpo_off lpo_on = Ok lpo_unit.
Proof. vm_compute. reflexivity. Qed.

Theorem aw_model_lr_implies_LPO :
  (forall G U S T R v, wf_graph G U ->
     shaped (g_L G) S -> (forall u, mem (g_L G) S u = true -> mem (g_L G) U u = true) ->
     shaped (g_L G) T -> (forall u, mem (g_L G) T u = true -> mem (g_L G) U u = true) ->
     eval_aw G U S T = Ok R -> mem (g_L G) R v = true ->
     AW_p G (fun u => mem (g_L G) S u = true) (fun u => mem (g_L G) T u = true) v) ->
  forall a : nat -> bool, (exists k, a k = true) \/ (forall k, a k = false).
Proof.
  intros H a.
  assert (HU : forall A u, mem (g_L lpo_net) A u = true -> mem (g_L lpo_net) lpo_unit u = true).
  { intros A u _. apply mem_full. }
  destruct (H lpo_net lpo_unit lpo_off lpo_on lpo_unit (fun _ => false) lpo_wf) with (pi := lpo_path a)
    as [[j [Hq _]]|Ha].
  - unfold lpo_off, eval_neg, lpo_unit, lpo_on, full, tminus. apply shaped_map2; [apply shaped_const | apply shaped_lit].
  - apply HU.
  - apply shaped_lit.
  - apply HU.
  - exact lpo_eval_aw.
  - apply mem_full.
  - apply lpo_path_path.
  - apply veq_refl.
  - left. apply (lpo_on_witness a j). rewrite <- lpo_mem_on. exact Hq.
  - right. apply lpo_off_none. intro j. specialize (Ha j). cbv beta in Ha. rewrite lpo_mem_off in Ha.
    apply negb_true_iff in Ha. exact Ha.
Qed.
