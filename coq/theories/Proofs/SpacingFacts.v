(** Facts about the tokenizer of Model/Tokenizer.v (property C08, parts 3 and 4a):
    - one iteration of the tokenizer loop as a non-recursive function [next],
    - the fuel chosen by [tokenize] suffices, and any larger amount gives the same outcome,
    - white space between tokens, inside hybrid segments and at both ends of the text does
      not change the token list, and neither do the long spellings of the hybrid operators. *)
From HCTL Require Import Base Syntax Tokenizer.

Section Lex.
Variable ext_alnum : N -> bool.
Variable ext : bool.

Notation is_name_char := (is_name_char ext_alnum).
Notation collect_name := (collect_name ext_alnum).
Notation peek_name_char := (peek_name_char ext_alnum).
Notation collect_var_dom := (collect_var_dom ext_alnum).
Notation tok := (tok ext_alnum).
Notation tokenize := (tokenize ext_alnum).

(** * One iteration of the loop *)

Inductive action :=
| ASkip (rest : str)                 (** a white-space character was dropped *)
| APush (tk : token) (rest : str)    (** a complete token was read *)
| AOpen (rest : str)                 (** an opening parenthesis was read *)
| AClose (rest : str).               (** a closing parenthesis was read *)

Definition arest (a : action) : str :=
  match a with ASkip r | APush _ r | AOpen r | AClose r => r end.

(** the body of [tok] on a non-empty input, without the recursive calls *)
Definition next (c : N) (rest : str) : res action :=
  if is_ws c then Ok (ASkip rest)
  else if N.eqb c c_tilde then Ok (APush (TUn Not) rest)
  else if N.eqb c c_amp then Ok (APush (TBin And) rest)
  else if N.eqb c c_bar then Ok (APush (TBin Or) rest)
  else if N.eqb c c_caret then Ok (APush (TBin Xor) rest)
  else if N.eqb c c_eq then
    let* rest := expect c_gt rest in Ok (APush (TBin Imp) rest)
  else if N.eqb c c_lt then
    let* rest := expect c_eq rest in
    let* rest := expect c_gt rest in Ok (APush (TBin Iff) rest)
  else if N.eqb c c_gt then Err ELex
  else if (N.eqb c c_E || N.eqb c c_A)
          && match rest with c2 :: _ => is_temp_op_char c2 | [] => false end then
    match rest with
    | c2 :: rest2 =>
        if peek_name_char rest2 then
          let (name, rest3) := collect_name rest2 in
          Ok (APush (TAtom (AProp (c :: c2 :: name))) rest3)
        else
          let* t := temporal_token c c2 in Ok (APush t rest2)
    | [] => Err ELex
    end
  else if N.eqb c c_bang then
    let* (nd, rest) := collect_var_dom rest ext in
    Ok (APush (THyb Bind (fst nd) (snd nd)) rest)
  else if N.eqb c c_three && negb (peek_name_char rest) then
    let* (nd, rest) := collect_var_dom rest ext in
    Ok (APush (THyb Exists (fst nd) (snd nd)) rest)
  else if N.eqb c c_V && negb (peek_name_char rest) then
    let* (nd, rest) := collect_var_dom rest ext in
    Ok (APush (THyb Forall (fst nd) (snd nd)) rest)
  else if N.eqb c c_at then
    let* (nd, rest) := collect_var_dom rest false in
    Ok (APush (THyb Jump (fst nd) None) rest)
  else if N.eqb c c_bslash then
    let (opname, rest) := collect_name rest in
    if str_eqb opname s_exists then
      let* (nd, rest) := collect_var_dom rest ext in
      Ok (APush (THyb Exists (fst nd) (snd nd)) rest)
    else if str_eqb opname s_forall then
      let* (nd, rest) := collect_var_dom rest ext in
      Ok (APush (THyb Forall (fst nd) (snd nd)) rest)
    else if str_eqb opname s_bind then
      let* (nd, rest) := collect_var_dom rest ext in
      Ok (APush (THyb Bind (fst nd) (snd nd)) rest)
    else if str_eqb opname s_jump then
      let* (nd, rest) := collect_var_dom rest false in
      Ok (APush (THyb Jump (fst nd) None) rest)
    else Err ELex
  else if N.eqb c c_rpar then Ok (AClose rest)
  else if N.eqb c c_lpar then Ok (AOpen rest)
  else if N.eqb c c_lbrace then
    let (name, rest) := collect_name rest in
    match name with
    | [] => Err ELex
    | _ => let* rest := expect c_rbrace rest in Ok (APush (TAtom (AVar name)) rest)
    end
  else if N.eqb c c_pct && ext then
    let (name, rest) := collect_name rest in
    match name with
    | [] => Err ELex
    | _ => let* rest := expect c_pct rest in Ok (APush (TAtom (AWild name)) rest)
    end
  else if is_name_char c then
    let (name, rest) := collect_name rest in
    Ok (APush (TAtom (AProp (c :: name))) rest)
  else Err ELex.

Definition nexts (cs : str) : res action :=
  match cs with
  | [] => Err ELex
  | c :: rest => next c rest
  end.

(** what the loop does after one iteration *)
Definition continue (f : nat) (top : bool) (acc : list token) (a : action)
  : res (list token * str) :=
  match a with
  | ASkip rest => tok f rest top ext acc
  | APush tk rest => tok f rest top ext (tk :: acc)
  | AOpen rest =>
      let* (grp, rest) := tok f rest false ext [] in
      tok f rest top ext (TGroup grp :: acc)
  | AClose rest => if top then Err ELex else Ok (rev acc, rest)
  end.

Ltac case_res r :=
  destruct r as [? | ? | ? |]; cbn [bind]; try reflexivity.

Theorem tok_next (f : nat) (c : N) (rest : str) (top : bool) (acc : list token) :
  tok (S f) (c :: rest) top ext acc = let* a := next c rest in continue f top acc a.
Proof.
  unfold next. cbn [Tokenizer.tok].
  destruct (is_ws c); [reflexivity|].
  destruct (N.eqb c c_tilde); [reflexivity|].
  destruct (N.eqb c c_amp); [reflexivity|].
  destruct (N.eqb c c_bar); [reflexivity|].
  destruct (N.eqb c c_caret); [reflexivity|].
  destruct (N.eqb c c_eq); [case_res (expect c_gt rest)|].
  destruct (N.eqb c c_lt).
  { case_res (expect c_eq rest). case_res (expect c_gt a). }
  destruct (N.eqb c c_gt); [reflexivity|].
  destruct ((N.eqb c c_E || N.eqb c c_A)
            && match rest with c2 :: _ => is_temp_op_char c2 | [] => false end).
  { destruct rest as [|c2 rest2]; [reflexivity|].
    destruct (peek_name_char rest2).
    - destruct (collect_name rest2) as [name rest3]. reflexivity.
    - case_res (temporal_token c c2). }
  destruct (N.eqb c c_bang).
  { case_res (collect_var_dom rest ext). destruct a as [nd r]. reflexivity. }
  destruct (N.eqb c c_three && negb (peek_name_char rest)).
  { case_res (collect_var_dom rest ext). destruct a as [nd r]. reflexivity. }
  destruct (N.eqb c c_V && negb (peek_name_char rest)).
  { case_res (collect_var_dom rest ext). destruct a as [nd r]. reflexivity. }
  destruct (N.eqb c c_at).
  { case_res (collect_var_dom rest false). destruct a as [nd r]. reflexivity. }
  destruct (N.eqb c c_bslash).
  { destruct (collect_name rest) as [opname rest1].
    destruct (str_eqb opname s_exists).
    { case_res (collect_var_dom rest1 ext). destruct a as [nd r]. reflexivity. }
    destruct (str_eqb opname s_forall).
    { case_res (collect_var_dom rest1 ext). destruct a as [nd r]. reflexivity. }
    destruct (str_eqb opname s_bind).
    { case_res (collect_var_dom rest1 ext). destruct a as [nd r]. reflexivity. }
    destruct (str_eqb opname s_jump).
    { case_res (collect_var_dom rest1 false). destruct a as [nd r]. reflexivity. }
    reflexivity. }
  destruct (N.eqb c c_rpar); [reflexivity|].
  destruct (N.eqb c c_lpar); [reflexivity|].
  destruct (N.eqb c c_lbrace).
  { destruct (collect_name rest) as [name rest1].
    destruct name as [|n0 name]; [reflexivity|]. case_res (expect c_rbrace rest1). }
  destruct (N.eqb c c_pct && ext).
  { destruct (collect_name rest) as [name rest1].
    destruct name as [|n0 name]; [reflexivity|]. case_res (expect c_pct rest1). }
  destruct (is_name_char c).
  { destruct (collect_name rest) as [name rest1]. reflexivity. }
  reflexivity.
Qed.

Lemma tok_nil (f : nat) (top : bool) (acc : list token) :
  tok (S f) [] top ext acc = if top then Ok (rev acc, []) else Err ELex.
Proof. reflexivity. Qed.

Lemma tok_nexts (f : nat) (cs : str) (top : bool) (acc : list token) :
  cs <> [] ->
  tok (S f) cs top ext acc = let* a := nexts cs in continue f top acc a.
Proof. destruct cs as [|c rest]; [intro H; contradiction | intros _; apply tok_next]. Qed.

(** * Outcomes and lengths of the helpers *)

(** an outcome is [Ok] with a remaining input no longer than [n], or a lexical error *)
Definition fine {A} (len : A -> nat) (r : res A) (n : nat) : Prop :=
  match r with
  | Ok a => len a <= n
  | Err e => e = ELex
  | _ => False
  end.

Lemma expect_fine (c : N) (cs : str) : fine (@length N) (expect c cs) (length cs).
Proof.
  destruct cs as [|x r]; cbn [expect fine]; [reflexivity|].
  destruct (N.eqb x c); cbn [fine length]; [lia | reflexivity].
Qed.

Lemma collect_name_len (cs : str) :
  forall n r, collect_name cs = (n, r) -> length r <= length cs.
Proof.
  induction cs as [|c cs IH]; intros n r H; cbn [Tokenizer.collect_name] in H.
  - injection H as <- <-. cbn [length]. lia.
  - destruct (is_name_char c).
    + destruct (collect_name cs) as [n' r'] eqn:E. injection H as <- <-.
      specialize (IH n' r' eq_refl). cbn [length]. lia.
    + injection H as <- <-. lia.
Qed.

Lemma skip_ws_len (cs : str) : length (skip_ws cs) <= length cs.
Proof.
  induction cs as [|c cs IH]; cbn [skip_ws length]; [lia|].
  destruct (is_ws c); cbn [length]; lia.
Qed.

Lemma tl_len {A} (l : list A) : length (tl l) <= length l.
Proof. destruct l; cbn [tl length]; lia. Qed.

Ltac fine_expect c s r :=
  let F := fresh "F" in
  pose proof (expect_fine c s) as F;
  destruct (expect c s) as [r | ? | ? |]; cbn [bind fine] in F |- *;
  [| exact F | contradiction | contradiction].

Lemma cvd_fine (cs : str) (pd : bool) :
  fine (fun p : str * option str * str => length (snd p)) (collect_var_dom cs pd) (length cs).
Proof.
  unfold Tokenizer.collect_var_dom.
  pose proof (skip_ws_len cs) as L0.
  fine_expect c_lbrace (skip_ws cs) cs1.
  destruct (collect_name cs1) as [name cs2] eqn:CN. apply collect_name_len in CN.
  destruct name as [|n0 name]; [reflexivity|].
  fine_expect c_rbrace cs2 cs3.
  pose proof (skip_ws_len cs3) as L3.
  destruct (pd && peek_is c_i (skip_ws cs3)).
  - pose proof (tl_len (skip_ws cs3)) as L4.
    fine_expect c_n (tl (skip_ws cs3)) cs5.
    pose proof (skip_ws_len cs5) as L5.
    fine_expect c_pct (skip_ws cs5) cs7.
    destruct (collect_name cs7) as [dname cs8] eqn:CN2. apply collect_name_len in CN2.
    destruct dname as [|d0 dname]; [reflexivity|].
    fine_expect c_pct cs8 cs9.
    pose proof (skip_ws_len cs9) as L9.
    fine_expect c_colon (skip_ws cs9) cs10.
    cbn [snd]. lia.
  - cbn [bind].
    fine_expect c_colon (skip_ws cs3) cs10.
    cbn [snd]. lia.
Qed.

Ltac fine_cvd s pd nd r :=
  let F := fresh "F" in
  pose proof (cvd_fine s pd) as F;
  destruct (collect_var_dom s pd) as [[nd r] | ? | ? |]; cbn [bind fine snd] in F |- *;
  [| exact F | contradiction | contradiction].

Theorem next_fine (c : N) (rest : str) :
  fine (fun a => length (arest a)) (next c rest) (length rest).
Proof.
  unfold next.
  destruct (is_ws c); [cbn [fine arest]; lia|].
  destruct (N.eqb c c_tilde); [cbn [fine arest]; lia|].
  destruct (N.eqb c c_amp); [cbn [fine arest]; lia|].
  destruct (N.eqb c c_bar); [cbn [fine arest]; lia|].
  destruct (N.eqb c c_caret); [cbn [fine arest]; lia|].
  destruct (N.eqb c c_eq).
  { fine_expect c_gt rest r1. cbn [arest]. exact F. }
  destruct (N.eqb c c_lt).
  { fine_expect c_eq rest r1. fine_expect c_gt r1 r2. cbn [arest]. lia. }
  destruct (N.eqb c c_gt); [reflexivity|].
  destruct ((N.eqb c c_E || N.eqb c c_A)
            && match rest with c2 :: _ => is_temp_op_char c2 | [] => false end).
  { destruct rest as [|c2 rest2]; [reflexivity|].
    destruct (peek_name_char rest2).
    - destruct (collect_name rest2) as [name rest3] eqn:CN. apply collect_name_len in CN.
      cbn [fine arest length]. lia.
    - unfold temporal_token.
      repeat match goal with
             | |- context [if N.eqb c2 ?k then _ else _] => destruct (N.eqb c2 k)
             end; cbn [bind fine arest length]; try lia; reflexivity. }
  destruct (N.eqb c c_bang).
  { fine_cvd rest ext nd r. cbn [arest]. exact F. }
  destruct (N.eqb c c_three && negb (peek_name_char rest)).
  { fine_cvd rest ext nd r. cbn [arest]. exact F. }
  destruct (N.eqb c c_V && negb (peek_name_char rest)).
  { fine_cvd rest ext nd r. cbn [arest]. exact F. }
  destruct (N.eqb c c_at).
  { fine_cvd rest false nd r. cbn [arest]. exact F. }
  destruct (N.eqb c c_bslash).
  { destruct (collect_name rest) as [opname rest1] eqn:CN. apply collect_name_len in CN.
    destruct (str_eqb opname s_exists).
    { fine_cvd rest1 ext nd r. cbn [arest]. lia. }
    destruct (str_eqb opname s_forall).
    { fine_cvd rest1 ext nd r. cbn [arest]. lia. }
    destruct (str_eqb opname s_bind).
    { fine_cvd rest1 ext nd r. cbn [arest]. lia. }
    destruct (str_eqb opname s_jump).
    { fine_cvd rest1 false nd r. cbn [arest]. lia. }
    reflexivity. }
  destruct (N.eqb c c_rpar); [cbn [fine arest]; lia|].
  destruct (N.eqb c c_lpar); [cbn [fine arest]; lia|].
  destruct (N.eqb c c_lbrace).
  { destruct (collect_name rest) as [name rest1] eqn:CN. apply collect_name_len in CN.
    destruct name as [|n0 name]; [reflexivity|].
    fine_expect c_rbrace rest1 r1. cbn [arest]. lia. }
  destruct (N.eqb c c_pct && ext).
  { destruct (collect_name rest) as [name rest1] eqn:CN. apply collect_name_len in CN.
    destruct name as [|n0 name]; [reflexivity|].
    fine_expect c_pct rest1 r1. cbn [arest]. lia. }
  destruct (is_name_char c).
  { destruct (collect_name rest) as [name rest1] eqn:CN. apply collect_name_len in CN.
    cbn [fine arest]. exact CN. }
  reflexivity.
Qed.

Lemma next_cases (c : N) (rest : str) :
  (exists a, next c rest = Ok a /\ length (arest a) <= length rest)
  \/ next c rest = Err ELex.
Proof.
  pose proof (next_fine c rest) as F.
  destruct (next c rest) as [a | e | p |]; cbn [fine] in F; try contradiction.
  - left. exists a. split; [reflexivity | exact F].
  - right. rewrite F. reflexivity.
Qed.

(** * Fuel *)

(** with more fuel than characters the tokenizer does not run out of fuel, and what it
    leaves unread is no longer than its input *)
Lemma tok_fuel_enough (f : nat) :
  forall cs top acc, length cs < f ->
    tok f cs top ext acc <> OutOfFuel
    /\ forall ts r, tok f cs top ext acc = Ok (ts, r) -> length r <= length cs.
Proof.
  induction f as [|f IH]; intros cs top acc LT; [lia|].
  destruct cs as [|c rest].
  - rewrite tok_nil. destruct top; split; try discriminate.
    intros ts r H. injection H as _ <-. lia.
  - cbn [length] in LT. rewrite tok_next.
    destruct (next_cases c rest) as [[a [-> LE]] | ->]; cbn [bind];
      [|split; [discriminate | intros ts r H; discriminate H]].
    destruct a as [r0 | tk r0 | r0 | r0]; cbn [continue arest] in LE |- *.
    + destruct (IH r0 top acc ltac:(lia)) as [NO LEN]. split; [exact NO|].
      intros ts r H. specialize (LEN ts r H). cbn [length]. lia.
    + destruct (IH r0 top (tk :: acc) ltac:(lia)) as [NO LEN]. split; [exact NO|].
      intros ts r H. specialize (LEN ts r H). cbn [length]. lia.
    + destruct (IH r0 false [] ltac:(lia)) as [NO LEN].
      destruct (tok f r0 false ext []) as [[grp r1] | e | p |]; cbn [bind];
        try (split; [discriminate | intros ts r H; discriminate H]); [|contradiction].
      specialize (LEN grp r1 eq_refl).
      destruct (IH r1 top (TGroup grp :: acc) ltac:(lia)) as [NO' LEN']. split; [exact NO'|].
      intros ts r H. specialize (LEN' ts r H). cbn [length]. lia.
    + destruct top; split; try discriminate.
      intros ts r H. injection H as _ <-. cbn [length]. lia.
Qed.

(** more fuel does not change an outcome other than [OutOfFuel] *)
Lemma tok_fuel_mono (f : nat) :
  forall cs top acc f', f <= f' ->
    tok f cs top ext acc <> OutOfFuel ->
    tok f' cs top ext acc = tok f cs top ext acc.
Proof.
  induction f as [|f IH]; intros cs top acc f' LE NO; [exfalso; apply NO; reflexivity|].
  destruct f' as [|f']; [lia|]. assert (f <= f') as LE' by lia.
  destruct cs as [|c rest]; [reflexivity|].
  rewrite !tok_next in *.
  destruct (next c rest) as [a | e | p |]; cbn [bind] in *; try reflexivity.
  destruct a as [r0 | tk r0 | r0 | r0]; cbn [continue] in *.
  - apply IH; assumption.
  - apply IH; assumption.
  - destruct (tok f r0 false ext []) as [[grp r1] | e | p |] eqn:E; cbn [bind] in NO;
      try (exfalso; apply NO; reflexivity);
      rewrite (IH r0 false [] f' LE') by (rewrite E; discriminate); rewrite E; cbn [bind];
      try reflexivity.
    apply IH; assumption.
  - reflexivity.
Qed.

Theorem tok_fuel_irrelevant (f f' : nat) (cs : str) (top : bool) (acc : list token) :
  length cs < f -> length cs < f' ->
  tok f cs top ext acc = tok f' cs top ext acc.
Proof.
  intros LT LT'.
  destruct (tok_fuel_enough (S (length cs)) cs top acc ltac:(lia)) as [NO _].
  rewrite (tok_fuel_mono (S (length cs)) cs top acc f ltac:(lia) NO).
  rewrite (tok_fuel_mono (S (length cs)) cs top acc f' ltac:(lia) NO).
  reflexivity.
Qed.

Theorem tokenize_fuel (f : nat) (cs : str) :
  length cs < f ->
  tokenize ext cs = let* (ts, _) := tok f cs true ext [] in Ok ts.
Proof.
  intro LT. unfold Tokenizer.tokenize.
  rewrite (tok_fuel_irrelevant (S (length cs)) f cs true []) by lia. reflexivity.
Qed.

(** * Simulation of one input by another

    [lsim s s']: the loop of the tokenizer behaves on [s'] as on [s], except that it may
    drop additional white space when it is at the start of an iteration. *)
Inductive lsim : str -> str -> Prop :=
| lsim_refl : forall s, lsim s s
| lsim_ins : forall c s s', is_ws c = true -> lsim s s' -> lsim s (c :: s')
| lsim_skip : forall s s' r r',
    nexts s = Ok (ASkip r) -> nexts s' = Ok (ASkip r') -> lsim r r' -> lsim s s'
| lsim_push : forall s s' tk r r',
    nexts s = Ok (APush tk r) -> nexts s' = Ok (APush tk r') -> lsim r r' -> lsim s s'
| lsim_open : forall s s' r r',
    nexts s = Ok (AOpen r) -> nexts s' = Ok (AOpen r') -> lsim r r' -> lsim s s'
| lsim_close : forall s s' r r',
    nexts s = Ok (AClose r) -> nexts s' = Ok (AClose r') -> lsim r r' -> lsim s s'
| lsim_fail : forall s s' e,
    s <> [] -> s' <> [] -> nexts s = Err e -> nexts s' = Err e -> lsim s s'.

(** outcomes related by the simulation: the same tokens, related remaining inputs *)
Definition rrel (r r' : res (list token * str)) : Prop :=
  match r with
  | Ok (ts, rest) => exists rest', r' = Ok (ts, rest') /\ lsim rest rest'
  | _ => r' = r
  end.

Lemma rrel_refl (r : res (list token * str)) : rrel r r.
Proof.
  destruct r as [[ts rest] | e | p |]; cbn [rrel]; try reflexivity.
  exists rest. split; [reflexivity | apply lsim_refl].
Qed.

Lemma nexts_ok (s : str) (a : action) :
  nexts s = Ok a -> s <> [] /\ length (arest a) < length s.
Proof.
  destruct s as [|c rest]; cbn [nexts]; intro H; [discriminate H|].
  split; [discriminate|].
  destruct (next_cases c rest) as [[a' [E LE]] | E]; rewrite E in H; [|discriminate H].
  injection H as <-. cbn [length]. lia.
Qed.

Lemma tok_lsim (f : nat) :
  forall cs cs', lsim cs cs' ->
  forall f' top acc, length cs < f -> length cs' < f' ->
    rrel (tok f cs top ext acc) (tok f' cs' top ext acc).
Proof.
  induction f as [|f IHf]; [intros; lia|].
  intros cs cs' H.
  induction H as [s | c s s' WS H IH
                  | s s' r r' N N' H _ | s s' tk r r' N N' H _
                  | s s' r r' N N' H _ | s s' r r' N N' H _
                  | s s' e NE NE' N N'];
    intros f' top acc LT LT'.
  - rewrite (tok_fuel_irrelevant f' (S f) s top acc) by lia. apply rrel_refl.
  - destruct f' as [|f']; [lia|]. cbn [length] in LT'.
    rewrite (tok_next f' c s'). unfold next. rewrite WS. cbn [bind continue].
    apply IH; lia.
  - destruct (nexts_ok s _ N) as [NE LEN]. destruct (nexts_ok s' _ N') as [NE' LEN'].
    cbn [arest] in LEN, LEN'. destruct f' as [|f']; [lia|].
    rewrite (tok_nexts f s top acc NE), (tok_nexts f' s' top acc NE'), N, N'.
    cbn [bind continue]. apply IHf; [exact H | lia | lia].
  - destruct (nexts_ok s _ N) as [NE LEN]. destruct (nexts_ok s' _ N') as [NE' LEN'].
    cbn [arest] in LEN, LEN'. destruct f' as [|f']; [lia|].
    rewrite (tok_nexts f s top acc NE), (tok_nexts f' s' top acc NE'), N, N'.
    cbn [bind continue]. apply IHf; [exact H | lia | lia].
  - destruct (nexts_ok s _ N) as [NE LEN]. destruct (nexts_ok s' _ N') as [NE' LEN'].
    cbn [arest] in LEN, LEN'. destruct f' as [|f']; [lia|].
    rewrite (tok_nexts f s top acc NE), (tok_nexts f' s' top acc NE'), N, N'.
    cbn [bind continue].
    pose proof (IHf r r' H f' false [] ltac:(lia) ltac:(lia)) as R.
    destruct (tok_fuel_enough f r false [] ltac:(lia)) as [_ LR].
    destruct (tok_fuel_enough f' r' false [] ltac:(lia)) as [_ LR'].
    destruct (tok f r false ext []) as [[grp r1] | e | p |] eqn:E; cbn [rrel] in R.
    + destruct R as [r1' [E' H1]]. rewrite E' in *. cbn [bind].
      specialize (LR grp r1 eq_refl). specialize (LR' grp r1' eq_refl).
      apply IHf; [exact H1 | lia | lia].
    + rewrite R. cbn [bind rrel]. reflexivity.
    + rewrite R. cbn [bind rrel]. reflexivity.
    + rewrite R. cbn [bind rrel]. reflexivity.
  - destruct (nexts_ok s _ N) as [NE LEN]. destruct (nexts_ok s' _ N') as [NE' LEN'].
    destruct f' as [|f']; [lia|].
    rewrite (tok_nexts f s top acc NE), (tok_nexts f' s' top acc NE'), N, N'.
    cbn [bind continue]. destruct top; cbn [rrel]; [reflexivity|].
    exists r'. split; [reflexivity | exact H].
  - destruct f' as [|f']; [lia|].
    rewrite (tok_nexts f s top acc NE), (tok_nexts f' s' top acc NE'), N, N'.
    cbn [bind rrel]. reflexivity.
Qed.

Theorem tokenize_lsim (s s' : str) : lsim s s' -> tokenize ext s' = tokenize ext s.
Proof.
  intro H. unfold Tokenizer.tokenize.
  pose proof (tok_lsim (S (length s)) s s' H (S (length s')) true []
                       ltac:(lia) ltac:(lia)) as R.
  destruct (tok (S (length s)) s true ext []) as [[ts r] | e | p |]; cbn [rrel] in R.
  - destruct R as [r' [-> _]]. reflexivity.
  - rewrite R. reflexivity.
  - rewrite R. reflexivity.
  - rewrite R. reflexivity.
Qed.

(** inputs on which the next iteration does literally the same are similar *)
Lemma lsim_same_next (s s' : str) :
  s <> [] -> s' <> [] -> nexts s = nexts s' -> lsim s s'.
Proof.
  intros NE NE' E.
  destruct s as [|c rest]; [contradiction|].
  destruct (next_cases c rest) as [[a [N _]] | N]; cbn [nexts] in E; rewrite N in E.
  - destruct a as [r | tk r | r | r].
    + eapply lsim_skip; [exact N | symmetry; exact E | apply lsim_refl].
    + eapply lsim_push; [exact N | symmetry; exact E | apply lsim_refl].
    + eapply lsim_open; [exact N | symmetry; exact E | apply lsim_refl].
    + eapply lsim_close; [exact N | symmetry; exact E | apply lsim_refl].
  - eapply lsim_fail; [exact NE | exact NE' | exact N | symmetry; exact E].
Qed.

(** * Character classes *)

(** white space that is not a name character.  Below 128 every white-space character is
    one; above, [ext_alnum] is arbitrary in this development, whereas in Unicode no
    white-space character is alphanumeric ([is_sep_ws_unicode]). *)
Definition is_sep (c : N) : bool := is_ws c && negb (is_name_char c).

Definition ws_str (w : str) : Prop := forallb is_ws w = true.
Definition sep_str (w : str) : Prop := forallb is_sep w = true.
Definition name_str (n : str) : Prop := n <> [] /\ forallb is_name_char n = true.

Lemma is_sep_ws (c : N) : is_sep c = true -> is_ws c = true.
Proof. unfold is_sep. intro H. apply andb_true_iff in H. apply H. Qed.

Lemma is_sep_not_name (c : N) : is_sep c = true -> is_name_char c = false.
Proof.
  unfold is_sep. intro H. apply andb_true_iff in H. destruct H as [_ H].
  apply negb_true_iff in H. exact H.
Qed.

Lemma is_sep_ws_unicode (c : N) :
  (forall x, is_ws x = true -> ext_alnum x = false) -> is_sep c = is_ws c.
Proof.
  intro U. unfold is_sep. destruct (is_ws c) eqn:W; [|reflexivity]. cbn [andb].
  unfold Tokenizer.is_name_char, is_alnum.
  destruct (N.ltb c 128) eqn:LT.
  - unfold is_ws, in_range in W. apply N.ltb_lt in LT.
    repeat (apply orb_true_iff in W; destruct W as [W | W]);
      try (apply andb_true_iff in W; destruct W as [W1 W2];
           apply N.leb_le in W1; apply N.leb_le in W2);
      try (apply N.eqb_eq in W); try lia.
    + assert (c = 9 \/ c = 10 \/ c = 11 \/ c = 12 \/ c = 13)%N as C by lia.
      destruct C as [-> | [-> | [-> | [-> | ->]]]]; reflexivity.
    + subst c. reflexivity.
  - rewrite (U c W). cbn [orb negb].
    apply N.ltb_ge in LT. destruct (N.eqb c c_underscore) eqn:E; [|reflexivity].
    apply N.eqb_eq in E. subst c. unfold c_underscore in LT. lia.
Qed.

Lemma sep_str_ws (w : str) : sep_str w -> ws_str w.
Proof.
  unfold sep_str, ws_str. induction w as [|c w IH]; cbn [forallb]; [reflexivity|].
  intro H. apply andb_true_iff in H. destruct H as [H1 H2].
  rewrite (is_sep_ws c H1), (IH H2). reflexivity.
Qed.

Lemma name_char_neq (c k : N) :
  is_name_char c = true -> is_name_char k = false -> N.eqb c k = false.
Proof.
  intros Hc Hk. destruct (N.eqb c k) eqn:E; [|reflexivity].
  apply N.eqb_eq in E. subst k. rewrite Hc in Hk. discriminate Hk.
Qed.

Lemma ws_neq (c k : N) : is_ws c = true -> is_ws k = false -> N.eqb c k = false.
Proof.
  intros Hc Hk. destruct (N.eqb c k) eqn:E; [|reflexivity].
  apply N.eqb_eq in E. subst k. rewrite Hc in Hk. discriminate Hk.
Qed.

Lemma temp_op_name_char (c : N) : is_temp_op_char c = true -> is_name_char c = true.
Proof.
  unfold is_temp_op_char. intro H.
  repeat (apply orb_true_iff in H; destruct H as [H | H]);
    apply N.eqb_eq in H; subst c; reflexivity.
Qed.

Lemma peek_sep_str (w s : str) :
  sep_str w -> peek_name_char s = false -> peek_name_char (w ++ s) = false.
Proof.
  intros W P. destruct w as [|c w]; [exact P|]. cbn [app Tokenizer.peek_name_char].
  unfold sep_str in W. cbn [forallb] in W. apply andb_true_iff in W.
  apply is_sep_not_name, W.
Qed.

(** * The helpers on well-formed pieces of text *)

Lemma collect_name_stop (s : str) : peek_name_char s = false -> collect_name s = ([], s).
Proof.
  destruct s as [|c s]; cbn [Tokenizer.peek_name_char Tokenizer.collect_name]; [reflexivity|].
  intros ->. reflexivity.
Qed.

Lemma collect_name_name (n s : str) :
  forallb is_name_char n = true -> peek_name_char s = false -> collect_name (n ++ s) = (n, s).
Proof.
  intros NM P. induction n as [|c n IH]; cbn [app]; [apply collect_name_stop, P|].
  cbn [forallb] in NM. apply andb_true_iff in NM. destruct NM as [NC NM].
  cbn [Tokenizer.collect_name]. rewrite NC, (IH NM). reflexivity.
Qed.

Definition peek_ws (s : str) : bool := match s with c :: _ => is_ws c | [] => false end.

Lemma skip_ws_stop (s : str) : peek_ws s = false -> skip_ws s = s.
Proof. destruct s as [|c s]; cbn [peek_ws skip_ws]; [reflexivity|]. intros ->. reflexivity. Qed.

Lemma skip_ws_ws (w s : str) : ws_str w -> peek_ws s = false -> skip_ws (w ++ s) = s.
Proof.
  unfold ws_str. intros W P. induction w as [|c w IH]; cbn [app]; [apply skip_ws_stop, P|].
  cbn [forallb] in W. apply andb_true_iff in W. destruct W as [Wc W].
  cbn [skip_ws]. rewrite Wc. apply IH, W.
Qed.

Lemma skip_ws_all (w : str) : ws_str w -> skip_ws w = [].
Proof. intro W. rewrite <- (app_nil_r w). apply skip_ws_ws; [exact W | reflexivity]. Qed.

(** the text of the optional domain of a hybrid operator, followed by [tail] *)
Definition dom_txt (d : option str) (w3 w4 tail : str) : str :=
  match d with
  | None => tail
  | Some dn => c_i :: c_n :: w3 ++ c_pct :: dn ++ c_pct :: w4 ++ tail
  end.

(** the text of a hybrid segment: [{x}], optionally [in %d%], then [:], with white space
    [w1] .. [w4] at the four places where the tokenizer skips it *)
Definition seg_txt (x : str) (d : option str) (w1 w2 w3 w4 s : str) : str :=
  w1 ++ c_lbrace :: x ++ c_rbrace :: w2 ++ dom_txt d w3 w4 (c_colon :: s).

(** a domain can only be written where domains are parsed *)
Definition dom_ok (pd : bool) (d : option str) : Prop :=
  match d with
  | None => True
  | Some dn => pd = true /\ name_str dn
  end.

Lemma cvd_seg (pd : bool) (x : str) (d : option str) (w1 w2 w3 w4 s : str) :
  ws_str w1 -> ws_str w2 -> ws_str w3 -> ws_str w4 -> name_str x -> dom_ok pd d ->
  collect_var_dom (seg_txt x d w1 w2 w3 w4 s) pd = Ok (x, d, s).
Proof.
  intros W1 W2 W3 W4 [XN X] D. unfold seg_txt, Tokenizer.collect_var_dom.
  rewrite (skip_ws_ws w1 _ W1) by reflexivity.
  change (expect c_lbrace (c_lbrace :: ?r)) with (Ok r). cbn [bind].
  rewrite (collect_name_name x _ X) by reflexivity.
  destruct x as [|x0 x]; [contradiction|].
  change (expect c_rbrace (c_rbrace :: ?r)) with (Ok r). cbn [bind].
  destruct d as [dn|]; cbn [dom_txt dom_ok] in *.
  - destruct D as [-> [DN D]].
    rewrite (skip_ws_ws w2 _ W2) by reflexivity.
    change (true && peek_is c_i (c_i :: ?r)) with true. cbv iota. cbn [tl].
    change (expect c_n (c_n :: ?r)) with (Ok r). cbn [bind].
    rewrite (skip_ws_ws w3 _ W3) by reflexivity.
    change (expect c_pct (c_pct :: ?r)) with (Ok r). cbn [bind].
    rewrite (collect_name_name dn _ D) by reflexivity.
    destruct dn as [|d0 dn]; [contradiction|].
    change (expect c_pct (c_pct :: ?r)) with (Ok r). cbn [bind].
    rewrite (skip_ws_ws w4 _ W4) by reflexivity.
    reflexivity.
  - rewrite (skip_ws_ws w2 _ W2) by reflexivity.
    change (peek_is c_i (c_colon :: s)) with false. rewrite andb_false_r. cbn [bind].
    reflexivity.
Qed.

Lemma peek_seg (x : str) (d : option str) (w1 w2 w3 w4 s : str) :
  sep_str w1 -> peek_name_char (seg_txt x d w1 w2 w3 w4 s) = false.
Proof. intro W. unfold seg_txt. apply peek_sep_str; [exact W | reflexivity]. Qed.

(** * One iteration on the text of a complete token *)

(** decide the tests on known characters *)
Ltac closed_if :=
  match goal with
  | |- context [if ?b then _ else _] =>
      let v := eval vm_compute in b in
      match v with
      | true => change b with true
      | false => change b with false
      end; cbv iota
  end.

Definition simple_ops : list (str * token) :=
  [ ([c_tilde], TUn Not); ([c_amp], TBin And); ([c_bar], TBin Or); ([c_caret], TBin Xor);
    ([c_eq; c_gt], TBin Imp); ([c_lt; c_eq; c_gt], TBin Iff) ].

Lemma nexts_simple_op (txt : str) (tk : token) (s : str) :
  In (txt, tk) simple_ops -> nexts (txt ++ s) = Ok (APush tk s).
Proof.
  intro H. cbn [simple_ops In] in H.
  repeat (destruct H as [H | H]; [injection H as <- <-; reflexivity|]). contradiction.
Qed.

Lemma temporal_token_ok (c c2 : N) (tk : token) :
  temporal_token c c2 = Ok tk -> is_temp_op_char c2 = true.
Proof.
  unfold temporal_token, is_temp_op_char.
  destruct (N.eqb c2 c_X); [reflexivity|]. destruct (N.eqb c2 c_F); [reflexivity|].
  destruct (N.eqb c2 c_G); [reflexivity|]. destruct (N.eqb c2 c_U); [reflexivity|].
  destruct (N.eqb c2 c_W); [reflexivity|]. intro H. discriminate H.
Qed.

Lemma nexts_temporal (c c2 : N) (tk : token) (s : str) :
  c = c_E \/ c = c_A -> temporal_token c c2 = Ok tk -> peek_name_char s = false ->
  nexts (c :: c2 :: s) = Ok (APush tk s).
Proof.
  intros C T P. pose proof (temporal_token_ok c c2 tk T) as T2.
  cbn [nexts]. unfold next.
  destruct C as [-> | ->]; repeat closed_if; rewrite T2; cbn [orb andb]; rewrite P, T;
    reflexivity.
Qed.

(** names that the tokenizer does not read as a proposition when a non-name character
    follows: [3], [V] and the temporal operators *)
Definition reserved (n : str) : bool :=
  match n with
  | [c] => N.eqb c c_three || N.eqb c c_V
  | [c; c2] => (N.eqb c c_E || N.eqb c c_A) && is_temp_op_char c2
  | _ => false
  end.

Definition prop_text (n : str) : Prop :=
  name_str n /\ peek_ws n = false /\ reserved n = false.

Lemma nexts_prop (n s : str) :
  prop_text n -> peek_name_char s = false ->
  nexts (n ++ s) = Ok (APush (TAtom (AProp n)) s).
Proof.
  intros [[NE NM] [WS RS]] PK. destruct n as [|c n]; [contradiction|]. clear NE.
  cbn [peek_ws] in WS. cbn [forallb] in NM. apply andb_true_iff in NM. destruct NM as [NC NM].
  cbn [app nexts]. unfold next. rewrite WS.
  rewrite (name_char_neq c c_tilde NC eq_refl), (name_char_neq c c_amp NC eq_refl),
    (name_char_neq c c_bar NC eq_refl), (name_char_neq c c_caret NC eq_refl),
    (name_char_neq c c_eq NC eq_refl), (name_char_neq c c_lt NC eq_refl),
    (name_char_neq c c_gt NC eq_refl).
  destruct ((N.eqb c c_E || N.eqb c c_A)
            && match n ++ s with c2 :: _ => is_temp_op_char c2 | [] => false end) eqn:EA.
  { apply andb_true_iff in EA. destruct EA as [EA T].
    destruct n as [|c2 n]; cbn [app] in *.
    - destruct s as [|c2 s]; [discriminate T|]. cbn [Tokenizer.peek_name_char] in PK.
      rewrite (temp_op_name_char c2 T) in PK. discriminate PK.
    - destruct n as [|c3 n]; cbn [app].
      + cbn [reserved] in RS. rewrite EA, T in RS. discriminate RS.
      + cbn [forallb] in NM. apply andb_true_iff in NM. destruct NM as [_ NM].
        pose proof NM as NM3. cbn [forallb] in NM3. apply andb_true_iff in NM3.
        destruct NM3 as [NC3 _]. cbn [Tokenizer.peek_name_char]. rewrite NC3.
        change (c3 :: n ++ s) with ((c3 :: n) ++ s).
        rewrite (collect_name_name (c3 :: n) s NM PK). reflexivity. }
  rewrite (name_char_neq c c_bang NC eq_refl).
  destruct (N.eqb c c_three && negb (peek_name_char (n ++ s))) eqn:E3.
  { apply andb_true_iff in E3. destruct E3 as [E3 P3]. destruct n as [|c2 n].
    - cbn [reserved] in RS. rewrite E3 in RS. discriminate RS.
    - cbn [app Tokenizer.peek_name_char] in P3. cbn [forallb] in NM.
      apply andb_true_iff in NM. destruct NM as [NC2 _]. rewrite NC2 in P3. discriminate P3. }
  destruct (N.eqb c c_V && negb (peek_name_char (n ++ s))) eqn:EV.
  { apply andb_true_iff in EV. destruct EV as [EV PV]. destruct n as [|c2 n].
    - cbn [reserved] in RS. rewrite EV, orb_true_r in RS. discriminate RS.
    - cbn [app Tokenizer.peek_name_char] in PV. cbn [forallb] in NM.
      apply andb_true_iff in NM. destruct NM as [NC2 _]. rewrite NC2 in PV. discriminate PV. }
  rewrite (name_char_neq c c_at NC eq_refl), (name_char_neq c c_bslash NC eq_refl),
    (name_char_neq c c_rpar NC eq_refl), (name_char_neq c c_lpar NC eq_refl),
    (name_char_neq c c_lbrace NC eq_refl), (name_char_neq c c_pct NC eq_refl).
  cbn [andb]. rewrite NC, (collect_name_name n s NM PK). reflexivity.
Qed.

Lemma nexts_var (x s : str) :
  name_str x -> nexts (c_lbrace :: x ++ c_rbrace :: s) = Ok (APush (TAtom (AVar x)) s).
Proof.
  intros [NE NM]. cbn [nexts]. unfold next. repeat closed_if.
  rewrite (collect_name_name x _ NM) by reflexivity.
  destruct x as [|x0 x]; [contradiction|].
  change (expect c_rbrace (c_rbrace :: s)) with (Ok s). reflexivity.
Qed.

Lemma nexts_wild (x s : str) :
  ext = true -> name_str x ->
  nexts (c_pct :: x ++ c_pct :: s) = Ok (APush (TAtom (AWild x)) s).
Proof.
  intros E [NE NM]. cbn [nexts]. unfold next. repeat closed_if. rewrite E.
  change (N.eqb c_pct c_pct && true) with true. cbv iota.
  rewrite (collect_name_name x _ NM) by reflexivity.
  destruct x as [|x0 x]; [contradiction|].
  change (expect c_pct (c_pct :: s)) with (Ok s). reflexivity.
Qed.

Lemma nexts_lpar (s : str) : nexts (c_lpar :: s) = Ok (AOpen s).
Proof. reflexivity. Qed.

Lemma nexts_rpar (s : str) : nexts (c_rpar :: s) = Ok (AClose s).
Proof. reflexivity. Qed.

Lemma nexts_ws (c : N) (s : str) : is_ws c = true -> nexts (c :: s) = Ok (ASkip s).
Proof. intro W. cbn [nexts]. unfold next. rewrite W. reflexivity. Qed.

(** the spellings of the hybrid operators *)
Definition hyb_heads : list (str * hybop) :=
  [ ([c_bang], Bind); ([c_three], Exists); ([c_V], Forall); ([c_at], Jump);
    (c_bslash :: s_bind, Bind); (c_bslash :: s_exists, Exists);
    (c_bslash :: s_forall, Forall); (c_bslash :: s_jump, Jump) ].

(** where the tokenizer parses domains: after bind / exists / forall of the extended syntax *)
Definition hyb_pd (o : hybop) : bool := match o with Jump => false | _ => ext end.

Lemma cvd_false_dom (seg : str) (nd : str * option str) (r : str) :
  collect_var_dom seg false = Ok (nd, r) -> snd nd = None.
Proof.
  unfold Tokenizer.collect_var_dom.
  destruct (expect c_lbrace (skip_ws seg)) as [cs1 | | |]; cbn [bind]; try discriminate.
  destruct (collect_name cs1) as [name cs2]. destruct name as [|n0 name]; [discriminate|].
  destruct (expect c_rbrace cs2) as [cs3 | | |]; cbn [bind andb]; try discriminate.
  destruct (expect c_colon (skip_ws cs3)) as [cs4 | | |]; cbn [bind]; try discriminate.
  intro H. injection H as <- _. reflexivity.
Qed.

(** every spelling of a hybrid operator starts the same iteration: read the segment *)
Lemma nexts_hyb_head (pre : str) (o : hybop) (seg : str) :
  In (pre, o) hyb_heads -> peek_name_char seg = false ->
  nexts (pre ++ seg)
  = let* (nd, rest) := collect_var_dom seg (hyb_pd o) in
    Ok (APush (THyb o (fst nd) (snd nd)) rest).
Proof.
  intros H P. cbn [hyb_heads In] in H.
  repeat (destruct H as [H | H]; [injection H as <- <-|]); [..|contradiction];
    cbn [app nexts hyb_pd]; unfold next; repeat closed_if;
    try (rewrite P; cbn [negb andb]; repeat closed_if);
    try match goal with
        | |- context [collect_name (?n ++ seg)] =>
            rewrite (collect_name_name n seg eq_refl P); repeat closed_if
        end;
    try reflexivity.
  - destruct (collect_var_dom seg false) as [[nd r] | | |] eqn:E; try reflexivity.
    cbn [bind]. rewrite (cvd_false_dom seg nd r E). reflexivity.
  - destruct (collect_var_dom seg false) as [[nd r] | | |] eqn:E; try reflexivity.
    cbn [bind]. rewrite (cvd_false_dom seg nd r E). reflexivity.
Qed.

Lemma nexts_hyb (pre : str) (o : hybop) (x : str) (d : option str) (w1 w2 w3 w4 s : str) :
  In (pre, o) hyb_heads ->
  sep_str w1 -> ws_str w2 -> ws_str w3 -> ws_str w4 -> name_str x -> dom_ok (hyb_pd o) d ->
  nexts (pre ++ seg_txt x d w1 w2 w3 w4 s) = Ok (APush (THyb o x d) s).
Proof.
  intros H W1 W2 W3 W4 X D.
  rewrite (nexts_hyb_head pre o _ H (peek_seg x d w1 w2 w3 w4 s W1)).
  rewrite (cvd_seg (hyb_pd o) x d w1 w2 w3 w4 s (sep_str_ws w1 W1) W2 W3 W4 X D).
  reflexivity.
Qed.

(** ** the spellings of a hybrid operator are interchangeable *)

Lemma hyb_head_nonempty (pre : str) (o : hybop) : In (pre, o) hyb_heads -> pre <> [].
Proof.
  intro H. cbn [hyb_heads In] in H.
  repeat (destruct H as [H | H]; [injection H as <- <-; discriminate|]). contradiction.
Qed.

Theorem nexts_spelling (pre pre' : str) (o : hybop) (seg : str) :
  In (pre, o) hyb_heads -> In (pre', o) hyb_heads -> peek_name_char seg = false ->
  nexts (pre ++ seg) = nexts (pre' ++ seg).
Proof.
  intros H H' P. rewrite (nexts_hyb_head pre o seg H P), (nexts_hyb_head pre' o seg H' P).
  reflexivity.
Qed.

Lemma app_nonempty {A} (l r : list A) : l <> [] -> l ++ r <> [].
Proof. destruct l; [intro H; contradiction | intros _; discriminate]. Qed.

Theorem tok_spelling (pre pre' : str) (o : hybop) (seg : str)
        (f : nat) (top : bool) (acc : list token) :
  In (pre, o) hyb_heads -> In (pre', o) hyb_heads -> peek_name_char seg = false ->
  tok (S f) (pre ++ seg) top ext acc = tok (S f) (pre' ++ seg) top ext acc.
Proof.
  intros H H' P.
  rewrite (tok_nexts f (pre ++ seg)) by (apply app_nonempty, (hyb_head_nonempty pre o H)).
  rewrite (tok_nexts f (pre' ++ seg)) by (apply app_nonempty, (hyb_head_nonempty pre' o H')).
  rewrite (nexts_spelling pre pre' o seg H H' P). reflexivity.
Qed.

Theorem tokenize_spelling (pre pre' : str) (o : hybop) (seg : str) :
  In (pre, o) hyb_heads -> In (pre', o) hyb_heads -> peek_name_char seg = false ->
  tokenize ext (pre ++ seg) = tokenize ext (pre' ++ seg).
Proof.
  intros H H' P. symmetry. apply tokenize_lsim, lsim_same_next.
  - apply app_nonempty, (hyb_head_nonempty pre o H).
  - apply app_nonempty, (hyb_head_nonempty pre' o H').
  - apply (nexts_spelling pre pre' o seg H H' P).
Qed.

Lemma in_heads_bind : In ([c_bang], Bind) hyb_heads /\ In (c_bslash :: s_bind, Bind) hyb_heads.
Proof. cbn [hyb_heads In]. auto 10. Qed.
Lemma in_heads_exists :
  In ([c_three], Exists) hyb_heads /\ In (c_bslash :: s_exists, Exists) hyb_heads.
Proof. cbn [hyb_heads In]. auto 10. Qed.
Lemma in_heads_forall :
  In ([c_V], Forall) hyb_heads /\ In (c_bslash :: s_forall, Forall) hyb_heads.
Proof. cbn [hyb_heads In]. auto 10. Qed.
Lemma in_heads_jump : In ([c_at], Jump) hyb_heads /\ In (c_bslash :: s_jump, Jump) hyb_heads.
Proof. cbn [hyb_heads In]. auto 10. Qed.

Theorem tok_spelling_bind (rest : str) (f : nat) (top : bool) (acc : list token) :
  peek_name_char rest = false ->
  tok (S f) (c_bslash :: s_bind ++ rest) top ext acc = tok (S f) (c_bang :: rest) top ext acc.
Proof.
  intro P. exact (tok_spelling (c_bslash :: s_bind) [c_bang] Bind rest f top acc
                    (proj2 in_heads_bind) (proj1 in_heads_bind) P).
Qed.

Theorem tok_spelling_exists (rest : str) (f : nat) (top : bool) (acc : list token) :
  peek_name_char rest = false ->
  tok (S f) (c_bslash :: s_exists ++ rest) top ext acc
  = tok (S f) (c_three :: rest) top ext acc.
Proof.
  intro P. exact (tok_spelling (c_bslash :: s_exists) [c_three] Exists rest f top acc
                    (proj2 in_heads_exists) (proj1 in_heads_exists) P).
Qed.

Theorem tok_spelling_forall (rest : str) (f : nat) (top : bool) (acc : list token) :
  peek_name_char rest = false ->
  tok (S f) (c_bslash :: s_forall ++ rest) top ext acc = tok (S f) (c_V :: rest) top ext acc.
Proof.
  intro P. exact (tok_spelling (c_bslash :: s_forall) [c_V] Forall rest f top acc
                    (proj2 in_heads_forall) (proj1 in_heads_forall) P).
Qed.

Theorem tok_spelling_jump (rest : str) (f : nat) (top : bool) (acc : list token) :
  peek_name_char rest = false ->
  tok (S f) (c_bslash :: s_jump ++ rest) top ext acc = tok (S f) (c_at :: rest) top ext acc.
Proof.
  intro P. exact (tok_spelling (c_bslash :: s_jump) [c_at] Jump rest f top acc
                    (proj2 in_heads_jump) (proj1 in_heads_jump) P).
Qed.

(** the side condition is needed: before a name character [3] and [V] are the first
    letter of a proposition name, and a long spelling is another (unknown) operator name *)
Lemma spelling_side_condition_needed :
  tokenize ext (c_three :: [c_x]) = Ok [TAtom (AProp [c_three; c_x])]
  /\ tokenize ext (c_bslash :: s_exists ++ [c_x]) = Err ELex.
Proof. split; reflexivity. Qed.

(** * White space at the start of an iteration: any white space, any context *)

Lemma lsim_leading (w s : str) : ws_str w -> lsim s (w ++ s).
Proof.
  unfold ws_str. intro W. induction w as [|c w IH]; cbn [app]; [apply lsim_refl|].
  cbn [forallb] in W. apply andb_true_iff in W. destruct W as [Wc W].
  apply lsim_ins; [exact Wc | apply IH, W].
Qed.

Lemma lsim_after_op (txt : str) (tk : token) (w s : str) :
  In (txt, tk) simple_ops -> ws_str w -> lsim (txt ++ s) (txt ++ w ++ s).
Proof.
  intros I W.
  eapply lsim_push; [apply nexts_simple_op, I | apply nexts_simple_op, I | apply lsim_leading, W].
Qed.

Lemma lsim_after_lpar (w s : str) : ws_str w -> lsim (c_lpar :: s) (c_lpar :: w ++ s).
Proof.
  intro W. eapply lsim_open; [apply nexts_lpar | apply nexts_lpar | apply lsim_leading, W].
Qed.

Lemma lsim_after_rpar (w s : str) : ws_str w -> lsim (c_rpar :: s) (c_rpar :: w ++ s).
Proof.
  intro W. eapply lsim_close; [apply nexts_rpar | apply nexts_rpar | apply lsim_leading, W].
Qed.

Lemma lsim_after_var (x w s : str) :
  name_str x -> ws_str w ->
  lsim (c_lbrace :: x ++ c_rbrace :: s) (c_lbrace :: x ++ c_rbrace :: w ++ s).
Proof.
  intros X W.
  eapply lsim_push; [apply nexts_var, X | apply nexts_var, X | apply lsim_leading, W].
Qed.

(** * The syntactic relation: more white space between tokens, other spellings

    [respaced s s']: [s'] is [s] with additional separators at token boundaries, with any
    white space at the four places of a hybrid segment where the tokenizer skips it, and
    with hybrid operators possibly spelled differently.  The text is followed token by
    token from the left; it may end with an arbitrary unchanged rest ([rs_refl]). *)
Inductive respaced : str -> str -> Prop :=
| rs_refl : forall s, respaced s s
| rs_ins : forall c s s', is_sep c = true -> respaced s s' -> respaced s (c :: s')
| rs_ws : forall c s s', is_ws c = true -> respaced s s' -> respaced (c :: s) (c :: s')
| rs_op : forall txt tk s s',
    In (txt, tk) simple_ops -> respaced s s' -> respaced (txt ++ s) (txt ++ s')
| rs_temporal : forall c c2 tk s s',
    c = c_E \/ c = c_A -> temporal_token c c2 = Ok tk -> peek_name_char s = false ->
    respaced s s' -> respaced (c :: c2 :: s) (c :: c2 :: s')
| rs_prop : forall n s s',
    prop_text n -> peek_name_char s = false -> respaced s s' -> respaced (n ++ s) (n ++ s')
| rs_var : forall x s s',
    name_str x -> respaced s s' ->
    respaced (c_lbrace :: x ++ c_rbrace :: s) (c_lbrace :: x ++ c_rbrace :: s')
| rs_wild : forall x s s',
    ext = true -> name_str x -> respaced s s' ->
    respaced (c_pct :: x ++ c_pct :: s) (c_pct :: x ++ c_pct :: s')
| rs_lpar : forall s s', respaced s s' -> respaced (c_lpar :: s) (c_lpar :: s')
| rs_rpar : forall s s', respaced s s' -> respaced (c_rpar :: s) (c_rpar :: s')
| rs_hyb : forall pre pre' o x d w1 w2 w3 w4 w1' w2' w3' w4' s s',
    In (pre, o) hyb_heads -> In (pre', o) hyb_heads ->
    pre' = pre \/ peek_name_char pre' = false ->
    sep_str w1 -> ws_str w2 -> ws_str w3 -> ws_str w4 ->
    sep_str w1' -> ws_str w2' -> ws_str w3' -> ws_str w4' ->
    name_str x -> dom_ok (hyb_pd o) d -> respaced s s' ->
    respaced (pre ++ seg_txt x d w1 w2 w3 w4 s) (pre' ++ seg_txt x d w1' w2' w3' w4' s').

Lemma peek_app_nonempty (l r : str) : l <> [] -> peek_name_char (l ++ r) = peek_name_char l.
Proof. destruct l; [intro H; contradiction | reflexivity]. Qed.

Lemma respaced_peek (s s' : str) :
  respaced s s' -> peek_name_char s = false -> peek_name_char s' = false.
Proof.
  intros H P.
  destruct H as [s | c s s' C H | c s s' C H | txt tk s s' I H | c c2 tk s s' C T PS H
                 | n s s' [[NE _] _] PS H | x s s' X H | x s s' E X H | s s' H | s s' H
                 | pre pre' o x d w1 w2 w3 w4 w1' w2' w3' w4' s s' I I' PP]; try exact P.
  - cbn [Tokenizer.peek_name_char]. apply is_sep_not_name, C.
  - cbn [simple_ops In] in I.
    repeat (destruct I as [I | I]; [injection I as <- <-; exact P|]). contradiction.
  - destruct n as [|c n]; [contradiction | exact P].
  - pose proof (hyb_head_nonempty pre o I) as NE.
    pose proof (hyb_head_nonempty pre' o I') as NE'.
    rewrite (peek_app_nonempty pre _ NE) in P. rewrite (peek_app_nonempty pre' _ NE').
    destruct PP as [-> | PP]; [exact P | exact PP].
Qed.

Theorem respaced_lsim (s s' : str) : respaced s s' -> lsim s s'.
Proof.
  intro H.
  induction H as [s | c s s' C H IH | c s s' C H IH | txt tk s s' I H IH
                  | c c2 tk s s' C T PS H IH | n s s' N PS H IH | x s s' X H IH
                  | x s s' E X H IH | s s' H IH | s s' H IH
                  | pre pre' o x d w1 w2 w3 w4 w1' w2' w3' w4' s s' I I' PP
                      W1 W2 W3 W4 W1' W2' W3' W4' X D H IH].
  - apply lsim_refl.
  - apply lsim_ins; [apply is_sep_ws, C | exact IH].
  - eapply lsim_skip; [apply nexts_ws, C | apply nexts_ws, C | exact IH].
  - eapply lsim_push; [apply nexts_simple_op, I | apply nexts_simple_op, I | exact IH].
  - eapply lsim_push; [apply nexts_temporal; eassumption | | exact IH].
    apply nexts_temporal; try assumption. apply (respaced_peek s s' H PS).
  - eapply lsim_push; [apply nexts_prop; assumption | | exact IH].
    apply nexts_prop; [exact N | apply (respaced_peek s s' H PS)].
  - eapply lsim_push; [apply nexts_var, X | apply nexts_var, X | exact IH].
  - eapply lsim_push; [apply nexts_wild; assumption | apply nexts_wild; assumption | exact IH].
  - eapply lsim_open; [apply nexts_lpar | apply nexts_lpar | exact IH].
  - eapply lsim_close; [apply nexts_rpar | apply nexts_rpar | exact IH].
  - eapply lsim_push; [apply nexts_hyb; eassumption | apply nexts_hyb; eassumption | exact IH].
Qed.

Theorem tokenize_respaced (s s' : str) : respaced s s' -> tokenize ext s' = tokenize ext s.
Proof. intro H. apply tokenize_lsim, respaced_lsim, H. Qed.

(** ** instances: the token boundaries *)

Lemma respaced_leading (w s : str) : sep_str w -> respaced s (w ++ s).
Proof.
  unfold sep_str. intro W. induction w as [|c w IH]; cbn [app]; [apply rs_refl|].
  cbn [forallb] in W. apply andb_true_iff in W. destruct W as [Wc W].
  apply rs_ins; [exact Wc | apply IH, W].
Qed.

(** after an operator symbol *)
Lemma respaced_after_op (txt : str) (tk : token) (w s : str) :
  In (txt, tk) simple_ops -> sep_str w -> respaced (txt ++ s) (txt ++ w ++ s).
Proof. intros I W. eapply rs_op; [exact I | apply respaced_leading, W]. Qed.

Lemma respaced_after_temporal (c c2 : N) (tk : token) (w s : str) :
  c = c_E \/ c = c_A -> temporal_token c c2 = Ok tk -> peek_name_char s = false ->
  sep_str w -> respaced (c :: c2 :: s) (c :: c2 :: w ++ s).
Proof. intros C T P W. eapply rs_temporal; try eassumption. apply respaced_leading, W. Qed.

(** around parentheses *)
Lemma respaced_around_lpar (w w' s : str) :
  sep_str w -> sep_str w' -> respaced (c_lpar :: s) (w ++ c_lpar :: w' ++ s).
Proof.
  intros W W'. unfold sep_str in W. induction w as [|c w IH]; cbn [app].
  - apply rs_lpar, respaced_leading, W'.
  - cbn [forallb] in W. apply andb_true_iff in W. destruct W as [Wc W].
    apply rs_ins; [exact Wc | apply IH, W].
Qed.

Lemma respaced_around_rpar (w w' s : str) :
  sep_str w -> sep_str w' -> respaced (c_rpar :: s) (w ++ c_rpar :: w' ++ s).
Proof.
  intros W W'. unfold sep_str in W. induction w as [|c w IH]; cbn [app].
  - apply rs_rpar, respaced_leading, W'.
  - cbn [forallb] in W. apply andb_true_iff in W. destruct W as [Wc W].
    apply rs_ins; [exact Wc | apply IH, W].
Qed.

(** between [}] and the next token, after a proposition name, after a wild card *)
Lemma respaced_after_var (x w s : str) :
  name_str x -> sep_str w ->
  respaced (c_lbrace :: x ++ c_rbrace :: s) (c_lbrace :: x ++ c_rbrace :: w ++ s).
Proof. intros X W. apply rs_var; [exact X | apply respaced_leading, W]. Qed.

Lemma respaced_after_prop (n w s : str) :
  prop_text n -> peek_name_char s = false -> sep_str w -> respaced (n ++ s) (n ++ w ++ s).
Proof. intros N P W. apply rs_prop; [exact N | exact P | apply respaced_leading, W]. Qed.

Lemma respaced_after_wild (x w s : str) :
  ext = true -> name_str x -> sep_str w ->
  respaced (c_pct :: x ++ c_pct :: s) (c_pct :: x ++ c_pct :: w ++ s).
Proof. intros E X W. apply rs_wild; [exact E | exact X | apply respaced_leading, W]. Qed.

(** inside and after a hybrid segment, and with another spelling of the operator *)
Lemma respaced_hybrid (pre pre' : str) (o : hybop) (x : str) (d : option str)
      (w1 w2 w3 w4 w5 s : str) :
  In (pre, o) hyb_heads -> In (pre', o) hyb_heads ->
  pre' = pre \/ peek_name_char pre' = false ->
  sep_str w1 -> ws_str w2 -> ws_str w3 -> ws_str w4 -> sep_str w5 ->
  name_str x -> dom_ok (hyb_pd o) d ->
  respaced (pre ++ seg_txt x d [] [] [] [] s) (pre' ++ seg_txt x d w1 w2 w3 w4 (w5 ++ s)).
Proof.
  intros I I' PP W1 W2 W3 W4 W5 X D.
  eapply rs_hyb; try eassumption; try reflexivity. apply respaced_leading, W5.
Qed.

(** * Leading white space *)

Theorem tokenize_leading_ws (w s : str) : ws_str w -> tokenize ext (w ++ s) = tokenize ext s.
Proof. intro W. apply tokenize_lsim, lsim_leading, W. Qed.

(** * Trailing white space *)

Section Trailing.
Variable w : str.
Hypothesis W : ws_str w.
Hypothesis PW : peek_name_char w = false.

(** the outcome on the longer input is the outcome on the shorter one, with [w] appended to
    what is left unread *)
Definition app_rel {A} (g : A -> A) (r r' : res A) : Prop :=
  match r with
  | Ok a => r' = Ok (g a)
  | Err e => r' = Err e
  | _ => True
  end.

Lemma expect_app (c : N) (cs : str) :
  is_ws c = false -> app_rel (fun r => r ++ w) (expect c cs) (expect c (cs ++ w)).
Proof.
  intro C. destruct cs as [|x r]; cbn [app expect app_rel].
  - destruct w as [|x w']; cbn [expect]; [reflexivity|].
    unfold ws_str in W. cbn [forallb] in W. apply andb_true_iff in W. destruct W as [Wx _].
    rewrite (ws_neq x c Wx C). reflexivity.
  - destruct (N.eqb x c); reflexivity.
Qed.

Lemma expect_skip_app (c : N) (cs : str) :
  is_ws c = false ->
  app_rel (fun r => r ++ w) (expect c (skip_ws cs)) (expect c (skip_ws (cs ++ w))).
Proof.
  intro C. induction cs as [|a cs IH]; cbn [app skip_ws].
  - rewrite (skip_ws_all w W). reflexivity.
  - destruct (is_ws a); [exact IH|]. apply (expect_app c (a :: cs) C).
Qed.

Lemma collect_name_app (cs : str) :
  collect_name (cs ++ w) = (fst (collect_name cs), snd (collect_name cs) ++ w).
Proof.
  induction cs as [|a cs IH]; cbn [app Tokenizer.collect_name].
  - apply collect_name_stop, PW.
  - destruct (is_name_char a); [|reflexivity].
    rewrite IH. destruct (collect_name cs) as [n r]. reflexivity.
Qed.

Lemma peek_name_app (cs : str) : peek_name_char (cs ++ w) = peek_name_char cs.
Proof. destruct cs; [exact PW | reflexivity]. Qed.

Lemma peek_is_skip_app (c : N) (cs : str) :
  is_ws c = false -> peek_is c (skip_ws (cs ++ w)) = peek_is c (skip_ws cs).
Proof.
  intro C. induction cs as [|a cs IH]; cbn [app skip_ws].
  - rewrite (skip_ws_all w W). reflexivity.
  - destruct (is_ws a); [exact IH | reflexivity].
Qed.

Lemma skip_ws_app_ne (cs : str) : skip_ws cs <> [] -> skip_ws (cs ++ w) = skip_ws cs ++ w.
Proof.
  induction cs as [|a cs IH]; cbn [app skip_ws]; [intro H; contradiction|].
  destruct (is_ws a); [exact IH | reflexivity].
Qed.

Lemma tl_skip_app (cs : str) :
  skip_ws cs <> [] -> tl (skip_ws (cs ++ w)) = tl (skip_ws cs) ++ w.
Proof.
  intro NE. rewrite (skip_ws_app_ne cs NE). destruct (skip_ws cs); [contradiction | reflexivity].
Qed.

Lemma temp_peek_app (cs : str) :
  match cs ++ w with c2 :: _ => is_temp_op_char c2 | [] => false end
  = match cs with c2 :: _ => is_temp_op_char c2 | [] => false end.
Proof.
  destruct cs as [|a cs]; [|reflexivity]. cbn [app].
  destruct w as [|x w']; [reflexivity|]. cbn [Tokenizer.peek_name_char] in PW.
  destruct (is_temp_op_char x) eqn:T; [|reflexivity].
  rewrite (temp_op_name_char x T) in PW. discriminate PW.
Qed.

Ltac app_step L x :=
  let E := fresh "E" in
  pose proof L as E;
  match type of E with
  | app_rel _ ?r _ => destruct r as [x | ? | ? |]
  end; cbn [app_rel] in E;
  [ rewrite E; cbn [bind]
  | rewrite E; cbn [bind app_rel]; reflexivity
  | cbn [bind app_rel]; exact I
  | cbn [bind app_rel]; exact I ].

Lemma cvd_app (cs : str) (pd : bool) :
  app_rel (fun p : str * option str * str => (fst p, snd p ++ w))
          (collect_var_dom cs pd) (collect_var_dom (cs ++ w) pd).
Proof.
  unfold Tokenizer.collect_var_dom.
  app_step (expect_skip_app c_lbrace cs eq_refl) cs1.
  rewrite (collect_name_app cs1). destruct (collect_name cs1) as [name cs2]. cbn [fst snd].
  destruct name as [|n0 name]; [reflexivity|].
  app_step (expect_app c_rbrace cs2 eq_refl) cs3.
  rewrite (peek_is_skip_app c_i cs3 eq_refl).
  destruct (pd && peek_is c_i (skip_ws cs3)) eqn:PI.
  - assert (skip_ws cs3 <> []) as NE.
    { destruct (skip_ws cs3); [|discriminate]. rewrite andb_false_r in PI. discriminate PI. }
    rewrite (tl_skip_app cs3 NE).
    app_step (expect_app c_n (tl (skip_ws cs3)) eq_refl) cs5.
    app_step (expect_skip_app c_pct cs5 eq_refl) cs7.
    rewrite (collect_name_app cs7). destruct (collect_name cs7) as [dname cs8]. cbn [fst snd].
    destruct dname as [|d0 dname]; [reflexivity|].
    app_step (expect_app c_pct cs8 eq_refl) cs9.
    app_step (expect_skip_app c_colon cs9 eq_refl) cs10.
    reflexivity.
  - cbn [bind].
    app_step (expect_skip_app c_colon cs3 eq_refl) cs10.
    reflexivity.
Qed.

Definition amap (a : action) : action :=
  match a with
  | ASkip r => ASkip (r ++ w)
  | APush tk r => APush tk (r ++ w)
  | AOpen r => AOpen (r ++ w)
  | AClose r => AClose (r ++ w)
  end.

Ltac cvd_step s pd :=
  let p := fresh "p" in
  app_step (cvd_app s pd) p; destruct p as [? ?]; reflexivity.

Lemma next_app (c : N) (rest : str) : app_rel amap (next c rest) (next c (rest ++ w)).
Proof.
  unfold next.
  rewrite (temp_peek_app rest), (peek_name_app rest), (collect_name_app rest).
  destruct (is_ws c); [reflexivity|].
  destruct (N.eqb c c_tilde); [reflexivity|].
  destruct (N.eqb c c_amp); [reflexivity|].
  destruct (N.eqb c c_bar); [reflexivity|].
  destruct (N.eqb c c_caret); [reflexivity|].
  destruct (N.eqb c c_eq).
  { app_step (expect_app c_gt rest eq_refl) r1. reflexivity. }
  destruct (N.eqb c c_lt).
  { app_step (expect_app c_eq rest eq_refl) r1.
    app_step (expect_app c_gt r1 eq_refl) r2. reflexivity. }
  destruct (N.eqb c c_gt); [reflexivity|].
  destruct ((N.eqb c c_E || N.eqb c c_A)
            && match rest with c2 :: _ => is_temp_op_char c2 | [] => false end) eqn:EA.
  { destruct rest as [|c2 rest2]; [rewrite andb_false_r in EA; discriminate EA|]. cbn [app].
    rewrite (peek_name_app rest2). destruct (peek_name_char rest2).
    - rewrite (collect_name_app rest2). destruct (collect_name rest2) as [name rest3].
      reflexivity.
    - destruct (temporal_token c c2); reflexivity. }
  destruct (N.eqb c c_bang); [cvd_step rest ext|].
  destruct (N.eqb c c_three && negb (peek_name_char rest)); [cvd_step rest ext|].
  destruct (N.eqb c c_V && negb (peek_name_char rest)); [cvd_step rest ext|].
  destruct (N.eqb c c_at); [cvd_step rest false|].
  destruct (collect_name rest) as [name rest1]. cbn [fst snd].
  destruct (N.eqb c c_bslash).
  { destruct (str_eqb name s_exists); [cvd_step rest1 ext|].
    destruct (str_eqb name s_forall); [cvd_step rest1 ext|].
    destruct (str_eqb name s_bind); [cvd_step rest1 ext|].
    destruct (str_eqb name s_jump); [cvd_step rest1 false|].
    reflexivity. }
  destruct (N.eqb c c_rpar); [reflexivity|].
  destruct (N.eqb c c_lpar); [reflexivity|].
  destruct (N.eqb c c_lbrace).
  { destruct name as [|n0 name]; [reflexivity|].
    app_step (expect_app c_rbrace rest1 eq_refl) r1. reflexivity. }
  destruct (N.eqb c c_pct && ext).
  { destruct name as [|n0 name]; [reflexivity|].
    app_step (expect_app c_pct rest1 eq_refl) r1. reflexivity. }
  destruct (is_name_char c); reflexivity.
Qed.

Lemma lsim_nil_ws : lsim [] w.
Proof. rewrite <- (app_nil_r w). apply lsim_leading, W. Qed.

Lemma lsim_trailing_aux (n : nat) : forall s, length s <= n -> lsim s (s ++ w).
Proof.
  induction n as [|n IH]; intros s LE.
  - destruct s as [|c rest]; [exact lsim_nil_ws | cbn [length] in LE; lia].
  - destruct s as [|c rest]; [exact lsim_nil_ws|].
    cbn [length] in LE. pose proof (next_app c rest) as E.
    destruct (next_cases c rest) as [[a [N LEN]] | N]; rewrite N in E; cbn [app_rel] in E.
    + destruct a as [r | tk r | r | r]; cbn [amap arest] in E, LEN.
      * eapply lsim_skip; [exact N | exact E | apply IH; lia].
      * eapply lsim_push; [exact N | exact E | apply IH; lia].
      * eapply lsim_open; [exact N | exact E | apply IH; lia].
      * eapply lsim_close; [exact N | exact E | apply IH; lia].
    + eapply lsim_fail; [discriminate | discriminate | exact N | exact E].
Qed.

Lemma lsim_trailing (s : str) : lsim s (s ++ w).
Proof. apply (lsim_trailing_aux (length s)). lia. Qed.

End Trailing.

Theorem tokenize_trailing_ws (s w : str) :
  ws_str w -> peek_name_char w = false -> tokenize ext (s ++ w) = tokenize ext s.
Proof. intros W PW. apply tokenize_lsim, lsim_trailing; assumption. Qed.

Theorem tokenize_trailing_sep (s w : str) :
  sep_str w -> tokenize ext (s ++ w) = tokenize ext s.
Proof.
  intro W. apply tokenize_trailing_ws; [apply sep_str_ws, W|].
  rewrite <- (app_nil_r w). apply peek_sep_str; [exact W | reflexivity].
Qed.

End Lex.
