(** Fixed-point laws, dualities and monotonicity of the model's temporal operators, for
    arbitrary argument sets inside the unit and any network (C11, C13). *)
From HCTL Require Import Base Syntax TT Ops Eval Kripke HCTL.
From HCTL Require Import TTFacts OpsFacts FixFacts SemFacts.

(** ---- unfolding laws of the specification operators ---- *)
Section SemLaws.
Variable G : genv.
Local Notation n := (g_n G).
Variables P Q : val -> Prop.

Lemma EUs_unfold v : EUs G P Q v <-> Q v \/ (P v /\ EXs G (EUs G P Q) v).
Proof.
  split.
  - intro H. destruct H as [v Hq | v i Hp Hi He H]; [left; assumption|].
    right. split; [assumption|]. left. exists i. auto.
  - intros [Hq|[Hp [[i [Hi [He H]]]|[_ H]]]].
    + apply EUs_here; assumption.
    + eapply EUs_step; eassumption.
    + assumption.
Qed.

Lemma AUs_unfold v : AUs G P Q v <-> Q v \/ (P v /\ AXs G (AUs G P Q) v).
Proof.
  split.
  - intro H. destruct H as [v Hq | v Hp Hm Hs]; [left; assumption|].
    right. split; [assumption|]. split; assumption.
  - intros [Hq|[Hp [Hm Hs]]]; [apply AUs_here; assumption | apply AUs_step; assumption].
Qed.

Lemma EXs_mono (X Y : val -> Prop) v : (forall u, X u -> Y u) -> EXs G X v -> EXs G Y v.
Proof.
  intros H [[i [Hi [He Hm]]]|[Hs Hm]]; [left; exists i; auto | right; auto].
Qed.

Lemma AXs_mono (X Y : val -> Prop) v : (forall u, X u -> Y u) -> AXs G X v -> AXs G Y v.
Proof. intros H [A1 A2]. split; [intros i Hi He; apply H, A1; assumption | intro Hs; apply H, A2; assumption]. Qed.

Lemma EGs_unfold v : EGs G P v <-> P v /\ EXs G (EGs G P) v.
Proof.
  split.
  - intros [X [Xv HX]]. destruct (HX v Xv) as [Hp He]. split; [assumption|].
    eapply EXs_mono; [|exact He]. intros u Xu. exists X. auto.
  - intros [Hp He]. exists (fun u => EGs G P u \/ (P u /\ EXs G (EGs G P) u)). split; [right; auto|].
    intros u [[X [Xu HX]]|[Hpu Heu]].
    + destruct (HX u Xu) as [Hpu Heu]. split; [assumption|].
      eapply EXs_mono; [|exact Heu]. intros w Xw. left. exists X. auto.
    + split; [assumption|]. eapply EXs_mono; [|exact Heu]. intros w Hw. left. exact Hw.
Qed.

Lemma AGs_unfold v : AGs G P v <-> P v /\ AXs G (AGs G P) v.
Proof.
  split.
  - intros [X [Xv HX]]. destruct (HX v Xv) as [Hp He]. split; [assumption|].
    eapply AXs_mono; [|exact He]. intros u Xu. exists X. auto.
  - intros [Hp He]. exists (fun u => AGs G P u \/ (P u /\ AXs G (AGs G P) u)). split; [right; auto|].
    intros u [[X [Xu HX]]|[Hpu Heu]].
    + destruct (HX u Xu) as [Hpu Heu]. split; [assumption|].
      eapply AXs_mono; [|exact Heu]. intros w Xw. left. exists X. auto.
    + split; [assumption|]. eapply AXs_mono; [|exact Heu]. intros w Hw. left. exact Hw.
Qed.

Lemma EWs_unfold v : EWs G P Q v <-> Q v \/ (P v /\ EXs G (EWs G P Q) v).
Proof.
  split.
  - intros [X [Xv HX]]. destruct (HX v Xv) as [Hq|[Hp He]]; [left; assumption|right].
    split; [assumption|]. eapply EXs_mono; [|exact He]. intros u Xu. exists X. auto.
  - intro H. exists (fun u => EWs G P Q u \/ Q u \/ (P u /\ EXs G (EWs G P Q) u)). split; [right; exact H|].
    intros u [[X [Xu HX]]|[Hq|[Hp He]]].
    + destruct (HX u Xu) as [Hq|[Hp He]]; [left; assumption|right]. split; [assumption|].
      eapply EXs_mono; [|exact He]. intros w Xw. left. exists X. auto.
    + left; assumption.
    + right. split; [assumption|]. eapply EXs_mono; [|exact He]. intros w Hw. left. exact Hw.
Qed.

(** every state satisfying Q satisfies both weak untils *)
Lemma EWs_includes v : Q v -> EWs G P Q v.
Proof. intro H. apply EWs_unfold. left; assumption. Qed.
Lemma AWs_includes v : Q v -> AWs G P Q v.
Proof. intro H. exists (fun u => Q u). split; [assumption|]. intros u Hu. left; assumption. Qed.

(** E[P W Q] = E[P U Q] or EG P, given that E[P U Q] is decidable at the state *)
Lemma EW_split v : (forall u, EUs G P Q u \/ ~ EUs G P Q u) ->
  (EWs G P Q v <-> EUs G P Q v \/ EGs G P v).
Proof.
  intro Dec. split.
  - intros [X [Xv HX]]. destruct (Dec v) as [He|Hn]; [left; assumption|right].
    exists (fun u => X u /\ ~ EUs G P Q u). split; [split; assumption|].
    intros u [Xu Hnu]. destruct (HX u Xu) as [Hq|[Hp He]].
    + exfalso. apply Hnu. apply EUs_here. assumption.
    + split; [assumption|]. destruct He as [[i [Hi [He Xi]]]|[Hs _]].
      * left. exists i. split; [assumption|]. split; [assumption|]. split; [assumption|].
        intro HE. apply Hnu. eapply EUs_step; eassumption.
      * right. split; [assumption|]. split; assumption.
  - intros [He|[X [Xv HX]]].
    + exists (EUs G P Q). split; [assumption|]. intros u Hu. apply EUs_unfold in Hu. exact Hu.
    + exists X. split; [assumption|]. intros u Xu. right. apply HX. assumption.
Qed.
End SemLaws.

(** ---- the laws for the sets computed by the model ---- *)
Section SetLaws.
Variable G : genv.
Local Notation L := (g_L G).
Local Notation n := (g_n G).
Hypothesis L_nodup : NoDup L.
Hypothesis upd_shaped : forall i, shaped L (upd_of G i).
Hypothesis TS_in : forall i, i < n -> In (TS i) L.
Variable U : tt.
Hypothesis U_shaped : shaped L U.
Hypothesis U_moves : forall v i, mem L U (vflip (TS i) v) = mem L U v.
Local Notation st := (steady_of G U).
Local Notation spec := (spec_of G U).
Local Notation Mem A := (fun v0 : val => mem L A v0 = true).
Local Notation inU A := (forall v, mem L A v = true -> mem L U v = true).


(** the operator specifications with the section hypotheses supplied *)
Lemma s_ex A P : spec A P -> spec (eval_ex G A st) (EXs G P).
Proof. intros; eapply spec_ex; eauto. Qed.
Lemma s_ax A P : spec A P -> spec (eval_ax G U A st) (AXs G P).
Proof. intros; eapply spec_ax; eauto. Qed.
Lemma s_ef A P R : spec A P -> eval_ef_saturated G U A = Ok R -> spec R (EFs G P).
Proof. intros; eapply spec_ef; eauto. Qed.
Lemma s_af A P R : spec A P -> eval_af G U A st = Ok R -> spec R (AFs G P).
Proof. intros; eapply spec_af; eauto. Qed.
Lemma s_eg A P R : spec A P -> eval_eg G A st = Ok R -> spec R (EGs G P).
Proof. intros; eapply spec_eg; eauto. Qed.
Lemma s_ag A P R : spec A P -> eval_ag G U A = Ok R -> spec R (AGs G P).
Proof. intros; eapply spec_ag; eauto. Qed.
Lemma s_eu A B P Q R : spec A P -> spec B Q -> eval_eu_saturated G A B = Ok R -> spec R (EUs G P Q).
Proof. intros; eapply spec_eu; eauto. Qed.
Lemma s_au A B P Q R : spec A P -> spec B Q -> eval_au G U A B st = Ok R -> spec R (AUs G P Q).
Proof. intros; eapply spec_au; eauto. Qed.
Lemma s_ew A B P Q R : spec A P -> spec B Q -> eval_ew G U A B st = Ok R -> spec R (EWs G P Q).
Proof. intros; eapply spec_ew; eauto. Qed.
Lemma s_aw A B P Q R : spec A P -> spec B Q -> eval_aw G U A B = Ok R -> spec R (AWs G P Q).
Proof. intros; eapply spec_aw; eauto. Qed.

(** a set inside the unit denotes its own membership predicate *)
Lemma self_spec A : shaped L A -> inU A -> spec A (Mem A).
Proof. intros SA IA. split; [assumption|]. intro w. split; [intro H; split; [apply IA|]; assumption | tauto]. Qed.

(** two sets denoting predicates that agree inside the unit are equal *)
Lemma spec_unique A B P Q : spec A P -> spec B Q ->
  (forall w, mem L U w = true -> (P w <-> Q w)) -> A = B.
Proof.
  intros [SA EA] [SB EB] H. apply (tt_ext L); try assumption. intro v.
  destruct (mem L A v) eqn:Ea; destruct (mem L B v) eqn:Eb; try reflexivity.
  - apply EA in Ea. destruct Ea as [Hu Hp]. assert (X : mem L B v = true) by (apply EB; split; [assumption | apply H; assumption]). congruence.
  - apply EB in Eb. destruct Eb as [Hu Hq]. assert (X : mem L A v = true) by (apply EA; split; [assumption | apply H; assumption]). congruence.
Qed.

Lemma spec_subset A B P Q : spec A P -> spec B Q ->
  (forall w, mem L U w = true -> P w -> Q w) -> forall v, mem L A v = true -> mem L B v = true.
Proof. intros [SA EA] [SB EB] H v Hv. apply EA in Hv. apply EB. split; [tauto | apply H; tauto]. Qed.

Ltac use_spec := eauto using self_spec, spec_ex, spec_ax, spec_ef, spec_af, spec_eg, spec_ag,
  spec_eu, spec_au, spec_ew, spec_aw, spec_neg, spec_and, spec_or.

(** EF S = S or EX EF S *)
Theorem ef_unfold_law S R : shaped L S -> inU S ->
  eval_ef_saturated G U S = Ok R -> R = tor S (eval_ex G R st).
Proof.
  intros SS IS H. pose proof (self_spec S SS IS) as HS.
  pose proof (s_ef S _ R HS H) as HR.
  eapply spec_unique; [exact HR | apply spec_or; [exact HS | eapply s_ex; eauto] |].
  intros w Hu. simpl. unfold EFs. rewrite EUs_unfold. tauto.
Qed.

(** EG S = S and EX EG S *)
Theorem eg_unfold_law S R : shaped L S -> inU S ->
  eval_eg G S st = Ok R -> R = tand S (eval_ex G R st).
Proof.
  intros SS IS H. pose proof (self_spec S SS IS) as HS.
  pose proof (s_eg S _ R HS H) as HR.
  eapply spec_unique; [exact HR | apply spec_and; [exact HS | eapply s_ex; eauto] |].
  intros w Hu. simpl. rewrite EGs_unfold. tauto.
Qed.

(** AF S = S or AX AF S *)
Theorem af_unfold_law S R : shaped L S -> inU S ->
  eval_af G U S st = Ok R -> R = tor S (eval_ax G U R st).
Proof.
  intros SS IS H. pose proof (self_spec S SS IS) as HS.
  pose proof (s_af S _ R HS H) as HR.
  eapply spec_unique; [exact HR | apply spec_or; [exact HS | eapply s_ax; eauto] |].
  intros w Hu. simpl. unfold AFs. rewrite AUs_unfold. tauto.
Qed.

(** AG S = S and AX AG S *)
Theorem ag_unfold_law S R : shaped L S -> inU S ->
  eval_ag G U S = Ok R -> R = tand S (eval_ax G U R st).
Proof.
  intros SS IS H. pose proof (self_spec S SS IS) as HS.
  pose proof (s_ag S _ R HS H) as HR.
  eapply spec_unique; [exact HR | apply spec_and; [exact HS | eapply s_ax; eauto] |].
  intros w Hu. simpl. rewrite AGs_unfold. tauto.
Qed.

(** E[S U T] = T or (S and EX E[S U T]) *)
Theorem eu_unfold_law S T R : shaped L S -> inU S -> shaped L T -> inU T ->
  eval_eu_saturated G S T = Ok R -> R = tor T (tand S (eval_ex G R st)).
Proof.
  intros SS IS ST IT H. pose proof (self_spec S SS IS) as HS. pose proof (self_spec T ST IT) as HT.
  pose proof (s_eu S T _ _ R HS HT H) as HR.
  eapply spec_unique; [exact HR | apply spec_or; [exact HT | apply spec_and; [exact HS | eapply s_ex; eauto]] |].
  intros w Hu. simpl. rewrite EUs_unfold. tauto.
Qed.

(** A[S U T] = T or (S and AX A[S U T]) *)
Theorem au_unfold_law S T R : shaped L S -> inU S -> shaped L T -> inU T ->
  eval_au G U S T st = Ok R -> R = tor T (tand S (eval_ax G U R st)).
Proof.
  intros SS IS ST IT H. pose proof (self_spec S SS IS) as HS. pose proof (self_spec T ST IT) as HT.
  pose proof (s_au S T _ _ R HS HT H) as HR.
  eapply spec_unique; [exact HR | apply spec_or; [exact HT | apply spec_and; [exact HS | eapply s_ax; eauto]] |].
  intros w Hu. simpl. rewrite AUs_unfold. tauto.
Qed.

(** EF S = E[unit U S] and AF S = A[unit U S] *)
Theorem ef_is_eu S : eval_ef_saturated G U S = eval_eu_saturated G U S.
Proof. reflexivity. Qed.

Theorem af_is_au S R R' : shaped L S -> inU S ->
  eval_af G U S st = Ok R -> eval_au G U U S st = Ok R' -> R = R'.
Proof.
  intros SS IS H H'. pose proof (self_spec S SS IS) as HS.
  pose proof (s_af S _ R HS H) as HR.
  pose proof (s_au U S _ _ R' (spec_unit G U U_shaped) HS H') as HR'.
  eapply spec_unique; [exact HR | exact HR' |]. intros w Hu. reflexivity.
Qed.

(** monotonicity: larger arguments give larger results *)
Section Mono.
Variables S S' T T' : tt.
Hypothesis SS : shaped L S. Hypothesis SS' : shaped L S'.
Hypothesis ST : shaped L T. Hypothesis ST' : shaped L T'.
Hypothesis IS : inU S. Hypothesis IS' : inU S'.
Hypothesis IT : inU T. Hypothesis IT' : inU T'.
Hypothesis HS : forall v, mem L S v = true -> mem L S' v = true.
Hypothesis HT : forall v, mem L T v = true -> mem L T' v = true.

Theorem ex_mono v : mem L (eval_ex G S st) v = true -> mem L (eval_ex G S' st) v = true.
Proof.
  apply (spec_subset _ _ _ _ (s_ex S _ (self_spec S SS IS))
                             (s_ex S' _ (self_spec S' SS' IS'))).
  intros w Hu. apply EXs_mono. exact HS.
Qed.

Theorem ax_mono v : mem L (eval_ax G U S st) v = true -> mem L (eval_ax G U S' st) v = true.
Proof.
  apply (spec_subset _ _ _ _ (s_ax S _ (self_spec S SS IS))
                             (s_ax S' _ (self_spec S' SS' IS'))).
  intros w Hu. apply AXs_mono. exact HS.
Qed.

Theorem eu_mono R R' v : eval_eu_saturated G S T = Ok R -> eval_eu_saturated G S' T' = Ok R' ->
  mem L R v = true -> mem L R' v = true.
Proof.
  intros H H'.
  apply (spec_subset _ _ _ _ (s_eu S T _ _ R (self_spec S SS IS) (self_spec T ST IT) H)
                             (s_eu S' T' _ _ R' (self_spec S' SS' IS') (self_spec T' ST' IT') H')).
  intros w Hu HE. eapply EUs_congr; [exact U_moves | | | exact HE | exact Hu]; intros u _; [apply HS | apply HT].
Qed.

Theorem au_mono R R' v : eval_au G U S T st = Ok R -> eval_au G U S' T' st = Ok R' ->
  mem L R v = true -> mem L R' v = true.
Proof.
  intros H H'.
  apply (spec_subset _ _ _ _ (s_au S T _ _ R (self_spec S SS IS) (self_spec T ST IT) H)
                             (s_au S' T' _ _ R' (self_spec S' SS' IS') (self_spec T' ST' IT') H')).
  intros w Hu HE. eapply AUs_congr; [exact U_moves | | | exact HE | exact Hu]; intros u _; [apply HS | apply HT].
Qed.

Theorem eg_mono R R' v : eval_eg G S st = Ok R -> eval_eg G S' st = Ok R' ->
  mem L R v = true -> mem L R' v = true.
Proof.
  intros H H'.
  apply (spec_subset _ _ _ _ (s_eg S _ R (self_spec S SS IS) H)
                             (s_eg S' _ R' (self_spec S' SS' IS') H')).
  intros w Hu HE. eapply EGs_congr; [exact U_moves | | exact Hu | exact HE]. intros u _. apply HS.
Qed.

Theorem ew_mono R R' v : eval_ew G U S T st = Ok R -> eval_ew G U S' T' st = Ok R' ->
  mem L R v = true -> mem L R' v = true.
Proof.
  intros H H'.
  apply (spec_subset _ _ _ _ (s_ew S T _ _ R (self_spec S SS IS) (self_spec T ST IT) H)
                             (s_ew S' T' _ _ R' (self_spec S' SS' IS') (self_spec T' ST' IT') H')).
  intros w Hu HE. eapply EWs_congr; [exact U_moves | | | exact Hu | exact HE]; intros u _; [apply HS | apply HT].
Qed.

Theorem aw_mono R R' v : eval_aw G U S T = Ok R -> eval_aw G U S' T' = Ok R' ->
  mem L R v = true -> mem L R' v = true.
Proof.
  intros H H'.
  apply (spec_subset _ _ _ _ (s_aw S T _ _ R (self_spec S SS IS) (self_spec T ST IT) H)
                             (s_aw S' T' _ _ R' (self_spec S' SS' IS') (self_spec T' ST' IT') H')).
  intros w Hu HE. eapply AWs_congr; [exact U_moves | | | exact Hu | exact HE]; intros u _; [apply HS | apply HT].
Qed.
End Mono.

(** ---- weak until (C13) ---- *)
Theorem ew_is_weak_until S T R : shaped L S -> inU S -> shaped L T -> inU T ->
  eval_ew G U S T st = Ok R ->
  forall v, mem L R v = true <-> (mem L U v = true /\ EWs G (Mem S) (Mem T) v).
Proof.
  intros SS IS ST IT H.
  exact (proj2 (s_ew S T _ _ R (self_spec S SS IS) (self_spec T ST IT) H)).
Qed.

Theorem aw_is_weak_until S T R : shaped L S -> inU S -> shaped L T -> inU T ->
  eval_aw G U S T = Ok R ->
  forall v, mem L R v = true <-> (mem L U v = true /\ AWs G (Mem S) (Mem T) v).
Proof.
  intros SS IS ST IT H.
  exact (proj2 (s_aw S T _ _ R (self_spec S SS IS) (self_spec T ST IT) H)).
Qed.

(** E[S W T] = E[S U T] or EG S *)
Theorem ew_equation S T R Reu Reg : shaped L S -> inU S -> shaped L T -> inU T ->
  eval_ew G U S T st = Ok R -> eval_eu_saturated G S T = Ok Reu -> eval_eg G S st = Ok Reg ->
  R = tor Reu Reg.
Proof.
  intros SS IS ST IT H He Hg.
  pose proof (self_spec S SS IS) as HS. pose proof (self_spec T ST IT) as HT.
  pose proof (s_ew S T _ _ R HS HT H) as HR.
  pose proof (s_eu S T _ _ Reu HS HT He) as Heu.
  pose proof (s_eg S _ Reg HS Hg) as Heg.
  eapply spec_unique; [exact HR | apply spec_or; [exact Heu | exact Heg] |].
  intros w Hu. simpl. apply EW_split.
  intro u. destruct (mem L Reu u) eqn:E.
  - left. apply (proj2 Heu) in E. tauto.
  - right. intro HE.
    assert (Huu : mem L U u = true).
    { destruct HE as [u Hq | u i Hp _ _ _]; [apply IT | apply IS]; assumption. }
    assert (X : mem L Reu u = true) by (apply (proj2 Heu); auto). congruence.
Qed.

(** A[S W T] = not E[not T U (not S and not T)] *)
Theorem aw_equation S T : eval_aw G U S T =
  (let* r := eval_eu_saturated G (eval_neg U T) (tand (eval_neg U S) (eval_neg U T)) in Ok (eval_neg U r)).
Proof. reflexivity. Qed.

(** states satisfying T satisfy both weak untils *)
Theorem ew_includes_psi S T R v : shaped L S -> inU S -> shaped L T -> inU T ->
  eval_ew G U S T st = Ok R -> mem L T v = true -> mem L R v = true.
Proof.
  intros SS IS ST IT H Hv. apply (ew_is_weak_until S T R SS IS ST IT H).
  split; [apply IT; assumption | apply EWs_includes; assumption].
Qed.

Theorem aw_includes_psi S T R v : shaped L S -> inU S -> shaped L T -> inU T ->
  eval_aw G U S T = Ok R -> mem L T v = true -> mem L R v = true.
Proof.
  intros SS IS ST IT H Hv. apply (aw_is_weak_until S T R SS IS ST IT H).
  split; [apply IT; assumption | apply AWs_includes; assumption].
Qed.

End SetLaws.

(** what the laws assume about a symbolic graph and its unit set *)
Record wf_graph (G : genv) (U : tt) : Prop := {
  wg_nodup : NoDup (g_L G);
  wg_upd_shaped : forall i, shaped (g_L G) (upd_of G i);
  wg_TS_in : forall i, i < g_n G -> In (TS i) (g_L G);
  wg_U_shaped : shaped (g_L G) U;
  wg_U_moves : forall v i, mem (g_L G) U (vflip (TS i) v) = mem (g_L G) U v;
}.
