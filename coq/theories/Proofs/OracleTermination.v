(** The oracle never runs out of fuel (and never panics): every fixed-point loop of
    Spec/Sem.v iterates a monotone step function from the empty or from the full set, so the
    iterates form a chain whose cardinality changes strictly until the loop stops, and
    [sfuel = S (S (2 ^ n))] rounds suffice.  Hence [sem] and [sem_eval] return [Ok] or one
    of the declared errors [Err e], without any assumption on the inputs. *)
From HCTL Require Import Base Syntax TT Ops Sem.
From HCTL Require Import TTFacts OpsFacts LayoutFacts Termination SemFacts2.

(** ---- the generic loop ---- *)
Section Generic.
Variable L : layout.
Hypothesis L_nodup : NoDup L.
Variable F : tt -> tt.
Hypothesis F_shaped : forall x, shaped L x -> shaped L (F x).
Hypothesis F_mono : forall x y, shaped L x -> shaped L y -> subset L x y -> subset L (F x) (F y).

Lemma fix_iter_up fuel : forall x, shaped L x -> subset L x (F x) ->
  2 ^ length L < fuel + card x -> exists r, fix_iter fuel F x = Ok r /\ shaped L r.
Proof.
  induction fuel as [|f IH]; intros x Hx Hsub Hf.
  - pose proof (card_le L x Hx). lia.
  - cbn [fix_iter]. destruct (tt_eqb (F x) x) eqn:E; [exists x; split; [reflexivity | exact Hx]|].
    assert (Hne : x <> F x) by (intro X; rewrite <- X in E; rewrite tt_eqb_refl in E; discriminate).
    assert (Hlt : card x < card (F x)) by (apply (subset_neq_card L L_nodup); auto).
    apply IH; [apply F_shaped, Hx | apply F_mono; auto | lia].
Qed.

Lemma fix_iter_down fuel : forall x, shaped L x -> subset L (F x) x ->
  card x < fuel -> exists r, fix_iter fuel F x = Ok r /\ shaped L r.
Proof.
  induction fuel as [|f IH]; intros x Hx Hsub Hf; [lia|].
  cbn [fix_iter]. destruct (tt_eqb (F x) x) eqn:E; [exists x; split; [reflexivity | exact Hx]|].
  assert (Hne : F x <> x) by (intro X; rewrite X in E; rewrite tt_eqb_refl in E; discriminate).
  assert (Hlt : card (F x) < card x) by (apply (subset_neq_card L L_nodup); auto).
  apply IH; [apply F_shaped, Hx | apply F_mono; auto | lia].
Qed.
End Generic.

Section OracleTermination.
Variables n p : nat.
Variable upd : list tt.
Variable names : list str.
Variable ctxs : list (str * tt).
Local Notation Ln := (Sem.Ln n).
Local Notation smem := (Sem.smem n).

Lemma NoDup_Ln : NoDup Ln.
Proof. unfold Sem.Ln. apply NoDup_map_inj; [intros x y H; congruence | apply NoDup_range]. Qed.

Lemma length_Ln : length Ln = n.
Proof. unfold Sem.Ln. rewrite map_length. apply range_length. Qed.

Lemma smem_s_ex_raw c X v : smem (s_ex n p upd c X) v = existsb (smem X) (succs n p upd c v).
Proof. unfold s_ex. apply smem_stab. intros u w S. apply succs_agree_ex, S. Qed.

Lemma smem_s_ax_raw c X v : smem (s_ax n p upd c X) v = forallb (smem X) (succs n p upd c v).
Proof. unfold s_ax. apply smem_stab. intros u w S. apply succs_agree_all, S. Qed.

Lemma s_ex_mono c X Y : subset Ln X Y -> subset Ln (s_ex n p upd c X) (s_ex n p upd c Y).
Proof.
  intros H v. change (smem (s_ex n p upd c X) v = true -> smem (s_ex n p upd c Y) v = true).
  rewrite !smem_s_ex_raw, !existsb_exists. intros [u [Hu Hm]]. exists u. split; [exact Hu | apply H, Hm].
Qed.

Lemma s_ax_mono c X Y : subset Ln X Y -> subset Ln (s_ax n p upd c X) (s_ax n p upd c Y).
Proof.
  intros H v. change (smem (s_ax n p upd c X) v = true -> smem (s_ax n p upd c Y) v = true).
  rewrite !smem_s_ax_raw, !forallb_forall. intros Hall u Hu. apply H, Hall, Hu.
Qed.

Lemma tand_mono A X Y : shaped Ln A -> shaped Ln X -> shaped Ln Y ->
  subset Ln X Y -> subset Ln (tand A X) (tand A Y).
Proof.
  intros SA SX SY H v. rewrite !mem_tand by assumption. rewrite !andb_true_iff.
  intros [H1 H2]. split; [exact H1 | apply H, H2].
Qed.

Lemma tor_mono B X Y : shaped Ln B -> shaped Ln X -> shaped Ln Y ->
  subset Ln X Y -> subset Ln (tor B X) (tor B Y).
Proof.
  intros SB SX SY H v. rewrite !mem_tor by assumption. rewrite !orb_true_iff.
  intros [H1|H2]; [left; exact H1 | right; apply H, H2].
Qed.

Lemma up_ok F : (forall x, shaped Ln x -> shaped Ln (F x)) ->
  (forall x y, shaped Ln x -> shaped Ln y -> subset Ln x y -> subset Ln (F x) (F y)) ->
  exists r, fix_iter (sfuel n) F (s_empty n) = Ok r /\ shaped Ln r.
Proof.
  intros FS FM. apply (fix_iter_up Ln NoDup_Ln F FS FM).
  - apply shaped_const.
  - intros v Hv. unfold s_empty in Hv. rewrite mem_const in Hv. discriminate.
  - unfold s_empty, sfuel. rewrite card_const_false, length_Ln. lia.
Qed.

Lemma down_ok F : (forall x, shaped Ln x -> shaped Ln (F x)) ->
  (forall x y, shaped Ln x -> shaped Ln y -> subset Ln x y -> subset Ln (F x) (F y)) ->
  exists r, fix_iter (sfuel n) F (s_full n) = Ok r /\ shaped Ln r.
Proof.
  intros FS FM. apply (fix_iter_down Ln NoDup_Ln F FS FM).
  - apply shaped_const.
  - intros v _. unfold s_full. apply mem_const.
  - unfold s_full, sfuel. rewrite card_const_true, length_Ln. lia.
Qed.

Ltac shp := repeat first [assumption | apply shaped_tor | apply shaped_tand | apply shaped_stab].

Section Steps.
Variable c : val.
Variables A B : sset.
Hypothesis SA : shaped Ln A.
Hypothesis SB : shaped Ln B.

Lemma Feu_ok : (forall x, shaped Ln x -> shaped Ln (tor B (tand A (s_ex n p upd c x)))) /\
  (forall x y, shaped Ln x -> shaped Ln y -> subset Ln x y ->
     subset Ln (tor B (tand A (s_ex n p upd c x))) (tor B (tand A (s_ex n p upd c y)))).
Proof.
  split; [intros; unfold s_ex; shp|]. intros x y Sx Sy H.
  apply tor_mono; [unfold s_ex; shp ..|]. apply tand_mono; [unfold s_ex; shp ..|]. apply s_ex_mono, H.
Qed.

Lemma Fau_ok : (forall x, shaped Ln x -> shaped Ln (tor B (tand A (s_ax n p upd c x)))) /\
  (forall x y, shaped Ln x -> shaped Ln y -> subset Ln x y ->
     subset Ln (tor B (tand A (s_ax n p upd c x))) (tor B (tand A (s_ax n p upd c y)))).
Proof.
  split; [intros; unfold s_ax; shp|]. intros x y Sx Sy H.
  apply tor_mono; [unfold s_ax; shp ..|]. apply tand_mono; [unfold s_ax; shp ..|]. apply s_ax_mono, H.
Qed.

Lemma Feg_ok : (forall x, shaped Ln x -> shaped Ln (tand A (s_ex n p upd c x))) /\
  (forall x y, shaped Ln x -> shaped Ln y -> subset Ln x y ->
     subset Ln (tand A (s_ex n p upd c x)) (tand A (s_ex n p upd c y))).
Proof.
  split; [intros; unfold s_ex; shp|]. intros x y Sx Sy H.
  apply tand_mono; [unfold s_ex; shp ..|]. apply s_ex_mono, H.
Qed.

Lemma Fag_ok : (forall x, shaped Ln x -> shaped Ln (tand A (s_ax n p upd c x))) /\
  (forall x y, shaped Ln x -> shaped Ln y -> subset Ln x y ->
     subset Ln (tand A (s_ax n p upd c x)) (tand A (s_ax n p upd c y))).
Proof.
  split; [intros; unfold s_ax; shp|]. intros x y Sx Sy H.
  apply tand_mono; [unfold s_ax; shp ..|]. apply s_ax_mono, H.
Qed.

Theorem s_eu_terminates : exists r, s_eu n p upd c A B = Ok r /\ shaped Ln r.
Proof. unfold s_eu. destruct Feu_ok. apply up_ok; assumption. Qed.
Theorem s_au_terminates : exists r, s_au n p upd c A B = Ok r /\ shaped Ln r.
Proof. unfold s_au. destruct Fau_ok. apply up_ok; assumption. Qed.
Theorem s_ew_terminates : exists r, s_ew n p upd c A B = Ok r /\ shaped Ln r.
Proof. unfold s_ew. destruct Feu_ok. apply down_ok; assumption. Qed.
Theorem s_aw_terminates : exists r, s_aw n p upd c A B = Ok r /\ shaped Ln r.
Proof. unfold s_aw. destruct Fau_ok. apply down_ok; assumption. Qed.
Theorem s_eg_terminates : exists r, s_eg n p upd c A = Ok r /\ shaped Ln r.
Proof. unfold s_eg. destruct Feg_ok. apply down_ok; assumption. Qed.
Theorem s_ag_terminates : exists r, s_ag n p upd c A = Ok r /\ shaped Ln r.
Proof. unfold s_ag. destruct Fag_ok. apply down_ok; assumption. Qed.
End Steps.

(** an outcome that is a shaped set or a declared error *)
Definition fine (r : res sset) : Prop :=
  (exists X, r = Ok X /\ shaped Ln X) \/ (exists e, r = Err e).

Lemma fine_ok X : shaped Ln X -> fine (Ok X).
Proof. intro S. left. exists X. split; [reflexivity | exact S]. Qed.

Lemma fine_ex (r : res sset) : (exists X, r = Ok X /\ shaped Ln X) -> fine r.
Proof. intro H. left. exact H. Qed.

Lemma for_states_fine (f : val -> res sset) : (forall u, fine (f u)) ->
  forall l, (exists rs, for_states l f = Ok rs) \/ (exists e, for_states l f = Err e).
Proof.
  intros Hf. induction l as [|u l IH]; cbn [for_states]; [left; eexists; reflexivity|].
  destruct (Hf u) as [[X [E _]]|[e E]]; rewrite E; cbn [bind]; [|right; eexists; reflexivity].
  destruct IH as [[rs E']|[e E']]; rewrite E'; cbn [bind]; [left | right]; eexists; reflexivity.
Qed.

Lemma dom_set_fine c d : fine (dom_set n p ctxs c d).
Proof.
  destruct d as [l|]; cbn [dom_set].
  - destruct (alookup str_eqb l ctxs); [apply fine_ok, shaped_stab | right; eexists; reflexivity].
  - apply fine_ok, shaped_const.
Qed.

Theorem sem_fine : forall t c env, fine (sem n p upd names ctxs c env t).
Proof.
  induction t as [a | o a IH | o a IHa b IHb | o x d a IH]; intros c env.
  - destruct a as [nm | x | | | l]; cbn [sem].
    + destruct (index_of_name nm names 0); [apply fine_ok, shaped_stab | right; eexists; reflexivity].
    + destruct (alookup str_eqb x env); [apply fine_ok, shaped_stab | right; eexists; reflexivity].
    + apply fine_ok, shaped_const.
    + apply fine_ok, shaped_const.
    + destruct (alookup str_eqb l ctxs); [apply fine_ok, shaped_stab | right; eexists; reflexivity].
  - cbn [sem]. destruct (IH c env) as [[A [E SA]]|[e E]]; rewrite E; cbn [bind];
      [|right; eexists; reflexivity].
    destruct o.
    + apply fine_ok, shaped_s_not, SA.
    + apply fine_ok, shaped_stab.
    + apply fine_ok, shaped_stab.
    + apply fine_ex, s_eu_terminates; [apply shaped_const | exact SA].
    + apply fine_ex, s_au_terminates; [apply shaped_const | exact SA].
    + apply fine_ex, s_eg_terminates, SA.
    + apply fine_ex, s_ag_terminates, SA.
  - cbn [sem]. destruct (IHa c env) as [[A [E SA]]|[e E]]; rewrite E; cbn [bind];
      [|right; eexists; reflexivity].
    destruct (IHb c env) as [[B [E' SB]]|[e E']]; rewrite E'; cbn [bind];
      [|right; eexists; reflexivity].
    destruct o.
    + apply fine_ok, shaped_tand; assumption.
    + apply fine_ok, shaped_tor; assumption.
    + apply fine_ok, shaped_txor; assumption.
    + apply fine_ok, shaped_tor; [apply shaped_s_not|]; assumption.
    + apply fine_ok, shaped_tiff; assumption.
    + apply fine_ex, s_eu_terminates; assumption.
    + apply fine_ex, s_au_terminates; assumption.
    + apply fine_ex, s_ew_terminates; assumption.
    + apply fine_ex, s_aw_terminates; assumption.
  - destruct o; cbn [sem].
    + destruct (dom_set_fine c d) as [[Dm [E _]]|[e E]]; rewrite E; cbn [bind];
        [|right; eexists; reflexivity].
      destruct (for_states_fine (fun u => sem n p upd names ctxs c ((x, u) :: env) a)
                  (fun u => IH c ((x, u) :: env)) (filter (smem Dm) (all_states n)))
        as [[rs E']|[e E']]; rewrite E'; cbn [bind]; [apply fine_ok, shaped_stab | right; eexists; reflexivity].
    + destruct (alookup str_eqb x env); [|right; eexists; reflexivity].
      destruct (IH c env) as [[A [E SA]]|[e E]]; rewrite E; cbn [bind];
        [apply fine_ok, shaped_const | right; eexists; reflexivity].
    + destruct (dom_set_fine c d) as [[Dm [E _]]|[e E]]; rewrite E; cbn [bind];
        [|right; eexists; reflexivity].
      destruct (for_states_fine (fun u => sem n p upd names ctxs c ((x, u) :: env) a)
                  (fun u => IH c ((x, u) :: env)) (filter (smem Dm) (all_states n)))
        as [[rs E']|[e E']]; rewrite E'; cbn [bind]; [apply fine_ok, shaped_stab | right; eexists; reflexivity].
    + destruct (dom_set_fine c d) as [[Dm [E _]]|[e E]]; rewrite E; cbn [bind];
        [|right; eexists; reflexivity].
      destruct (for_states_fine (fun u => sem n p upd names ctxs c ((x, u) :: env) a)
                  (fun u => IH c ((x, u) :: env)) (filter (smem Dm) (all_states n)))
        as [[rs E']|[e E']]; rewrite E'; cbn [bind]; [apply fine_ok, shaped_stab | right; eexists; reflexivity].
Qed.

Lemma assemble_fine t : forall ps c,
  (exists r, assemble n p upd names ctxs ps c t = Ok r) \/
  (exists e, assemble n p upd names ctxs ps c t = Err e).
Proof.
  induction ps as [|h ps IH]; intro c; cbn [assemble].
  - destruct (sem_fine t c []) as [[X [E _]]|[e E]]; rewrite E; [left | right]; eexists; reflexivity.
  - destruct (IH (fun g => if tag_eqb g h then false else c g)) as [[lo E]|[e E]]; rewrite E; cbn [bind];
      [|right; eexists; reflexivity].
    destruct (IH (fun g => if tag_eqb g h then true else c g)) as [[hi E']|[e E']]; rewrite E'; cbn [bind];
      [left | right]; eexists; reflexivity.
Qed.

(** the oracle answers or reports one of its declared errors: never OutOfFuel, never Panic *)
Theorem sem_eval_total unit_pn t :
  (exists R, sem_eval n p upd names ctxs unit_pn t = Ok R) \/
  (exists e, sem_eval n p upd names ctxs unit_pn t = Err e).
Proof.
  unfold sem_eval. destruct (assemble_fine t (Lp p) (fun _ => false)) as [[r E]|[e E]];
    rewrite E; cbn [bind]; [left | right]; eexists; reflexivity.
Qed.

End OracleTermination.
