(** Every operator of the model meets its specification: if the argument sets denote
    predicates (inside the unit), the result denotes the CTL operator applied to them.
    Includes the dualities the code relies on (AF = not EG not, AG = not EF not,
    EW / AW through AU / EU), proved here for sets, where membership is decidable. *)
From HCTL Require Import Base TT Ops Kripke TTFacts OpsFacts FixFacts.

Section SemFacts.
Variable G : genv.
Local Notation L := (g_L G).
Local Notation n := (g_n G).

Hypothesis L_nodup : NoDup L.
Hypothesis upd_shaped : forall i, shaped L (upd_of G i).
Hypothesis TS_in : forall i, i < n -> In (TS i) L.

Variable U : tt.
Hypothesis U_shaped : shaped L U.
Hypothesis U_moves : forall v i, mem L U (vflip (TS i) v) = mem L U v.

Local Notation st := (steady_of G U).
Local Notation inUnit v := (mem L U v = true).

(** [A] denotes the predicate [P] inside the unit *)
Definition spec_of (A : tt) (P : val -> Prop) : Prop :=
  shaped L A /\ forall w, mem L A w = true <-> (inUnit w /\ P w).

Lemma spec_inU A P : spec_of A P -> inU G U A.
Proof. intros [_ H] v Hv. apply H in Hv. tauto. Qed.

Lemma spec_shaped A P : spec_of A P -> shaped L A.
Proof. intros [H _]; exact H. Qed.

Ltac shp := repeat first
  [ assumption
  | match goal with H : spec_of ?A _ |- shaped _ ?A => exact (spec_shaped _ _ H) end
  | apply st_shaped
  | apply shaped_eval_ex
  | apply shaped_eval_ax
  | apply shaped_eval_neg
  | apply shaped_pre
  | apply shaped_var_pre
  | apply shaped_steady_of
  | apply shaped_can_update
  | apply shaped_tand | apply shaped_tor | apply shaped_tminus | apply shaped_txor | apply shaped_tiff
  | apply shaped_flip | apply shaped_lit
  | apply shaped_const ].

(** the fixed-point theorems, with the section hypotheses supplied *)
Local Notation Mem A := (fun v0 : val => mem L A v0 = true).
Lemma ex_c A w : shaped L A -> inU G U A ->
  (mem L (eval_ex G A st) w = true <-> EXs G (Mem A) w).
Proof. intros; eapply ex_correct; eauto. Qed.
Lemma ax_c A w : shaped L A -> inUnit w ->
  (mem L (eval_ax G U A st) w = true <-> AXs G (Mem A) w).
Proof. intros; eapply ax_correct; eauto. Qed.
Lemma ax_u A w : shaped L A -> mem L (eval_ax G U A st) w = true -> inUnit w.
Proof. intros; eapply ax_inU; eauto. Qed.
Lemma eg_c A R : shaped L A -> inU G U A -> eval_eg G A st = Ok R ->
  shaped L R /\ forall v, mem L R v = true <-> EGs G (Mem A) v.
Proof. intros HA HI H. exact (eg_correct G L_nodup upd_shaped TS_in U U_shaped A R HA HI H). Qed.
Lemma au_c A B R : shaped L A -> shaped L B -> inU G U B -> eval_au G U A B st = Ok R ->
  shaped L R /\ inU G U R /\ forall v, mem L R v = true <-> inUnit v /\ AUs G (Mem A) (Mem B) v.
Proof. intros; eapply au_correct; eauto. Qed.
Lemma eu_c A B R : shaped L A -> shaped L B -> eval_eu_saturated G A B = Ok R ->
  shaped L R /\ forall v, mem L R v = true <-> EUs G (Mem A) (Mem B) v.
Proof. intros; eapply eu_correct; eauto. Qed.

(** ---- monotonicity: predicates related inside the unit give operators related inside the unit ---- *)
Section Congruence.
Variables P P' Q Q' : val -> Prop.
Hypothesis HP : forall w, inUnit w -> P w -> P' w.
Hypothesis HQ : forall w, inUnit w -> Q w -> Q' w.

Lemma EXs_congr v : inUnit v -> EXs G P v -> EXs G P' v.
Proof.
  intros Hv [[i [Hi [He Hm]]]|[Hs Hm]].
  - left. exists i. split; [assumption|]. split; [assumption|]. apply HP; [rewrite U_moves; exact Hv | exact Hm].
  - right. split; [assumption|]. apply HP; assumption.
Qed.

Lemma AXs_congr v : inUnit v -> AXs G P v -> AXs G P' v.
Proof.
  intros Hv [H1 H2]. split.
  - intros i Hi He. apply HP; [rewrite U_moves; exact Hv | apply H1; assumption].
  - intro Hs. apply HP; [assumption | apply H2; assumption].
Qed.

Lemma EUs_congr v : EUs G P Q v -> inUnit v -> EUs G P' Q' v.
Proof.
  intro H. induction H as [v Hq | v i Hp Hi He _ IH]; intro Hv.
  - apply EUs_here. apply HQ; assumption.
  - eapply EUs_step; [apply HP; eassumption | exact Hi | exact He | apply IH; rewrite U_moves; exact Hv].
Qed.

Lemma AUs_congr v : AUs G P Q v -> inUnit v -> AUs G P' Q' v.
Proof.
  intro H. induction H as [v Hq | v Hp Hm IHm Hs IHs]; intro Hv.
  - apply AUs_here. apply HQ; assumption.
  - apply AUs_step.
    + apply HP; assumption.
    + intros i Hi He. apply IHm; try assumption. rewrite U_moves; exact Hv.
    + intro Hst. apply IHs; assumption.
Qed.

Lemma EGs_congr v : inUnit v -> EGs G P v -> EGs G P' v.
Proof.
  intros Hv [X [Xv HX]]. exists (fun w => inUnit w /\ X w). split; [split; assumption|].
  intros u [Hu Xu]. destruct (HX u Xu) as [Pu Eu]. split; [apply HP; assumption|].
  destruct Eu as [[i [Hi [He Hm]]]|[Hs Hm]].
  - left. exists i. split; [assumption|]. split; [assumption|]. split; [rewrite U_moves; exact Hu | exact Hm].
  - right. split; [assumption|]. split; assumption.
Qed.

Lemma AGs_congr v : inUnit v -> AGs G P v -> AGs G P' v.
Proof.
  intros Hv [X [Xv HX]]. exists (fun w => inUnit w /\ X w). split; [split; assumption|].
  intros u [Hu Xu]. destruct (HX u Xu) as [Pu [A1 A2]]. split; [apply HP; assumption|]. split.
  - intros i Hi He. split; [rewrite U_moves; exact Hu | apply A1; assumption].
  - intro Hs. split; [assumption | apply A2; assumption].
Qed.

Lemma EWs_congr v : inUnit v -> EWs G P Q v -> EWs G P' Q' v.
Proof.
  intros Hv [X [Xv HX]]. exists (fun w => inUnit w /\ X w). split; [split; assumption|].
  intros u [Hu Xu]. destruct (HX u Xu) as [Qu|[Pu Eu]]; [left; apply HQ; assumption|right].
  split; [apply HP; assumption|].
  destruct Eu as [[i [Hi [He Hm]]]|[Hs Hm]].
  - left. exists i. split; [assumption|]. split; [assumption|]. split; [rewrite U_moves; exact Hu | exact Hm].
  - right. split; [assumption|]. split; assumption.
Qed.

Lemma AWs_congr v : inUnit v -> AWs G P Q v -> AWs G P' Q' v.
Proof.
  intros Hv [X [Xv HX]]. exists (fun w => inUnit w /\ X w). split; [split; assumption|].
  intros u [Hu Xu]. destruct (HX u Xu) as [Qu|[Pu [A1 A2]]]; [left; apply HQ; assumption|right].
  split; [apply HP; assumption|]. split.
  - intros i Hi He. split; [rewrite U_moves; exact Hu | apply A1; assumption].
  - intro Hs. split; [assumption | apply A2; assumption].
Qed.
End Congruence.

(** ---- Boolean operators ---- *)
Lemma spec_unit : spec_of U (fun _ => True).
Proof. split; [assumption|]. intro w. tauto. Qed.

Lemma spec_empty : spec_of (empty G) (fun _ => False).
Proof. split; [apply shaped_const|]. intro w. rewrite mem_empty. split; [discriminate|tauto]. Qed.

Lemma spec_neg A P : spec_of A P -> spec_of (eval_neg U A) (fun w => ~ P w).
Proof.
  intros HA. pose proof HA as [SA EA]. split; [shp|]. intro w.
  rewrite mem_eval_neg by shp. rewrite andb_true_iff, negb_true_iff. split.
  - intros [Hu Hn]. split; [assumption|]. intro Hp.
    assert (X : mem L A w = true) by (apply EA; tauto). congruence.
  - intros [Hu Hn]. split; [assumption|]. destruct (mem L A w) eqn:E; [|reflexivity].
    apply EA in E. tauto.
Qed.

Lemma spec_and A B P Q : spec_of A P -> spec_of B Q -> spec_of (tand A B) (fun w => P w /\ Q w).
Proof.
  intros [SA EA] [SB EB]. split; [shp|]. intro w.
  rewrite mem_tand by assumption. rewrite andb_true_iff, EA, EB. tauto.
Qed.

Lemma spec_or A B P Q : spec_of A P -> spec_of B Q -> spec_of (tor A B) (fun w => P w \/ Q w).
Proof.
  intros [SA EA] [SB EB]. split; [shp|]. intro w.
  rewrite mem_tor by assumption. rewrite orb_true_iff, EA, EB. tauto.
Qed.

Lemma spec_ext A P P' : spec_of A P -> (forall w, inUnit w -> (P w <-> P' w)) -> spec_of A P'.
Proof.
  intros [SA EA] H. split; [assumption|]. intro w. rewrite EA. split; intros [Hu Hp]; (split; [assumption|]); apply (H w Hu); assumption.
Qed.

(** decidability of denoted predicates inside the unit *)
Lemma spec_dec A P w : spec_of A P -> inUnit w -> P w \/ ~ P w.
Proof.
  intros [SA EA] Hu. destruct (mem L A w) eqn:E.
  - left. apply EA in E. tauto.
  - right. intro Hp. assert (X : mem L A w = true) by (apply EA; tauto). congruence.
Qed.

Lemma spec_imp A B P Q : spec_of A P -> spec_of B Q -> spec_of (eval_imp U A B) (fun w => P w -> Q w).
Proof.
  intros HA HB. unfold eval_imp.
  eapply spec_ext; [apply spec_or; [apply spec_neg; exact HA | exact HB]|].
  intros w Hu. simpl. destruct (spec_dec A P w HA Hu); tauto.
Qed.

Lemma spec_equiv A B P Q : spec_of A P -> spec_of B Q -> spec_of (eval_equiv U A B) (fun w => P w <-> Q w).
Proof.
  intros HA HB. unfold eval_equiv.
  eapply spec_ext; [apply spec_or; [apply spec_and; [exact HA|exact HB] | apply spec_and; apply spec_neg; [exact HA|exact HB]]|].
  intros w Hu. simpl. destruct (spec_dec A P w HA Hu); destruct (spec_dec B Q w HB Hu); tauto.
Qed.

Lemma spec_xor A B P Q : spec_of A P -> spec_of B Q -> spec_of (eval_xor U A B) (fun w => ~ (P w <-> Q w)).
Proof. intros HA HB. unfold eval_xor. apply spec_neg. apply spec_equiv; assumption. Qed.

(** ---- EX / AX ---- *)
Lemma spec_ex A P : spec_of A P -> spec_of (eval_ex G A st) (EXs G P).
Proof.
  intro HA. pose proof HA as [SA EA]. split; [shp|]. intro w.
  rewrite (ex_c A w SA (spec_inU _ _ HA)).
  split.
  - intro H. assert (Hu : inUnit w).
    { destruct H as [[i [Hi [He Hm]]]|[Hs Hm]]; apply EA in Hm; destruct Hm as [Hm _];
        [rewrite U_moves in Hm|]; exact Hm. }
    split; [assumption|]. eapply EXs_congr; [|exact Hu|exact H].
    intros u Hu'. simpl. rewrite EA. tauto.
  - intros [Hu H]. eapply EXs_congr; [|exact Hu|exact H].
    intros u Hu'. simpl. rewrite EA. tauto.
Qed.

Lemma spec_ax A P : spec_of A P -> spec_of (eval_ax G U A st) (AXs G P).
Proof.
  intro HA. pose proof HA as [SA EA]. split; [shp|]. intro w. split.
  - intro H. assert (Hu : inUnit w) by (eapply ax_u; eassumption).
    split; [assumption|].
    apply (ax_c A w SA Hu) in H.
    eapply AXs_congr; [|exact Hu|exact H]. intros u Hu'. simpl. rewrite EA. tauto.
  - intros [Hu H].
    apply (ax_c A w SA Hu).
    eapply AXs_congr; [|exact Hu|exact H]. intros u Hu'. simpl. rewrite EA. tauto.
Qed.

(** ---- EU / EF ---- *)
Lemma spec_eu A B P Q R : spec_of A P -> spec_of B Q ->
  eval_eu_saturated G A B = Ok R -> spec_of R (EUs G P Q).
Proof.
  intros HA HB H. pose proof HA as [SA EA]. pose proof HB as [SB EB].
  destruct (eu_c A B R SA SB H) as [SR ER].
  split; [assumption|]. intro w. rewrite ER. split.
  - intro HE. assert (Hu : inUnit w).
    { destruct HE as [v Hq | v i Hp _ _ _]; [apply EB in Hq | apply EA in Hp]; tauto. }
    split; [assumption|]. eapply EUs_congr; [| |exact HE|exact Hu]; intros u Hu'; simpl; [rewrite EA|rewrite EB]; tauto.
  - intros [Hu HE]. eapply EUs_congr; [| |exact HE|exact Hu]; intros u Hu'; simpl; [rewrite EA|rewrite EB]; tauto.
Qed.

Lemma spec_ef A P R : spec_of A P -> eval_ef_saturated G U A = Ok R -> spec_of R (EFs G P).
Proof. intros HA H. unfold eval_ef_saturated in H. unfold EFs. eapply spec_eu; [apply spec_unit|exact HA|exact H]. Qed.

(** ---- AU ---- *)
Lemma spec_au A B P Q R : spec_of A P -> spec_of B Q ->
  eval_au G U A B st = Ok R -> spec_of R (AUs G P Q).
Proof.
  intros HA HB H. pose proof HA as [SA EA]. pose proof HB as [SB EB].
  destruct (au_c A B R SA SB (spec_inU _ _ HB) H) as [SR [IR ER]].
  split; [assumption|]. intro w. rewrite ER. split; intros [Hu HE]; (split; [assumption|]);
    (eapply AUs_congr; [| |exact HE|exact Hu]); intros u Hu'; simpl; [rewrite EA|rewrite EB|rewrite EA|rewrite EB]; tauto.
Qed.

(** ---- EG ---- *)
Lemma spec_eg A P R : spec_of A P -> eval_eg G A st = Ok R -> spec_of R (EGs G P).
Proof.
  intros HA H. pose proof HA as [SA EA].
  destruct (eg_c A R SA (spec_inU _ _ HA) H) as [SR ER].
  split; [assumption|]. intro w. rewrite ER. split.
  - intro HE. assert (Hu : inUnit w).
    { destruct HE as [X [Xw HX]]. destruct (HX w Xw) as [Hp _]. apply EA in Hp. tauto. }
    split; [assumption|]. eapply EGs_congr; [|exact Hu|exact HE]. intros u Hu'. simpl. rewrite EA. tauto.
  - intros [Hu HE]. eapply EGs_congr; [|exact Hu|exact HE]. intros u Hu'. simpl. rewrite EA. tauto.
Qed.

(** ---- AG = not EF not ---- *)
Lemma spec_ag A P R : spec_of A P -> eval_ag G U A = Ok R -> spec_of R (AGs G P).
Proof.
  intros HA H. unfold eval_ag in H.
  destruct (eval_ef_saturated G U (eval_neg U A)) as [r| | |] eqn:E; simpl in H; try discriminate.
  injection H as <-.
  pose proof (spec_ef _ _ _ (spec_neg _ _ HA) E) as Hr.
  eapply spec_ext; [apply spec_neg; exact Hr|].
  intros w Hu. simpl. split.
  - (* not EF not P  ->  AG P *)
    intro Hn. exists (fun u => inUnit u /\ ~ EFs G (fun x => ~ P x) u). split; [split; assumption|].
    intros u [Hu' Hnu]. split.
    + destruct (spec_dec A P u HA Hu') as [Hp|Hp]; [assumption|]. exfalso. apply Hnu. apply EUs_here. exact Hp.
    + split.
      * intros i Hi He. split; [rewrite U_moves; exact Hu'|]. intro HE. apply Hnu.
        eapply EUs_step; [exact I | exact Hi | exact He | exact HE].
      * intro Hs. split; assumption.
  - (* AG P -> not EF not P *)
    intros [X [Xw HX]] HE. unfold EFs in HE.
    induction HE as [v Hq | v i _ Hi He _ IH].
    + destruct (HX v Xw) as [Hp _]. contradiction.
    + destruct (HX v Xw) as [_ [A1 _]]. apply IH; [rewrite U_moves; exact Hu | apply A1; assumption].
Qed.


(** ---- AF = not EG not ---- *)
Lemma eg_cc A R : shaped L A -> inU G U A -> eval_eg G A st = Ok R ->
  forall v, inUnit v -> mem L R v = false ->
            AUs G (fun _ => True) (fun w => inUnit w /\ mem L A w = false) v.
Proof. intros HA HI H. exact (eg_compl G L_nodup upd_shaped TS_in U U_shaped U_moves A R HA HI H). Qed.

Lemma spec_af A P R : spec_of A P -> eval_af G U A st = Ok R -> spec_of R (AFs G P).
Proof.
  intros HA H. unfold eval_af in H.
  destruct (eval_eg G (eval_neg U A) st) as [r| | |] eqn:E; simpl in H; try discriminate.
  injection H as <-.
  pose proof (spec_neg _ _ HA) as HN.
  pose proof (spec_eg _ _ _ HN E) as Hr. destruct Hr as [Sr Er].
  split; [shp|]. intro w. rewrite mem_eval_neg by shp. rewrite andb_true_iff, negb_true_iff.
  destruct HA as [SA EA]. split.
  - intros [Hu Hn]. split; [assumption|]. unfold AFs.
    pose proof (eg_cc _ _ (spec_shaped _ _ HN) (spec_inU _ _ HN) E w Hu Hn) as X.
    eapply AUs_congr; [| |exact X|exact Hu]; intros u Hu'; simpl; [tauto|].
    rewrite mem_eval_neg by shp. rewrite Hu'. simpl. rewrite negb_false_iff. rewrite EA. tauto.
  - intros [Hu HA']. split; [assumption|]. unfold AFs in HA'.
    induction HA' as [v Hp | v _ Hm IHm Hs IHs].
    + destruct (mem L r v) eqn:E2; [|reflexivity]. exfalso.
      apply Er in E2. destruct E2 as [_ E2]. destruct E2 as [X [Xv HX]].
      destruct (HX v Xv) as [Hnp _]. contradiction.
    + destruct (mem L r v) eqn:E2; [|reflexivity]. exfalso.
      pose proof E2 as E3. apply Er in E3. destruct E3 as [_ [X [Xv HX]]].
      destruct (HX v Xv) as [_ [[i [Hi [He Xi]]]|[Hst _]]].
      * assert (C : mem L r (vflip (TS i) v) = false) by (apply IHm; try assumption; rewrite U_moves; exact Hu).
        assert (D : mem L r (vflip (TS i) v) = true).
        { apply Er. split; [rewrite U_moves; exact Hu|]. exists X. split; assumption. }
        congruence.
      * specialize (IHs Hst Hu). congruence.
Qed.

(** ---- finite search over the variables ---- *)
Lemma finite_search (D : nat -> Prop) m :
  (forall i, i < m -> D i \/ ~ D i) -> (forall i, i < m -> D i) \/ (exists i, i < m /\ ~ D i).
Proof.
  induction m as [|m IH]; intro Hd.
  - left. intros i Hi. lia.
  - destruct IH as [All|[i [Hi Hn]]].
    + intros i Hi. apply Hd. lia.
    + destruct (Hd m (Nat.lt_succ_diag_r m)) as [Dm|Dm].
      * left. intros i Hi. destruct (Nat.eq_dec i m); [subst; assumption | apply All; lia].
      * right. exists m. split; [lia | assumption].
    + right. exists i. split; [lia | assumption].
Qed.

Lemma vsteady_dec v : vsteady G v \/ ~ vsteady G v.
Proof.
  destruct (finite_search (fun i => enabled G i v = false) n) as [H|[i [Hi H]]].
  - intros i _. destruct (enabled G i v); [right; discriminate | left; reflexivity].
  - left. exact H.
  - right. intro Hs. apply H, Hs, Hi.
Qed.

(** ---- weak until through the strong until of the complements ---- *)
Section WeakUntil.
Variables P Q : val -> Prop.
Hypothesis P_dec : forall w, inUnit w -> P w \/ ~ P w.
Hypothesis Q_dec : forall w, inUnit w -> Q w \/ ~ Q w.
Let nQ := fun w => ~ Q w.
Let nPQ := fun w => ~ P w /\ ~ Q w.

Lemma EW_dual v : (forall w, inUnit w -> AUs G nQ nPQ w \/ ~ AUs G nQ nPQ w) ->
  inUnit v -> (~ AUs G nQ nPQ v <-> EWs G P Q v).
Proof.
  intros A_dec Hv. split.
  - intro Hn. exists (fun u => inUnit u /\ ~ AUs G nQ nPQ u). split; [split; assumption|].
    intros u [Hu Hnu]. destruct (Q_dec u Hu) as [Hq|Hq]; [left; assumption|right].
    assert (Hp : P u).
    { destruct (P_dec u Hu) as [Hp|Hp]; [assumption|]. exfalso. apply Hnu. apply AUs_here. split; assumption. }
    split; [assumption|].
    destruct (finite_search (fun i => enabled G i u = true -> AUs G nQ nPQ (vflip (TS i) u)) n) as [All|[i [Hi Hni]]].
    + intros i Hi. destruct (enabled G i u) eqn:He.
      * destruct (A_dec (vflip (TS i) u)) as [X|X]; [rewrite U_moves; exact Hu | left; intros _; exact X | right; intro Y; apply X, Y; reflexivity].
      * left. discriminate.
    + (* every successor satisfies the strong until: then u must be steady and outside *)
      destruct (vsteady_dec u) as [Hs|Hs].
      * right. split; [assumption|]. split; assumption.
      * exfalso. apply Hnu. apply AUs_step; [exact Hq | exact All | intro; contradiction].
    + left. destruct (enabled G i u) eqn:He.
      * exists i. split; [assumption|]. split; [assumption|]. split; [rewrite U_moves; exact Hu|].
        intro X. apply Hni. intros _. exact X.
      * exfalso. apply Hni. discriminate.
  - intros [X [Xv HX]] HA. revert Xv.
    induction HA as [v [Hnp Hnq] | v Hnq Hm IHm Hs IHs]; intro Xv.
    + destruct (HX v Xv) as [Hq|[Hp _]]; contradiction.
    + destruct (HX v Xv) as [Hq|[Hp [[i [Hi [He Xi]]]|[Hst _]]]]; [contradiction| |].
      * apply (IHm i Hi He); [rewrite U_moves; exact Hv | exact Xi].
      * apply IHs; assumption.
Qed.

Lemma AW_dual v : inUnit v -> (~ EUs G nQ nPQ v <-> AWs G P Q v).
Proof.
  intro Hv. split.
  - intro Hn. exists (fun u => inUnit u /\ ~ EUs G nQ nPQ u). split; [split; assumption|].
    intros u [Hu Hnu]. destruct (Q_dec u Hu) as [Hq|Hq]; [left; assumption|right].
    assert (Hp : P u).
    { destruct (P_dec u Hu) as [Hp|Hp]; [assumption|]. exfalso. apply Hnu. apply EUs_here. split; assumption. }
    split; [assumption|]. split.
    + intros i Hi He. split; [rewrite U_moves; exact Hu|]. intro X. apply Hnu.
      eapply EUs_step; [exact Hq | exact Hi | exact He | exact X].
    + intro Hs. split; assumption.
  - intros [X [Xv HX]] HE. revert Xv.
    induction HE as [v [Hnp Hnq] | v i Hnq Hi He _ IH]; intro Xv.
    + destruct (HX v Xv) as [Hq|[Hp _]]; contradiction.
    + destruct (HX v Xv) as [Hq|[Hp [A1 _]]]; [contradiction|].
      apply IH; [rewrite U_moves; exact Hv | apply A1; assumption].
Qed.
End WeakUntil.

Lemma spec_ew A B P Q R : spec_of A P -> spec_of B Q ->
  eval_ew G U A B st = Ok R -> spec_of R (EWs G P Q).
Proof.
  intros HA HB H. unfold eval_ew in H.
  destruct (eval_au G U (eval_neg U B) (tand (eval_neg U A) (eval_neg U B)) st) as [r| | |] eqn:E;
    simpl in H; try discriminate.
  injection H as <-.
  pose proof (spec_au _ _ _ _ _ (spec_neg _ _ HB) (spec_and _ _ _ _ (spec_neg _ _ HA) (spec_neg _ _ HB)) E) as Hr.
  eapply spec_ext; [apply spec_neg; exact Hr|].
  intros w Hu. simpl. apply EW_dual.
  - intros u Hu'. eapply spec_dec; eassumption.
  - intros u Hu'. eapply spec_dec; eassumption.
  - intros u Hu'. eapply spec_dec; eassumption.
  - exact Hu.
Qed.

Lemma spec_aw A B P Q R : spec_of A P -> spec_of B Q ->
  eval_aw G U A B = Ok R -> spec_of R (AWs G P Q).
Proof.
  intros HA HB H. unfold eval_aw in H.
  destruct (eval_eu_saturated G (eval_neg U B) (tand (eval_neg U A) (eval_neg U B))) as [r| | |] eqn:E;
    simpl in H; try discriminate.
  injection H as <-.
  pose proof (spec_eu _ _ _ _ _ (spec_neg _ _ HB) (spec_and _ _ _ _ (spec_neg _ _ HA) (spec_neg _ _ HB)) E) as Hr.
  eapply spec_ext; [apply spec_neg; exact Hr|].
  intros w Hu. simpl. apply AW_dual.
  - intros u Hu'. eapply spec_dec; eassumption.
  - intros u Hu'. eapply spec_dec; eassumption.
  - exact Hu.
Qed.

End SemFacts.
