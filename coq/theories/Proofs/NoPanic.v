(** Facts for property C14: invalid input is rejected with an error, never with a panic and
    never silently.

    Covered: the plain string entry points ([m_ext = false]) with the evaluation context that
    marks no duplicates ([m_nocache = true]), the real self-loop set ([m_unsafe_ex = false]),
    sanitised or dirty results, pattern shortcuts on or off.

    Contents
    - the tokenizer answers [Ok] or [Err ELex] only; the fuel [S (length cs)] suffices;
      without the extended syntax it produces neither wild-card atoms nor domains;
    - the parser keeps this ("plain" tokens give a plain tree);
    - bridges from C07 (PrepFacts): the preprocessed tree is plain iff the parsed one is,
      all its propositions are known, all its variables have a spare copy when the number of
      variables is at most [k];
    - the error class of [preprocess] is the class of the first scoping violation met in
      reading order ([scope_violation]);
    - [validate_all] is characterised exactly; [check_trees] never answers [Err];
    - no panic / no fuel exhaustion for the dirty entry points, and for the sanitised entry
      points (with the independence of closed formulae from the spare copies, ClosedIndep.v). *)
From HCTL Require Import Base Syntax Tokenizer Parser Preprocess Canon MarkDup TT Ops Eval Pipeline.
From HCTL Require Import Kripke HCTL.
From HCTL Require Import TTFacts OpsFacts EvalPure Main LayoutFacts PipelineFacts.
From HCTL Require Import PrepFacts ParserFacts Termination ClosedIndep.

(** * 1. The tokenizer *)

(** tokens without wild-card atoms and without domains (at any nesting depth) *)
Fixpoint plain_tokb (t : token) : bool :=
  match t with
  | THyb _ _ d => match d with None => true | Some _ => false end
  | TAtom (AWild _) => false
  | TGroup ts => forallb plain_tokb ts
  | _ => true
  end.
Definition plain_toks (ts : list token) : Prop := forallb plain_tokb ts = true.

Lemma plain_toks_nil : plain_toks [].
Proof. reflexivity. Qed.

Lemma plain_toks_cons x ts : plain_toks (x :: ts) <-> plain_tokb x = true /\ plain_toks ts.
Proof. unfold plain_toks. cbn [forallb]. apply andb_true_iff. Qed.

Lemma plain_toks_app l r : plain_toks (l ++ r) <-> plain_toks l /\ plain_toks r.
Proof. unfold plain_toks. rewrite forallb_app. apply andb_true_iff. Qed.

Lemma plain_toks_rev l : plain_toks l -> plain_toks (rev l).
Proof.
  induction l as [|x l IH]; intro H; [exact H|].
  apply plain_toks_cons in H. destruct H as [Hx Hl]. cbn [rev].
  apply plain_toks_app. split; [apply IH, Hl|].
  apply plain_toks_cons. split; [exact Hx | apply plain_toks_nil].
Qed.

Section TokFacts.
Variable ext_alnum : N -> bool.

Lemma collect_name_length cs :
  length (fst (collect_name ext_alnum cs)) + length (snd (collect_name ext_alnum cs)) = length cs.
Proof.
  induction cs as [|c cs IH]; [reflexivity|]. cbn [collect_name].
  destruct (is_name_char ext_alnum c).
  - destruct (collect_name ext_alnum cs) as [n r]. cbn [fst snd length] in *. lia.
  - reflexivity.
Qed.

Lemma collect_name_le cs n r : collect_name ext_alnum cs = (n, r) -> length r <= length cs.
Proof.
  intro H. pose proof (collect_name_length cs) as E. rewrite H in E. cbn [fst snd] in E. lia.
Qed.

Lemma skip_ws_le cs : length (skip_ws cs) <= length cs.
Proof.
  induction cs as [|c cs IH]; [apply le_n|]. cbn [skip_ws].
  destruct (is_ws c); cbn [length] in *; lia.
Qed.

Lemma expect_cases c cs :
  (exists r, expect c cs = Ok r /\ length cs = S (length r)) \/ expect c cs = Err ELex.
Proof.
  destruct cs as [|x r]; [right; reflexivity|]. cbn [expect].
  destruct (N.eqb x c); [left; exists r; split; reflexivity | right; reflexivity].
Qed.

Lemma tl_le (cs : str) : length (tl cs) <= length cs.
Proof. destruct cs; cbn [tl length]; lia. Qed.

(** [collect_var_dom] answers [Ok] or [Err ELex]; it consumes input; without
    [parse_domains] it yields no domain *)
Lemma collect_var_dom_cases cs pd :
  (exists nm d r, collect_var_dom ext_alnum cs pd = Ok (nm, d, r) /\ length r < length cs
                  /\ (pd = false -> d = None))
  \/ collect_var_dom ext_alnum cs pd = Err ELex.
Proof.
  unfold collect_var_dom.
  pose proof (skip_ws_le cs) as L0.
  destruct (expect_cases c_lbrace (skip_ws cs)) as [[r1 [-> L1]] | ->]; [|right; reflexivity].
  cbn [bind].
  destruct (collect_name ext_alnum r1) as [nm r2] eqn:CN.
  pose proof (collect_name_le _ _ _ CN) as L2.
  destruct nm as [|c0 nm]; [right; reflexivity|].
  destruct (expect_cases c_rbrace r2) as [[r3 [-> L3]] | ->]; [|right; reflexivity].
  cbn [bind].
  pose proof (skip_ws_le r3) as L4.
  destruct (pd && peek_is c_i (skip_ws r3)) eqn:PD.
  - pose proof (tl_le (skip_ws r3)) as L5.
    destruct (expect_cases c_n (tl (skip_ws r3))) as [[r4 [-> L6]] | ->]; [|right; reflexivity].
    cbn [bind].
    pose proof (skip_ws_le r4) as L7.
    destruct (expect_cases c_pct (skip_ws r4)) as [[r5 [-> L8]] | ->]; [|right; reflexivity].
    cbn [bind].
    destruct (collect_name ext_alnum r5) as [dn r6] eqn:CN2.
    pose proof (collect_name_le _ _ _ CN2) as L9.
    destruct dn as [|d0 dn]; [right; reflexivity|].
    destruct (expect_cases c_pct r6) as [[r7 [-> L10]] | ->]; [|right; reflexivity].
    cbn [bind].
    pose proof (skip_ws_le r7) as L11.
    destruct (expect_cases c_colon (skip_ws r7)) as [[r8 [-> L12]] | ->]; [|right; reflexivity].
    cbn [bind]. left. exists (c0 :: nm), (Some (d0 :: dn)), r8.
    split; [reflexivity|]. split; [lia|].
    intros ->. discriminate PD.
  - cbn [bind].
    destruct (expect_cases c_colon (skip_ws r3)) as [[r8 [-> L12]] | ->]; [|right; reflexivity].
    cbn [bind]. left. exists (c0 :: nm), None, r8.
    split; [reflexivity|]. split; [lia | reflexivity].
Qed.

Lemma temporal_token_cases c c2 :
  (exists t, temporal_token c c2 = Ok t /\ plain_tokb t = true) \/ temporal_token c c2 = Err ELex.
Proof.
  unfold temporal_token.
  destruct (N.eqb c2 c_X); [left; eexists; split; reflexivity|].
  destruct (N.eqb c2 c_F); [left; eexists; split; reflexivity|].
  destruct (N.eqb c2 c_G); [left; eexists; split; reflexivity|].
  destruct (N.eqb c2 c_U); [left; eexists; split; reflexivity|].
  destruct (N.eqb c2 c_W); [left; eexists; split; reflexivity|].
  right; reflexivity.
Qed.

(** acceptable outcomes of [tok] on an input of length at most [n]: tokens and a rest that
    is not longer than the input, or a lexical error; under the assumption [Q] (plain syntax,
    plain accumulator) the tokens are plain *)
Definition lexfine (Q : Prop) (r : res (list token * str)) (n : nat) : Prop :=
  match r with
  | Ok (ts, rest) => length rest <= n /\ (Q -> plain_toks ts)
  | Err e => e = ELex
  | Panic _ => False
  | OutOfFuel => False
  end.

Lemma lexfine_mono (Q Q' : Prop) r n m :
  lexfine Q' r n -> n <= m -> (Q -> Q') -> lexfine Q r m.
Proof.
  destruct r as [[ts rest]|e|p|]; cbn [lexfine]; auto.
  intros [H1 H2] LE QQ. split; [lia | auto].
Qed.

Lemma lexfine_err Q n : lexfine Q (Err ELex) n.
Proof. reflexivity. Qed.

Theorem tok_fine : forall f cs top ext acc,
  length cs < f ->
  lexfine (ext = false /\ plain_toks acc) (tok ext_alnum f cs top ext acc) (length cs).
Proof.
  induction f as [|f IH]; intros cs top ext acc LT; [lia|].
  set (Q := ext = false /\ plain_toks acc).
  (* the recursive calls: shorter input, one more plain token *)
  assert (REC : forall rest t, length rest < length cs ->
            (ext = false -> plain_tokb t = true) ->
            lexfine Q (tok ext_alnum f rest top ext (t :: acc)) (length cs)).
  { intros rest t Lr Pt. eapply lexfine_mono; [apply IH; lia | lia|].
    intros [E PA]. split; [exact E|]. apply plain_toks_cons. split; [apply Pt, E | exact PA]. }
  (* hybrid operators *)
  assert (HYB : forall rest o pd, length rest < length cs -> (ext = false -> pd = false) ->
            lexfine Q (let* (nd, rest') := collect_var_dom ext_alnum rest pd in
                       tok ext_alnum f rest' top ext (THyb o (fst nd) (snd nd) :: acc)) (length cs)).
  { intros rest o pd Lr Ppd.
    destruct (collect_var_dom_cases rest pd) as [[nm [d [r' [-> [Lr' Pd]]]]] | ->];
      [|apply lexfine_err].
    cbn [bind fst snd]. apply REC; [lia|]. intro E. rewrite (Pd (Ppd E)). reflexivity. }
  assert (HYBJ : forall rest, length rest < length cs ->
            lexfine Q (let* (nd, rest') := collect_var_dom ext_alnum rest false in
                       tok ext_alnum f rest' top ext (THyb Jump (fst nd) None :: acc)) (length cs)).
  { intros rest Lr.
    destruct (collect_var_dom_cases rest false) as [[nm [d [r' [-> [Lr' Pd]]]]] | ->];
      [|apply lexfine_err].
    cbn [bind fst snd]. apply REC; [lia|]. reflexivity. }
  destruct cs as [|c rest].
  - cbn [tok]. destruct top; [|apply lexfine_err]. cbn [lexfine length]. split; [lia|].
    intros [_ PA]. apply plain_toks_rev, PA.
  - cbn [tok]. cbn [length] in *.
    destruct (is_ws c).
    { eapply lexfine_mono; [apply IH; lia | lia | intro HQ; exact HQ]. }
    destruct (N.eqb c c_tilde); [apply REC; [lia | reflexivity]|].
    destruct (N.eqb c c_amp); [apply REC; [lia | reflexivity]|].
    destruct (N.eqb c c_bar); [apply REC; [lia | reflexivity]|].
    destruct (N.eqb c c_caret); [apply REC; [lia | reflexivity]|].
    destruct (N.eqb c c_eq).
    { destruct (expect_cases c_gt rest) as [[r1 [-> L1]] | ->]; [|apply lexfine_err].
      cbn [bind]. apply REC; [lia | reflexivity]. }
    destruct (N.eqb c c_lt).
    { destruct (expect_cases c_eq rest) as [[r1 [-> L1]] | ->]; [|apply lexfine_err].
      cbn [bind].
      destruct (expect_cases c_gt r1) as [[r2 [-> L2]] | ->]; [|apply lexfine_err].
      cbn [bind]. apply REC; [lia | reflexivity]. }
    destruct (N.eqb c c_gt); [apply lexfine_err|].
    destruct ((N.eqb c c_E || N.eqb c c_A)
              && match rest with c2 :: _ => is_temp_op_char c2 | [] => false end).
    { destruct rest as [|c2 rest2]; [apply lexfine_err|]. cbn [length] in *.
      destruct (peek_name_char ext_alnum rest2).
      - destruct (collect_name ext_alnum rest2) as [nm r3] eqn:CN.
        pose proof (collect_name_le _ _ _ CN) as L3.
        apply REC; [lia | reflexivity].
      - destruct (temporal_token_cases c c2) as [[t [-> Pt]] | ->]; [|apply lexfine_err].
        cbn [bind]. apply REC; [lia | intros _; exact Pt]. }
    destruct (N.eqb c c_bang); [apply HYB; [lia | auto]|].
    destruct (N.eqb c c_three && negb (peek_name_char ext_alnum rest)); [apply HYB; [lia | auto]|].
    destruct (N.eqb c c_V && negb (peek_name_char ext_alnum rest)); [apply HYB; [lia | auto]|].
    destruct (N.eqb c c_at); [apply HYBJ; lia|].
    destruct (N.eqb c c_bslash).
    { destruct (collect_name ext_alnum rest) as [opname r1] eqn:CN.
      pose proof (collect_name_le _ _ _ CN) as L1.
      destruct (str_eqb opname s_exists); [apply HYB; [lia | auto]|].
      destruct (str_eqb opname s_forall); [apply HYB; [lia | auto]|].
      destruct (str_eqb opname s_bind); [apply HYB; [lia | auto]|].
      destruct (str_eqb opname s_jump); [apply HYBJ; lia|].
      apply lexfine_err. }
    destruct (N.eqb c c_rpar).
    { destruct top; [apply lexfine_err|]. cbn [lexfine]. split; [lia|].
      intros [_ PA]. apply plain_toks_rev, PA. }
    destruct (N.eqb c c_lpar).
    { pose proof (IH rest false ext [] ltac:(lia)) as F.
      destruct (tok ext_alnum f rest false ext []) as [[grp r1]|e|p|]; cbn [lexfine] in F;
        cbn [bind]; [|subst e; apply lexfine_err|contradiction|contradiction].
      destruct F as [L1 Pg]. apply REC; [lia|]. intro E. cbn [plain_tokb].
      apply Pg. split; [exact E | apply plain_toks_nil]. }
    destruct (N.eqb c c_lbrace).
    { destruct (collect_name ext_alnum rest) as [nm r1] eqn:CN.
      pose proof (collect_name_le _ _ _ CN) as L1.
      destruct nm as [|c0 nm]; [apply lexfine_err|].
      destruct (expect_cases c_rbrace r1) as [[r2 [-> L2]] | ->]; [|apply lexfine_err].
      cbn [bind]. apply REC; [lia | reflexivity]. }
    destruct (N.eqb c c_pct && ext) eqn:PE.
    { destruct (collect_name ext_alnum rest) as [nm r1] eqn:CN.
      pose proof (collect_name_le _ _ _ CN) as L1.
      destruct nm as [|c0 nm]; [apply lexfine_err|].
      destruct (expect_cases c_pct r1) as [[r2 [-> L2]] | ->]; [|apply lexfine_err].
      cbn [bind]. apply REC; [lia|]. intros ->. rewrite andb_false_r in PE. discriminate PE. }
    destruct (is_name_char ext_alnum c); [|apply lexfine_err].
    destruct (collect_name ext_alnum rest) as [nm r1] eqn:CN.
    pose proof (collect_name_le _ _ _ CN) as L1.
    apply REC; [lia | reflexivity].
Qed.

(** every call of [tok] consumes at least one character, so any fuel above the length of
    the input suffices; the outcome is tokens with a rest no longer than the input, or a
    lexical error *)
Theorem tok_fuel_suffices f cs top ext acc : length cs < f ->
  tok ext_alnum f cs top ext acc <> OutOfFuel
  /\ (forall p, tok ext_alnum f cs top ext acc <> Panic p)
  /\ (forall e, tok ext_alnum f cs top ext acc = Err e -> e = ELex)
  /\ (forall ts rest, tok ext_alnum f cs top ext acc = Ok (ts, rest) ->
                      length rest <= length cs).
Proof.
  intro LT. pose proof (tok_fine f cs top ext acc LT) as F.
  destruct (tok ext_alnum f cs top ext acc) as [[ts r]|e|p|]; cbn [lexfine] in F;
    try contradiction; repeat split; try discriminate.
  - intros ts' rest' E. injection E as <- <-. apply F.
  - intros e' E. injection E as <-. exact F.
Qed.

(** the tokenizer answers with tokens or with a lexical error *)
Theorem tokenize_ok_or_lex ext s :
  (exists ts, tokenize ext_alnum ext s = Ok ts /\ (ext = false -> plain_toks ts))
  \/ tokenize ext_alnum ext s = Err ELex.
Proof.
  unfold tokenize.
  pose proof (tok_fine (S (length s)) s true ext [] ltac:(lia)) as F.
  destruct (tok ext_alnum (S (length s)) s true ext []) as [[ts r]|e|p|]; cbn [lexfine] in F;
    cbn [bind]; try contradiction.
  - left. exists ts. split; [reflexivity|]. intro E. apply F. split; [exact E | apply plain_toks_nil].
  - right. subst e. reflexivity.
Qed.

Theorem tokenize_no_panic ext s p : tokenize ext_alnum ext s <> Panic p.
Proof. destruct (tokenize_ok_or_lex ext s) as [[ts [-> _]] | ->]; discriminate. Qed.

(** the fuel [S (length cs)] suffices *)
Theorem tokenize_no_fuel ext s : tokenize ext_alnum ext s <> OutOfFuel.
Proof. destruct (tokenize_ok_or_lex ext s) as [[ts [-> _]] | ->]; discriminate. Qed.

Theorem tokenize_err_lex ext s e : tokenize ext_alnum ext s = Err e -> e = ELex.
Proof.
  destruct (tokenize_ok_or_lex ext s) as [[ts [-> _]] | ->]; [discriminate|].
  intro H. injection H as <-. reflexivity.
Qed.

(** without the extended syntax: no wild-card atom, no domain *)
Theorem tokenize_plain s ts : tokenize ext_alnum false s = Ok ts -> plain_toks ts.
Proof.
  destruct (tokenize_ok_or_lex false s) as [[ts' [-> P]] | ->]; [|discriminate].
  intro H. injection H as <-. apply P. reflexivity.
Qed.

End TokFacts.

(** * 2. The parser keeps plain tokens plain *)

Lemma atom_of_prop_name_plain name : plainf (Terminal (atom_of_prop_name name)).
Proof.
  unfold atom_of_prop_name.
  destruct (str_eqb name s_true || str_eqb name s_True || str_eqb name s_1); [exact I|].
  destruct (str_eqb name s_false || str_eqb name s_False || str_eqb name s_0); exact I.
Qed.

Lemma grammar_plain :
  (forall ts t, G ts t -> plain_toks ts -> plainf t) /\
  (forall (n : nat) ts t, L n ts t -> plain_toks ts -> plainf t) /\
  (forall ts t, U ts t -> plain_toks ts -> plainf t).
Proof.
  apply GLU_mutind.
  - intros o x d ts t _ IH P. apply plain_toks_cons in P. destruct P as [Pd P].
    cbn [plain_tokb] in Pd. cbn [plainf]. split; [|apply IH, P].
    destruct d; [discriminate Pd | reflexivity].
  - intros ts t _ IH. exact IH.
  - intros ts t _ IH. exact IH.
  - intros n o l r a b _ _ IHl _ IHr P. apply plain_toks_app in P. destruct P as [Pl P].
    apply plain_toks_cons in P. destruct P as [_ Pr]. cbn [plainf]. split; auto.
  - intros n ts t _ IH. exact IH.
  - intros o ts t _ IH P. apply plain_toks_cons in P. cbn [plainf]. apply IH, P.
  - intros name _. apply atom_of_prop_name_plain.
  - intros x _. exact I.
  - intros p P. apply plain_toks_cons in P. destruct P as [P _]. discriminate P.
  - intros ts t _ IH P. apply plain_toks_cons in P. destruct P as [P _]. apply IH, P.
Qed.

Theorem parse_plain ts t : parse_tokens ts = Ok t -> plain_toks ts -> plainf t.
Proof. intro H. apply (proj1 grammar_plain), parse_sound, H. Qed.

(** outcomes of [parse_formula] *)
Section ParseFormula.
Variable ext_alnum : N -> bool.

Theorem parse_formula_cases ext s :
  (exists ts t, tokenize ext_alnum ext s = Ok ts /\ parse_tokens ts = Ok t
                /\ parse_formula ext_alnum ext s = Ok t)
  \/ (tokenize ext_alnum ext s = Err ELex /\ parse_formula ext_alnum ext s = Err ELex)
  \/ (exists ts, tokenize ext_alnum ext s = Ok ts /\ parse_tokens ts = Err EParse
                 /\ parse_formula ext_alnum ext s = Err EParse).
Proof.
  unfold parse_formula.
  destruct (tokenize_ok_or_lex ext_alnum ext s) as [[ts [E _]] | E]; rewrite E; cbn [bind].
  - destruct (parse_tokens_benign ts) as [[t Ht] | Ht].
    + left. exists ts, t. auto.
    + right. right. exists ts. auto.
  - right. left. auto.
Qed.

Theorem parse_formula_plain s t : parse_formula ext_alnum false s = Ok t -> plainf t.
Proof.
  unfold parse_formula. intro H.
  destruct (tokenize ext_alnum false s) as [ts| | |] eqn:E; cbn [bind] in H; try discriminate.
  eapply parse_plain; [exact H | eapply tokenize_plain, E].
Qed.

End ParseFormula.

(** * 3. Bridges from C07 to the hypotheses of the evaluator theorems *)

Lemma plainf_rename t : forall scope, plainf (rename scope t) <-> plainf t.
Proof.
  induction t as [a | o c IH | o l IHl r IHr | o x d c IH]; intro scope; cbn [rename].
  - destruct a; cbn [plainf]; tauto.
  - cbn [plainf]. apply IH.
  - cbn [plainf]. rewrite IHl, IHr. tauto.
  - destruct (is_quantifier o); cbn [plainf]; rewrite IH; tauto.
Qed.

Lemma in_index_of nm names : forall i, In nm names -> index_of nm names i <> None.
Proof.
  induction names as [|y names IH]; intros i IN; cbn [In] in IN; [contradiction|].
  cbn [index_of]. destruct (str_eqb nm y) eqn:E; [discriminate|].
  destruct IN as [EQ|IN]; [|apply IH, IN].
  subst y. rewrite str_eqb_refl in E. discriminate E.
Qed.

Lemma props_known_rename props t : forall scope,
  well_scoped props scope t -> props_known props (rename scope t).
Proof.
  induction t as [a | o c IH | o l IHl r IHr | o x d c IH]; intros scope WS;
    cbn [well_scoped] in WS; cbn [rename].
  - destruct a; cbn [props_known]; try exact I. apply in_index_of, WS.
  - cbn [props_known]. apply IH, WS.
  - cbn [props_known]. destruct WS as [WSl WSr]. split; [apply IHl, WSl | apply IHr, WSr].
  - destruct (is_quantifier o); cbn [props_known]; apply IH, WS.
Qed.

Lemma var_of_xs Gv j : j < g_k Gv -> var_of Gv (xs (S j)) = Some j.
Proof.
  intro LT. unfold xs. cbn [repeat_n var_of]. rewrite repeat_n_length.
  destruct (Nat.ltb_spec j (g_k Gv)); [reflexivity | lia].
Qed.

Lemma supported_rename Gv props t : forall scope,
  well_scoped props scope t -> length scope + qdepth t <= g_k Gv ->
  supported Gv (rename scope t).
Proof.
  induction t as [a | o c IH | o l IHl r IHr | o x d c IH]; intros scope WS LE;
    cbn [well_scoped] in WS; cbn [qdepth] in LE; cbn [rename].
  - destruct a as [p | x | | | wl]; cbn [supported]; try exact I.
    destruct (rename_var_binder_depth scope x WS) as [j [_ [LT ->]]].
    rewrite var_of_xs by lia. discriminate.
  - cbn [supported]. apply IH; assumption.
  - cbn [supported]. destruct WS as [WSl WSr]. split; [apply IHl | apply IHr]; auto; lia.
  - destruct (is_quantifier o) eqn:Q; cbn [supported].
    + destruct WS as [_ WS]. split.
      * rewrite var_of_xs by lia. discriminate.
      * apply IH; [exact WS | cbn [length]; lia].
    + destruct WS as [WS IN]. split; [|apply IH; assumption].
      destruct (rename_var_binder_depth scope x IN) as [j [_ [LT ->]]].
      rewrite var_of_xs by lia. discriminate.
Qed.

(** what C07 gives about an accepted formula, in the vocabulary of the evaluator theorems *)
Theorem preprocess_bridge props t t' :
  preprocess props t = Ok t' ->
  (plainf t' <-> plainf t)
  /\ props_known props t'
  /\ depth_named 0 t'
  /\ num_hctl_vars t' = qdepth t
  /\ forall Gv, num_hctl_vars t' <= g_k Gv -> supported Gv t'.
Proof.
  intro H. destruct (preprocess_names_by_depth props t t' H) as [_ [DN NV]].
  apply preprocess_ok_iff in H. destruct H as [WS ->].
  split; [apply plainf_rename|]. split; [apply props_known_rename, WS|].
  split; [exact DN|]. split; [exact NV|].
  intros Gv LE. eapply supported_rename; [exact WS|]. cbn [length]. lia.
Qed.

(** * 4. The error class of [preprocess] *)

(** the first scoping violation in reading order (the order of [prep]): a variable occurrence
    or jump target that is not in scope, a quantifier over a name already in scope, an unknown
    proposition; a jump reports its body before its own target *)
Inductive scope_violation (props : list str) : list str -> tree -> errkind -> Prop :=
| SV_var scope x : ~ In x scope -> scope_violation props scope (Terminal (AVar x)) EFreeVar
| SV_prop scope p : ~ In p props -> scope_violation props scope (Terminal (AProp p)) EUnknownProp
| SV_unary scope o c e : scope_violation props scope c e -> scope_violation props scope (Unary o c) e
| SV_left scope o l r e : scope_violation props scope l e -> scope_violation props scope (Binary o l r) e
| SV_right scope o l r e : well_scoped props scope l -> scope_violation props scope r e ->
    scope_violation props scope (Binary o l r) e
| SV_requant scope o x d c : is_quantifier o = true -> In x scope ->
    scope_violation props scope (Hybrid o x d c) ERequantified
| SV_body scope o x d c e : is_quantifier o = true -> ~ In x scope ->
    scope_violation props (x :: scope) c e -> scope_violation props scope (Hybrid o x d c) e
| SV_jump_body scope x d c e : scope_violation props scope c e ->
    scope_violation props scope (Hybrid Jump x d c) e
| SV_jump_target scope x d c : well_scoped props scope c -> ~ In x scope ->
    scope_violation props scope (Hybrid Jump x d c) EFreeVar.

Lemma scope_violation_class props scope t e :
  scope_violation props scope t e -> e = EFreeVar \/ e = ERequantified \/ e = EUnknownProp.
Proof. induction 1; auto. Qed.

Lemma not_in_existsb (x : str) (l : list str) : ~ In x l -> existsb (str_eqb x) l = false.
Proof.
  intro N. destruct (existsb (str_eqb x) l) eqn:E; [|reflexivity].
  apply existsb_str_in in E. contradiction.
Qed.

Lemma ren_inv_lookup_none scope ren x : ren_inv scope ren -> ~ In x scope ->
  alookup str_eqb x ren = None.
Proof. intros INV N. rewrite INV, (index_not_in x scope N). reflexivity. Qed.

Lemma ren_inv_amem_true scope ren x : ren_inv scope ren -> In x scope ->
  amem str_eqb x ren = true.
Proof.
  intros INV IN. destruct (amem str_eqb x ren) eqn:M; [reflexivity|].
  apply (ren_inv_amem scope ren x INV) in M. contradiction.
Qed.

Lemma prep_err_complete props scope t e : scope_violation props scope t e ->
  forall ren, ren_inv scope ren -> prep props ren (xs (length scope)) t = Err e.
Proof.
  induction 1 as [scope x N | scope p N | scope o c e _ IH | scope o l r e _ IH
                 | scope o l r e WS _ IH | scope o x d c Q IN | scope o x d c e Q N _ IH
                 | scope x d c e _ IH | scope x d c WS N]; intros ren INV; cbn [prep].
  - rewrite (ren_inv_lookup_none scope ren x INV N). reflexivity.
  - rewrite (not_in_existsb p props N). reflexivity.
  - rewrite (IH ren INV). reflexivity.
  - rewrite (IH ren INV). reflexivity.
  - rewrite (prep_complete props l scope ren INV WS). cbn [bind].
    rewrite (IH ren INV). reflexivity.
  - rewrite Q, (ren_inv_amem_true scope ren x INV IN). reflexivity.
  - rewrite Q. apply (ren_inv_amem scope ren x INV) in N. rewrite N. rewrite xs_snoc.
    pose proof (IH _ (ren_inv_push scope ren x INV)) as E. cbn [length] in E.
    match goal with |- bind ?p _ = _ => replace p with (@Err tree e) by (symmetry; exact E) end.
    reflexivity.
  - cbn [is_quantifier]. rewrite (IH ren INV). reflexivity.
  - cbn [is_quantifier]. rewrite (prep_complete props c scope ren INV WS). cbn [bind].
    rewrite (ren_inv_lookup_none scope ren x INV N). reflexivity.
Qed.

Lemma prep_err_sound props t : forall scope ren e, ren_inv scope ren ->
  prep props ren (xs (length scope)) t = Err e -> scope_violation props scope t e.
Proof.
  induction t as [a | o c IH | o l IHl r IHr | o x d c IH]; intros scope ren e INV H;
    cbn [prep] in H.
  - destruct a as [p | x | | | wl]; try discriminate.
    + destruct (existsb (str_eqb p) props) eqn:E; [discriminate|]. injection H as <-.
      apply SV_prop. intro IN. apply existsb_str_in in IN. congruence.
    + destruct (alookup str_eqb x ren) as [nm|] eqn:E; [discriminate|]. injection H as <-.
      apply SV_var. intro IN. rewrite (ren_inv_lookup scope ren x INV IN) in E. discriminate.
  - destruct (prep props ren (xs (length scope)) c) as [c'|e'| |] eqn:Hc; cbn [bind] in H;
      try discriminate.
    injection H as <-. apply SV_unary. eapply IH; eassumption.
  - destruct (prep props ren (xs (length scope)) l) as [l'|e'| |] eqn:Hl; cbn [bind] in H;
      try discriminate.
    + destruct (prep props ren (xs (length scope)) r) as [r'|e'| |] eqn:Hr; cbn [bind] in H;
        try discriminate.
      injection H as <-. apply SV_right; [|eapply IHr; eassumption].
      eapply prep_sound; eassumption.
    + injection H as <-. apply SV_left. eapply IHl; eassumption.
  - destruct (is_quantifier o) eqn:Q.
    + destruct (amem str_eqb x ren) eqn:M.
      * injection H as <-. apply SV_requant; [exact Q|].
        destruct (in_dec (list_eq_dec N.eq_dec) x scope) as [IN|N]; [exact IN|].
        apply (ren_inv_amem scope ren x INV) in N. congruence.
      * rewrite xs_snoc in H.
        match type of H with
        | bind ?p _ = _ => destruct p as [c'|e'| |] eqn:Hc; cbn [bind] in H; try discriminate
        end.
        injection H as <-. apply SV_body; [exact Q | apply (ren_inv_amem scope ren x INV), M|].
        eapply (IH (x :: scope)); [apply ren_inv_push, INV | exact Hc].
    + assert (o = Jump) as -> by (destruct o; try discriminate Q; reflexivity).
      destruct (prep props ren (xs (length scope)) c) as [c'|e'| |] eqn:Hc; cbn [bind] in H;
        try discriminate.
      * destruct (alookup str_eqb x ren) as [nm|] eqn:E; [discriminate|]. injection H as <-.
        apply SV_jump_target; [eapply prep_sound; eassumption|].
        intro IN. rewrite (ren_inv_lookup scope ren x INV IN) in E. discriminate.
      * injection H as <-. apply SV_jump_body. eapply IH; eassumption.
Qed.

(** the error of [preprocess] is the class of the first violation *)
Theorem preprocess_err_iff props t e :
  preprocess props t = Err e <-> scope_violation props [] t e.
Proof.
  unfold preprocess. split.
  - apply (prep_err_sound props t [] [] e ren_inv_nil).
  - intro V. apply (prep_err_complete props [] t e V [] ren_inv_nil).
Qed.

(** ill-scoped = some violation; the violation met first is unique *)
Theorem not_well_scoped_iff props t :
  ~ well_scoped props [] t <-> exists e, scope_violation props [] t e.
Proof.
  split.
  - intro N. destruct (preprocess_rejects_ill_scoped props t N) as [e E].
    exists e. apply preprocess_err_iff, E.
  - intros [e V] WS. apply preprocess_err_iff in V.
    apply preprocess_accepts_iff_well_scoped in WS. destruct WS as [t' E]. congruence.
Qed.

Theorem scope_violation_unique props t e e' :
  scope_violation props [] t e -> scope_violation props [] t e' -> e = e'.
Proof. intros V V'. apply preprocess_err_iff in V, V'. congruence. Qed.

(** * 5. Validation: the first failing check of the first failing formula decides *)

(** [first_reject P R l e]: some element of [l] is rejected with [e] and all elements before
    it pass *)
Inductive first_reject {A E : Type} (P : A -> Prop) (R : A -> E -> Prop) : list A -> E -> Prop :=
| FR_here x l e : R x e -> first_reject P R (x :: l) e
| FR_later x l e : P x -> first_reject P R l e -> first_reject P R (x :: l) e.

Lemma first_reject_split {A E} (P : A -> Prop) (R : A -> E -> Prop) l e :
  first_reject P R l e <->
  exists l1 x l2, l = l1 ++ x :: l2 /\ List.Forall P l1 /\ R x e.
Proof.
  split.
  - induction 1 as [x l e Hx | x l e Hx _ [l1 [y [l2 [-> [F Hy]]]]]].
    + exists [], x, l. split; [reflexivity|]. split; [constructor | exact Hx].
    + exists (x :: l1), y, l2. split; [reflexivity|]. split; [constructor; assumption | exact Hy].
  - intros [l1 [x [l2 [-> [F Hx]]]]]. induction F as [|y l1 Hy _ IH].
    + apply FR_here, Hx.
    + cbn [app]. apply FR_later; assumption.
Qed.

(** verdict on a parsed formula *)
Definition tree_ok (props : list str) (k : nat) (t : tree) : Prop :=
  well_scoped props [] t /\ qdepth t <= k.

(** the cause of a rejection and its error class: the first scoping violation, or more
    nested quantifiers than the graph has spare copies *)
Definition tree_rejected (props : list str) (k : nat) (t : tree) (e : errkind) : Prop :=
  scope_violation props [] t e \/ (well_scoped props [] t /\ k < qdepth t /\ e = EVarSupport).

Lemma tree_ok_or_rejected props k t :
  tree_ok props k t \/ exists e, tree_rejected props k t e.
Proof.
  destruct (preprocess_ok_or_err props t) as [[t' H] | [e H]].
  - apply preprocess_ok_iff in H. destruct H as [WS _].
    destruct (Nat.le_gt_cases (qdepth t) k) as [LE|GT].
    + left. split; assumption.
    + right. exists EVarSupport. right. auto.
  - right. exists e. left. apply preprocess_err_iff, H.
Qed.

Lemma tree_ok_not_rejected props k t e : tree_ok props k t -> ~ tree_rejected props k t e.
Proof.
  intros [WS LE] [V | [_ [GT _]]]; [|lia].
  apply (proj2 (not_well_scoped_iff props t)); [exists e; exact V | exact WS].
Qed.

Lemma tree_rejected_iff props k t :
  (exists e, tree_rejected props k t e) <-> (~ well_scoped props [] t \/ k < qdepth t).
Proof.
  split.
  - intros [e [V | [_ [GT _]]]]; [left | right; exact GT].
    apply not_well_scoped_iff. exists e. exact V.
  - intros [N | GT].
    + apply not_well_scoped_iff in N. destruct N as [e V]. exists e. left. exact V.
    + destruct (tree_ok_or_rejected props k t) as [[_ LE] | R]; [lia | exact R].
Qed.

Section Entry.
Variable ext_alnum : N -> bool.
Local Notation parse_formula := (parse_formula ext_alnum).

(** verdict on a formula string (plain syntax) *)
Definition accepted (props : list str) (k : nat) (f : str) : Prop :=
  exists t, parse_formula false f = Ok t /\ tree_ok props k t.

Definition rejected (props : list str) (k : nat) (f : str) (e : errkind) : Prop :=
  (tokenize ext_alnum false f = Err ELex /\ e = ELex)
  \/ (exists ts, tokenize ext_alnum false f = Ok ts /\ parse_tokens ts = Err EParse /\ e = EParse)
  \/ (exists t, parse_formula false f = Ok t /\ tree_rejected props k t e).

(** one round of [validate_all] for the plain entry points *)
Definition validate_one (props : list str) (k : nat) (f : str) : res tree :=
  let* t := parse_and_minimize ext_alnum false props f in
  if Nat.ltb k (num_hctl_vars t) then Err EVarSupport else Ok t.

Lemma validate_all_cons props k ctx f rest :
  validate_all ext_alnum false props k ctx (f :: rest) =
  let* t := validate_one props k f in
  let* (tsp, ds) := validate_all ext_alnum false props k ctx rest in
  Ok (t :: fst tsp, snd tsp, ds).
Proof.
  cbn [validate_all]. unfold validate_one.
  destruct (parse_and_minimize ext_alnum false props f) as [t| | |]; cbn [bind]; try reflexivity.
  destruct (Nat.ltb k (num_hctl_vars t)); reflexivity.
Qed.

Lemma validate_one_accepts props k f t :
  parse_formula false f = Ok t -> tree_ok props k t ->
  validate_one props k f = Ok (rename [] t).
Proof.
  intros HP [WS LE]. unfold validate_one, parse_and_minimize. rewrite HP. cbn [bind].
  rewrite (proj2 (preprocess_ok_iff props t (rename [] t)) (conj WS eq_refl)). cbn [bind].
  rewrite num_hctl_vars_rename. destruct (Nat.ltb_spec k (qdepth t)); [lia | reflexivity].
Qed.

Lemma validate_one_rejects props k f e :
  rejected props k f e -> validate_one props k f = Err e.
Proof.
  unfold validate_one, parse_and_minimize, Pipeline.parse_formula.
  intros [[HT ->] | [[ts [HT [HP ->]]] | [t [HP [V | [WS [GT ->]]]]]]].
  - rewrite HT. reflexivity.
  - rewrite HT. cbn [bind]. rewrite HP. reflexivity.
  - unfold Pipeline.parse_formula in HP. rewrite HP. cbn [bind].
    rewrite (proj2 (preprocess_err_iff props t e) V). reflexivity.
  - unfold Pipeline.parse_formula in HP. rewrite HP. cbn [bind].
    rewrite (proj2 (preprocess_ok_iff props t (rename [] t)) (conj WS eq_refl)). cbn [bind].
    rewrite num_hctl_vars_rename. destruct (Nat.ltb_spec k (qdepth t)); [reflexivity | lia].
Qed.

(** [validate_one] answers with the renamed tree of an accepted formula or with the error
    class of the cause of the rejection; nothing else *)
Lemma validate_one_cases props k f :
  (exists t, parse_formula false f = Ok t /\ tree_ok props k t
             /\ validate_one props k f = Ok (rename [] t))
  \/ (exists e, rejected props k f e /\ validate_one props k f = Err e).
Proof.
  destruct (parse_formula_cases ext_alnum false f)
    as [[ts [t [HT [HP HF]]]] | [[HT HF] | [ts [HT [HP HF]]]]].
  - destruct (tree_ok_or_rejected props k t) as [OK | [e R]].
    + left. exists t. split; [exact HF|]. split; [exact OK|].
      apply validate_one_accepts; assumption.
    + right. exists e.
      assert (RJ : rejected props k f e) by (right; right; exists t; auto).
      split; [exact RJ | apply validate_one_rejects, RJ].
  - right. exists ELex.
    assert (RJ : rejected props k f ELex) by (left; auto).
    split; [exact RJ | apply validate_one_rejects, RJ].
  - right. exists EParse.
    assert (RJ : rejected props k f EParse) by (right; left; exists ts; auto).
    split; [exact RJ | apply validate_one_rejects, RJ].
Qed.

Lemma accepted_not_rejected props k f e : accepted props k f -> ~ rejected props k f e.
Proof.
  intros [t [HP OK]] RJ. apply validate_one_rejects in RJ.
  rewrite (validate_one_accepts props k f t HP OK) in RJ. discriminate RJ.
Qed.

Lemma rejected_unique props k f e e' : rejected props k f e -> rejected props k f e' -> e = e'.
Proof. intros R R'. apply validate_one_rejects in R, R'. congruence. Qed.

Lemma rejected_class props k f e : rejected props k f e ->
  e = ELex \/ e = EParse \/ e = EFreeVar \/ e = ERequantified \/ e = EUnknownProp
  \/ e = EVarSupport.
Proof.
  intros [[_ ->] | [[ts [_ [_ ->]]] | [t [_ [V | [_ [_ ->]]]]]]]; auto 8.
  destruct (scope_violation_class _ _ _ _ V) as [-> | [-> | ->]]; auto 8.
Qed.

(** what an accepted formula hands to the evaluator *)
Definition prepared (props : list str) (k : nat) (f : str) (t' : tree) : Prop :=
  exists t, parse_formula false f = Ok t /\ tree_ok props k t /\ t' = rename [] t.

Lemma prepared_accepted props k f t' : prepared props k f t' -> accepted props k f.
Proof. intros [t [HP [OK _]]]. exists t. auto. Qed.

(** the outcome of [validate_all] *)
Theorem validate_all_cases props k ctx fs :
  (exists ts', validate_all ext_alnum false props k ctx fs = Ok (ts', [], [])
               /\ Forall2 (prepared props k) fs ts')
  \/ (exists e, validate_all ext_alnum false props k ctx fs = Err e
                /\ first_reject (accepted props k) (rejected props k) fs e).
Proof.
  induction fs as [|f rest IH].
  - left. exists []. split; [reflexivity | constructor].
  - rewrite validate_all_cons.
    destruct (validate_one_cases props k f) as [[t [HP [OK ->]]] | [e [RJ ->]]]; cbn [bind].
    + destruct IH as [[ts' [-> F]] | [e [-> FR]]]; cbn [bind fst snd].
      * left. exists (rename [] t :: ts'). split; [reflexivity|].
        constructor; [exists t; auto | exact F].
      * right. exists e. split; [reflexivity|]. apply FR_later; [exists t; auto | exact FR].
    + right. exists e. split; [reflexivity | apply FR_here, RJ].
Qed.

Lemma first_reject_validate props k ctx fs e :
  first_reject (accepted props k) (rejected props k) fs e ->
  validate_all ext_alnum false props k ctx fs = Err e.
Proof.
  induction 1 as [f rest e RJ | f rest e [t [HP OK]] _ IH]; rewrite validate_all_cons.
  - rewrite (validate_one_rejects props k f e RJ). reflexivity.
  - rewrite (validate_one_accepts props k f t HP OK). cbn [bind]. rewrite IH. reflexivity.
Qed.

Theorem validate_all_err_iff props k ctx fs e :
  validate_all ext_alnum false props k ctx fs = Err e
  <-> first_reject (accepted props k) (rejected props k) fs e.
Proof.
  split; [|apply first_reject_validate].
  intro H. destruct (validate_all_cases props k ctx fs) as [[ts' [E _]] | [e' [E FR]]];
    rewrite E in H; [discriminate|]. injection H as <-. exact FR.
Qed.

Theorem validate_all_ok_iff props k ctx fs r :
  validate_all ext_alnum false props k ctx fs = Ok r
  <-> exists ts', r = (ts', [], []) /\ Forall2 (prepared props k) fs ts'.
Proof.
  split.
  - intro H. destruct (validate_all_cases props k ctx fs) as [[ts' [E F]] | [e' [E _]]];
      rewrite E in H; [|discriminate]. injection H as <-. exists ts'. auto.
  - intros [ts' [-> F]]. induction F as [|f t' rest ts' [t [HP [OK ->]]] _ IH]; [reflexivity|].
    rewrite validate_all_cons, (validate_one_accepts props k f t HP OK). cbn [bind].
    rewrite IH. reflexivity.
Qed.

Theorem validate_all_no_panic props k ctx fs :
  (forall p, validate_all ext_alnum false props k ctx fs <> Panic p)
  /\ validate_all ext_alnum false props k ctx fs <> OutOfFuel.
Proof.
  destruct (validate_all_cases props k ctx fs) as [[ts' [-> _]] | [e' [-> _]]];
    split; try intro p; discriminate.
Qed.

(** the trees handed to the evaluator satisfy the hypotheses of the evaluator theorems *)
Definition evaluable (Gv : genv) (names : list str) (t' : tree) : Prop :=
  plainf t' /\ props_known names t' /\ supported Gv t' /\ depth_named 0 t'.

Lemma prepared_evaluable Gv props f t' :
  prepared props (g_k Gv) f t' -> evaluable Gv props t'.
Proof.
  intros [t [HP [[WS LE] ->]]].
  assert (PP : preprocess props t = Ok (rename [] t)).
  { apply preprocess_ok_iff. split; [exact WS | reflexivity]. }
  destruct (preprocess_bridge props t _ PP) as [PL [PK [DN [NV SUP]]]].
  split; [apply PL; eapply parse_formula_plain, HP|]. split; [exact PK|].
  split; [apply SUP; lia | exact DN].
Qed.

(** with every formula parsed: the verdicts are those of the trees *)
Lemma first_reject_parsed props k fs ts e :
  Forall2 (fun f t => parse_formula false f = Ok t) fs ts ->
  (first_reject (accepted props k) (rejected props k) fs e
   <-> first_reject (tree_ok props k) (tree_rejected props k) ts e).
Proof.
  induction 1 as [|f t fs ts HP _ IH].
  - split; intro H; inversion H.
  - assert (PF := HP). unfold Pipeline.parse_formula in PF.
    split; intro H; inversion H as [x l e0 RJ | x l e0 OK FR]; subst.
    + apply FR_here. destruct RJ as [[HT _] | [[tk [HT [HPk _]]] | [t0 [HP0 R]]]].
      * rewrite HT in PF. discriminate PF.
      * rewrite HT in PF. cbn [bind] in PF. congruence.
      * assert (t0 = t) as -> by congruence. exact R.
    + apply FR_later; [|apply IH, FR]. destruct OK as [t0 [HP0 OK]].
      assert (t0 = t) as -> by congruence. exact OK.
    + apply FR_here. right. right. exists t. auto.
    + apply FR_later; [exists t; auto | apply IH, FR].
Qed.

End Entry.

(** * 6. Evaluation of validated trees never fails *)

Section World.
Variable ext_alnum : N -> bool.
Variable w : world.
Variable k : nat.
Hypothesis upd_ok : List.Forall (shaped (Lpn (w_p w) (w_n w))) (w_upd w).
Hypothesis unit_ok : shaped (Lpn (w_p w) (w_n w)) (w_unit w).
Hypothesis unit_colour : forall v v', (forall j, v (TP j) = v' (TP j)) ->
  mem (Lpn (w_p w) (w_n w)) (w_unit w) v = mem (Lpn (w_p w) (w_n w)) (w_unit w) v'.
Hypothesis names_ok : length (w_names w) <= w_n w.

Let Gw := genv_of w k.
Let Uw := unit_of w k.
Local Notation names := (w_names w).

Let WF : wf_env Gw names Uw := world_wf w k upd_ok unit_ok unit_colour names_ok.

Lemma eval_all_total sw steady : shaped (g_L Gw) steady ->
  forall ts c, List.Forall (evaluable Gw names) ts -> duplicates c = [] ->
  exists rs, eval_all Gw names sw steady Uw ts c = Ok rs
             /\ Forall2 (fun t R => peval Gw names sw steady t Uw = Ok R) ts rs.
Proof.
  intros SS. induction ts as [|t ts IH]; intros c EV Hd.
  - exists []. split; [reflexivity | constructor].
  - inversion EV as [|? ? [PL [PK [SUP DN]]] EVs]; subst. cbn [eval_all].
    destruct (eval_node_nodup Gw names sw steady t Uw c PL Hd) as [c1 [Hd1 E]]. rewrite E.
    destruct (peval_total Gw names sw steady Uw (wf_nodup _ _ _ WF) (wf_upd_shaped _ _ _ WF)
                (wf_U_shaped _ _ _ WF) SS t PL SUP PK) as [R [ER _]].
    rewrite ER. cbn [bind].
    destruct (IH c1 EVs Hd1) as [rs [-> F]]. cbn [bind].
    exists (R :: rs). split; [reflexivity | constructor; assumption].
Qed.

Lemma sanitize_all_total rs :
  List.Forall (fun R => exists s, restrict not_extra (g_L Gw) R = Some s) rs ->
  exists ss, sanitize_all Gw rs = Ok ss /\ length ss = length rs.
Proof.
  induction 1 as [|R rs [s HR] _ [ss [IH LEN]]].
  - exists []. split; reflexivity.
  - cbn [sanitize_all]. unfold sanitize at 1. rewrite HR. cbn [bind]. rewrite IH. cbn [bind].
    exists (s :: ss). split; [reflexivity | cbn [length]; lia].
Qed.

Lemma Forall2_length_eq {A B} (R : A -> B -> Prop) l l' : Forall2 R l l' -> length l = length l'.
Proof. induction 1; cbn [length]; lia. Qed.

(** [check_trees] on validated trees answers with one set per formula: plain entry points,
    no duplicates marked, real self-loop set; sanitised or dirty; patterns on or off *)
Theorem check_trees_total m ts cp cd :
  m_ext m = false -> m_nocache m = true -> m_unsafe_ex m = false ->
  List.Forall (evaluable Gw names) ts ->
  exists rs, check_trees w k m ts cp cd = Ok rs /\ length rs = length ts.
Proof.
  intros He Hn Hu EV. unfold check_trees. rewrite He, Hn, Hu. fold Gw Uw.
  set (sw := {| use_patterns := negb (m_nopatterns m) |}).
  assert (SS : shaped (g_L Gw) (steady_of Gw Uw)).
  { apply shaped_steady_of; [apply (wf_upd_shaped _ _ _ WF) | apply (wf_U_shaped _ _ _ WF)]. }
  destruct (eval_all_total sw (steady_of Gw Uw) SS ts (ctx_new []) EV eq_refl) as [rs [-> F]].
  cbn [bind]. pose proof (Forall2_length_eq _ _ _ F) as LEN.
  destruct (m_sanitize m); [|exists rs; split; [reflexivity | lia]].
  destruct (sanitize_all_total rs) as [ss [E LEN']].
  - clear LEN. induction F as [|t R ts rs HR _ IH]; constructor.
    + inversion EV as [|? ? [PL [PK [SUP DN]]] EVs]; subst.
      exact (closed_result_restrict Gw names Uw WF sw t R PL SUP DN HR).
    + inversion EV; subst. apply IH. assumption.
  - exists ss. split; [exact E | lia].
Qed.

(** the dirty entry point with the empty self-loop set (model_check_formula_unsafe_ex) *)
Theorem check_trees_total_dirty m ts cp cd :
  m_ext m = false -> m_nocache m = true -> m_sanitize m = false ->
  List.Forall (evaluable Gw names) ts ->
  exists rs, check_trees w k m ts cp cd = Ok rs /\ length rs = length ts.
Proof.
  intros He Hn Hs EV. unfold check_trees. rewrite He, Hn, Hs. fold Gw Uw.
  set (sw := {| use_patterns := negb (m_nopatterns m) |}).
  assert (SS : shaped (g_L Gw) (if m_unsafe_ex m then empty Gw else steady_of Gw Uw)).
  { destruct (m_unsafe_ex m); [apply shaped_const|].
    apply shaped_steady_of; [apply (wf_upd_shaped _ _ _ WF) | apply (wf_U_shaped _ _ _ WF)]. }
  destruct (eval_all_total sw _ SS ts (ctx_new []) EV eq_refl) as [rs [-> F]].
  cbn [bind]. exists rs. split; [reflexivity|]. symmetry. apply (Forall2_length_eq _ _ _ F).
Qed.

(** * 7. The string entry points *)

Local Notation accepted := (accepted ext_alnum names k).
Local Notation rejected := (rejected ext_alnum names k).

(** a mode covered by the theorems below *)
Definition covered (m : mode) : Prop :=
  m_ext m = false /\ m_nocache m = true
  /\ (m_unsafe_ex m = false \/ m_sanitize m = false).

Theorem model_check_cases m ctx fs : covered m ->
  (exists rs, model_check ext_alnum w k m ctx fs = Ok rs /\ length rs = length fs
              /\ List.Forall accepted fs)
  \/ (exists e, model_check ext_alnum w k m ctx fs = Err e
                /\ first_reject accepted rejected fs e).
Proof.
  intros [He [Hn Hus]]. unfold model_check. rewrite He.
  destruct (validate_all_cases ext_alnum names k ctx fs) as [[ts' [-> F]] | [e [-> FR]]];
    cbn [bind fst snd]; [|right; exists e; auto].
  left.
  assert (EV : List.Forall (evaluable Gw names) ts').
  { clear - F. induction F as [|f t' fs ts' P _ IH]; constructor; [|exact IH].
    apply (prepared_evaluable ext_alnum Gw names f t' P). }
  assert (AC : List.Forall accepted fs).
  { clear - F. induction F as [|f t' fs ts' P _ IH]; constructor; [|exact IH].
    eapply prepared_accepted, P. }
  pose proof (Forall2_length_eq _ _ _ F) as LEN.
  destruct Hus as [Hu | Hs].
  - destruct (check_trees_total m ts' [] [] He Hn Hu EV) as [rs [-> L]].
    exists rs. split; [reflexivity|]. split; [lia | exact AC].
  - destruct (check_trees_total_dirty m ts' [] [] He Hn Hs EV) as [rs [-> L]].
    exists rs. split; [reflexivity|]. split; [lia | exact AC].
Qed.

(** never a panic, never out of fuel *)
Theorem model_check_no_panic m ctx fs : covered m ->
  (forall p, model_check ext_alnum w k m ctx fs <> Panic p)
  /\ model_check ext_alnum w k m ctx fs <> OutOfFuel.
Proof.
  intro C. destruct (model_check_cases m ctx fs C) as [[rs [-> _]] | [e [-> _]]];
    split; try intro p; discriminate.
Qed.

(** an error exactly when some formula is rejected; the class is that of the first cause *)
Theorem model_check_err_iff m ctx fs e : covered m ->
  (model_check ext_alnum w k m ctx fs = Err e <-> first_reject accepted rejected fs e).
Proof.
  intro C. split.
  - intro H. destruct (model_check_cases m ctx fs C) as [[rs [E _]] | [e' [E FR]]];
      rewrite E in H; [discriminate|]. injection H as <-. exact FR.
  - intro FR. unfold model_check. destruct C as [-> _].
    rewrite (first_reject_validate ext_alnum names k ctx fs e FR). reflexivity.
Qed.

(** an answer exactly when every formula is accepted: never a silent answer on invalid input *)
Theorem model_check_ok_iff m ctx fs : covered m ->
  ((exists rs, model_check ext_alnum w k m ctx fs = Ok rs) <-> List.Forall accepted fs).
Proof.
  intro C. split.
  - intros [rs H]. destruct (model_check_cases m ctx fs C) as [[rs' [_ [_ AC]]] | [e [E _]]];
      [exact AC | congruence].
  - intro AC. destruct (model_check_cases m ctx fs C) as [[rs [E _]] | [e [_ FR]]];
      [exists rs; exact E|].
    exfalso. clear - AC FR. induction FR as [f l e RJ | f l e _ _ IH].
    + inversion AC; subst. eapply accepted_not_rejected; eassumption.
    + inversion AC; subst. apply IH. assumption.
Qed.

(** the statement on parsed formulae *)
Theorem model_check_err_iff_parsed m ctx fs ts e : covered m ->
  Forall2 (fun f t => parse_formula ext_alnum false f = Ok t) fs ts ->
  (model_check ext_alnum w k m ctx fs = Err e
   <-> exists ts1 t ts2, ts = ts1 ++ t :: ts2
         /\ List.Forall (tree_ok names k) ts1 /\ tree_rejected names k t e).
Proof.
  intros C P. rewrite (model_check_err_iff m ctx fs e C).
  rewrite (first_reject_parsed ext_alnum names k fs ts e P).
  apply first_reject_split.
Qed.

Theorem model_check_errs_iff_parsed m ctx fs ts : covered m ->
  Forall2 (fun f t => parse_formula ext_alnum false f = Ok t) fs ts ->
  ((exists e, model_check ext_alnum w k m ctx fs = Err e)
   <-> List.Exists (fun t => ~ well_scoped names [] t \/ k < qdepth t) ts).
Proof.
  intros C P. split.
  - intros [e H]. apply (model_check_err_iff_parsed m ctx fs ts e C P) in H.
    destruct H as [ts1 [t [ts2 [-> [_ R]]]]]. apply Exists_app. right. apply Exists_cons_hd.
    apply tree_rejected_iff. exists e. exact R.
  - intro EX. destruct (model_check_cases m ctx fs C) as [[rs [_ [_ AC]]] | [e [E _]]];
      [|exists e; exact E].
    exfalso. clear - EX AC P. induction P as [|f t fs ts HP _ IH]; [inversion EX|].
    inversion AC as [|? ? [t0 [HP0 [WS LE]]] AC']; subst.
    assert (t0 = t) as -> by congruence.
    inversion EX as [? ? [N | GT] | ? ? EX']; subst; [contradiction | lia | auto].
Qed.

End World.

(** the world hypotheses of Proofs/PipelineFacts.v, bundled *)
Definition world_ok (w : world) : Prop :=
  List.Forall (shaped (Lpn (w_p w) (w_n w))) (w_upd w)
  /\ shaped (Lpn (w_p w) (w_n w)) (w_unit w)
  /\ (forall v v', (forall j, v (TP j) = v' (TP j)) ->
        mem (Lpn (w_p w) (w_n w)) (w_unit w) v = mem (Lpn (w_p w) (w_n w)) (w_unit w) v')
  /\ length (w_names w) <= w_n w.

(** * Sanity: the hypotheses are satisfiable and every error class is observed

    two variables a, b, one parameter bit; formulae as code points *)
Module Sanity.
Definition w0 : world :=
  {| w_p := 1; w_n := 2; w_names := [[97%N]; [98%N]];
     w_upd := [const (Lpn 1 2) true; lit (Lpn 1 2) (TS 0)]; w_unit := const (Lpn 1 2) true |}.
Definition m0 (san : bool) : mode :=
  {| m_ext := false; m_sanitize := san; m_unsafe_ex := false; m_nocache := true;
     m_nopatterns := false |}.
Definition ea : N -> bool := fun _ => false.
Definition run (san : bool) (k : nat) (fs : list str) : nat + option errkind :=
  match model_check ea w0 k (m0 san) [] fs with
  | Ok rs => inl (length rs)
  | Err e => inr (Some e)
  | _ => inr None
  end.

Lemma w0_ok : world_ok w0.
Proof.
  split; [|split; [|split]].
  - constructor; [apply shaped_const|]. constructor; [apply shaped_lit | constructor].
  - apply shaped_const.
  - intros v v' _. cbn [w0 w_unit w_p w_n]. rewrite !mem_const. reflexivity.
  - cbn. lia.
Qed.

(* {x} *)
Example free_var : run true 1 [[123;120;125]%N] = inr (Some EFreeVar).
Proof. vm_compute. reflexivity. Qed.
(* a ; !{x}: !{x}: a  -- the first formula is fine, the second decides *)
Example requantified :
  run true 1 [[97]%N; [33;123;120;125;58; 33;123;120;125;58; 97]%N] = inr (Some ERequantified).
Proof. vm_compute. reflexivity. Qed.
(* c *)
Example unknown_prop : run true 1 [[99]%N] = inr (Some EUnknownProp).
Proof. vm_compute. reflexivity. Qed.
(* !{x}: !{y}: a  with one spare copy, then with two *)
Example var_support :
  run true 1 [[33;123;120;125;58; 33;123;121;125;58; 97]%N] = inr (Some EVarSupport).
Proof. vm_compute. reflexivity. Qed.
Example var_support_ok : run true 2 [[33;123;120;125;58; 33;123;121;125;58; 97]%N] = inl 1.
Proof. vm_compute. reflexivity. Qed.
(* a & *)
Example parse_error : run false 1 [[97;32;38]%N] = inr (Some EParse).
Proof. vm_compute. reflexivity. Qed.
(* a > *)
Example lex_error : run false 1 [[97;32;62]%N] = inr (Some ELex).
Proof. vm_compute. reflexivity. Qed.
(* !{x}: AG EF {x} ; a&b  -- sanitised answers *)
Example answers :
  run true 1 [[33;123;120;125;58; 65;71;32;69;70;32;123;120;125]%N; [97;38;98]%N] = inl 2.
Proof. vm_compute. reflexivity. Qed.
End Sanity.
