(** Restricted quantifier domains and wild-card propositions at the level of [sat]:
    the three equivalences of the README (a domain is a conjunct / premise under the binder)
    and the meaning of an empty domain.  Nothing of the model appears here. *)
From HCTL Require Import Base Syntax TT Ops Kripke HCTL.

Section ExtSem.
Variable G : genv.
Variable names : list str.
Variable Gamma : str -> val -> Prop.

(** context sets only read the colour and the state of a valuation *)
Definition ctx_ignores_copies : Prop :=
  forall l v w, (forall g, is_extra_tag g = false -> v g = w g) -> Gamma l v -> Gamma l w.

Hypothesis Gamma_extras : ctx_ignores_copies.

Local Notation Sat := (sat G names Gamma).

Lemma Gamma_agree l v w : (forall g, is_extra_tag g = false -> v g = w g) ->
  (Gamma l v <-> Gamma l w).
Proof.
  intro H. split; apply Gamma_extras; [exact H|].
  intros g Hg. symmetry. apply H. exact Hg.
Qed.

Lemma Gamma_set_copy l e u v : Gamma l (set_copy e u v) <-> Gamma l v.
Proof.
  apply Gamma_agree. intros g Hg. destruct g as [j|i|i e']; simpl in *; try reflexivity.
  discriminate.
Qed.

(** jumping to the freshly quantified variable: the state is [u], the colour that of [v] *)
Lemma Gamma_jump_copy l e u v :
  Gamma l (set_state e (set_copy e u v)) <-> Gamma l (with_state u v).
Proof.
  apply Gamma_agree. intros g Hg. destruct g as [j|i|i e']; simpl in *; try reflexivity.
  - rewrite Nat.eqb_refl. reflexivity.
  - discriminate.
Qed.

(** !{x} in %d%: a   ==   !{x}: (%d% & a) *)
Theorem bind_domain_equiv x d a v :
  Sat (Hybrid Bind x (Some d) a) v <->
  Sat (Hybrid Bind x None (Binary And (Terminal (AWild d)) a)) v.
Proof.
  simpl. split.
  - intros [e [He [Hd Ha]]]. exists e. split; [exact He|]. split; [exact I|].
    split; [apply Gamma_set_copy; exact Hd | exact Ha].
  - intros [e [He [_ [Hd Ha]]]]. exists e. split; [exact He|].
    split; [apply Gamma_set_copy in Hd; exact Hd | exact Ha].
Qed.

(** 3{x} in %d%: @{x}: a   ==   3{x}: @{x}: (%d% & a) *)
Theorem exists_domain_equiv x d a v :
  Sat (Hybrid Exists x (Some d) (Hybrid Jump x None a)) v <->
  Sat (Hybrid Exists x None (Hybrid Jump x None (Binary And (Terminal (AWild d)) a))) v.
Proof.
  simpl. split.
  - intros [e [He [u [Hd [e' [He' Ha]]]]]]. exists e. split; [exact He|].
    exists u. split; [exact I|]. exists e'. split; [exact He'|].
    assert (e' = e) by congruence. subst e'.
    split; [apply Gamma_jump_copy; exact Hd | exact Ha].
  - intros [e [He [u [_ [e' [He' [Hd Ha]]]]]]]. exists e. split; [exact He|].
    exists u. assert (e' = e) by congruence. subst e'.
    split; [apply Gamma_jump_copy in Hd; exact Hd|].
    exists e. split; [exact He | exact Ha].
Qed.

(** V{x} in %d%: @{x}: a   ==   V{x}: @{x}: (%d% => a) *)
Theorem forall_domain_equiv x d a v :
  Sat (Hybrid Forall x (Some d) (Hybrid Jump x None a)) v <->
  Sat (Hybrid Forall x None (Hybrid Jump x None (Binary Imp (Terminal (AWild d)) a))) v.
Proof.
  simpl. split.
  - intros [e [He Hall]]. exists e. split; [exact He|]. intros u _.
    exists e. split; [exact He|]. intro Hd. apply Gamma_jump_copy in Hd.
    destruct (Hall u Hd) as [e' [He' Ha]].
    assert (e' = e) by congruence. subst e'. exact Ha.
  - intros [e [He Hall]]. exists e. split; [exact He|]. intros u Hd.
    destruct (Hall u I) as [e' [He' Ha]].
    assert (e' = e) by congruence. subst e'.
    exists e. split; [exact He|]. apply Ha. apply Gamma_jump_copy. exact Hd.
Qed.

(** ---- empty domains (for the colour of [v]; other colours are irrelevant) ---- *)

(** no state of the colour of [v] lies in the domain *)
Definition domain_empty_at (d : str) (v : val) : Prop := forall u, ~ Gamma d (with_state u v).

Lemma with_state_self l v : Gamma l (with_state v v) <-> Gamma l v.
Proof. apply Gamma_agree. intros g _. destruct g; reflexivity. Qed.

Theorem exists_empty_domain x d a v : domain_empty_at d v ->
  ~ Sat (Hybrid Exists x (Some d) a) v.
Proof. intros Hemp [e [_ [u [Hd _]]]]. exact (Hemp u Hd). Qed.

Theorem bind_empty_domain x d a v : domain_empty_at d v ->
  ~ Sat (Hybrid Bind x (Some d) a) v.
Proof.
  intros Hemp [e [_ [Hd _]]]. apply (Hemp v). apply with_state_self. exact Hd.
Qed.

(** binding the current state: false when the current state is outside the domain *)
Theorem bind_outside_domain x d a v : ~ Gamma d v ->
  ~ Sat (Hybrid Bind x (Some d) a) v.
Proof. intros Hout [e [_ [Hd _]]]. exact (Hout Hd). Qed.

Theorem forall_empty_domain x d a v : var_of G x <> None -> domain_empty_at d v ->
  Sat (Hybrid Forall x (Some d) a) v.
Proof.
  intros Hx Hemp. simpl. destruct (var_of G x) as [e|]; [|congruence].
  exists e. split; [reflexivity|]. intros u Hd. exfalso. exact (Hemp u Hd).
Qed.

End ExtSem.
