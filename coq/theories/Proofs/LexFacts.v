(** Facts for property C05, lexical half: the tokenizer implements the documented lexical
    structure.

    Contents
    - a declarative lexical specification [Lex ext s ts] (by cases on the head of the input);
    - [tokenize ext_alnum ext s = Ok ts <-> Lex ext s ts] (so [Lex] is functional);
    - the extended syntax is conservative over the plain one, for the tokenizer and for
      [parse_formula]; conversely an extended token list without wild-cards and domains is
      the plain token list;
    - in the plain syntax every input containing '%' is rejected; on inputs without '%' the
      two syntaxes coincide.

    All statements hold for an arbitrary classification [ext_alnum] of the code points
    >= 128.  The only place where this generality shows: a code point that is classified as
    white space AND as alphanumeric (none exists in Unicode) is skipped when it stands at the
    head of the input, but is part of an identifier when it follows a name character.  The
    specification says so explicitly ([head_not_ws] in [ident]). *)
From HCTL Require Import Base Syntax Tokenizer Parser Pipeline.
From HCTL Require Import EvalPure PrepFacts ParserFacts NoPanic RoundTrip.

(** * 1. The lexical specification *)

(** single-character operator tokens *)
Definition symbol_tokens : list (N * token) :=
  [(c_tilde, TUn Not); (c_amp, TBin And); (c_bar, TBin Or); (c_caret, TBin Xor)].

(** identifiers that are operators (iff the identifier is exactly that word) *)
Definition keyword_tokens : list (str * token) :=
  [(unop_str EX, TUn EX); (unop_str AX, TUn AX); (unop_str EF, TUn EF); (unop_str AF, TUn AF);
   (unop_str EG, TUn EG); (unop_str AG, TUn AG);
   (binop_str EU, TBin EU); (binop_str AU, TBin AU); (binop_str EW, TBin EW);
   (binop_str AW, TBin AW)].

(** identifiers that start a hybrid segment: "3" and "V" *)
Definition quantifier_words : list (str * hybop) :=
  [(hybop_str Exists, Exists); (hybop_str Forall, Forall)].

(** the other starts of a hybrid segment: '!' '@', and after a backslash the long names *)
Definition hybrid_symbols : list (N * hybop) := [(c_bang, Bind); (c_at, Jump)].
Definition hybrid_words : list (str * hybop) :=
  [(s_exists, Exists); (s_forall, Forall); (s_bind, Bind); (s_jump, Jump)].

(** a domain may follow the variable of a hybrid operator only in the extended syntax and
    never after a jump *)
Definition dom_allowed (ext : bool) (o : hybop) : bool :=
  match o with Jump => false | _ => ext end.

Definition ws_run (w : str) : Prop := List.Forall (fun c => is_ws c = true) w.

Section Lex.
Variable ext_alnum : N -> bool.

Local Notation nchar := (is_name_char ext_alnum).
Local Notation cname := (collect_name ext_alnum).
Local Notation pnc := (peek_name_char ext_alnum).
Local Notation cvd := (collect_var_dom ext_alnum).
Local Notation tk := (tok ext_alnum).
Local Notation name_ok := (name_ok ext_alnum).
Local Notation name_chars := (List.Forall (fun c => nchar c = true)).

(** [w] is an IDENTIFIER at the head of [w ++ r]: a maximal non-empty run of name characters
    ([name_ok]: non-empty, name characters only), not starting with white space *)
Definition ident (w r : str) : Prop := name_ok w /\ head_not_ws w /\ pnc r = false.

(** the rest of a hybrid segment, after the operator:
      ws* '{' name '}' ws* ':'                          or, if [dom] (domains allowed),
      ws* '{' name '}' ws* 'i' 'n' ws* '%' name '%' ws* ':'
    [HybSeg dom cs x d r]: [cs] starts with such a segment naming the variable [x] and the
    domain [d]; [r] is what follows the colon *)
Inductive HybSeg (dom : bool) : str -> str -> option str -> str -> Prop :=
| HS_plain : forall w1 x w2 r,
    ws_run w1 -> name_ok x -> ws_run w2 ->
    HybSeg dom (w1 ++ c_lbrace :: x ++ c_rbrace :: w2 ++ c_colon :: r) x None r
| HS_dom : forall w1 x w2 w3 d w4 r,
    dom = true ->
    ws_run w1 -> name_ok x -> ws_run w2 -> ws_run w3 -> name_ok d -> ws_run w4 ->
    HybSeg dom (w1 ++ c_lbrace :: x ++ c_rbrace :: w2 ++ c_i :: c_n :: w3
                   ++ c_pct :: d ++ c_pct :: w4 ++ c_colon :: r) x (Some d) r.

(** [LexR ext top cs ts out]: the input [cs] consists of the tokens [ts], followed
    - at top level ([top = true]) by the end of the input ([out = []]),
    - inside parentheses ([top = false]) by the closing ')' and the rest [out]. *)
Inductive LexR (ext : bool) : bool -> str -> list token -> str -> Prop :=
| LR_end : LexR ext true [] [] []
| LR_close : forall out, LexR ext false (c_rpar :: out) [] out
| LR_ws : forall top c cs ts out,
    is_ws c = true -> LexR ext top cs ts out -> LexR ext top (c :: cs) ts out
| LR_symbol : forall top c t cs ts out,
    alookup N.eqb c symbol_tokens = Some t ->
    LexR ext top cs ts out -> LexR ext top (c :: cs) (t :: ts) out
| LR_imp : forall top cs ts out,
    LexR ext top cs ts out -> LexR ext top (c_eq :: c_gt :: cs) (TBin Imp :: ts) out
| LR_iff : forall top cs ts out,
    LexR ext top cs ts out -> LexR ext top (c_lt :: c_eq :: c_gt :: cs) (TBin Iff :: ts) out
| LR_keyword : forall top w r t ts out,
    ident w r -> alookup str_eqb w keyword_tokens = Some t ->
    LexR ext top r ts out -> LexR ext top (w ++ r) (t :: ts) out
| LR_quantifier : forall top w r o x d r' ts out,
    ident w r -> alookup str_eqb w quantifier_words = Some o ->
    HybSeg (dom_allowed ext o) r x d r' ->
    LexR ext top r' ts out -> LexR ext top (w ++ r) (THyb o x d :: ts) out
| LR_prop : forall top w r ts out,
    ident w r ->
    alookup str_eqb w keyword_tokens = None -> alookup str_eqb w quantifier_words = None ->
    LexR ext top r ts out -> LexR ext top (w ++ r) (TAtom (AProp w) :: ts) out
| LR_hybrid_symbol : forall top c o cs x d r' ts out,
    alookup N.eqb c hybrid_symbols = Some o ->
    HybSeg (dom_allowed ext o) cs x d r' ->
    LexR ext top r' ts out -> LexR ext top (c :: cs) (THyb o x d :: ts) out
| LR_hybrid_word : forall top w r o x d r' ts out,
    name_chars w -> pnc r = false ->            (* the maximal name after the backslash *)
    alookup str_eqb w hybrid_words = Some o ->
    HybSeg (dom_allowed ext o) r x d r' ->
    LexR ext top r' ts out -> LexR ext top (c_bslash :: w ++ r) (THyb o x d :: ts) out
| LR_var : forall top x cs ts out,
    name_ok x ->
    LexR ext top cs ts out ->
    LexR ext top (c_lbrace :: x ++ c_rbrace :: cs) (TAtom (AVar x) :: ts) out
| LR_wild : forall top x cs ts out,
    ext = true -> name_ok x ->
    LexR ext top cs ts out ->
    LexR ext top (c_pct :: x ++ c_pct :: cs) (TAtom (AWild x) :: ts) out
| LR_group : forall top cs grp r ts out,
    LexR ext false cs grp r -> LexR ext top r ts out ->
    LexR ext top (c_lpar :: cs) (TGroup grp :: ts) out.

Definition Lex (ext : bool) (s : str) (ts : list token) : Prop := LexR ext true s ts [].

(** * 2. The helper functions of the tokenizer *)

Lemma skip_ws_split : forall cs, exists w s, cs = w ++ s /\ skip_ws cs = s /\ ws_run w.
Proof.
  induction cs as [|c cs IH].
  - exists [], []. repeat split. constructor.
  - cbn [skip_ws]. destruct (is_ws c) eqn:WS.
    + destruct IH as (w & s & E & S & W). exists (c :: w), s. subst cs.
      repeat split; [exact S | constructor; assumption].
    + exists [], (c :: cs). repeat split. constructor.
Qed.

Lemma skip_ws_run : forall w c r, ws_run w -> is_ws c = false -> skip_ws (w ++ c :: r) = c :: r.
Proof.
  intros w c r W C. induction W as [|x w X W IH].
  - cbn [app skip_ws]. rewrite C. reflexivity.
  - cbn [app skip_ws]. rewrite X. exact IH.
Qed.

Lemma expect_ok : forall c cs r, expect c cs = Ok r -> cs = c :: r.
Proof.
  intros c cs r H. destruct cs as [|x cs]; [discriminate H|]. cbn [expect] in H.
  destruct (N.eqb_spec x c) as [->|]; [|discriminate H]. injection H as <-. reflexivity.
Qed.

Lemma collect_name_split : forall cs n r,
  cname cs = (n, r) -> cs = n ++ r /\ name_chars n /\ pnc r = false.
Proof.
  induction cs as [|c cs IH]; intros n r H.
  - injection H as <- <-. repeat split. constructor.
  - cbn [collect_name] in H. destruct (nchar c) eqn:C.
    + destruct (cname cs) as [n' r'] eqn:CN. injection H as <- <-.
      destruct (IH _ _ eq_refl) as (-> & N' & P). repeat split; [|exact P].
      constructor; assumption.
    + injection H as <- <-. repeat split; [constructor|]. cbn [peek_name_char]. exact C.
Qed.

Lemma peek_is_cons : forall c cs, peek_is c cs = true -> exists r, cs = c :: r.
Proof.
  intros c cs H. destruct cs as [|x r]; [discriminate H|]. cbn [peek_is] in H.
  apply N.eqb_eq in H. subst x. exists r. reflexivity.
Qed.

(** [collect_var_dom] reads exactly the rest of a hybrid segment *)
Lemma cvd_sound : forall cs pd x d r, cvd cs pd = Ok (x, d, r) -> HybSeg pd cs x d r.
Proof.
  intros cs pd x d r H. unfold collect_var_dom in H.
  destruct (skip_ws_split cs) as (w1 & s1 & -> & S1 & W1). rewrite S1 in H. clear S1.
  destruct (expect c_lbrace s1) as [r1| | |] eqn:X1; cbn [bind] in H; try discriminate H.
  apply expect_ok in X1. subst s1.
  destruct (cname r1) as [nm r2] eqn:CN. apply collect_name_split in CN.
  destruct CN as (-> & N1 & _).
  destruct nm as [|c0 nm]; [discriminate H|].
  assert (NM : name_ok (c0 :: nm)) by (split; [discriminate | exact N1]).
  destruct (expect c_rbrace r2) as [r3| | |] eqn:X3; cbn [bind] in H; try discriminate H.
  apply expect_ok in X3. subst r2.
  destruct (skip_ws_split r3) as (w2 & s3 & -> & S3 & W2). rewrite S3 in H. clear S3.
  destruct (pd && peek_is c_i s3) eqn:PD.
  - apply andb_true_iff in PD. destruct PD as (-> & PI).
    apply peek_is_cons in PI. destruct PI as (t3 & ->). cbn [tl] in H.
    destruct (expect c_n t3) as [r4| | |] eqn:X4; cbn [bind] in H; try discriminate H.
    apply expect_ok in X4. subst t3.
    destruct (skip_ws_split r4) as (w3 & s4 & -> & S4 & W3). rewrite S4 in H. clear S4.
    destruct (expect c_pct s4) as [r5| | |] eqn:X5; cbn [bind] in H; try discriminate H.
    apply expect_ok in X5. subst s4.
    destruct (cname r5) as [dn r6] eqn:CN2. apply collect_name_split in CN2.
    destruct CN2 as (-> & N2 & _).
    destruct dn as [|d0 dn]; [discriminate H|].
    assert (DN : name_ok (d0 :: dn)) by (split; [discriminate | exact N2]).
    destruct (expect c_pct r6) as [r7| | |] eqn:X7; cbn [bind] in H; try discriminate H.
    apply expect_ok in X7. subst r6.
    destruct (skip_ws_split r7) as (w4 & s7 & -> & S7 & W4). rewrite S7 in H. clear S7.
    destruct (expect c_colon s7) as [r8| | |] eqn:X8; cbn [bind] in H; try discriminate H.
    apply expect_ok in X8. subst s7.
    injection H as <- <- <-. apply HS_dom; auto.
  - cbn [bind] in H.
    destruct (expect c_colon s3) as [r8| | |] eqn:X8; cbn [bind] in H; try discriminate H.
    apply expect_ok in X8. subst s3.
    injection H as <- <- <-. apply HS_plain; auto.
Qed.

Lemma cvd_complete : forall cs pd x d r, HybSeg pd cs x d r -> cvd cs pd = Ok (x, d, r).
Proof.
  intros cs pd x d r H.
  destruct H as [w1 x w2 r W1 (NE & NX) W2 | w1 x w2 w3 d w4 r -> W1 (NE & NX) W2 W3 (NEd & ND) W4];
    unfold collect_var_dom.
  - rewrite (skip_ws_run w1 c_lbrace) by (assumption || reflexivity).
    rewrite expect_same. cbn [bind].
    rewrite (collect_name_app ext_alnum x (c_rbrace :: _) NX (pnc_rbrace ext_alnum _)).
    destruct x as [|c x]; [congruence|].
    rewrite expect_same. cbn [bind].
    rewrite (skip_ws_run w2 c_colon) by (assumption || reflexivity).
    replace (pd && peek_is c_i (c_colon :: r)) with false by (destruct pd; reflexivity).
    cbn [bind]. rewrite expect_same. reflexivity.
  - rewrite (skip_ws_run w1 c_lbrace) by (assumption || reflexivity).
    rewrite expect_same. cbn [bind].
    rewrite (collect_name_app ext_alnum x (c_rbrace :: _) NX (pnc_rbrace ext_alnum _)).
    destruct x as [|c x]; [congruence|].
    rewrite expect_same. cbn [bind].
    rewrite (skip_ws_run w2 c_i) by (assumption || reflexivity).
    cbn [andb peek_is]. rewrite N.eqb_refl. cbn [tl].
    rewrite expect_same. cbn [bind].
    rewrite (skip_ws_run w3 c_pct) by (assumption || reflexivity).
    rewrite expect_same. cbn [bind].
    rewrite (collect_name_app ext_alnum d (c_pct :: _) ND (pnc_pct ext_alnum _)).
    destruct d as [|cd d]; [congruence|].
    rewrite expect_same. cbn [bind].
    rewrite (skip_ws_run w4 c_colon) by (assumption || reflexivity).
    rewrite expect_same. reflexivity.
Qed.

Lemma HybSeg_length : forall pd cs x d r, HybSeg pd cs x d r -> length r < length cs.
Proof.
  intros pd cs x d r H. apply cvd_complete in H.
  destruct (collect_var_dom_cases ext_alnum cs pd) as [(x' & d' & r' & E & L & _) | E];
    rewrite E in H; [|discriminate H].
  injection H as -> -> ->. exact L.
Qed.

Lemma HybSeg_no_dom : forall cs x d r, HybSeg false cs x d r -> d = None.
Proof. intros cs x d r H. destruct H as [| ? ? ? ? ? ? ? D]; [reflexivity | discriminate D]. Qed.

(** a segment without domain is a segment whether or not domains are allowed *)
Lemma HybSeg_none : forall pd pd' cs x d r,
  HybSeg pd cs x d r -> d = None -> HybSeg pd' cs x None r.
Proof.
  intros pd pd' cs x d r H E. destruct H; [apply HS_plain; assumption | discriminate E].
Qed.

Lemma HybSeg_mono : forall pd cs x d r, HybSeg false cs x d r -> HybSeg pd cs x d r.
Proof.
  intros pd cs x d r H. pose proof (HybSeg_no_dom _ _ _ _ H) as ->.
  eapply HybSeg_none; [exact H | reflexivity].
Qed.

(** * 3. One step of [tok] on an identifier *)

Lemma nchar_neq : forall c k, nchar c = true -> nchar k = false -> N.eqb c k = false.
Proof. intros c k C K. destruct (N.eqb_spec c k) as [->|]; [congruence | reflexivity]. Qed.

Lemma not_nchar_neq : forall c k, nchar c = false -> nchar k = true -> N.eqb c k = false.
Proof. intros c k C K. destruct (N.eqb_spec c k) as [->|]; [congruence | reflexivity]. Qed.

Lemma alookup_str_In : forall (B : Type) (w : str) (l : list (str * B)) v,
  alookup str_eqb w l = Some v -> In (w, v) l.
Proof.
  intros B w l v. induction l as [|[k x] l IH]; intro H; [discriminate H|].
  cbn [alookup] in H. destruct (str_eqb w k) eqn:E.
  - apply str_eqb_eq in E. injection H as <-. subst k. left. reflexivity.
  - right. apply IH, H.
Qed.

Lemma keyword_length : forall w t, alookup str_eqb w keyword_tokens = Some t -> length w = 2.
Proof.
  intros w t H. apply alookup_str_In in H. unfold keyword_tokens in H. cbn [In] in H.
  repeat (destruct H as [H|H]; [injection H as <- _; reflexivity|]). contradiction.
Qed.

Lemma quantifier_length : forall w o,
  alookup str_eqb w quantifier_words = Some o -> length w = 1.
Proof.
  intros w o H. apply alookup_str_In in H. unfold quantifier_words in H. cbn [In] in H.
  repeat (destruct H as [H|H]; [injection H as <- _; reflexivity|]). contradiction.
Qed.

Lemma keyword_none_length : forall w, length w <> 2 -> alookup str_eqb w keyword_tokens = None.
Proof.
  intros w L. destruct (alookup str_eqb w keyword_tokens) as [t|] eqn:E; [|reflexivity].
  apply keyword_length in E. contradiction.
Qed.

Lemma quantifier_none_length : forall w,
  length w <> 1 -> alookup str_eqb w quantifier_words = None.
Proof.
  intros w L. destruct (alookup str_eqb w quantifier_words) as [t|] eqn:E; [|reflexivity].
  apply quantifier_length in E. contradiction.
Qed.

(** The tokenizer on a maximal run [c :: w] of name characters (not starting with white
    space): it classifies the WHOLE run.  This is where "maximal munch, keyword iff exact
    match" is checked against the character-by-character look-ahead of the code. *)
Lemma tok_word : forall f c w r top ext acc,
  is_ws c = false -> name_chars (c :: w) -> pnc r = false ->
  tk (S f) (c :: w ++ r) top ext acc =
  match alookup str_eqb (c :: w) keyword_tokens with
  | Some t => tk f r top ext (t :: acc)
  | None =>
      match alookup str_eqb (c :: w) quantifier_words with
      | Some o =>
          let* (nd, rest) := cvd r ext in tk f rest top ext (THyb o (fst nd) (snd nd) :: acc)
      | None => tk f r top ext (TAtom (AProp (c :: w)) :: acc)
      end
  end.
Proof.
  intros f c w r top ext acc WS NW PR.
  inversion NW as [|c' w' NC NW' Eq]; subst c' w'.
  assert (Hne : forall k, nchar k = false -> N.eqb c k = false)
    by (intros k K; apply nchar_neq; assumption).
  assert (Hcoll : cname (w ++ r) = (w, r)) by (apply collect_name_app; assumption).
  cbn [tok]. rewrite WS.
  rewrite (Hne c_tilde), (Hne c_amp), (Hne c_bar), (Hne c_caret), (Hne c_eq),
    (Hne c_lt), (Hne c_gt), (Hne c_bang), (Hne c_at), (Hne c_bslash),
    (Hne c_rpar), (Hne c_lpar), (Hne c_lbrace), (Hne c_pct) by reflexivity.
  cbn [andb]. rewrite NC.
  destruct ((N.eqb c c_E || N.eqb c c_A)
            && match w ++ r with c2 :: _ => is_temp_op_char c2 | [] => false end) eqn:EA.
  - apply andb_true_iff in EA. destruct EA as (EA1 & EA2).
    destruct w as [|c2 w].
    + exfalso. cbn [app] in EA2. destruct r as [|c2 r]; [discriminate EA2|].
      apply temp_op_name_char with (ext_alnum := ext_alnum) in EA2.
      cbn [peek_name_char] in PR. congruence.
    + cbn [app] in EA2 |- *. destruct w as [|c3 w].
      * cbn [app]. rewrite PR.
        apply orb_true_iff in EA1. unfold is_temp_op_char in EA2.
        rewrite !orb_true_iff in EA2. rewrite !N.eqb_eq in EA1. rewrite !N.eqb_eq in EA2.
        destruct EA1 as [-> | ->]; destruct EA2 as [[[[-> | ->] | ->] | ->] | ->]; reflexivity.
      * inversion NW' as [|c2' n2 Hc2 Hn2 Eq2]; subst c2' n2.
        inversion Hn2 as [|c3' n3 Hc3 Hn3 Eq3]; subst c3' n3.
        rewrite (pnc_app_cons ext_alnum c3 w r Hc3).
        rewrite (collect_name_app ext_alnum (c3 :: w) r Hn2 PR).
        rewrite keyword_none_length by (cbn [length]; lia).
        rewrite quantifier_none_length by (cbn [length]; lia). reflexivity.
  - assert (K : alookup str_eqb (c :: w) keyword_tokens = None).
    { destruct (alookup str_eqb (c :: w) keyword_tokens) as [t|] eqn:K; [|reflexivity].
      exfalso. apply alookup_str_In in K. unfold keyword_tokens in K. cbn [In] in K.
      repeat (destruct K as [K|K];
              [injection K as <- <- _; cbn [app] in EA; discriminate EA|]).
      contradiction. }
    rewrite K.
    destruct (N.eqb c c_three && negb (pnc (w ++ r))) eqn:E3.
    { apply andb_true_iff in E3. destruct E3 as (E3 & E3').
      apply N.eqb_eq in E3. apply negb_true_iff in E3'. subst c.
      destruct w as [|c2 w]; [reflexivity|]. exfalso.
      inversion NW' as [|c2' n2 Hc2 Hn2 Eq2]; subst c2' n2.
      rewrite (pnc_app_cons ext_alnum c2 w r Hc2) in E3'. discriminate E3'. }
    destruct (N.eqb c c_V && negb (pnc (w ++ r))) eqn:EV.
    { apply andb_true_iff in EV. destruct EV as (EV & EV').
      apply N.eqb_eq in EV. apply negb_true_iff in EV'. subst c.
      destruct w as [|c2 w]; [reflexivity|]. exfalso.
      inversion NW' as [|c2' n2 Hc2 Hn2 Eq2]; subst c2' n2.
      rewrite (pnc_app_cons ext_alnum c2 w r Hc2) in EV'. discriminate EV'. }
    assert (Q : alookup str_eqb (c :: w) quantifier_words = None).
    { destruct (alookup str_eqb (c :: w) quantifier_words) as [o|] eqn:Q; [|reflexivity].
      exfalso. apply alookup_str_In in Q. unfold quantifier_words in Q. cbn [In] in Q.
      destruct Q as [Q|[Q|Q]]; [| |contradiction].
      - injection Q as <- <- _. cbn [app] in E3. rewrite PR in E3. discriminate E3.
      - injection Q as <- <- _. cbn [app] in EV. rewrite PR in EV. discriminate EV. }
    rewrite Q, Hcoll. reflexivity.
Qed.

(** * 4. Soundness: what [tok] accepts is in the specification *)

Lemma rev_cons_app : forall (A : Type) (t : A) acc ts, rev (t :: acc) ++ ts = rev acc ++ t :: ts.
Proof. intros A t acc ts. cbn [rev]. rewrite <- app_assoc. reflexivity. Qed.

Lemma tok_sound : forall f cs top ext acc ts' out,
  tk f cs top ext acc = Ok (ts', out) ->
  exists ts, ts' = rev acc ++ ts /\ LexR ext top cs ts out.
Proof.
  induction f as [|f IH]; intros cs top ext acc ts' out H; [discriminate H|].
  assert (REC : forall rest t, tk f rest top ext (t :: acc) = Ok (ts', out) ->
            exists ts, ts' = rev acc ++ t :: ts /\ LexR ext top rest ts out).
  { intros rest t R. apply IH in R. destruct R as (ts & -> & L). exists ts.
    split; [apply rev_cons_app | exact L]. }
  assert (HYB : forall rest o pd,
            (let* (nd, rest') := cvd rest pd in
             tk f rest' top ext (THyb o (fst nd) (snd nd) :: acc)) = Ok (ts', out) ->
            exists x d r ts, HybSeg pd rest x d r /\ ts' = rev acc ++ THyb o x d :: ts
                             /\ LexR ext top r ts out).
  { intros rest o pd R.
    destruct (cvd rest pd) as [[[x d] r]| | |] eqn:CV; cbn [bind fst snd] in R;
      try discriminate R.
    apply cvd_sound in CV. apply REC in R. destruct R as (ts & -> & L).
    exists x, d, r, ts. auto. }
  assert (HYBJ : forall rest,
            (let* (nd, rest') := cvd rest false in
             tk f rest' top ext (THyb Jump (fst nd) None :: acc)) = Ok (ts', out) ->
            exists x d r ts, HybSeg false rest x d r /\ ts' = rev acc ++ THyb Jump x d :: ts
                             /\ LexR ext top r ts out).
  { intros rest R.
    destruct (cvd rest false) as [[[x d] r]| | |] eqn:CV; cbn [bind fst snd] in R;
      try discriminate R.
    apply cvd_sound in CV. apply REC in R. destruct R as (ts & -> & L).
    rewrite <- (HybSeg_no_dom _ _ _ _ CV). exists x, d, r, ts. auto. }
  destruct cs as [|c rest].
  { cbn [tok] in H. destruct top; [|discriminate H]. injection H as <- <-.
    exists []. rewrite app_nil_r. split; [reflexivity | apply LR_end]. }
  destruct (is_ws c) eqn:WS.
  { rewrite tok_ws in H by exact WS. apply IH in H. destruct H as (ts & -> & L).
    exists ts. split; [reflexivity | apply LR_ws; assumption]. }
  destruct (nchar c) eqn:NC.
  - (* an identifier *)
    destruct (cname rest) as [w r] eqn:CN. apply collect_name_split in CN.
    destruct CN as (-> & NW & PR).
    assert (NW' : name_chars (c :: w)) by (constructor; assumption).
    assert (ID : ident (c :: w) r).
    { split; [split; [discriminate | exact NW']|]. split; [exact WS | exact PR]. }
    rewrite tok_word in H by assumption.
    change (c :: w ++ r) with ((c :: w) ++ r).
    destruct (alookup str_eqb (c :: w) keyword_tokens) as [t|] eqn:K.
    + apply REC in H. destruct H as (ts & -> & L). exists (t :: ts).
      split; [reflexivity | apply LR_keyword; assumption].
    + destruct (alookup str_eqb (c :: w) quantifier_words) as [o|] eqn:Q.
      * apply HYB in H. destruct H as (x & d & r' & ts & HS & -> & L).
        exists (THyb o x d :: ts). split; [reflexivity|].
        eapply LR_quantifier; eauto.
        apply alookup_str_In in Q. unfold quantifier_words in Q. cbn [In] in Q.
        destruct Q as [Q|[Q|Q]]; [| |contradiction]; injection Q as _ _ <-; exact HS.
      * apply REC in H. destruct H as (ts & -> & L). exists (TAtom (AProp (c :: w)) :: ts).
        split; [reflexivity | apply LR_prop; assumption].
  - (* a character that is neither white space nor a name character *)
    assert (Hne : forall k, nchar k = true -> N.eqb c k = false)
      by (intros k K; apply not_nchar_neq; assumption).
    cbn [tok] in H. rewrite WS in H.
    rewrite (Hne c_E), (Hne c_A), (Hne c_three), (Hne c_V) in H by reflexivity.
    cbn [orb andb] in H. rewrite NC in H.
    destruct (N.eqb_spec c c_tilde) as [->|_].
    { apply REC in H. destruct H as (ts & -> & L). eexists. split; [reflexivity|].
      apply LR_symbol; [reflexivity | exact L]. }
    destruct (N.eqb_spec c c_amp) as [->|_].
    { apply REC in H. destruct H as (ts & -> & L). eexists. split; [reflexivity|].
      apply LR_symbol; [reflexivity | exact L]. }
    destruct (N.eqb_spec c c_bar) as [->|_].
    { apply REC in H. destruct H as (ts & -> & L). eexists. split; [reflexivity|].
      apply LR_symbol; [reflexivity | exact L]. }
    destruct (N.eqb_spec c c_caret) as [->|_].
    { apply REC in H. destruct H as (ts & -> & L). eexists. split; [reflexivity|].
      apply LR_symbol; [reflexivity | exact L]. }
    destruct (N.eqb_spec c c_eq) as [->|_].
    { destruct (expect c_gt rest) as [r1| | |] eqn:X1; cbn [bind] in H; try discriminate H.
      apply expect_ok in X1. subst rest.
      apply REC in H. destruct H as (ts & -> & L). eexists. split; [reflexivity|].
      apply LR_imp, L. }
    destruct (N.eqb_spec c c_lt) as [->|_].
    { destruct (expect c_eq rest) as [r1| | |] eqn:X1; cbn [bind] in H; try discriminate H.
      apply expect_ok in X1. subst rest.
      destruct (expect c_gt r1) as [r2| | |] eqn:X2; cbn [bind] in H; try discriminate H.
      apply expect_ok in X2. subst r1.
      apply REC in H. destruct H as (ts & -> & L). eexists. split; [reflexivity|].
      apply LR_iff, L. }
    destruct (N.eqb_spec c c_gt) as [->|_]; [discriminate H|].
    destruct (N.eqb_spec c c_bang) as [->|_].
    { apply HYB in H. destruct H as (x & d & r' & ts & HS & -> & L).
      eexists. split; [reflexivity|].
      eapply LR_hybrid_symbol; [reflexivity | exact HS | exact L]. }
    destruct (N.eqb_spec c c_at) as [->|_].
    { apply HYBJ in H. destruct H as (x & d & r' & ts & HS & -> & L).
      eexists. split; [reflexivity|].
      eapply LR_hybrid_symbol; [reflexivity | exact HS | exact L]. }
    destruct (N.eqb_spec c c_bslash) as [->|_].
    { destruct (cname rest) as [w r] eqn:CN. apply collect_name_split in CN.
      destruct CN as (-> & NW & PR).
      destruct (str_eqb w s_exists) eqn:E1.
      { apply HYB in H. destruct H as (x & d & r' & ts & HS & -> & L).
        eexists. split; [reflexivity|].
        eapply LR_hybrid_word; [exact NW | exact PR | | exact HS | exact L].
        unfold hybrid_words. cbn [alookup]. rewrite E1. reflexivity. }
      destruct (str_eqb w s_forall) eqn:E2.
      { apply HYB in H. destruct H as (x & d & r' & ts & HS & -> & L).
        eexists. split; [reflexivity|].
        eapply LR_hybrid_word; [exact NW | exact PR | | exact HS | exact L].
        unfold hybrid_words. cbn [alookup]. rewrite E1, E2. reflexivity. }
      destruct (str_eqb w s_bind) eqn:E3.
      { apply HYB in H. destruct H as (x & d & r' & ts & HS & -> & L).
        eexists. split; [reflexivity|].
        eapply LR_hybrid_word; [exact NW | exact PR | | exact HS | exact L].
        unfold hybrid_words. cbn [alookup]. rewrite E1, E2, E3. reflexivity. }
      destruct (str_eqb w s_jump) eqn:E4; [|discriminate H].
      apply HYBJ in H. destruct H as (x & d & r' & ts & HS & -> & L).
      eexists. split; [reflexivity|].
      eapply LR_hybrid_word; [exact NW | exact PR | | exact HS | exact L].
      unfold hybrid_words. cbn [alookup]. rewrite E1, E2, E3, E4. reflexivity. }
    destruct (N.eqb_spec c c_rpar) as [->|_].
    { destruct top; [discriminate H|]. injection H as <- <-.
      exists []. rewrite app_nil_r. split; [reflexivity | apply LR_close]. }
    destruct (N.eqb_spec c c_lpar) as [->|_].
    { destruct (tk f rest false ext []) as [[grp r1]| | |] eqn:G; cbn [bind] in H;
        try discriminate H.
      apply IH in G. destruct G as (g & -> & LG). cbn [rev app] in *.
      apply REC in H. destruct H as (ts & -> & L). eexists. split; [reflexivity|].
      eapply LR_group; [exact LG | exact L]. }
    destruct (N.eqb_spec c c_lbrace) as [->|_].
    { destruct (cname rest) as [w r] eqn:CN. apply collect_name_split in CN.
      destruct CN as (-> & NW & PR).
      destruct w as [|c0 w]; [discriminate H|].
      destruct (expect c_rbrace r) as [r1| | |] eqn:X1; cbn [bind] in H; try discriminate H.
      apply expect_ok in X1. subst r.
      apply REC in H. destruct H as (ts & -> & L). eexists. split; [reflexivity|].
      apply LR_var; [split; [discriminate | exact NW] | exact L]. }
    destruct (N.eqb c c_pct && ext) eqn:PE; [|discriminate H].
    apply andb_true_iff in PE. destruct PE as (PE & ->). apply N.eqb_eq in PE. subst c.
    destruct (cname rest) as [w r] eqn:CN. apply collect_name_split in CN.
    destruct CN as (-> & NW & PR).
    destruct w as [|c0 w]; [discriminate H|].
    destruct (expect c_pct r) as [r1| | |] eqn:X1; cbn [bind] in H; try discriminate H.
    apply expect_ok in X1. subst r.
    apply REC in H. destruct H as (ts & -> & L). eexists. split; [reflexivity|].
    apply LR_wild; [reflexivity | split; [discriminate | exact NW] | exact L].
Qed.

(** * 5. Completeness: [tok] accepts what is in the specification *)

Lemma tok_symbol : forall f c t cs top ext acc,
  alookup N.eqb c symbol_tokens = Some t ->
  tk (S f) (c :: cs) top ext acc = tk f cs top ext (t :: acc).
Proof.
  intros f c t cs top ext acc H. unfold symbol_tokens in H. cbn [alookup] in H.
  destruct (N.eqb_spec c c_tilde) as [->|_]; [injection H as <-; reflexivity|].
  destruct (N.eqb_spec c c_amp) as [->|_]; [injection H as <-; reflexivity|].
  destruct (N.eqb_spec c c_bar) as [->|_]; [injection H as <-; reflexivity|].
  destruct (N.eqb_spec c c_caret) as [->|_]; [injection H as <-; reflexivity|].
  discriminate H.
Qed.

Lemma tok_hybrid_symbol : forall f c o cs top ext acc,
  alookup N.eqb c hybrid_symbols = Some o ->
  tk (S f) (c :: cs) top ext acc =
  let* (nd, rest) := cvd cs (dom_allowed ext o) in
  tk f rest top ext (THyb o (fst nd) (match o with Jump => None | _ => snd nd end) :: acc).
Proof.
  intros f c o cs top ext acc H. unfold hybrid_symbols in H. cbn [alookup] in H.
  destruct (N.eqb_spec c c_bang) as [->|_]; [injection H as <-; reflexivity|].
  destruct (N.eqb_spec c c_at) as [->|_]; [injection H as <-; reflexivity|].
  discriminate H.
Qed.

Lemma tok_hybrid_word : forall f w o r top ext acc,
  name_chars w -> pnc r = false ->
  alookup str_eqb w hybrid_words = Some o ->
  tk (S f) (c_bslash :: w ++ r) top ext acc =
  let* (nd, rest) := cvd r (dom_allowed ext o) in
  tk f rest top ext (THyb o (fst nd) (match o with Jump => None | _ => snd nd end) :: acc).
Proof.
  intros f w o r top ext acc NW PR H.
  assert (E : tk (S f) (c_bslash :: w ++ r) top ext acc =
    let (opname, rest) := cname (w ++ r) in
    if str_eqb opname s_exists then
      let* (nd, rest) := cvd rest ext in
      tk f rest top ext (THyb Exists (fst nd) (snd nd) :: acc)
    else if str_eqb opname s_forall then
      let* (nd, rest) := cvd rest ext in
      tk f rest top ext (THyb Forall (fst nd) (snd nd) :: acc)
    else if str_eqb opname s_bind then
      let* (nd, rest) := cvd rest ext in
      tk f rest top ext (THyb Bind (fst nd) (snd nd) :: acc)
    else if str_eqb opname s_jump then
      let* (nd, rest) := cvd rest false in
      tk f rest top ext (THyb Jump (fst nd) None :: acc)
    else Err ELex) by reflexivity.
  rewrite E. clear E. rewrite (collect_name_app ext_alnum w r NW PR).
  unfold hybrid_words in H. cbn [alookup] in H.
  destruct (str_eqb w s_exists); [injection H as <-; reflexivity|].
  destruct (str_eqb w s_forall); [injection H as <-; reflexivity|].
  destruct (str_eqb w s_bind); [injection H as <-; reflexivity|].
  destruct (str_eqb w s_jump); [injection H as <-; reflexivity|].
  discriminate H.
Qed.

Lemma tok_complete : forall ext top cs ts out,
  LexR ext top cs ts out ->
  forall f acc, length cs < f -> tk f cs top ext acc = Ok (rev acc ++ ts, out).
Proof.
  intros ext top cs ts out H.
  induction H as
    [ | out
      | top c cs ts out WS L IH
      | top c t cs ts out SY L IH
      | top cs ts out L IH
      | top cs ts out L IH
      | top w r t ts out ID K L IH
      | top w r o x d r' ts out ID Q HS L IH
      | top w r ts out ID K Q L IH
      | top c o cs x d r' ts out SY HS L IH
      | top w r o x d r' ts out NW PR HW HS L IH
      | top x cs ts out NX L IH
      | top x cs ts out EXT NX L IH
      | top cs grp r ts out LG IHG L IH ];
    intros f acc LT; (destruct f as [|f]; [inversion LT|]).
  - cbn [tok]. rewrite app_nil_r. reflexivity.
  - rewrite tok_rpar. rewrite app_nil_r. reflexivity.
  - rewrite tok_ws by exact WS. apply IH. cbn [length] in LT. lia.
  - rewrite (tok_symbol f c t) by exact SY. rewrite IH by (cbn [length] in LT; lia).
    rewrite rev_cons_app. reflexivity.
  - destruct f as [|f]; [cbn [length] in LT; lia|].
    change (tk (S (S f)) (c_eq :: c_gt :: cs) top ext acc)
      with (tk (S f) cs top ext (TBin Imp :: acc)).
    rewrite IH by (cbn [length] in LT; lia). rewrite rev_cons_app. reflexivity.
  - change (tk (S f) (c_lt :: c_eq :: c_gt :: cs) top ext acc)
      with (tk f cs top ext (TBin Iff :: acc)).
    rewrite IH by (cbn [length] in LT; lia). rewrite rev_cons_app. reflexivity.
  - destruct ID as ((NE & NW) & HW & PR). destruct w as [|c w]; [congruence|].
    cbn [head_not_ws] in HW. cbn [app]. rewrite tok_word by assumption. rewrite K.
    rewrite IH by (cbn [length app] in LT; rewrite app_length in LT; lia).
    rewrite rev_cons_app. reflexivity.
  - destruct ID as ((NE & NW) & HW & PR). destruct w as [|c w]; [congruence|].
    cbn [head_not_ws] in HW. cbn [app]. rewrite tok_word by assumption.
    rewrite keyword_none_length
      by (rewrite (quantifier_length _ _ Q); discriminate).
    rewrite Q.
    assert (DA : dom_allowed ext o = ext).
    { apply alookup_str_In in Q. unfold quantifier_words in Q. cbn [In] in Q.
      destruct Q as [Q|[Q|Q]]; [| |contradiction]; injection Q as _ _ <-; reflexivity. }
    rewrite DA in HS. pose proof (HybSeg_length _ _ _ _ _ HS) as LH.
    rewrite (cvd_complete _ _ _ _ _ HS). cbn [bind fst snd].
    rewrite IH by (cbn [length app] in LT; rewrite app_length in LT; lia).
    rewrite rev_cons_app. reflexivity.
  - destruct ID as ((NE & NW) & HW & PR). destruct w as [|c w]; [congruence|].
    cbn [head_not_ws] in HW. cbn [app]. rewrite tok_word by assumption. rewrite K, Q.
    rewrite IH by (cbn [length app] in LT; rewrite app_length in LT; lia).
    rewrite rev_cons_app. reflexivity.
  - rewrite (tok_hybrid_symbol f c o) by exact SY.
    pose proof (HybSeg_length _ _ _ _ _ HS) as LH.
    rewrite (cvd_complete _ _ _ _ _ HS). cbn [bind fst snd].
    rewrite IH by (cbn [length] in LT; lia). rewrite rev_cons_app.
    destruct o; try reflexivity.
    cbn [dom_allowed] in HS. rewrite (HybSeg_no_dom _ _ _ _ HS). reflexivity.
  - rewrite (tok_hybrid_word f w o r) by assumption.
    pose proof (HybSeg_length _ _ _ _ _ HS) as LH.
    rewrite (cvd_complete _ _ _ _ _ HS). cbn [bind fst snd].
    rewrite IH by (cbn [length] in LT; rewrite app_length in LT; lia). rewrite rev_cons_app.
    destruct o; try reflexivity.
    cbn [dom_allowed] in HS. rewrite (HybSeg_no_dom _ _ _ _ HS). reflexivity.
  - destruct NX as (NE & NX). rewrite tok_lbrace.
    rewrite (collect_name_app ext_alnum x (c_rbrace :: cs) NX (pnc_rbrace ext_alnum cs)).
    destruct x as [|c0 x]; [congruence|]. rewrite expect_same. cbn [bind].
    rewrite IH by (cbn [length app] in LT; rewrite app_length in LT; cbn [length] in LT; lia).
    rewrite rev_cons_app. reflexivity.
  - subst ext. destruct NX as (NE & NX). rewrite tok_pct.
    rewrite (collect_name_app ext_alnum x (c_pct :: cs) NX (pnc_pct ext_alnum cs)).
    destruct x as [|c0 x]; [congruence|]. rewrite expect_same. cbn [bind].
    rewrite IH by (cbn [length app] in LT; rewrite app_length in LT; cbn [length] in LT; lia).
    rewrite rev_cons_app. reflexivity.
  - rewrite tok_lpar. cbn [length] in LT.
    pose proof (IHG f [] ltac:(lia)) as G. cbn [rev app] in G.
    destruct (tok_fuel_suffices ext_alnum f cs false ext [] ltac:(lia)) as (_ & _ & _ & LR).
    pose proof (LR _ _ G) as LE.
    rewrite G. cbn [bind]. rewrite IH by lia. rewrite rev_cons_app. reflexivity.
Qed.

(** * 6. The tokenizer implements the specification *)

(** at top level the whole input is read *)
Lemma LexR_top_out : forall ext top cs ts out, LexR ext top cs ts out -> top = true -> out = [].
Proof.
  intros ext top cs ts out H. induction H; intro T; auto. discriminate T.
Qed.

Theorem tokenize_sound : forall ext s ts, tokenize ext_alnum ext s = Ok ts -> Lex ext s ts.
Proof.
  intros ext s ts H. unfold tokenize in H.
  destruct (tk (S (length s)) s true ext []) as [[ts' out]| | |] eqn:T; cbn [bind] in H;
    try discriminate H.
  injection H as <-. apply tok_sound in T. destruct T as (ts & -> & L). cbn [rev app].
  pose proof (LexR_top_out _ _ _ _ _ L eq_refl) as ->. exact L.
Qed.

Theorem tokenize_complete : forall ext s ts, Lex ext s ts -> tokenize ext_alnum ext s = Ok ts.
Proof.
  intros ext s ts H. unfold tokenize.
  rewrite (tok_complete _ _ _ _ _ H (S (length s)) []) by lia. reflexivity.
Qed.

Theorem tokenize_iff_lex : forall ext s ts, tokenize ext_alnum ext s = Ok ts <-> Lex ext s ts.
Proof. intros ext s ts. split; [apply tokenize_sound | apply tokenize_complete]. Qed.

Theorem Lex_functional : forall ext s ts ts', Lex ext s ts -> Lex ext s ts' -> ts = ts'.
Proof.
  intros ext s ts ts' H H'. apply tokenize_complete in H. apply tokenize_complete in H'.
  rewrite H in H'. injection H' as ->. reflexivity.
Qed.

(** a string is rejected (with a lexical error) iff it has no reading *)
Theorem tokenize_err_iff : forall ext s,
  tokenize ext_alnum ext s = Err ELex <-> (forall ts, ~ Lex ext s ts).
Proof.
  intros ext s. split.
  - intros E ts L. apply tokenize_complete in L. rewrite L in E. discriminate E.
  - intro N. destruct (tokenize_ok_or_lex ext_alnum ext s) as [(ts & E & _) | E]; [|exact E].
    exfalso. apply (N ts), tokenize_sound, E.
Qed.

(** * 7. The extended syntax is conservative over the plain syntax *)

Lemma dom_allowed_mono : forall o pd cs x d r,
  HybSeg (dom_allowed false o) cs x d r -> HybSeg pd cs x d r.
Proof. intros o pd cs x d r H. destruct o; apply HybSeg_mono; exact H. Qed.

Lemma LexR_plain_ext : forall top cs ts out, LexR false top cs ts out -> LexR true top cs ts out.
Proof.
  intros top cs ts out H.
  induction H.
  - apply LR_end.
  - apply LR_close.
  - apply LR_ws; auto.
  - eapply LR_symbol; eauto.
  - apply LR_imp; auto.
  - apply LR_iff; auto.
  - eapply LR_keyword; eauto.
  - eapply LR_quantifier; eauto. eapply dom_allowed_mono; eauto.
  - eapply LR_prop; eauto.
  - eapply LR_hybrid_symbol; eauto. eapply dom_allowed_mono; eauto.
  - eapply LR_hybrid_word; eauto. eapply dom_allowed_mono; eauto.
  - apply LR_var; auto.
  - apply LR_wild; auto.
  - eapply LR_group; eauto.
Qed.

Theorem tokenize_conservative : forall s ts,
  tokenize ext_alnum false s = Ok ts -> tokenize ext_alnum true s = Ok ts.
Proof. intros s ts H. apply tokenize_complete, LexR_plain_ext, tokenize_sound, H. Qed.

Theorem parse_formula_conservative : forall s t,
  parse_formula ext_alnum false s = Ok t -> parse_formula ext_alnum true s = Ok t.
Proof.
  intros s t H. unfold parse_formula in *.
  destruct (tokenize ext_alnum false s) as [ts| | |] eqn:T; cbn [bind] in H; try discriminate H.
  rewrite (tokenize_conservative _ _ T). exact H.
Qed.

(** conversely: extended tokens without wild-cards and domains are the plain tokens *)
Lemma LexR_ext_plain : forall top cs ts out,
  LexR true top cs ts out -> plain_toks ts -> LexR false top cs ts out.
Proof.
  intros top cs ts out H.
  induction H as
    [ | out
      | top c cs ts out WS L IH
      | top c t cs ts out SY L IH
      | top cs ts out L IH
      | top cs ts out L IH
      | top w r t ts out ID K L IH
      | top w r o x d r' ts out ID Q HS L IH
      | top w r ts out ID K Q L IH
      | top c o cs x d r' ts out SY HS L IH
      | top w r o x d r' ts out NW PR HW HS L IH
      | top x cs ts out NX L IH
      | top x cs ts out EXT NX L IH
      | top cs grp r ts out LG IHG L IH ];
    intro P.
  - apply LR_end.
  - apply LR_close.
  - apply LR_ws; auto.
  - apply plain_toks_cons in P. destruct P as (P1 & P2). eapply LR_symbol; eauto.
  - apply plain_toks_cons in P. destruct P as (P1 & P2). apply LR_imp; auto.
  - apply plain_toks_cons in P. destruct P as (P1 & P2). apply LR_iff; auto.
  - apply plain_toks_cons in P. destruct P as (P1 & P2). eapply LR_keyword; eauto.
  - apply plain_toks_cons in P. destruct P as (P1 & P2).
    cbn [plain_tokb] in P1. destruct d as [d|]; [discriminate P1|].
    eapply LR_quantifier; eauto. eapply HybSeg_none; [exact HS | reflexivity].
  - apply plain_toks_cons in P. destruct P as (P1 & P2). eapply LR_prop; eauto.
  - apply plain_toks_cons in P. destruct P as (P1 & P2).
    cbn [plain_tokb] in P1. destruct d as [d|]; [discriminate P1|].
    eapply LR_hybrid_symbol; eauto. eapply HybSeg_none; [exact HS | reflexivity].
  - apply plain_toks_cons in P. destruct P as (P1 & P2).
    cbn [plain_tokb] in P1. destruct d as [d|]; [discriminate P1|].
    eapply LR_hybrid_word; eauto. eapply HybSeg_none; [exact HS | reflexivity].
  - apply plain_toks_cons in P. destruct P as (P1 & P2). apply LR_var; auto.
  - apply plain_toks_cons in P. destruct P as (P1 & P2). cbn [plain_tokb] in P1.
    discriminate P1.
  - apply plain_toks_cons in P. destruct P as (P1 & P2). cbn [plain_tokb] in P1.
    eapply LR_group; [apply IHG; exact P1 | auto].
Qed.

Theorem tokenize_plain_iff : forall s ts,
  tokenize ext_alnum false s = Ok ts <-> tokenize ext_alnum true s = Ok ts /\ plain_toks ts.
Proof.
  intros s ts. split.
  - intro H. split; [apply tokenize_conservative, H | eapply tokenize_plain, H].
  - intros (H & P). apply tokenize_complete, LexR_ext_plain; [apply tokenize_sound, H | exact P].
Qed.

(** * 8. The plain syntax rejects '%' *)

Lemma ws_not_pct : forall w, ws_run w -> ~ In c_pct w.
Proof.
  intros w W I. unfold ws_run in W. rewrite Forall_forall in W. apply W in I. discriminate I.
Qed.

Lemma name_not_pct : forall w, name_chars w -> ~ In c_pct w.
Proof.
  intros w W I. rewrite Forall_forall in W. apply W in I. discriminate I.
Qed.

Lemma HybSeg_pct : forall cs x d r, HybSeg false cs x d r -> In c_pct cs -> In c_pct r.
Proof.
  intros cs x d r H I. destruct H as [w1 x w2 r W1 (_ & NX) W2 | ? ? ? ? ? ? ? D]; [|discriminate D].
  apply in_app_or in I. destruct I as [I|I]; [exfalso; exact (ws_not_pct _ W1 I)|].
  destruct I as [I|I]; [discriminate I|].
  apply in_app_or in I. destruct I as [I|I]; [exfalso; exact (name_not_pct _ NX I)|].
  destruct I as [I|I]; [discriminate I|].
  apply in_app_or in I. destruct I as [I|I]; [exfalso; exact (ws_not_pct _ W2 I)|].
  destruct I as [I|I]; [discriminate I | exact I].
Qed.

Lemma HybSeg_pct' : forall o cs x d r,
  HybSeg (dom_allowed false o) cs x d r -> In c_pct cs -> In c_pct r.
Proof. intros o cs x d r H. apply (HybSeg_pct cs x d r). destruct o; exact H. Qed.

(** in the plain syntax a '%' is never consumed *)
Lemma LexR_pct : forall top cs ts out, LexR false top cs ts out -> In c_pct cs -> In c_pct out.
Proof.
  intros top cs ts out H.
  induction H as
    [ | out
      | top c cs ts out WS L IH
      | top c t cs ts out SY L IH
      | top cs ts out L IH
      | top cs ts out L IH
      | top w r t ts out ID K L IH
      | top w r o x d r' ts out ID Q HS L IH
      | top w r ts out ID K Q L IH
      | top c o cs x d r' ts out SY HS L IH
      | top w r o x d r' ts out NW PR HW HS L IH
      | top x cs ts out NX L IH
      | top x cs ts out EXT NX L IH
      | top cs grp r ts out LG IHG L IH ];
    intro I.
  - exact I.
  - destruct I as [I|I]; [discriminate I | exact I].
  - destruct I as [I|I]; [subst c; discriminate WS | auto].
  - destruct I as [I|I]; [subst c; discriminate SY | auto].
  - destruct I as [I|[I|I]]; [discriminate I | discriminate I | auto].
  - destruct I as [I|[I|[I|I]]]; [discriminate I | discriminate I | discriminate I | auto].
  - destruct ID as ((_ & NW) & _). apply in_app_or in I.
    destruct I as [I|I]; [exfalso; exact (name_not_pct _ NW I) | auto].
  - destruct ID as ((_ & NW) & _). apply in_app_or in I.
    destruct I as [I|I]; [exfalso; exact (name_not_pct _ NW I)|].
    apply IH. eapply HybSeg_pct'; eauto.
  - destruct ID as ((_ & NW) & _). apply in_app_or in I.
    destruct I as [I|I]; [exfalso; exact (name_not_pct _ NW I) | auto].
  - destruct I as [I|I]; [subst c; discriminate SY|].
    apply IH. eapply HybSeg_pct'; eauto.
  - destruct I as [I|I]; [discriminate I|]. apply in_app_or in I.
    destruct I as [I|I]; [exfalso; exact (name_not_pct _ NW I)|].
    apply IH. eapply HybSeg_pct'; eauto.
  - destruct NX as (_ & NX). destruct I as [I|I]; [discriminate I|]. apply in_app_or in I.
    destruct I as [I|I]; [exfalso; exact (name_not_pct _ NX I)|].
    destruct I as [I|I]; [discriminate I | auto].
  - discriminate EXT.
  - destruct I as [I|I]; [discriminate I | auto].
Qed.

Theorem tokenize_plain_rejects_pct : forall s,
  In c_pct s -> tokenize ext_alnum false s = Err ELex.
Proof.
  intros s I. apply tokenize_err_iff. intros ts L. apply (LexR_pct _ _ _ _ L I).
Qed.

(** * 9. Without '%' the two syntaxes coincide *)

Lemma HybSeg_suffix : forall pd cs x d r, HybSeg pd cs x d r -> exists pre, cs = pre ++ r.
Proof.
  intros pd cs x d r H. destruct H as [w1 x w2 r | w1 x w2 w3 d w4 r].
  - exists (w1 ++ c_lbrace :: x ++ c_rbrace :: w2 ++ [c_colon]).
    repeat (rewrite <- app_assoc; cbn [app]). reflexivity.
  - exists (w1 ++ c_lbrace :: x ++ c_rbrace :: w2 ++ c_i :: c_n :: w3
               ++ c_pct :: d ++ c_pct :: w4 ++ [c_colon]).
    repeat (rewrite <- app_assoc; cbn [app]). reflexivity.
Qed.

Lemma LexR_suffix : forall ext top cs ts out, LexR ext top cs ts out -> exists pre, cs = pre ++ out.
Proof.
  intros ext top cs ts out H.
  induction H as
    [ | out
      | top c cs ts out WS L IH
      | top c t cs ts out SY L IH
      | top cs ts out L IH
      | top cs ts out L IH
      | top w r t ts out ID K L IH
      | top w r o x d r' ts out ID Q HS L IH
      | top w r ts out ID K Q L IH
      | top c o cs x d r' ts out SY HS L IH
      | top w r o x d r' ts out NW PR HW HS L IH
      | top x cs ts out NX L IH
      | top x cs ts out EXT NX L IH
      | top cs grp r ts out LG IHG L IH ].
  - exists []. reflexivity.
  - exists [c_rpar]. reflexivity.
  - destruct IH as (p & ->). exists (c :: p). reflexivity.
  - destruct IH as (p & ->). exists (c :: p). reflexivity.
  - destruct IH as (p & ->). exists (c_eq :: c_gt :: p). reflexivity.
  - destruct IH as (p & ->). exists (c_lt :: c_eq :: c_gt :: p). reflexivity.
  - destruct IH as (p & ->). exists (w ++ p). rewrite app_assoc. reflexivity.
  - destruct IH as (p & ->). destruct (HybSeg_suffix _ _ _ _ _ HS) as (q & ->).
    exists (w ++ q ++ p). rewrite !app_assoc. reflexivity.
  - destruct IH as (p & ->). exists (w ++ p). rewrite app_assoc. reflexivity.
  - destruct IH as (p & ->). destruct (HybSeg_suffix _ _ _ _ _ HS) as (q & ->).
    exists (c :: q ++ p). cbn [app]. rewrite !app_assoc. reflexivity.
  - destruct IH as (p & ->). destruct (HybSeg_suffix _ _ _ _ _ HS) as (q & ->).
    exists (c_bslash :: w ++ q ++ p). cbn [app]. rewrite !app_assoc. reflexivity.
  - destruct IH as (p & ->). exists (c_lbrace :: x ++ c_rbrace :: p).
    cbn [app]. rewrite <- app_assoc. reflexivity.
  - destruct IH as (p & ->). exists (c_pct :: x ++ c_pct :: p).
    cbn [app]. rewrite <- app_assoc. reflexivity.
  - destruct IH as (p & ->). destruct IHG as (q & ->). exists (c_lpar :: q ++ p).
    cbn [app]. rewrite !app_assoc. reflexivity.
Qed.

Lemma not_in_suffix : forall (c : N) pre r, ~ In c (pre ++ r) -> ~ In c r.
Proof. intros c pre r N I. apply N, in_or_app. right. exact I. Qed.

Lemma HybSeg_no_pct : forall pd cs x d r,
  HybSeg pd cs x d r -> ~ In c_pct cs -> d = None /\ ~ In c_pct r.
Proof.
  intros pd cs x d r H N. split.
  - destruct H as [w1 x w2 r | w1 x w2 w3 d w4 r]; [reflexivity|].
    exfalso. apply N. apply in_or_app. right. right. apply in_or_app. right. right.
    apply in_or_app. right. right. right. apply in_or_app. right. left. reflexivity.
  - destruct (HybSeg_suffix _ _ _ _ _ H) as (q & ->). eapply not_in_suffix, N.
Qed.

Lemma LexR_no_pct_plain : forall ext top cs ts out,
  LexR ext top cs ts out -> ~ In c_pct cs -> plain_toks ts.
Proof.
  intros ext top cs ts out H.
  induction H as
    [ | out
      | top c cs ts out WS L IH
      | top c t cs ts out SY L IH
      | top cs ts out L IH
      | top cs ts out L IH
      | top w r t ts out ID K L IH
      | top w r o x d r' ts out ID Q HS L IH
      | top w r ts out ID K Q L IH
      | top c o cs x d r' ts out SY HS L IH
      | top w r o x d r' ts out NW PR HW HS L IH
      | top x cs ts out NX L IH
      | top x cs ts out EXT NX L IH
      | top cs grp r ts out LG IHG L IH ];
    intro N.
  - apply plain_toks_nil.
  - apply plain_toks_nil.
  - apply IH. apply (not_in_suffix c_pct [c]), N.
  - apply plain_toks_cons. split; [|apply IH; apply (not_in_suffix c_pct [c]), N].
    unfold symbol_tokens in SY. cbn [alookup] in SY.
    repeat (destruct (N.eqb c _); [injection SY as <-; reflexivity|]). discriminate SY.
  - apply plain_toks_cons. split; [reflexivity|].
    apply IH. apply (not_in_suffix c_pct [c_eq; c_gt]), N.
  - apply plain_toks_cons. split; [reflexivity|].
    apply IH. apply (not_in_suffix c_pct [c_lt; c_eq; c_gt]), N.
  - apply plain_toks_cons. split; [|apply IH; apply (not_in_suffix c_pct w), N].
    apply alookup_str_In in K. unfold keyword_tokens in K. cbn [In] in K.
    repeat (destruct K as [K|K]; [injection K as _ <-; reflexivity|]). contradiction.
  - destruct (HybSeg_no_pct _ _ _ _ _ HS (not_in_suffix c_pct w _ N)) as (-> & N').
    apply plain_toks_cons. split; [reflexivity | apply IH, N'].
  - apply plain_toks_cons. split; [reflexivity | apply IH; apply (not_in_suffix c_pct w), N].
  - destruct (HybSeg_no_pct _ _ _ _ _ HS (not_in_suffix c_pct [c] _ N)) as (-> & N').
    apply plain_toks_cons. split; [reflexivity | apply IH, N'].
  - assert (N0 : ~ In c_pct r).
    { apply (not_in_suffix c_pct (c_bslash :: w)). exact N. }
    destruct (HybSeg_no_pct _ _ _ _ _ HS N0) as (-> & N').
    apply plain_toks_cons. split; [reflexivity | apply IH, N'].
  - apply plain_toks_cons. split; [reflexivity|]. apply IH.
    apply (not_in_suffix c_pct (c_lbrace :: x ++ [c_rbrace])).
    cbn [app]. rewrite <- app_assoc. exact N.
  - exfalso. apply N. left. reflexivity.
  - assert (N0 : ~ In c_pct cs) by (apply (not_in_suffix c_pct [c_lpar]), N).
    destruct (LexR_suffix _ _ _ _ _ LG) as (q & ->).
    apply plain_toks_cons. split; [exact (IHG N0) | apply IH; eapply not_in_suffix, N0].
Qed.

Theorem tokenize_no_pct_agree : forall s,
  ~ In c_pct s -> tokenize ext_alnum true s = tokenize ext_alnum false s.
Proof.
  intros s N.
  destruct (tokenize_ok_or_lex ext_alnum true s) as [(ts & E & _) | E].
  - rewrite E. symmetry. apply tokenize_plain_iff. split; [exact E|].
    apply tokenize_sound in E. eapply LexR_no_pct_plain; [exact E | exact N].
  - rewrite E. symmetry.
    destruct (tokenize_ok_or_lex ext_alnum false s) as [(ts & E' & _) | E']; [|exact E'].
    apply tokenize_conservative in E'. rewrite E' in E. discriminate E.
Qed.

Theorem parse_formula_no_pct_agree : forall s,
  ~ In c_pct s -> parse_formula ext_alnum true s = parse_formula ext_alnum false s.
Proof. intros s N. unfold parse_formula. rewrite (tokenize_no_pct_agree s N). reflexivity. Qed.

End Lex.
