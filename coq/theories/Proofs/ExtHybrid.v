(** Atoms, hybrid operators and the domain restriction under the weak invariant [spec_in]
    of ExtFacts.v.

    HybridFacts.v assumes that the unit only depends on the colour.  A restricted unit also
    depends on the spare copies of the variables whose domains produced it; what the
    quantifier over copy [e] needs is only that the current unit does not depend on the state
    bits and on copy [e] itself (a variable is never re-quantified inside its own scope, so
    its copy is not restricted yet). *)
From HCTL Require Import Base Syntax TT Ops Kripke HCTL.
From HCTL Require Import TTFacts OpsFacts FixFacts SemFacts HybridFacts ExtFix ExtFacts.

Section ExtHybrid.
Variable G : genv.
Local Notation L := (g_L G).
Local Notation n := (g_n G).
Local Notation k := (g_k G).

Hypothesis L_nodup : NoDup L.
Hypothesis TS_in : forall i, i < n -> In (TS i) L.
Hypothesis TX_in : forall i e, i < n -> e < k -> In (TX i e) L.
Hypothesis TS_bound : forall i, In (TS i) L -> i < n.
Hypothesis TX_bound : forall i e, In (TX i e) L -> i < n.

Ltac shp := repeat first
  [ assumption
  | match goal with H : spec_in _ _ ?A _ |- shaped _ ?A => exact (proj1 H) end
  | apply shaped_comparator
  | apply shaped_eval_neg
  | apply shaped_tand | apply shaped_tor | apply shaped_tminus | apply shaped_txor | apply shaped_tiff
  | apply shaped_exq | apply shaped_flip | apply shaped_lit
  | apply shaped_const ].

(** ---- the two projections, pointwise ---- *)

(** projecting out copy e: some value of the copy works *)
Lemma mem_exq_copy S e v : shaped L S ->
  (mem L (exq (is_copy e) L S) v = true <-> exists u, mem L S (set_copy e u v) = true).
Proof.
  intro SS. rewrite mem_exq by assumption. split.
  - intros [w [Hw Hm]].
    pose (u := fun g => match g with TS i => w (TX i e) | _ => v g end).
    exists u.
    assert (AG : agree L w (set_copy e u v)).
    { intros g Hg. destruct g as [j|i|i e']; simpl; try (apply Hw; reflexivity).
      destruct (Nat.eqb e e') eqn:E.
      - apply Nat.eqb_eq in E; subst e'. reflexivity.
      - apply Hw. simpl. exact E. }
    rewrite <- (mem_agree L S _ _ AG). exact Hm.
  - intros [u Hm]. exists (set_copy e u v). split; [|exact Hm].
    intros g Hg. destruct g as [j|i|i e']; simpl; try reflexivity.
    simpl in Hg. rewrite Hg. reflexivity.
Qed.

(** projecting out the state bits: some state works *)
Lemma mem_exq_state S v : shaped L S ->
  (mem L (exq is_state_tag L S) v = true <-> exists u, mem L S (with_state u v) = true).
Proof.
  intro SS. rewrite mem_exq by assumption. split.
  - intros [w [Hw Hm]]. exists w.
    assert (AG : agree L w (with_state w v)).
    { intros g Hg. destruct g as [j|i|i e']; simpl; try reflexivity; apply Hw; reflexivity. }
    rewrite <- (mem_agree L S _ _ AG). exact Hm.
  - intros [u Hm]. exists (with_state u v). split; [|exact Hm].
    intros g Hg. destruct g as [j|i|i e']; simpl; try reflexivity. simpl in Hg. discriminate.
Qed.

Section Unit.
(** any shaped unit *)
Variable U : tt.
Hypothesis U_shaped : shaped L U.

(** bind: the copy is forced to be the current state *)
Lemma mem_eval_bind S e v : e < k -> shaped L S ->
  (mem L (eval_bind G U S e) v = true <->
   mem L U (set_copy e v v) = true /\ mem L S (set_copy e v v) = true).
Proof.
  intros He SS. unfold eval_bind, project_out_hctl_var.
  rewrite mem_exq_copy by shp. split.
  - intros [u Hm]. rewrite mem_tand in Hm by shp. apply andb_true_iff in Hm.
    destruct Hm as [Hc Hs]. apply mem_comparator in Hc; try assumption.
    destruct Hc as [Hu Hc].
    assert (AG : agree L (set_copy e u v) (set_copy e v v)).
    { intros g Hg. destruct g as [j|i|i e']; simpl; try reflexivity.
      destruct (Nat.eqb e e') eqn:E; [|reflexivity].
      apply Nat.eqb_eq in E; subst e'.
      specialize (Hc i (TX_bound _ _ Hg)). simpl in Hc. rewrite Nat.eqb_refl in Hc. exact Hc. }
    rewrite <- (mem_agree L U _ _ AG), <- (mem_agree L S _ _ AG). auto.
  - intros [Hu Hs]. exists v. rewrite mem_tand by shp. rewrite Hs, andb_true_r.
    apply mem_comparator; try assumption. split; [exact Hu|].
    intros i Hi. simpl. rewrite Nat.eqb_refl. reflexivity.
Qed.

(** the comparator under the projection of the state bits: the state is forced to be copy e *)
Lemma exists_state_cmp S e v : e < k -> shaped L S ->
  ((exists u, mem L (comparator_var_state G U e) (with_state u v) = true /\
              mem L S (with_state u v) = true) <->
   mem L U (set_state e v) = true /\ mem L S (set_state e v) = true).
Proof.
  intros He SS. split.
  - intros [u [Hc Hs]]. apply mem_comparator in Hc; try assumption.
    destruct Hc as [Hu Hc].
    assert (AG : agree L (with_state u v) (set_state e v)).
    { intros g Hg. destruct g as [j|i|i e']; simpl; try reflexivity.
      specialize (Hc i (TS_bound _ Hg)). simpl in Hc. symmetry. exact Hc. }
    rewrite <- (mem_agree L U _ _ AG), <- (mem_agree L S _ _ AG). auto.
  - intros [Hu Hs].
    exists (fun g => match g with TS i => v (TX i e) | _ => v g end).
    assert (AG : agree L (with_state (fun g => match g with TS i => v (TX i e) | _ => v g end) v)
                         (set_state e v)).
    { intros g Hg. destruct g as [j|i|i e']; reflexivity. }
    rewrite (mem_agree L S _ _ AG). split; [|exact Hs].
    apply mem_comparator; try assumption. split.
    + rewrite (mem_agree L U _ _ AG). exact Hu.
    + intros i Hi. reflexivity.
Qed.

Lemma mem_eval_jump S e v : e < k -> shaped L S ->
  (mem L (eval_jump G U S e) v = true <->
   mem L U (set_state e v) = true /\ mem L S (set_state e v) = true).
Proof.
  intros He SS. unfold eval_jump, project_out_bn_vars.
  rewrite mem_exq_state by shp. rewrite <- (exists_state_cmp S e v He SS).
  split; intros [u Hm]; exists u.
  - rewrite mem_tand in Hm by shp. apply andb_true_iff in Hm. exact Hm.
  - rewrite mem_tand by shp. apply andb_true_iff. exact Hm.
Qed.

(** compute_valid_domain_for_var: the values of copy e that lie in the domain set
    (as a state of the same colour) *)
Lemma mem_valid_domain dset e v : e < k -> shaped L dset ->
  (mem L (compute_valid_domain_for_var G U dset e) v = true <->
   mem L U (set_state e v) = true /\ mem L dset (set_state e v) = true).
Proof.
  intros He SS. unfold compute_valid_domain_for_var, project_out_bn_vars.
  rewrite mem_exq_state by shp. rewrite <- (exists_state_cmp dset e v He SS).
  split; intros [u Hm]; exists u.
  - rewrite mem_tand in Hm by shp. apply andb_true_iff in Hm. tauto.
  - rewrite mem_tand by shp. apply andb_true_iff. tauto.
Qed.

Lemma shaped_valid_domain dset e : shaped L dset ->
  shaped L (compute_valid_domain_for_var G U dset e).
Proof. intro SS. unfold compute_valid_domain_for_var, project_out_bn_vars. shp. Qed.

End Unit.

(** ---- the current unit ---- *)
Variable Uc : tt.
Hypothesis Uc_shaped : shaped L Uc.
Hypothesis Uc_state : state_indep G Uc.

Local Notation inC v := (mem L Uc v = true).
Local Notation spec := (spec_in G Uc).

(** ---- atoms ---- *)
Lemma in_var e : e < k -> spec (eval_hctl_var G Uc e) (copy_is_state G e).
Proof. intro He. apply spec_of_in. apply spec_var; assumption. Qed.

Lemma in_prop i : i < n -> spec (eval_prop G Uc i) (fun v => v (TS i) = true).
Proof. intro Hi. apply spec_of_in. apply spec_prop; assumption. Qed.

(** ---- jump ---- *)
Lemma in_jump A P e : e < k -> spec A P ->
  spec (eval_jump G Uc A e) (fun v => P (set_state e v)).
Proof.
  intros He HA. pose proof HA as [SA EA].
  split; [unfold eval_jump, project_out_bn_vars; shp|]. intros v Hv.
  rewrite mem_eval_jump by assumption.
  assert (Hs : inC (set_state e v)) by (rewrite state_indep_set_state; assumption).
  rewrite (EA _ Hs). tauto.
Qed.

(** ---- the quantifiers that close a (possibly restricted) scope ----
    [Ur] is the unit of the scope: the current unit restricted by a condition [D] on the
    valuation (for a domain: "copy e is a state of the domain"); the body [A] is exact on
    [Ur] only. *)
Section Quantifiers.
Variable e : nat.
Hypothesis e_lt : e < k.
Hypothesis Uc_copy : copy_indep G Uc e.
Variable Ur : tt.
Variable D : val -> Prop.
Hypothesis Ur_shaped : shaped L Ur.
Hypothesis Ur_spec : forall w, mem L Ur w = true <-> (inC w /\ D w).

Variable A : tt.
Variable P : val -> Prop.
Hypothesis HA : spec_in G Ur A P.

Lemma in_bind_dom :
  spec (eval_bind G Uc (tand A Ur) e) (fun v => D (set_copy e v v) /\ P (set_copy e v v)).
Proof.
  pose proof HA as [SA EA].
  split; [unfold eval_bind, project_out_hctl_var; shp|]. intros v Hv.
  rewrite mem_eval_bind by shp.
  rewrite mem_tand by shp. rewrite andb_true_iff. rewrite Uc_copy.
  split.
  - intros [_ [Ha Hr]]. split; [apply Ur_spec in Hr; tauto | apply (EA _ Hr); exact Ha].
  - intros [Hd Hp].
    assert (Hr : mem L Ur (set_copy e v v) = true).
    { apply Ur_spec. rewrite Uc_copy. auto. }
    split; [exact Hv|]. split; [apply (EA _ Hr); exact Hp | exact Hr].
Qed.

Lemma in_exists_dom :
  spec (eval_exists G (tand A Ur) e)
       (fun v => exists u, D (set_copy e u v) /\ P (set_copy e u v)).
Proof.
  pose proof HA as [SA EA].
  split; [unfold eval_exists, project_out_hctl_var; shp|]. intros v Hv.
  unfold eval_exists, project_out_hctl_var. rewrite mem_exq_copy by shp.
  split; intros [u H]; exists u.
  - rewrite mem_tand in H by shp. apply andb_true_iff in H. destruct H as [Ha Hr].
    split; [apply Ur_spec in Hr; tauto | apply (EA _ Hr); exact Ha].
  - destruct H as [Hd Hp].
    assert (Hr : mem L Ur (set_copy e u v) = true).
    { apply Ur_spec. rewrite Uc_copy. auto. }
    rewrite mem_tand by shp. rewrite Hr, andb_true_r. apply (EA _ Hr). exact Hp.
Qed.

Lemma in_forall_dom :
  spec (eval_neg Uc (eval_exists G (eval_neg Ur A) e))
       (fun v => forall u, D (set_copy e u v) -> P (set_copy e u v)).
Proof.
  pose proof HA as [SA EA].
  split; [unfold eval_exists, project_out_hctl_var; shp|]. intros v Hv.
  rewrite mem_eval_neg by (unfold eval_exists, project_out_hctl_var; shp).
  rewrite Hv. simpl. rewrite negb_true_iff.
  unfold eval_exists, project_out_hctl_var.
  split.
  - intros Hn u Hd.
    assert (Hr : mem L Ur (set_copy e u v) = true).
    { apply Ur_spec. rewrite Uc_copy. auto. }
    destruct (mem L A (set_copy e u v)) eqn:Ea; [apply (EA _ Hr); exact Ea|].
    exfalso.
    assert (X : mem L (exq (is_copy e) L (eval_neg Ur A)) v = true).
    { apply mem_exq_copy; [shp|]. exists u. rewrite mem_eval_neg by shp. rewrite Hr, Ea. reflexivity. }
    congruence.
  - intro Hall. destruct (mem L (exq (is_copy e) L (eval_neg Ur A)) v) eqn:E; [|reflexivity].
    exfalso. apply mem_exq_copy in E; [|shp]. destruct E as [u Hm].
    rewrite mem_eval_neg in Hm by shp. apply andb_true_iff in Hm. destruct Hm as [Hr Hn].
    apply negb_true_iff in Hn.
    assert (Hd : D (set_copy e u v)) by (apply Ur_spec in Hr; tauto).
    apply Hall in Hd. apply (EA _ Hr) in Hd. congruence.
Qed.

End Quantifiers.

(** without a domain the scope keeps the current unit *)
Lemma Uc_trivial_restriction : forall w, mem L Uc w = true <-> (inC w /\ True).
Proof. intro w. tauto. Qed.

Lemma in_bind A P e : e < k -> copy_indep G Uc e -> spec A P ->
  spec (eval_bind G Uc (tand A Uc) e) (fun v => P (set_copy e v v)).
Proof.
  intros He Hc HA.
  eapply in_ext; [exact (in_bind_dom e He Hc Uc (fun _ => True) Uc_shaped Uc_trivial_restriction A P HA)|].
  intros w _. simpl. tauto.
Qed.

Lemma in_exists A P e : e < k -> copy_indep G Uc e -> spec A P ->
  spec (eval_exists G (tand A Uc) e) (fun v => exists u, P (set_copy e u v)).
Proof.
  intros He Hc HA.
  eapply in_ext; [exact (in_exists_dom e Hc Uc (fun _ => True) Uc_shaped Uc_trivial_restriction A P HA)|].
  intros w _. simpl. split; intros [u H]; exists u; tauto.
Qed.

Lemma in_forall A P e : e < k -> copy_indep G Uc e -> spec A P ->
  spec (eval_neg Uc (eval_exists G (eval_neg Uc A) e)) (fun v => forall u, P (set_copy e u v)).
Proof.
  intros He Hc HA.
  eapply in_ext; [exact (in_forall_dom e Hc Uc (fun _ => True) Uc_shaped Uc_trivial_restriction A P HA)|].
  intros w _. simpl. split; intros H u; [apply H; exact I | intros _; apply H].
Qed.

(** ---- the domain step ---- *)
Section Domain.
Variable dset : tt.
Hypothesis dset_shaped : shaped L dset.
Hypothesis dset_extras : extras_indep G dset.
Variable e : nat.
Hypothesis e_lt : e < k.

Local Notation Ur := (tand Uc (compute_valid_domain_for_var G Uc dset e)).

Lemma Ur_shaped : shaped L Ur.
Proof. apply shaped_tand; [assumption | apply shaped_valid_domain; assumption]. Qed.

(** the restricted unit: the current unit, with copy e a state of the domain *)
Lemma mem_Ur w :
  mem L Ur w = true <-> (inC w /\ mem L dset (set_state e w) = true).
Proof.
  rewrite mem_tand by (try apply shaped_valid_domain; assumption).
  rewrite andb_true_iff. rewrite mem_valid_domain by assumption.
  rewrite state_indep_set_state by assumption. tauto.
Qed.

(** with the variable bound to the state u: u (in the colour of v) lies in the domain *)
Lemma dset_set_copy u v :
  mem L dset (set_state e (set_copy e u v)) = mem L dset (with_state u v).
Proof.
  apply dset_extras. intros g Hg. destruct g as [j|i|i e']; simpl in *; try reflexivity.
  - rewrite Nat.eqb_refl. reflexivity.
  - discriminate.
Qed.

Lemma dset_set_copy_self v :
  mem L dset (set_state e (set_copy e v v)) = mem L dset v.
Proof.
  apply dset_extras. intros g Hg. destruct g as [j|i|i e']; simpl in *; try reflexivity.
  - rewrite Nat.eqb_refl. reflexivity.
  - discriminate.
Qed.

(** the restricted unit is again a legitimate current unit *)
Lemma Ur_sub v : mem L Ur v = true -> inC v.
Proof. intro H. apply mem_Ur in H. tauto. Qed.

Lemma Ur_state : state_indep G Ur.
Proof.
  intros v w H.
  assert (E1 : mem L Uc v = mem L Uc w) by (apply Uc_state; exact H).
  assert (E2 : mem L dset (set_state e v) = mem L dset (set_state e w)).
  { apply mem_agree. intros g Hg. destruct g as [j|i|i e']; simpl; apply H; reflexivity. }
  destruct (mem L Ur v) eqn:Ev; destruct (mem L Ur w) eqn:Ew; try reflexivity; exfalso.
  - apply mem_Ur in Ev. destruct Ev as [A B]. rewrite E1 in A. rewrite E2 in B.
    assert (X : mem L Ur w = true) by (apply mem_Ur; auto). congruence.
  - apply mem_Ur in Ew. destruct Ew as [A B]. rewrite <- E1 in A. rewrite <- E2 in B.
    assert (X : mem L Ur v = true) by (apply mem_Ur; auto). congruence.
Qed.

(** copies other than e that the current unit ignores are still ignored *)
Lemma Ur_copy e' : e' <> e -> copy_indep G Uc e' -> copy_indep G Ur e'.
Proof.
  intros Hne Hc u v.
  assert (E1 : mem L Uc (set_copy e' u v) = mem L Uc v) by apply Hc.
  assert (E2 : mem L dset (set_state e (set_copy e' u v)) = mem L dset (set_state e v)).
  { apply dset_extras. intros g Hg. destruct g as [j|i|i e'']; simpl in *; try reflexivity.
    - destruct (Nat.eqb e' e) eqn:E; [|reflexivity]. apply Nat.eqb_eq in E. contradiction.
    - discriminate. }
  destruct (mem L Ur (set_copy e' u v)) eqn:Ev; destruct (mem L Ur v) eqn:Ew;
    try reflexivity; exfalso.
  - apply mem_Ur in Ev. destruct Ev as [A B]. rewrite E1 in A. rewrite E2 in B.
    assert (X : mem L Ur v = true) by (apply mem_Ur; auto). congruence.
  - apply mem_Ur in Ew. destruct Ew as [A B]. rewrite <- E1 in A. rewrite <- E2 in B.
    assert (X : mem L Ur (set_copy e' u v) = true) by (apply mem_Ur; auto). congruence.
Qed.

(** the three quantifiers over the domain; the body is exact on the restricted unit only *)
Variable A : tt.
Variable P : val -> Prop.
Hypothesis HA : spec_in G Ur A P.
Hypothesis Uc_copy : copy_indep G Uc e.

Lemma in_bind_domain :
  spec (eval_bind G Uc (tand A Ur) e)
       (fun v => mem L dset v = true /\ P (set_copy e v v)).
Proof.
  eapply in_ext;
    [exact (in_bind_dom e e_lt Uc_copy Ur (fun w => mem L dset (set_state e w) = true)
                        Ur_shaped mem_Ur A P HA)|].
  intros w _. simpl. rewrite dset_set_copy_self. tauto.
Qed.

Lemma in_exists_domain :
  spec (eval_exists G (tand A Ur) e)
       (fun v => exists u, mem L dset (with_state u v) = true /\ P (set_copy e u v)).
Proof.
  eapply in_ext;
    [exact (in_exists_dom e Uc_copy Ur (fun w => mem L dset (set_state e w) = true)
                          Ur_shaped mem_Ur A P HA)|].
  intros w _. simpl. split; intros [u H]; exists u; rewrite dset_set_copy in *; exact H.
Qed.

Lemma in_forall_domain :
  spec (eval_neg Uc (eval_exists G (eval_neg Ur A) e))
       (fun v => forall u, mem L dset (with_state u v) = true -> P (set_copy e u v)).
Proof.
  eapply in_ext;
    [exact (in_forall_dom e Uc_copy Ur (fun w => mem L dset (set_state e w) = true)
                          Ur_shaped mem_Ur A P HA)|].
  intros w _. simpl. split; intros H u Hd; apply H; rewrite dset_set_copy in *; exact Hd.
Qed.

End Domain.

(** an empty restricted unit: no state of any colour of the current unit is in the domain *)
Lemma Ur_empty dset e : e < k -> shaped L dset -> extras_indep G dset ->
  copy_indep G Uc e ->
  is_empty (tand Uc (compute_valid_domain_for_var G Uc dset e)) = true ->
  forall u v, inC v -> mem L dset (with_state u v) = false.
Proof.
  intros He SD ED Hc Hemp u v Hv.
  rewrite (is_empty_iff L) in Hemp by (try apply Ur_shaped; assumption).
  specialize (Hemp (set_copy e u v)).
  destruct (mem L dset (with_state u v)) eqn:E; [|reflexivity].
  assert (X : mem L (tand Uc (compute_valid_domain_for_var G Uc dset e)) (set_copy e u v) = true).
  { apply mem_Ur; try assumption. rewrite Hc. split; [exact Hv|].
    rewrite dset_set_copy; assumption. }
  congruence.
Qed.

End ExtHybrid.
