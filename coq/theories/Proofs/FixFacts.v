(** The fixed-point loops of Model/Ops.v compute the least / greatest fixed points of
    Spec/Kripke.v (partial correctness: whenever the loop returns [Ok]; that the fuel always
    suffices is Proofs/Termination.v). *)
From HCTL Require Import Base TT Ops Kripke TTFacts OpsFacts.

Section FixFacts.
Variable G : genv.
Local Notation L := (g_L G).
Local Notation n := (g_n G).

Hypothesis L_nodup : NoDup L.
Hypothesis upd_shaped : forall i, shaped L (upd_of G i).
Hypothesis TS_in : forall i, i < n -> In (TS i) L.

(** the unit set: independent of the state bits *)
Variable U : tt.
Hypothesis U_shaped : shaped L U.
Hypothesis U_moves : forall v i, mem L U (vflip (TS i) v) = mem L U v.

Local Notation st := (steady_of G U).
Let M (S : tt) : val -> Prop := fun v => mem L S v = true.


Lemma st_shaped : shaped L st.
Proof. apply shaped_steady_of; assumption. Qed.

Ltac shp_extra := fail.
Ltac shp := repeat first
  [ assumption
  | shp_extra
  | apply st_shaped
  | apply shaped_eval_ex
  | apply shaped_eval_ax
  | apply shaped_eval_neg
  | apply shaped_pre
  | apply shaped_var_pre
  | apply shaped_steady_of
  | apply shaped_can_update
  | apply shaped_tand | apply shaped_tor | apply shaped_tminus | apply shaped_txor | apply shaped_tiff
  | apply shaped_flip | apply shaped_lit
  | apply shaped_const ].

Lemma mem_st v : mem L st v = true <-> mem L U v = true /\ vsteady G v.
Proof. apply mem_steady_of; assumption. Qed.

Definition inU (S : tt) : Prop := forall v, mem L S v = true -> mem L U v = true.

(** EX of the model is EX of the specification, inside the unit *)
Lemma ex_correct S v : shaped L S -> inU S ->
  (mem L (eval_ex G S st) v = true <-> EXs G (M S) v).
Proof.
  intros HS HU. rewrite mem_eval_ex by shp.
  unfold EXs, M. split; (intros [H|[H1 H2]]; [left; exact H|right]).
  - apply mem_st in H2. tauto.
  - split; [assumption|]. apply mem_st. auto.
Qed.

Lemma ex_inU S : shaped L S -> inU S -> inU (eval_ex G S st).
Proof.
  intros HS HU v Hv. apply ex_correct in Hv; try assumption.
  destruct Hv as [[i [Hi [He Hm]]]|[_ Hm]].
  - apply HU in Hm. rewrite U_moves in Hm. exact Hm.
  - apply HU; exact Hm.
Qed.

(** AX of the model is AX of the specification, inside the unit *)
Lemma ax_correct S v : shaped L S -> mem L U v = true ->
  (mem L (eval_ax G U S st) v = true <-> AXs G (M S) v).
Proof.
  intros HS Hv. unfold eval_ax.
  rewrite mem_eval_neg by shp.
  rewrite Hv. simpl. rewrite negb_true_iff.
  assert (HN : shaped L (eval_neg U S)) by shp.
  assert (HNU : inU (eval_neg U S)).
  { intros w Hw. rewrite mem_eval_neg in Hw by assumption. apply andb_true_iff in Hw. tauto. }
  split.
  - intro H. unfold AXs, M. split.
    + intros i Hi He. destruct (mem L S (vflip (TS i) v)) eqn:E; [reflexivity|].
      exfalso. assert (X : mem L (eval_ex G (eval_neg U S) st) v = true).
      { apply ex_correct; try assumption. left. exists i. split; [assumption|]. split; [assumption|].
        unfold M. rewrite mem_eval_neg by assumption. rewrite U_moves, Hv, E. reflexivity. }
      congruence.
    + intro Hs. destruct (mem L S v) eqn:E; [reflexivity|].
      exfalso. assert (X : mem L (eval_ex G (eval_neg U S) st) v = true).
      { apply ex_correct; try assumption. right. split; [assumption|].
        unfold M. rewrite mem_eval_neg by assumption. rewrite Hv, E. reflexivity. }
      congruence.
  - intros [H1 H2]. destruct (mem L (eval_ex G (eval_neg U S) st) v) eqn:E; [|reflexivity].
    exfalso. apply ex_correct in E; try assumption.
    destruct E as [[i [Hi [He Hm]]]|[Hs Hm]]; unfold M in Hm;
      rewrite mem_eval_neg in Hm by assumption; apply andb_true_iff in Hm; destruct Hm as [_ Hm];
      apply negb_true_iff in Hm.
    + specialize (H1 i Hi He). unfold M in H1. congruence.
    + specialize (H2 Hs). unfold M in H2. congruence.
Qed.

(** ---- the generic loop ---- *)
Lemma while_neq_spec fuel F : forall old new r,
  while_neq fuel F old new = Ok r ->
  (old = new /\ r = old) \/ (exists j, r = Nat.iter j F old /\ F r = r).
Proof.
  induction fuel as [|f IH]; intros old new r; simpl.
  - destruct (tt_eqb old new) eqn:E; [|discriminate].
    intro H; injection H as <-. apply tt_eqb_eq in E. left; auto.
  - destruct (tt_eqb old new) eqn:E.
    + intro H; injection H as <-. apply tt_eqb_eq in E. left; auto.
    + intro H. apply IH in H. destruct H as [[E1 E2]|[j [E1 E2]]].
      * right. exists 0. simpl. split; congruence.
      * right. exists (S j). split; [|assumption].
        rewrite E1. clear. induction j; simpl; [reflexivity|]. rewrite IHj. reflexivity.
Qed.

(** ---- EG ---- *)
Let Feg (old : tt) : tt := tand old (eval_ex G old st).

Lemma Feg_shaped S : shaped L S -> shaped L (Feg S).
Proof. intro H. unfold Feg. shp. Qed.

Lemma iter_Feg_shaped j S : shaped L S -> shaped L (Nat.iter j Feg S).
Proof. intro H. induction j; simpl; [assumption | apply Feg_shaped; assumption]. Qed.

Ltac shp_extra ::= first [apply iter_Feg_shaped | apply Feg_shaped].

Lemma iter_Feg_sub j S v : shaped L S -> mem L (Nat.iter j Feg S) v = true -> mem L S v = true.
Proof.
  intro HS. induction j; simpl; [auto|]. intro H. unfold Feg in H at 1.
  rewrite mem_tand in H by shp.
  apply andb_true_iff in H. tauto.
Qed.

Theorem eg_correct phi r : shaped L phi -> inU phi ->
  eval_eg G phi st = Ok r ->
  shaped L r /\ forall v, mem L r v = true <-> EGs G (M phi) v.
Proof.
  intros Hphi HU H. unfold eval_eg in H. apply while_neq_spec in H.
  assert (Post : forall X : val -> Prop, (forall u, X u -> M phi u /\ EXs G X u) ->
            forall j v, X v -> mem L (Nat.iter j Feg phi) v = true).
  { intros X HX j. induction j as [|j IHj]; intros v Hv; simpl.
    - apply HX; assumption.
    - unfold Feg at 1. rewrite mem_tand by shp.
      rewrite (IHj v Hv). simpl.
      apply ex_correct; [apply iter_Feg_shaped; assumption | | ].
      + intros w Hw. apply HU. eapply iter_Feg_sub; eassumption.
      + destruct (HX v Hv) as [_ [[i [Hi [He Hm]]]|[Hs Hm]]].
        * left. exists i. split; [assumption|]. split; [assumption|]. unfold M. apply IHj. exact Hm.
        * right. split; [assumption|]. unfold M. apply IHj. exact Hm. }
  destruct H as [[E1 E2]|[j [E1 E2]]].
  - (* phi is empty *)
    subst r. split; [assumption|]. intro v. split.
    + intro Hv. rewrite E1 in Hv. rewrite mem_empty in Hv. discriminate.
    + intros [X [Hv HX]]. destruct (HX v Hv) as [Hp _]. unfold M in Hp. rewrite E1 in Hp.
      rewrite mem_empty in Hp. discriminate.
  - fold Feg in E1, E2.
    assert (Hr : shaped L r) by (rewrite E1; shp).
    split; [assumption|]. intro v. split.
    + intro Hv. exists (M r). split; [exact Hv|]. intros u Hu. split.
      * unfold M. rewrite E1 in Hu. eapply iter_Feg_sub; eassumption.
      * unfold M in Hu. rewrite <- E2 in Hu. unfold Feg in Hu.
        rewrite mem_tand in Hu by shp.
        apply andb_true_iff in Hu. destruct Hu as [_ Hu].
        apply ex_correct in Hu; try assumption.
        intros w Hw. apply HU. rewrite E1 in Hw. eapply iter_Feg_sub; eassumption.
    + intros [X [Hv HX]]. rewrite E1. eapply Post; eassumption.
Qed.

Lemma ax_inU S v : shaped L S -> mem L (eval_ax G U S st) v = true -> mem L U v = true.
Proof.
  intros HS H. unfold eval_ax in H. rewrite mem_eval_neg in H
    by shp.
  apply andb_true_iff in H. tauto.
Qed.


(** states of the unit outside the computed EG set reach the complement on every path *)
Theorem eg_compl phi r : shaped L phi -> inU phi ->
  eval_eg G phi st = Ok r ->
  forall v, mem L U v = true -> mem L r v = false ->
            AUs G (fun _ => True) (fun w => mem L U w = true /\ mem L phi w = false) v.
Proof.
  intros Hphi HU H. unfold eval_eg in H. apply while_neq_spec in H.
  assert (Iter : forall j v, mem L U v = true -> mem L (Nat.iter j Feg phi) v = false ->
            AUs G (fun _ => True) (fun w => mem L U w = true /\ mem L phi w = false) v).
  { induction j as [|j IHj]; intros v Hu Hv; simpl in Hv.
    - apply AUs_here. auto.
    - unfold Feg in Hv at 1. rewrite mem_tand in Hv by shp.
      apply andb_false_iff in Hv. destruct Hv as [Hv|Hv]; [apply IHj; assumption|].
      destruct (mem L (Nat.iter j Feg phi) v) eqn:Ev; [|apply IHj; assumption].
      assert (IU : inU (Nat.iter j Feg phi)).
      { intros w Hw. apply HU. eapply iter_Feg_sub; eassumption. }
      assert (NE : ~ EXs G (M (Nat.iter j Feg phi)) v).
      { intro X. apply ex_correct in X; [congruence | shp | exact IU]. }
      apply AUs_step; [exact I | |].
      + intros i Hi He. apply IHj; [rewrite U_moves; exact Hu|].
        destruct (mem L (Nat.iter j Feg phi) (vflip (TS i) v)) eqn:E2; [|reflexivity].
        exfalso. apply NE. left. exists i. auto.
      + intro Hs. exfalso. apply NE. right. split; [exact Hs | exact Ev]. }
  destruct H as [[E1 E2]|[j [E1 E2]]].
  - intros v Hu _. apply AUs_here. split; [assumption|]. rewrite E1. apply mem_empty.
  - intros v Hu Hv. apply (Iter j); [assumption|]. rewrite E1 in Hv. exact Hv.
Qed.

(** ---- AU ---- *)
Section AU.
Variable phi1 : tt.
Hypothesis phi1_shaped : shaped L phi1.
Let Fau (old : tt) : tt := tor old (tand phi1 (eval_ax G U old st)).

Lemma Fau_shaped S : shaped L S -> shaped L (Fau S).
Proof.
  intro H. unfold Fau. shp.
Qed.

Lemma iter_Fau_shaped j S : shaped L S -> shaped L (Nat.iter j Fau S).
Proof. intro H. induction j; simpl; [assumption | apply Fau_shaped; assumption]. Qed.

Ltac shp_extra ::= first [apply iter_Fau_shaped | apply Fau_shaped].

Theorem au_correct phi2 r : shaped L phi2 -> inU phi2 ->
  eval_au G U phi1 phi2 st = Ok r ->
  shaped L r /\ inU r /\ forall v, mem L r v = true <-> mem L U v = true /\ AUs G (M phi1) (M phi2) v.
Proof.
  intros Hphi2 HU2 H. unfold eval_au in H. fold Fau in H. apply while_neq_spec in H.
  (* every iterate is sound *)
  assert (Sound : forall j, shaped L (Nat.iter j Fau phi2) /\
            forall v, mem L (Nat.iter j Fau phi2) v = true ->
                      mem L U v = true /\ AUs G (M phi1) (M phi2) v).
  { induction j as [|j [IHs IHj]]; simpl.
    - split; [assumption|]. intros v Hv. split; [apply HU2; assumption | apply AUs_here; exact Hv].
    - split; [apply Fau_shaped; assumption|]. intros v Hv. unfold Fau in Hv at 1.
      rewrite mem_tor in Hv by shp.
      apply orb_true_iff in Hv. destruct Hv as [Hv|Hv]; [apply IHj; assumption|].
      rewrite mem_tand in Hv by shp.
      apply andb_true_iff in Hv. destruct Hv as [Hp Hax].
      assert (HUv : mem L U v = true) by (eapply ax_inU; eassumption).
      split; [assumption|].
      apply ax_correct in Hax; try assumption. destruct Hax as [A1 A2].
      apply AUs_step; [exact Hp | | ].
      + intros i Hi He. apply IHj. apply A1; assumption.
      + intro Hs. apply IHj. apply A2; assumption. }
  destruct H as [[E1 E2]|[j [E1 E2]]].
  - (* phi2 empty: the result is empty; nothing satisfies A[.U.] inside the unit *)
    subst r. split; [assumption|]. split; [assumption|].
    intro v. rewrite E1. rewrite mem_empty. split; [discriminate|].
    intros [HUv HA]. exfalso.
    induction HA as [v Hq | v Hp Hm IHm Hs IHs].
    + unfold M in Hq. try rewrite E1 in Hq. rewrite mem_empty in Hq. discriminate.
    + (* either some move is enabled or v is steady *)
      destruct (existsb (fun i => enabled G i v) (range n)) eqn:Ex.
      * apply existsb_exists in Ex. destruct Ex as [i [Hi He]]. apply in_range in Hi.
        apply (IHm i Hi He). rewrite U_moves. exact HUv.
      * apply IHs; [|exact HUv]. intros i Hi.
        destruct (enabled G i v) eqn:He; [|reflexivity].
        assert (X : existsb (fun i => enabled G i v) (range n) = true).
        { apply existsb_exists. exists i. split; [apply in_range; exact Hi | exact He]. }
        congruence.
  - destruct (Sound j) as [Sj Sound_j]. rewrite <- E1 in Sj, Sound_j.
    split; [assumption|]. split; [intros v Hv; apply Sound_j; assumption|].
    intro v. split; [apply Sound_j|].
    intros [HUv HA]. induction HA as [v Hq | v Hp Hm IHm Hs IHs].
    + (* phi2 is below every iterate *)
      rewrite E1. clear - Hq Hphi2 phi1_shaped U_shaped L_nodup upd_shaped TS_in.
      induction j; simpl; [exact Hq|]. unfold Fau at 1.
      rewrite mem_tor by shp.
      rewrite IHj. reflexivity.
    + rewrite <- E2. unfold Fau.
      rewrite mem_tor by shp.
      apply orb_true_iff. right.
      rewrite mem_tand by shp.
      unfold M in Hp. rewrite Hp. simpl.
      apply ax_correct; try assumption. split.
      * intros i Hi He. apply IHm; try assumption. rewrite U_moves. exact HUv.
      * intro Hst. apply IHs; assumption.
Qed.
End AU.

(** ---- EU by saturation ---- *)
Section EU.
Variable phi1 : tt.
Hypothesis phi1_shaped : shaped L phi1.

Lemma sat_step_some vars result r : shaped L result ->
  sat_step G vars phi1 result = Some r ->
  shaped L r /\
  (forall v, mem L result v = true -> mem L r v = true) /\
  (forall v, mem L r v = true -> mem L result v = true \/
     exists i, In i vars /\ mem L phi1 v = true /\ mem L (var_pre G i result) v = true).
Proof.
  intro HR. induction vars as [|i vars IH]; simpl; [discriminate|].
  assert (HV : shaped L (var_pre G i result)) by shp.
  destruct (is_empty (tminus (tand phi1 (var_pre G i result)) result)) eqn:E.
  - intro H. destruct (IH H) as [A [B C]]. split; [assumption|]. split; [assumption|].
    intros v Hv. destruct (C v Hv) as [X|[k [Hk X]]]; [left; assumption|right; exists k; split; [right|]; assumption].
  - intro H. injection H as <-.
    assert (HT : shaped L (tminus (tand phi1 (var_pre G i result)) result))
      by shp.
    split; [shp|]. split.
    + intros v Hv. rewrite mem_tor by assumption. rewrite Hv. reflexivity.
    + intros v Hv. rewrite mem_tor in Hv by assumption. apply orb_true_iff in Hv.
      destruct Hv as [Hv|Hv]; [left; assumption|]. right. exists i. split; [left; reflexivity|].
      rewrite mem_tminus in Hv by shp.
      apply andb_true_iff in Hv. destruct Hv as [Hv _].
      rewrite mem_tand in Hv by assumption. apply andb_true_iff in Hv. exact Hv.
Qed.

Lemma sat_step_none vars result : shaped L result ->
  sat_step G vars phi1 result = None ->
  forall i v, In i vars -> mem L phi1 v = true -> mem L (var_pre G i result) v = true ->
              mem L result v = true.
Proof.
  intro HR. induction vars as [|k vars IH]; simpl; [intros _ i v []|].
  assert (HV : shaped L (var_pre G k result)) by shp.
  destruct (is_empty (tminus (tand phi1 (var_pre G k result)) result)) eqn:E; [|discriminate].
  intros H i v [->|Hi] Hp Hv; [|eapply IH; eassumption].
  rewrite (is_empty_iff L) in E by shp.
  specialize (E v). rewrite mem_tminus in E by shp.
  rewrite mem_tand in E by assumption. rewrite Hp, Hv in E. simpl in E.
  apply negb_false_iff in E. exact E.
Qed.

Theorem eu_loop_correct fuel : forall result r phi2,
  shaped L phi2 -> shaped L result ->
  (forall v, mem L phi2 v = true -> mem L result v = true) ->
  (forall v, mem L result v = true -> EUs G (M phi1) (M phi2) v) ->
  eu_loop G fuel phi1 result = Ok r ->
  shaped L r /\ forall v, mem L r v = true <-> EUs G (M phi1) (M phi2) v.
Proof.
  induction fuel as [|f IH]; intros result r phi2 H2 HR Hsub Hsound; simpl; [discriminate|].
  destruct (sat_step G (rev (range n)) phi1 result) as [r'|] eqn:E.
  - intro H. destruct (sat_step_some _ _ _ HR E) as [A [B C]].
    eapply IH; try eassumption.
    + intros v Hv. apply B, Hsub, Hv.
    + intros v Hv. destruct (C v Hv) as [X|[i [Hi [Hp X]]]]; [apply Hsound; assumption|].
      apply in_rev, in_range in Hi.
      rewrite mem_var_pre in X by assumption. apply andb_true_iff in X. destruct X as [X1 X2].
      eapply EUs_step; [exact Hp | exact Hi | exact X2 | apply Hsound; exact X1].
  - intro H. injection H as <-. split; [assumption|]. intro v. split; [apply Hsound|].
    intro HE. induction HE as [v Hq | v i Hp Hi He _ IHE].
    + apply Hsub. exact Hq.
    + eapply (sat_step_none _ _ HR E i v); [apply -> in_rev; apply in_range; exact Hi | exact Hp |].
      rewrite mem_var_pre by assumption. rewrite IHE, He. reflexivity.
Qed.

Theorem eu_correct phi2 r : shaped L phi2 ->
  eval_eu_saturated G phi1 phi2 = Ok r ->
  shaped L r /\ forall v, mem L r v = true <-> EUs G (M phi1) (M phi2) v.
Proof.
  intros H2 H. unfold eval_eu_saturated in H. eapply eu_loop_correct; try eassumption.
  - auto.
  - intros v Hv. apply EUs_here. exact Hv.
Qed.
End EU.

End FixFacts.
