(** Atoms and hybrid operators of the model meet their specification. *)
From HCTL Require Import Base Syntax TT Ops Kripke HCTL TTFacts OpsFacts FixFacts SemFacts.

Section HybridFacts.
Variable G : genv.
Local Notation L := (g_L G).
Local Notation n := (g_n G).
Local Notation k := (g_k G).

Hypothesis L_nodup : NoDup L.
Hypothesis upd_shaped : forall i, shaped L (upd_of G i).
Hypothesis TS_in : forall i, i < n -> In (TS i) L.
Hypothesis TX_in : forall i e, i < n -> e < k -> In (TX i e) L.
Hypothesis TS_bound : forall i, In (TS i) L -> i < n.
Hypothesis TX_bound : forall i e, In (TX i e) L -> i < n.

Variable U : tt.
Hypothesis U_shaped : shaped L U.
(** the unit only depends on the colour *)
Hypothesis U_colour : forall v w, (forall j, v (TP j) = w (TP j)) -> mem L U v = mem L U w.

Local Notation inUnit v := (mem L U v = true).
Local Notation spec := (spec_of G U).

Lemma U_moves : forall v i, mem L U (vflip (TS i) v) = mem L U v.
Proof. intros v i. apply U_colour. intro j. reflexivity. Qed.

Ltac shp := repeat first
  [ assumption
  | match goal with H : spec_of _ _ ?A _ |- shaped _ ?A => exact (spec_shaped _ _ _ _ H) end
  | apply shaped_eval_neg
  | apply shaped_tand | apply shaped_tor | apply shaped_tminus | apply shaped_txor | apply shaped_tiff
  | apply shaped_exq | apply shaped_flip | apply shaped_lit
  | apply shaped_const ].

(** ---- conjunctions over the variables ---- *)
Lemma shaped_fold_tand (f : nat -> tt) l acc :
  shaped L acc -> (forall i, shaped L (f i)) ->
  shaped L (fold_left (fun a i => tand a (f i)) l acc).
Proof.
  revert acc; induction l as [|x l IH]; intros acc Ha Hf; simpl; [assumption|].
  apply IH; [apply shaped_tand; auto | assumption].
Qed.

Lemma mem_fold_tand (f : nat -> tt) l : forall acc v,
  shaped L acc -> (forall i, shaped L (f i)) ->
  (mem L (fold_left (fun a i => tand a (f i)) l acc) v = true <->
   mem L acc v = true /\ forall i, In i l -> mem L (f i) v = true).
Proof.
  induction l as [|x l IH]; intros acc v Ha Hf; simpl.
  - split; [intro H; split; [assumption | intros i []] | intros [H _]; assumption].
  - rewrite IH by (try apply shaped_tand; auto).
    rewrite mem_tand by auto. rewrite andb_true_iff. split.
    + intros [[H1 H2] H3]. split; [assumption|]. intros i [->|Hi]; auto.
    + intros [H1 H2]. split; [split|]; auto.
Qed.

Lemma shaped_cmp_item e i : shaped L (tiff (lit L (TX i e)) (lit L (TS i))).
Proof. apply shaped_tiff; apply shaped_lit. Qed.

Lemma shaped_cmp_fold e acc : shaped L acc ->
  shaped L (fold_left (fun a i => tand a (tiff (lit L (TX i e)) (lit L (TS i)))) (range n) acc).
Proof. intro H. apply shaped_fold_tand; [exact H | intro i; apply shaped_cmp_item]. Qed.

Lemma shaped_comparator e : shaped L (comparator_var_state G U e).
Proof. unfold comparator_var_state. apply shaped_tand; [apply shaped_cmp_fold|]; assumption. Qed.

Lemma mem_comparator e v : e < k ->
  (mem L (comparator_var_state G U e) v = true <-> inUnit v /\ copy_is_state G e v).
Proof.
  intro He. unfold comparator_var_state.
  rewrite mem_tand by (try apply shaped_cmp_fold; assumption).
  rewrite andb_true_iff.
  rewrite mem_fold_tand by (try assumption; intro; apply shaped_cmp_item).
  unfold copy_is_state. split.
  - intros [[Hu H] _]. split; [assumption|]. intros i Hi.
    specialize (H i (proj2 (in_range i n) Hi)).
    rewrite mem_tiff in H by apply shaped_lit.
    rewrite !mem_lit in H by auto. apply Bool.eqb_prop in H. exact H.
  - intros [Hu H]. split; [split|]; try assumption. intros i Hi. apply in_range in Hi.
    rewrite mem_tiff by apply shaped_lit. rewrite !mem_lit by auto.
    rewrite (H i Hi). apply Bool.eqb_reflx.
Qed.

(** ---- atoms ---- *)
Lemma spec_var e : e < k -> spec (eval_hctl_var G U e) (copy_is_state G e).
Proof.
  intro He. split; [apply shaped_comparator|]. intro w. apply mem_comparator; assumption.
Qed.

Lemma spec_prop i : i < n -> spec (eval_prop G U i) (fun v => v (TS i) = true).
Proof.
  intro Hi. unfold eval_prop. split; [shp|]. intro w.
  rewrite mem_tand by shp. rewrite mem_lit by auto. rewrite andb_true_iff. tauto.
Qed.

(** ---- valuations built by the hybrid operators agree with the witnesses of exq ---- *)
Lemma U_set_copy e u v : mem L U (set_copy e u v) = mem L U v.
Proof. apply U_colour. intro j. reflexivity. Qed.
Lemma U_set_state e v : mem L U (set_state e v) = mem L U v.
Proof. apply U_colour. intro j. reflexivity. Qed.

(** ---- bind ---- *)
Lemma spec_bind A P e : e < k -> spec A P ->
  spec (eval_bind G U (tand A U) e) (fun v => P (set_copy e v v)).
Proof.
  intros He HA. pose proof HA as [SA EA]. unfold eval_bind, project_out_hctl_var.
  assert (SC := shaped_comparator e).
  split; [shp|]. intro v.
  rewrite mem_exq by shp. split.
  - intros [w [Hw Hm]].
    rewrite mem_tand in Hm by shp. apply andb_true_iff in Hm. destruct Hm as [Hc Hm].
    rewrite mem_tand in Hm by shp. apply andb_true_iff in Hm. destruct Hm as [Ha _].
    apply mem_comparator in Hc; [|assumption]. destruct Hc as [Hu Hc].
    assert (AG : agree L w (set_copy e v v)).
    { intros g Hg. destruct g as [j|i|i e']; simpl; try (apply Hw; reflexivity).
      destruct (Nat.eqb e e') eqn:E.
      - apply Nat.eqb_eq in E; subst e'. rewrite (Hc i (TX_bound _ _ Hg)). apply Hw. reflexivity.
      - apply Hw. simpl. exact E. }
    rewrite (mem_agree L A _ _ AG) in Ha. apply EA in Ha. destruct Ha as [Hu' Hp].
    rewrite U_set_copy in Hu'. split; assumption.
  - intros [Hu Hp]. exists (set_copy e v v). split.
    + intros g Hg. destruct g as [j|i|i e']; simpl; try reflexivity.
      simpl in Hg. rewrite Hg. reflexivity.
    + rewrite mem_tand by shp. rewrite mem_tand by shp.
      rewrite U_set_copy, Hu.
      assert (X : mem L A (set_copy e v v) = true) by (apply EA; rewrite U_set_copy; auto).
      rewrite X. simpl. rewrite andb_true_r.
      apply mem_comparator; [assumption|]. split; [rewrite U_set_copy; exact Hu|].
      intros i Hi. simpl. rewrite Nat.eqb_refl. reflexivity.
Qed.

(** ---- jump ---- *)
Lemma spec_jump A P e : e < k -> spec A P ->
  spec (eval_jump G U A e) (fun v => P (set_state e v)).
Proof.
  intros He HA. pose proof HA as [SA EA]. unfold eval_jump, project_out_bn_vars.
  assert (SC := shaped_comparator e).
  split; [shp|]. intro v.
  rewrite mem_exq by shp. split.
  - intros [w [Hw Hm]].
    rewrite mem_tand in Hm by shp. apply andb_true_iff in Hm. destruct Hm as [Hc Ha].
    apply mem_comparator in Hc; [|assumption]. destruct Hc as [Hu Hc].
    assert (AG : agree L w (set_state e v)).
    { intros g Hg. destruct g as [j|i|i e']; simpl; try (apply Hw; reflexivity).
      rewrite <- (Hc i (TS_bound _ Hg)). apply Hw. reflexivity. }
    rewrite (mem_agree L A _ _ AG) in Ha. apply EA in Ha. destruct Ha as [Hu' Hp].
    rewrite U_set_state in Hu'. split; assumption.
  - intros [Hu Hp]. exists (set_state e v). split.
    + intros g Hg. destruct g as [j|i|i e']; simpl; try reflexivity. simpl in Hg. discriminate.
    + rewrite mem_tand by shp.
      assert (X : mem L A (set_state e v) = true) by (apply EA; rewrite U_set_state; auto).
      rewrite X. rewrite andb_true_r.
      apply mem_comparator; [assumption|]. split; [rewrite U_set_state; exact Hu|].
      intros i Hi. reflexivity.
Qed.

(** ---- exists ---- *)
Lemma spec_exists A P e : e < k -> spec A P ->
  spec (eval_exists G (tand A U) e) (fun v => exists u, P (set_copy e u v)).
Proof.
  intros He HA. pose proof HA as [SA EA]. unfold eval_exists, project_out_hctl_var.
  split; [shp|]. intro v.
  rewrite mem_exq by shp. split.
  - intros [w [Hw Hm]].
    rewrite mem_tand in Hm by shp. apply andb_true_iff in Hm. destruct Hm as [Ha _].
    pose (u := fun g => match g with TS i => w (TX i e) | _ => v g end).
    assert (AG : agree L w (set_copy e u v)).
    { intros g Hg. destruct g as [j|i|i e']; simpl; try (apply Hw; reflexivity).
      destruct (Nat.eqb e e') eqn:E.
      - apply Nat.eqb_eq in E; subst e'. reflexivity.
      - apply Hw. simpl. exact E. }
    rewrite (mem_agree L A _ _ AG) in Ha. apply EA in Ha. destruct Ha as [Hu' Hp].
    rewrite U_set_copy in Hu'. split; [assumption|]. exists u. exact Hp.
  - intros [Hu [u Hp]]. exists (set_copy e u v). split.
    + intros g Hg. destruct g as [j|i|i e']; simpl; try reflexivity. simpl in Hg. rewrite Hg. reflexivity.
    + rewrite mem_tand by shp. rewrite U_set_copy, Hu, andb_true_r.
      apply EA. rewrite U_set_copy. auto.
Qed.

(** ---- forall = not exists not ---- *)
Lemma spec_forall A P e : e < k -> spec A P ->
  spec (eval_neg U (eval_exists G (eval_neg U A) e)) (fun v => forall u, P (set_copy e u v)).
Proof.
  intros He HA.
  assert (HN : spec (eval_neg U A) (fun w => ~ P w)) by (apply spec_neg; assumption).
  pose proof (spec_exists _ _ e He HN) as HE.
  assert (EQ : tand (eval_neg U A) U = eval_neg U A).
  { apply (tt_ext L); try assumption; [shp | shp |]. intro v.
    rewrite mem_tand by shp. rewrite mem_eval_neg by shp.
    destruct (mem L U v); simpl; [rewrite andb_true_r|]; reflexivity. }
  rewrite EQ in HE.
  eapply spec_ext; [apply spec_neg; [assumption | exact HE]|].
  intros w Hu. simpl. split.
  - intros Hn u. destruct (spec_dec G U A P (set_copy e u w) HA) as [Hp|Hp];
      [rewrite U_set_copy; exact Hu | exact Hp | exfalso; apply Hn; exists u; exact Hp].
  - intros Hall [u Hnp]. apply Hnp, Hall.
Qed.

End HybridFacts.
