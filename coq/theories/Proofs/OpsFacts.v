(** Semantic characterisation of the symbolic operators of Model/Ops.v against Spec/Kripke.v. *)
From HCTL Require Import Base TT Ops Kripke TTFacts.

Lemma in_range i m : In i (range m) <-> i < m.
Proof.
  induction m as [|m IH]; simpl; [split; [tauto|lia]|].
  rewrite in_app_iff, IH. simpl. split; [intros [H|[H|[]]]; lia | intro H].
  destruct (Nat.eq_dec i m); [right; left; congruence | left; lia].
Qed.

Section OpsFacts.
Variable G : genv.
Let L := g_L G.
Let n := g_n G.

Hypothesis L_nodup : NoDup L.
Hypothesis upd_shaped : forall i, shaped L (upd_of G i).
Hypothesis TS_in : forall i, i < n -> In (TS i) L.

Ltac sh := auto using shaped_const, shaped_map2, shaped_lit, shaped_flip, shaped_exq,
  shaped_tand, shaped_tor, shaped_tminus, shaped_txor, shaped_tiff.

Lemma shaped_empty : shaped L (empty G).
Proof. apply shaped_const. Qed.
Lemma shaped_full : shaped L (full G).
Proof. apply shaped_const. Qed.
Lemma mem_empty v : mem L (empty G) v = false.
Proof. apply mem_const. Qed.
Lemma mem_full v : mem L (full G) v = true.
Proof. apply mem_const. Qed.

Lemma shaped_can_update i : shaped L (can_update G i).
Proof. unfold can_update. apply shaped_txor; [apply upd_shaped | apply shaped_lit]. Qed.

Lemma mem_can_update i v : i < n -> mem L (can_update G i) v = enabled G i v.
Proof.
  intro Hi. unfold can_update, enabled. fold L.
  rewrite mem_txor by (try apply upd_shaped; apply shaped_lit).
  rewrite mem_lit by auto. reflexivity.
Qed.

Lemma shaped_var_pre i S : shaped L S -> shaped L (var_pre G i S).
Proof. intro H. unfold var_pre. apply shaped_tand; [apply shaped_flip; exact H | apply shaped_can_update]. Qed.

Lemma mem_var_pre i S v : i < n -> shaped L S ->
  mem L (var_pre G i S) v = mem L S (vflip (TS i) v) && enabled G i v.
Proof.
  intros Hi HS. unfold var_pre. fold L.
  rewrite mem_tand by (try apply shaped_flip; try apply shaped_can_update; assumption).
  rewrite mem_flip by assumption. rewrite mem_can_update by assumption. reflexivity.
Qed.

(** unions over a list of indices *)
Lemma shaped_fold_tor (f : nat -> tt) l acc :
  shaped L acc -> (forall i, shaped L (f i)) ->
  shaped L (fold_left (fun a i => tor a (f i)) l acc).
Proof.
  revert acc; induction l as [|x l IH]; intros acc Ha Hf; simpl; [assumption|].
  apply IH; [apply shaped_tor; auto | assumption].
Qed.

Lemma mem_fold_tor (f : nat -> tt) l : forall acc v,
  shaped L acc -> (forall i, shaped L (f i)) ->
  (mem L (fold_left (fun a i => tor a (f i)) l acc) v = true <->
   mem L acc v = true \/ exists i, In i l /\ mem L (f i) v = true).
Proof.
  induction l as [|x l IH]; intros acc v Ha Hf; simpl.
  - split; [auto | intros [H|[i [[] _]]]; assumption].
  - rewrite IH by (try apply shaped_tor; auto).
    rewrite mem_tor by auto. rewrite orb_true_iff. split.
    + intros [[H|H]|[i [Hi H]]]; [left; assumption | right; exists x; auto | right; exists i; auto].
    + intros [H|[i [[->|Hi] H]]]; [left; left; assumption | left; right; assumption | right; exists i; auto].
Qed.

Lemma shaped_pre S : shaped L S -> shaped L (pre G S).
Proof.
  intro H. unfold pre. apply shaped_fold_tor; [apply shaped_empty | intro i; apply shaped_var_pre; exact H].
Qed.

Lemma mem_pre S v : shaped L S ->
  (mem L (pre G S) v = true <-> moves G (fun w => mem L S w = true) v).
Proof.
  intro HS. unfold pre. fold L.
  rewrite mem_fold_tor by (try apply shaped_empty; intro; apply shaped_var_pre; assumption).
  rewrite mem_empty. unfold moves. fold n. split.
  - intros [H|[i [Hi H]]]; [discriminate|].
    apply in_range in Hi. rewrite mem_var_pre in H by assumption.
    apply andb_true_iff in H. destruct H as [H1 H2]. exists i; auto.
  - intros [i [Hi [He Hm]]]. right. exists i. split; [apply in_range; exact Hi|].
    rewrite mem_var_pre by assumption. fold L in Hm. rewrite Hm, He. reflexivity.
Qed.

(** intersections of complements over a list of indices *)
Lemma shaped_fold_minus (f : nat -> tt) l acc :
  shaped L acc -> (forall i, shaped L (f i)) ->
  shaped L (fold_left (fun a i => tminus a (f i)) l acc).
Proof.
  revert acc; induction l as [|x l IH]; intros acc Ha Hf; simpl; [assumption|].
  apply IH; [apply shaped_tminus; auto | assumption].
Qed.

Lemma mem_fold_minus (f : nat -> tt) l : forall acc v,
  shaped L acc -> (forall i, shaped L (f i)) ->
  (mem L (fold_left (fun a i => tminus a (f i)) l acc) v = true <->
   mem L acc v = true /\ forall i, In i l -> mem L (f i) v = false).
Proof.
  induction l as [|x l IH]; intros acc v Ha Hf; simpl.
  - split; [intro H; split; [assumption | intros i []] | intros [H _]; assumption].
  - rewrite IH by (try apply shaped_tminus; auto).
    rewrite mem_tminus by auto. rewrite andb_true_iff, negb_true_iff. split.
    + intros [[H1 H2] H3]. split; [assumption|]. intros i [->|Hi]; auto.
    + intros [H1 H2]. split; [split|]; auto.
Qed.

Lemma shaped_steady_of U : shaped L U -> shaped L (steady_of G U).
Proof.
  intro H. unfold steady_of. apply shaped_fold_minus; [exact H | intro; apply shaped_can_update].
Qed.

Lemma mem_steady_of U v : shaped L U ->
  (mem L (steady_of G U) v = true <-> mem L U v = true /\ vsteady G v).
Proof.
  intro HU. unfold steady_of. fold L.
  rewrite mem_fold_minus by (try assumption; intro; apply shaped_can_update).
  unfold vsteady. fold n. split; intros [H1 H2]; split; try assumption.
  - intros i Hi. rewrite <- mem_can_update by assumption. apply H2, in_range, Hi.
  - intros i Hi. apply in_range in Hi. rewrite mem_can_update by assumption. auto.
Qed.

(** ---- Boolean operators relative to the unit ---- *)
Lemma shaped_eval_neg U S : shaped L U -> shaped L S -> shaped L (eval_neg U S).
Proof. intros; unfold eval_neg; sh. Qed.

Lemma mem_eval_neg U S v : shaped L U -> shaped L S ->
  mem L (eval_neg U S) v = mem L U v && negb (mem L S v).
Proof. intros; unfold eval_neg; apply mem_tminus; assumption. Qed.

(** ---- EX / AX ---- *)
Lemma shaped_eval_ex S st : shaped L S -> shaped L st -> shaped L (eval_ex G S st).
Proof. intros; unfold eval_ex. apply shaped_tor; [apply shaped_pre|apply shaped_tand]; assumption. Qed.

Lemma mem_eval_ex S st v : shaped L S -> shaped L st ->
  (mem L (eval_ex G S st) v = true <->
   moves G (fun w => mem L S w = true) v \/ (mem L S v = true /\ mem L st v = true)).
Proof.
  intros HS Hst. unfold eval_ex. fold L.
  rewrite mem_tor by (try apply shaped_pre; try apply shaped_tand; assumption).
  rewrite orb_true_iff, mem_pre by assumption.
  rewrite mem_tand by assumption. rewrite andb_true_iff. reflexivity.
Qed.

Lemma shaped_eval_ax U S st : shaped L U -> shaped L S -> shaped L st -> shaped L (eval_ax G U S st).
Proof. intros; unfold eval_ax. apply shaped_eval_neg; [assumption|]. apply shaped_eval_ex; [apply shaped_eval_neg|]; assumption. Qed.

End OpsFacts.
