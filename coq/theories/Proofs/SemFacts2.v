(** The specification-level oracle [sem] / [sem_eval] of Spec/Sem.v computes [sat]
    (the same specification as the one met by the symbolic model, Main.v):

    1. per-colour transition structure: [enabled] of the lifted graph [mk_genv p n k upd] is
       [xorb (upd_at ..) (s (TS i))], so [succs] enumerates exactly the [vflip (TS i)]
       successors (or the self-loop of a steady state);
    2. the explicit-state operators [s_ex], [s_ax], [s_eu], [s_au], [s_eg], [s_ag], [s_ew],
       [s_aw] denote EXs, AXs, EUs, AUs, EGs, AGs, EWs, AWs ([fix_iter] partial correctness);
    3. [sem] denotes [sat] for formulae named as after preprocessing ([depth_named]) whose
       variables are supported, including the hybrid operators; [assemble] / [sem_eval]
       put the colours together. *)
From HCTL Require Import Base Syntax Preprocess TT Ops Kripke HCTL Sem.
From HCTL Require Import TTFacts OpsFacts EvalPure LayoutFacts PrepFacts.

(** * Generic facts: tabulation, list helpers, [fix_iter], [for_states], [all_vals] *)

Lemma shaped_tabulate L : forall f, shaped L (tabulate L f).
Proof. induction L as [|h L IH]; intro f; cbn [tabulate shaped]; auto. Qed.

(** [tabulate] is exact for functions that only read the tags of the layout *)
Lemma mem_tabulate L : forall f v,
  (forall u w, agree L u w -> f u = f w) -> mem L (tabulate L f) v = f v.
Proof.
  induction L as [|h L IH]; intros f v Hf; cbn [tabulate mem].
  - apply Hf. intros g [].
  - assert (Hb : forall b, (forall u w, agree L u w ->
               f (fun g => if tag_eqb g h then b else u g) = f (fun g => if tag_eqb g h then b else w g))).
    { intros b u w A. apply Hf. intros g Hg. destruct (tag_eqb g h) eqn:E; [reflexivity|].
      destruct Hg as [->|Hg]; [rewrite tag_eqb_refl in E; discriminate | apply A, Hg]. }
    destruct (v h) eqn:Vh; rewrite (IH _ v (Hb _)); apply Hf; intros g _;
      destruct (tag_eqb g h) eqn:E; try reflexivity; apply tag_eqb_eq in E; subst g; symmetry; exact Vh.
Qed.

Lemma existsb_map_ext {A B} (f g : A -> B) (P : B -> bool) l :
  (forall a, In a l -> P (f a) = P (g a)) -> existsb P (map f l) = existsb P (map g l).
Proof.
  induction l as [|a l IH]; intro H; cbn [map existsb]; [reflexivity|].
  rewrite (H a (or_introl eq_refl)), IH; [reflexivity|]. intros b Hb. apply H. right. exact Hb.
Qed.

Lemma forallb_map_ext {A B} (f g : A -> B) (P : B -> bool) l :
  (forall a, In a l -> P (f a) = P (g a)) -> forallb P (map f l) = forallb P (map g l).
Proof.
  induction l as [|a l IH]; intro H; cbn [map forallb]; [reflexivity|].
  rewrite (H a (or_introl eq_refl)), IH; [reflexivity|]. intros b Hb. apply H. right. exact Hb.
Qed.

Lemma iter_succ_r {A} (f : A -> A) j x : Nat.iter (S j) f x = Nat.iter j f (f x).
Proof. induction j as [|j IH]; [reflexivity|]. cbn [Nat.iter nat_rect] in *. rewrite IH. reflexivity. Qed.

(** partial correctness of the naive fixed-point iteration *)
Lemma fix_iter_spec fuel F : forall x r,
  fix_iter fuel F x = Ok r -> F r = r /\ exists j, r = Nat.iter j F x.
Proof.
  induction fuel as [|fuel IH]; intros x r H; cbn [fix_iter] in H; [discriminate|].
  destruct (tt_eqb (F x) x) eqn:E.
  - injection H as <-. apply tt_eqb_eq in E. split; [exact E | exists 0; reflexivity].
  - destruct (IH _ _ H) as [Hf [j Hj]]. split; [exact Hf|]. exists (S j). rewrite iter_succ_r. exact Hj.
Qed.

Lemma for_states_spec {A} (f : val -> res A) : forall l rs,
  for_states l f = Ok rs ->
  (forall u a, In (u, a) rs -> In u l /\ f u = Ok a) /\
  (forall u, In u l -> exists a, In (u, a) rs /\ f u = Ok a).
Proof.
  induction l as [|u0 l IH]; intros rs H; cbn [for_states] in H.
  - injection H as <-. split; [intros u a [] | intros u []].
  - destruct (f u0) as [a0| | |] eqn:E0; cbn [bind] in H; try discriminate.
    destruct (for_states l f) as [rest| | |] eqn:ER; cbn [bind] in H; try discriminate.
    injection H as <-. destruct (IH rest eq_refl) as [I1 I2]. split.
    + intros u a [Hin|Hin].
      * injection Hin as <- <-. split; [left; reflexivity | exact E0].
      * destruct (I1 u a Hin) as [X Y]. split; [right; exact X | exact Y].
    + intros u [<-|Hin].
      * exists a0. split; [left; reflexivity | exact E0].
      * destruct (I2 u Hin) as [a [X Y]]. exists a. split; [right; exact X | exact Y].
Qed.

(** [all_vals L] contains a representative of every valuation of the tags of [L] *)
Lemma all_vals_complete L : forall v, exists u, In u (all_vals L) /\ agree L u v.
Proof.
  induction L as [|h L IH]; intro v; cbn [all_vals].
  - exists (fun _ => false). split; [left; reflexivity | intros g []].
  - destruct (IH v) as [u [Hu A]].
    exists (fun g => if tag_eqb g h then v h else u g). split.
    + apply in_app_iff. destruct (v h); [right|left]; apply in_map_iff; exists u; split; auto.
    + intros g Hg. destruct (tag_eqb g h) eqn:E.
      * apply tag_eqb_eq in E. subst g. reflexivity.
      * destruct Hg as [->|Hg]; [rewrite tag_eqb_refl in E; discriminate | apply A, Hg].
Qed.

Lemma index_of_name_prop_index x l : forall i, index_of_name x l i = prop_index x l i.
Proof. induction l as [|y l IH]; intro i; cbn [index_of_name prop_index]; [reflexivity|]. rewrite IH. reflexivity. Qed.

Lemma prop_index_bound x l : forall i j, prop_index x l i = Some j -> j < i + length l.
Proof.
  induction l as [|y l IH]; intros i j H; cbn [prop_index length] in *; [discriminate|].
  destruct (str_eqb x y); [injection H as <-; lia | apply IH in H; lia].
Qed.

(** * The oracle over a fixed network *)
Section Oracle.
Variables n p k : nat.
Variable upd : list tt.
Variable names : list str.
Variable ctxs : list (str * tt).

Local Notation G := (mk_genv p n k upd).
Local Notation Ln := (Sem.Ln n).
Local Notation Lpn := (Sem.Lpn n p).
Local Notation smem := (Sem.smem n).

Hypothesis upd_shaped : List.Forall (shaped Lpn) upd.

(** the context sets of the oracle, as the [Gamma] of [sat] *)
Definition ctx_Gamma (l : str) (v : val) : Prop :=
  exists X, alookup str_eqb l ctxs = Some X /\ mem Lpn X v = true.
Local Notation Gamma := ctx_Gamma.

(** [v] has the colour [c] (on the parameter bits of the network) *)
Definition col_is (c v : val) : Prop := forall j, j < p -> v (TP j) = c (TP j).
(** [v] holds the state [s] (on the state bits of the network) *)
Definition state_is (s v : val) : Prop := forall i, i < n -> v (TS i) = s (TS i).

(** the valuation with colour [c], state [s] and copies [rho] *)
Definition lift (c : val) (rho : nat -> val) (s : val) : val :=
  fun g => match g with TP _ => c g | TS _ => s g | TX i e => rho e (TS i) end.

Lemma in_Ln g : In g Ln <-> exists i, i < n /\ g = TS i.
Proof.
  unfold Sem.Ln. rewrite in_map_iff. split.
  - intros [i [E Hi]]. exists i. apply in_range in Hi. auto.
  - intros [i [Hi E]]. exists i. split; [auto | apply in_range; exact Hi].
Qed.

Lemma in_Lpn g : In g Lpn <-> (exists j, j < p /\ g = TP j) \/ (exists i, i < n /\ g = TS i).
Proof.
  unfold Sem.Lpn, Sem.Lp. rewrite in_app_iff, <- in_Ln, in_map_iff. split.
  - intros [[j [E Hj]]|H]; [left; exists j; apply in_range in Hj; auto | right; exact H].
  - intros [[j [Hj E]]|H]; [left; exists j; split; [auto | apply in_range; exact Hj] | right; exact H].
Qed.

Lemma agree_Ln u v : agree Ln u v <-> state_is v u.
Proof.
  split.
  - intros A i Hi. apply A. apply in_Ln. exists i. auto.
  - intros S g Hg. apply in_Ln in Hg. destruct Hg as [i [Hi ->]]. apply S, Hi.
Qed.

Lemma smem_agree X u v : state_is v u -> smem X u = smem X v.
Proof. intro S. apply mem_agree, agree_Ln, S. Qed.

Lemma state_is_refl v : state_is v v.
Proof. intros i _. reflexivity. Qed.

Lemma state_is_sym u v : state_is u v -> state_is v u.
Proof. intros S i Hi. symmetry. apply S, Hi. Qed.

Lemma agree_Lpn_join c s v : col_is c v -> state_is s v -> agree Lpn (join c s) v.
Proof.
  intros C S g Hg. apply in_Lpn in Hg. destruct Hg as [[j [Hj ->]]|[i [Hi ->]]]; cbn [join].
  - symmetry. apply C, Hj.
  - symmetry. apply S, Hi.
Qed.

Lemma mem_Lpn_join c s v t : col_is c v -> state_is s v -> mem Lpn t (join c s) = mem Lpn t v.
Proof. intros C S. apply mem_agree, agree_Lpn_join; assumption. Qed.

Lemma mem_Lpn_agree t u v : (forall j, j < p -> u (TP j) = v (TP j)) -> state_is v u ->
  mem Lpn t u = mem Lpn t v.
Proof.
  intros C S. apply mem_agree. intros g Hg. apply in_Lpn in Hg.
  destruct Hg as [[j [Hj ->]]|[i [Hi ->]]]; [apply C, Hj | apply S, Hi].
Qed.

Lemma state_eqb_iff s u : state_eqb n s u = true <-> state_is u s.
Proof.
  unfold state_eqb. rewrite forallb_forall. split.
  - intros H i Hi. apply Bool.eqb_prop. apply H. apply in_Ln. exists i. auto.
  - intros S g Hg. apply in_Ln in Hg. destruct Hg as [i [Hi ->]]. rewrite (S i Hi). apply Bool.eqb_reflx.
Qed.

(** ** 1. the transition structure of one colour *)

Lemma mem_upd_of i v : mem (g_L G) (upd_of G i) v = mem Lpn (nth i upd (Leaf false)) v.
Proof.
  unfold upd_of. cbn [g_upd g_L mk_genv].
  change (fun g : tag => negb (is_extra_tag g)) with Pipeline.not_extra.
  destruct (Nat.lt_ge_cases i (length upd)) as [Hi|Hi].
  - rewrite (nth_indep _ _ (expand Pipeline.not_extra (mk_layout p n k) (Leaf false)))
      by (rewrite map_length; exact Hi).
    rewrite map_nth.
    assert (S : shaped Lpn (nth i upd (Leaf false))).
    { rewrite Forall_forall in upd_shaped. apply upd_shaped. apply nth_In. exact Hi. }
    rewrite mem_expand; rewrite filter_not_extra_layout; [reflexivity | exact S].
  - rewrite !nth_overflow by (rewrite ?map_length; exact Hi).
    unfold empty. rewrite mem_const. destruct Lpn; reflexivity.
Qed.

Theorem enabled_upd_at c s v i : col_is c v -> state_is s v ->
  enabled G i v = xorb (upd_at n p upd c s i) (v (TS i)).
Proof.
  intros C S. unfold enabled, upd_at. rewrite mem_upd_of, (mem_Lpn_join c s v) by assumption. reflexivity.
Qed.

Lemma upd_at_agree c s s' i : state_is s s' -> upd_at n p upd c s i = upd_at n p upd c s' i.
Proof.
  intro S. unfold upd_at. apply mem_agree. intros g Hg. apply in_Lpn in Hg.
  destruct Hg as [[j [Hj ->]]|[i' [Hi ->]]]; cbn [join]; [reflexivity | symmetry; apply S, Hi].
Qed.

Lemma moves_agree c s s' : state_is s s' -> Sem.moves n p upd c s = Sem.moves n p upd c s'.
Proof.
  intro S. unfold Sem.moves. apply filter_ext_in. intros i Hi. apply in_range in Hi.
  rewrite (upd_at_agree c s s' i S), (S i Hi). reflexivity.
Qed.

Lemma in_moves c v i : col_is c v ->
  (In i (Sem.moves n p upd c v) <-> i < n /\ enabled G i v = true).
Proof.
  intro C. unfold Sem.moves. rewrite filter_In, in_range.
  rewrite (enabled_upd_at c v v i C (state_is_refl v)). reflexivity.
Qed.

Lemma moves_nil c v : col_is c v -> (Sem.moves n p upd c v = [] <-> vsteady G v).
Proof.
  intro C. split.
  - intros E i Hi. destruct (enabled G i v) eqn:En; [|reflexivity].
    assert (X : In i (Sem.moves n p upd c v)) by (apply in_moves; auto). rewrite E in X. destruct X.
  - intro St. destruct (Sem.moves n p upd c v) as [|i l] eqn:E; [reflexivity|].
    assert (X : In i (Sem.moves n p upd c v)) by (rewrite E; left; reflexivity).
    apply in_moves in X; [|exact C]. destruct X as [Hi En]. rewrite (St i Hi) in En. discriminate.
Qed.

(** [succs] enumerates the [vflip (TS i)] successors of the enabled [i], or the self-loop *)
Theorem in_succs c v u : col_is c v ->
  (In u (succs n p upd c v) <->
   (exists i, i < n /\ enabled G i v = true /\ u = vflip (TS i) v) \/ (vsteady G v /\ u = v)).
Proof.
  intro C. unfold succs. destruct (Sem.moves n p upd c v) as [|i0 l] eqn:E.
  - assert (St : vsteady G v) by (apply (moves_nil c v C); exact E). split.
    + intros [<-|[]]. right. split; [exact St | reflexivity].
    + intros [[i [Hi [En _]]]|[_ ->]]; [rewrite (St i Hi) in En; discriminate | left; reflexivity].
  - rewrite <- E. rewrite in_map_iff. split.
    + intros [i [<- Hi]]. apply in_moves in Hi; [|exact C]. destruct Hi as [Hi En].
      left. exists i. split; [exact Hi|]. split; [exact En | reflexivity].
    + intros [[i [Hi [En ->]]]|[St _]].
      * exists i. split; [reflexivity | apply in_moves; auto].
      * assert (X : Sem.moves n p upd c v = []) by (apply (moves_nil c v C); exact St).
        rewrite X in E. discriminate.
Qed.

Lemma existsb_succs c X v : col_is c v ->
  (existsb (smem X) (succs n p upd c v) = true <-> EXs G (fun u => smem X u = true) v).
Proof.
  intro C. rewrite existsb_exists. split.
  - intros [u [Hu Hm]]. apply (in_succs c v u C) in Hu.
    destruct Hu as [[i [Hi [En ->]]]|[St ->]].
    + left. exists i. auto.
    + right. auto.
  - intros [[i [Hi [En Hm]]]|[St Hm]].
    + exists (vflip (TS i) v). split; [|exact Hm]. apply (in_succs c v _ C). left. exists i. auto.
    + exists v. split; [|exact Hm]. apply (in_succs c v _ C). right. auto.
Qed.

Lemma forallb_succs c X v : col_is c v ->
  (forallb (smem X) (succs n p upd c v) = true <-> AXs G (fun u => smem X u = true) v).
Proof.
  intro C. rewrite forallb_forall. split.
  - intro H. split.
    + intros i Hi En. apply H. apply (in_succs c v _ C). left. exists i. auto.
    + intro St. apply H. apply (in_succs c v _ C). right. auto.
  - intros [H1 H2] u Hu. apply (in_succs c v u C) in Hu.
    destruct Hu as [[i [Hi [En ->]]]|[St ->]]; auto.
Qed.

Lemma succs_agree_ex c X s s' : state_is s s' ->
  existsb (smem X) (succs n p upd c s) = existsb (smem X) (succs n p upd c s').
Proof.
  intro S. unfold succs. rewrite (moves_agree c s s' S).
  destruct (Sem.moves n p upd c s') as [|i l].
  - cbn [existsb]. rewrite (smem_agree X s s'); [reflexivity | apply state_is_sym, S].
  - apply existsb_map_ext. intros a _. apply mem_agree. intros g Hg. apply in_Ln in Hg.
    destruct Hg as [i' [Hi' ->]]. unfold flip_state. rewrite (S i' Hi'). reflexivity.
Qed.

Lemma succs_agree_all c X s s' : state_is s s' ->
  forallb (smem X) (succs n p upd c s) = forallb (smem X) (succs n p upd c s').
Proof.
  intro S. unfold succs. rewrite (moves_agree c s s' S).
  destruct (Sem.moves n p upd c s') as [|i l].
  - cbn [forallb]. rewrite (smem_agree X s s'); [reflexivity | apply state_is_sym, S].
  - apply forallb_map_ext. intros a _. apply mem_agree. intros g Hg. apply in_Ln in Hg.
    destruct Hg as [i' [Hi' ->]]. unfold flip_state. rewrite (S i' Hi'). reflexivity.
Qed.

Lemma smem_stab f v : (forall u w, state_is u w -> f u = f w) -> smem (stab n f) v = f v.
Proof.
  intro Hf. unfold Sem.smem, stab. apply mem_tabulate. intros u w A. apply Hf.
  apply state_is_sym. apply agree_Ln. exact A.
Qed.

Lemma shaped_stab f : shaped Ln (stab n f).
Proof. apply shaped_tabulate. Qed.

Lemma smem_s_ex c X v : col_is c v ->
  (smem (s_ex n p upd c X) v = true <-> EXs G (fun u => smem X u = true) v).
Proof.
  intro C. unfold s_ex. rewrite smem_stab; [apply existsb_succs, C|].
  intros u w S. apply succs_agree_ex. exact S.
Qed.

Lemma smem_s_ax c X v : col_is c v ->
  (smem (s_ax n p upd c X) v = true <-> AXs G (fun u => smem X u = true) v).
Proof.
  intro C. unfold s_ax. rewrite smem_stab; [apply forallb_succs, C|].
  intros u w S. apply succs_agree_all. exact S.
Qed.

(** ** 2. the explicit-state operators *)

(** the set of states [X] denotes the predicate [P] on the valuations of the domain [D]
    (a colour and an environment of copies; the state is free) *)
Definition sspec (D : val -> Prop) (X : sset) (P : val -> Prop) : Prop :=
  shaped Ln X /\ forall v, D v -> (smem X v = true <-> P v).

Lemma smem_tor a b v : shaped Ln a -> shaped Ln b -> smem (tor a b) v = smem a v || smem b v.
Proof. apply mem_tor. Qed.
Lemma smem_tand a b v : shaped Ln a -> shaped Ln b -> smem (tand a b) v = smem a v && smem b v.
Proof. apply mem_tand. Qed.
Lemma smem_txor a b v : shaped Ln a -> shaped Ln b -> smem (txor a b) v = xorb (smem a v) (smem b v).
Proof. apply mem_txor. Qed.
Lemma smem_tiff a b v : shaped Ln a -> shaped Ln b -> smem (tiff a b) v = Bool.eqb (smem a v) (smem b v).
Proof. apply mem_tiff. Qed.
Lemma smem_s_not a v : shaped Ln a -> smem (s_not a) v = negb (smem a v).
Proof. intro S. unfold s_not, Sem.smem. rewrite mem_map2 by assumption. reflexivity. Qed.
Lemma shaped_s_not a : shaped Ln a -> shaped Ln (s_not a).
Proof. intro S. unfold s_not. apply shaped_map2; assumption. Qed.
Lemma smem_s_full v : smem (s_full n) v = true.
Proof. apply mem_const. Qed.
Lemma smem_s_empty v : smem (s_empty n) v = false.
Proof. apply mem_const. Qed.

Section StateOps.
Variable c : val.
Variable D : val -> Prop.
Hypothesis D_col : forall v, D v -> col_is c v.
Hypothesis D_flip : forall v i, D v -> D (vflip (TS i) v).

Lemma EXs_mono (Y Y' : val -> Prop) v :
  (forall u, D u -> Y u -> Y' u) -> D v -> EXs G Y v -> EXs G Y' v.
Proof.
  intros H Dv [[i [Hi [En Hm]]]|[St Hm]].
  - left. exists i. split; [exact Hi|]. split; [exact En|]. apply H; [apply D_flip, Dv | exact Hm].
  - right. split; [exact St | apply H; assumption].
Qed.

Lemma AXs_mono (Y Y' : val -> Prop) v :
  (forall u, D u -> Y u -> Y' u) -> D v -> AXs G Y v -> AXs G Y' v.
Proof.
  intros H Dv [H1 H2]. split.
  - intros i Hi En. apply H; [apply D_flip, Dv | apply H1; assumption].
  - intro St. apply H; [exact Dv | apply H2, St].
Qed.

(** Boolean operators *)
Lemma sspec_ext A P P' : sspec D A P -> (forall v, D v -> (P v <-> P' v)) -> sspec D A P'.
Proof. intros [SA EA] H. split; [exact SA|]. intros v Dv. rewrite (EA v Dv). apply H, Dv. Qed.

Lemma sspec_full : sspec D (s_full n) (fun _ => True).
Proof. split; [apply shaped_const|]. intros v _. rewrite smem_s_full. tauto. Qed.

Lemma sspec_empty : sspec D (s_empty n) (fun _ => False).
Proof. split; [apply shaped_const|]. intros v _. rewrite smem_s_empty. split; [discriminate | tauto]. Qed.

Lemma sspec_const b (P : val -> Prop) : (forall v, D v -> (b = true <-> P v)) -> sspec D (const Ln b) P.
Proof. intro H. split; [apply shaped_const|]. intros v Dv. unfold Sem.smem. rewrite mem_const. apply H, Dv. Qed.

Lemma sspec_stab f (P : val -> Prop) :
  (forall u w, state_is u w -> f u = f w) -> (forall v, D v -> (f v = true <-> P v)) ->
  sspec D (stab n f) P.
Proof. intros Hf H. split; [apply shaped_stab|]. intros v Dv. rewrite smem_stab by exact Hf. apply H, Dv. Qed.

Lemma sspec_not A P : sspec D A P -> sspec D (s_not A) (fun v => ~ P v).
Proof.
  intros [SA EA]. split; [apply shaped_s_not, SA|]. intros v Dv.
  rewrite smem_s_not by exact SA. specialize (EA v Dv).
  destruct (smem A v); cbn [negb]; split; intro H.
  - discriminate.
  - exfalso. apply H. apply EA. reflexivity.
  - intro HP. apply EA in HP. discriminate.
  - reflexivity.
Qed.

Lemma sspec_and A B P Q : sspec D A P -> sspec D B Q -> sspec D (tand A B) (fun v => P v /\ Q v).
Proof.
  intros [SA EA] [SB EB]. split; [apply shaped_tand; assumption|]. intros v Dv.
  rewrite smem_tand by assumption. rewrite andb_true_iff, (EA v Dv), (EB v Dv). tauto.
Qed.

Lemma sspec_or A B P Q : sspec D A P -> sspec D B Q -> sspec D (tor A B) (fun v => P v \/ Q v).
Proof.
  intros [SA EA] [SB EB]. split; [apply shaped_tor; assumption|]. intros v Dv.
  rewrite smem_tor by assumption. rewrite orb_true_iff, (EA v Dv), (EB v Dv). tauto.
Qed.

Lemma sspec_dec A P v : sspec D A P -> D v -> P v \/ ~ P v.
Proof.
  intros [SA EA] Dv. specialize (EA v Dv). destruct (smem A v).
  - left. apply EA. reflexivity.
  - right. intro HP. apply EA in HP. discriminate.
Qed.

Lemma sspec_imp A B P Q : sspec D A P -> sspec D B Q -> sspec D (tor (s_not A) B) (fun v => P v -> Q v).
Proof.
  intros HA HB. eapply sspec_ext; [apply sspec_or; [apply sspec_not; exact HA | exact HB]|].
  intros v Dv. cbn beta. destruct (sspec_dec A P v HA Dv); tauto.
Qed.

Lemma sspec_iff A B P Q : sspec D A P -> sspec D B Q -> sspec D (tiff A B) (fun v => P v <-> Q v).
Proof.
  intros [SA EA] [SB EB]. split; [apply shaped_tiff; assumption|]. intros v Dv.
  rewrite smem_tiff by assumption. specialize (EA v Dv). specialize (EB v Dv).
  destruct (smem A v), (smem B v); cbn [Bool.eqb]; intuition discriminate.
Qed.

Lemma sspec_xor A B P Q : sspec D A P -> sspec D B Q -> sspec D (txor A B) (fun v => ~ (P v <-> Q v)).
Proof.
  intros [SA EA] [SB EB]. split; [apply shaped_txor; assumption|]. intros v Dv.
  rewrite smem_txor by assumption. specialize (EA v Dv). specialize (EB v Dv).
  destruct (smem A v), (smem B v); cbn [xorb]; intuition discriminate.
Qed.

(** EX / AX *)
Lemma sspec_ex A P : sspec D A P -> sspec D (s_ex n p upd c A) (EXs G P).
Proof.
  intros [SA EA]. split; [apply shaped_stab|]. intros v Dv.
  rewrite (smem_s_ex c A v (D_col v Dv)).
  split; apply EXs_mono; try exact Dv; intros u Du; apply (EA u Du).
Qed.

Lemma sspec_ax A P : sspec D A P -> sspec D (s_ax n p upd c A) (AXs G P).
Proof.
  intros [SA EA]. split; [apply shaped_stab|]. intros v Dv.
  rewrite (smem_s_ax c A v (D_col v Dv)).
  split; apply AXs_mono; try exact Dv; intros u Du; apply (EA u Du).
Qed.

(** fixed points of a step function [F] that denotes a monotone predicate transformer [Phi] *)
Section Fix.
Variable F : sset -> sset.
Variable Phi : (val -> Prop) -> val -> Prop.
Hypothesis F_shaped : forall X, shaped Ln X -> shaped Ln (F X).
Hypothesis F_mem : forall X v, shaped Ln X -> D v ->
  (smem (F X) v = true <-> Phi (fun u => smem X u = true) v).
Hypothesis Phi_mono : forall (Y Y' : val -> Prop) v,
  (forall u, D u -> Y u -> Y' u) -> D v -> Phi Y v -> Phi Y' v.

Lemma iter_shaped j X : shaped Ln X -> shaped Ln (Nat.iter j F X).
Proof. intro S. induction j as [|j IH]; [exact S|]. cbn [Nat.iter nat_rect]. apply F_shaped, IH. Qed.

Lemma fix_unfold R v : shaped Ln R -> F R = R -> D v ->
  (smem R v = true <-> Phi (fun u => smem R u = true) v).
Proof. intros S E Dv. rewrite <- (F_mem R v S Dv). rewrite E. reflexivity. Qed.

(** from the empty set: the result is a fixed point below every pre-fixed point *)
Lemma lfp_char fuel R : fix_iter fuel F (s_empty n) = Ok R ->
  shaped Ln R /\
  (forall v, D v -> (smem R v = true <-> Phi (fun u => smem R u = true) v)) /\
  (forall Y : val -> Prop, (forall v, D v -> Phi Y v -> Y v) ->
     forall v, D v -> smem R v = true -> Y v).
Proof.
  intro H. destruct (fix_iter_spec _ _ _ _ H) as [E [j Hj]].
  assert (S : shaped Ln R) by (rewrite Hj; apply iter_shaped, shaped_const).
  split; [exact S|]. split; [intros v Dv; apply fix_unfold; assumption|].
  intros Y HY. rewrite Hj. clear Hj. induction j as [|j IH]; intros v Dv Hm.
  - cbn [Nat.iter nat_rect] in Hm. rewrite smem_s_empty in Hm. discriminate.
  - cbn [Nat.iter nat_rect] in Hm. apply F_mem in Hm; [|apply iter_shaped, shaped_const | exact Dv].
    apply HY; [exact Dv|]. eapply Phi_mono; [|exact Dv|exact Hm]. intros u Du Hu. apply IH; assumption.
Qed.

(** from the full set: the result is a fixed point above every post-fixed point *)
Lemma gfp_char fuel R : fix_iter fuel F (s_full n) = Ok R ->
  shaped Ln R /\
  (forall v, D v -> (smem R v = true <-> Phi (fun u => smem R u = true) v)) /\
  (forall Y : val -> Prop, (forall v, D v -> Y v -> Phi Y v) ->
     forall v, D v -> Y v -> smem R v = true).
Proof.
  intro H. destruct (fix_iter_spec _ _ _ _ H) as [E [j Hj]].
  assert (S : shaped Ln R) by (rewrite Hj; apply iter_shaped, shaped_const).
  split; [exact S|]. split; [intros v Dv; apply fix_unfold; assumption|].
  intros Y HY. rewrite Hj. clear Hj. induction j as [|j IH]; intros v Dv Yv.
  - cbn [Nat.iter nat_rect]. apply smem_s_full.
  - cbn [Nat.iter nat_rect]. apply F_mem; [apply iter_shaped, shaped_const | exact Dv|].
    eapply Phi_mono; [|exact Dv|apply HY; assumption]. intros u Du Hu. apply IH; assumption.
Qed.
End Fix.

(** the four step functions *)
Section Steps.
Variables A B : sset.
Variables P Q : val -> Prop.
Hypothesis HA : sspec D A P.
Hypothesis HB : sspec D B Q.

Let Feu := fun X => tor B (tand A (s_ex n p upd c X)).
Let Fau := fun X => tor B (tand A (s_ax n p upd c X)).
Let Feg := fun X => tand A (s_ex n p upd c X).
Let Fag := fun X => tand A (s_ax n p upd c X).
Let Peu := fun (Y : val -> Prop) v => Q v \/ (P v /\ EXs G Y v).
Let Pau := fun (Y : val -> Prop) v => Q v \/ (P v /\ AXs G Y v).
Let Peg := fun (Y : val -> Prop) v => P v /\ EXs G Y v.
Let Pag := fun (Y : val -> Prop) v => P v /\ AXs G Y v.

Lemma Feu_shaped X : shaped Ln X -> shaped Ln (Feu X).
Proof. intros _. destruct HA, HB. apply shaped_tor; [assumption|]. apply shaped_tand; [assumption | apply shaped_stab]. Qed.
Lemma Fau_shaped X : shaped Ln X -> shaped Ln (Fau X).
Proof. intros _. destruct HA, HB. apply shaped_tor; [assumption|]. apply shaped_tand; [assumption | apply shaped_stab]. Qed.
Lemma Feg_shaped X : shaped Ln X -> shaped Ln (Feg X).
Proof. intros _. destruct HA. apply shaped_tand; [assumption | apply shaped_stab]. Qed.
Lemma Fag_shaped X : shaped Ln X -> shaped Ln (Fag X).
Proof. intros _. destruct HA. apply shaped_tand; [assumption | apply shaped_stab]. Qed.

Lemma Feu_mem X v : shaped Ln X -> D v -> (smem (Feu X) v = true <-> Peu (fun u => smem X u = true) v).
Proof.
  intros _ Dv. destruct HA as [SA EA], HB as [SB EB]. unfold Feu, Peu.
  rewrite smem_tor, smem_tand; try assumption; try apply shaped_stab;
    [|apply shaped_tand; [assumption | apply shaped_stab]].
  rewrite orb_true_iff, andb_true_iff, (EA v Dv), (EB v Dv), (smem_s_ex c X v (D_col v Dv)). reflexivity.
Qed.
Lemma Fau_mem X v : shaped Ln X -> D v -> (smem (Fau X) v = true <-> Pau (fun u => smem X u = true) v).
Proof.
  intros _ Dv. destruct HA as [SA EA], HB as [SB EB]. unfold Fau, Pau.
  rewrite smem_tor, smem_tand; try assumption; try apply shaped_stab;
    [|apply shaped_tand; [assumption | apply shaped_stab]].
  rewrite orb_true_iff, andb_true_iff, (EA v Dv), (EB v Dv), (smem_s_ax c X v (D_col v Dv)). reflexivity.
Qed.
Lemma Feg_mem X v : shaped Ln X -> D v -> (smem (Feg X) v = true <-> Peg (fun u => smem X u = true) v).
Proof.
  intros _ Dv. destruct HA as [SA EA]. unfold Feg, Peg.
  rewrite smem_tand; try assumption; try apply shaped_stab.
  rewrite andb_true_iff, (EA v Dv), (smem_s_ex c X v (D_col v Dv)). reflexivity.
Qed.
Lemma Fag_mem X v : shaped Ln X -> D v -> (smem (Fag X) v = true <-> Pag (fun u => smem X u = true) v).
Proof.
  intros _ Dv. destruct HA as [SA EA]. unfold Fag, Pag.
  rewrite smem_tand; try assumption; try apply shaped_stab.
  rewrite andb_true_iff, (EA v Dv), (smem_s_ax c X v (D_col v Dv)). reflexivity.
Qed.

Lemma Peu_mono (Y Y' : val -> Prop) v : (forall u, D u -> Y u -> Y' u) -> D v -> Peu Y v -> Peu Y' v.
Proof. intros H Dv [Hq|[Hp He]]; [left; exact Hq | right; split; [exact Hp | eapply EXs_mono; eassumption]]. Qed.
Lemma Pau_mono (Y Y' : val -> Prop) v : (forall u, D u -> Y u -> Y' u) -> D v -> Pau Y v -> Pau Y' v.
Proof. intros H Dv [Hq|[Hp He]]; [left; exact Hq | right; split; [exact Hp | eapply AXs_mono; eassumption]]. Qed.
Lemma Peg_mono (Y Y' : val -> Prop) v : (forall u, D u -> Y u -> Y' u) -> D v -> Peg Y v -> Peg Y' v.
Proof. intros H Dv [Hp He]; split; [exact Hp | eapply EXs_mono; eassumption]. Qed.
Lemma Pag_mono (Y Y' : val -> Prop) v : (forall u, D u -> Y u -> Y' u) -> D v -> Pag Y v -> Pag Y' v.
Proof. intros H Dv [Hp He]; split; [exact Hp | eapply AXs_mono; eassumption]. Qed.

(** E[P U Q] *)
Theorem sspec_eu R : s_eu n p upd c A B = Ok R -> sspec D R (EUs G P Q).
Proof.
  intro H. unfold s_eu in H.
  destruct (lfp_char Feu Peu Feu_shaped Feu_mem Peu_mono _ _ H) as [SR [FX LE]].
  split; [exact SR|]. intros v Dv. split.
  - apply (LE (EUs G P Q)); [|exact Dv]. clear v Dv. intros v Dv [Hq|[Hp [[i [Hi [En Hm]]]|[St Hm]]]].
    + apply EUs_here, Hq.
    + eapply EUs_step; eassumption.
    + exact Hm.
  - intro HE. induction HE as [v Hq | v i Hp Hi En _ IH].
    + apply (FX v Dv). left. exact Hq.
    + apply (FX v Dv). right. split; [exact Hp|]. left. exists i.
      split; [exact Hi|]. split; [exact En|]. apply IH. apply D_flip, Dv.
Qed.

(** A[P U Q] *)
Theorem sspec_au R : s_au n p upd c A B = Ok R -> sspec D R (AUs G P Q).
Proof.
  intro H. unfold s_au in H.
  destruct (lfp_char Fau Pau Fau_shaped Fau_mem Pau_mono _ _ H) as [SR [FX LE]].
  split; [exact SR|]. intros v Dv. split.
  - apply (LE (AUs G P Q)); [|exact Dv]. clear v Dv. intros v Dv [Hq|[Hp [H1 H2]]].
    + apply AUs_here, Hq.
    + apply AUs_step; assumption.
  - intro HE. induction HE as [v Hq | v Hp Hm IHm Hs IHs].
    + apply (FX v Dv). left. exact Hq.
    + apply (FX v Dv). right. split; [exact Hp|]. split.
      * intros i Hi En. apply IHm; [exact Hi | exact En | apply D_flip, Dv].
      * intro St. apply IHs; [exact St | exact Dv].
Qed.

(** E[P W Q] *)
Theorem sspec_ew R : s_ew n p upd c A B = Ok R -> sspec D R (EWs G P Q).
Proof.
  intro H. unfold s_ew in H.
  destruct (gfp_char Feu Peu Feu_shaped Feu_mem Peu_mono _ _ H) as [SR [FX GE]].
  split; [exact SR|]. intros v Dv. split.
  - intro Hm. exists (fun u => D u /\ smem R u = true). split; [split; assumption|].
    intros u [Du Hu]. apply (FX u Du) in Hu. destruct Hu as [Hq|[Hp He]]; [left; exact Hq | right].
    split; [exact Hp|]. eapply EXs_mono; [|exact Du|exact He]. intros w Dw Hw. split; assumption.
  - intros [X [Xv HX]]. apply (GE (fun u => D u /\ X u)); [|exact Dv|split; assumption].
    clear v Dv Xv. intros v _ [Dv Xv]. destruct (HX v Xv) as [Hq|[Hp He]]; [left; exact Hq | right].
    split; [exact Hp|]. destruct He as [[i [Hi [En Hm]]]|[St Hm]].
    + left. exists i. split; [exact Hi|]. split; [exact En|]. split; [apply D_flip, Dv | exact Hm].
    + right. split; [exact St|]. split; assumption.
Qed.

(** A[P W Q] *)
Theorem sspec_aw R : s_aw n p upd c A B = Ok R -> sspec D R (AWs G P Q).
Proof.
  intro H. unfold s_aw in H.
  destruct (gfp_char Fau Pau Fau_shaped Fau_mem Pau_mono _ _ H) as [SR [FX GE]].
  split; [exact SR|]. intros v Dv. split.
  - intro Hm. exists (fun u => D u /\ smem R u = true). split; [split; assumption|].
    intros u [Du Hu]. apply (FX u Du) in Hu. destruct Hu as [Hq|[Hp He]]; [left; exact Hq | right].
    split; [exact Hp|]. eapply AXs_mono; [|exact Du|exact He]. intros w Dw Hw. split; assumption.
  - intros [X [Xv HX]]. apply (GE (fun u => D u /\ X u)); [|exact Dv|split; assumption].
    clear v Dv Xv. intros v _ [Dv Xv]. destruct (HX v Xv) as [Hq|[Hp [H1 H2]]]; [left; exact Hq | right].
    split; [exact Hp|]. split.
    + intros i Hi En. split; [apply D_flip, Dv | apply H1; assumption].
    + intro St. split; [exact Dv | apply H2, St].
Qed.

(** EG P *)
Theorem sspec_eg R : s_eg n p upd c A = Ok R -> sspec D R (EGs G P).
Proof.
  intro H. unfold s_eg in H.
  destruct (gfp_char Feg Peg Feg_shaped Feg_mem Peg_mono _ _ H) as [SR [FX GE]].
  split; [exact SR|]. intros v Dv. split.
  - intro Hm. exists (fun u => D u /\ smem R u = true). split; [split; assumption|].
    intros u [Du Hu]. apply (FX u Du) in Hu. destruct Hu as [Hp He].
    split; [exact Hp|]. eapply EXs_mono; [|exact Du|exact He]. intros w Dw Hw. split; assumption.
  - intros [X [Xv HX]]. apply (GE (fun u => D u /\ X u)); [|exact Dv|split; assumption].
    clear v Dv Xv. intros v _ [Dv Xv]. destruct (HX v Xv) as [Hp He].
    split; [exact Hp|]. destruct He as [[i [Hi [En Hm]]]|[St Hm]].
    + left. exists i. split; [exact Hi|]. split; [exact En|]. split; [apply D_flip, Dv | exact Hm].
    + right. split; [exact St|]. split; assumption.
Qed.

(** AG P *)
Theorem sspec_ag R : s_ag n p upd c A = Ok R -> sspec D R (AGs G P).
Proof.
  intro H. unfold s_ag in H.
  destruct (gfp_char Fag Pag Fag_shaped Fag_mem Pag_mono _ _ H) as [SR [FX GE]].
  split; [exact SR|]. intros v Dv. split.
  - intro Hm. exists (fun u => D u /\ smem R u = true). split; [split; assumption|].
    intros u [Du Hu]. apply (FX u Du) in Hu. destruct Hu as [Hp He].
    split; [exact Hp|]. eapply AXs_mono; [|exact Du|exact He]. intros w Dw Hw. split; assumption.
  - intros [X [Xv HX]]. apply (GE (fun u => D u /\ X u)); [|exact Dv|split; assumption].
    clear v Dv Xv. intros v _ [Dv Xv]. destruct (HX v Xv) as [Hp [H1 H2]].
    split; [exact Hp|]. split.
    + intros i Hi En. split; [apply D_flip, Dv | apply H1; assumption].
    + intro St. split; [exact Dv | apply H2, St].
Qed.
End Steps.

End StateOps.

(** ** 3. [sem] denotes [sat] *)

Lemma existsb_ext_fun {A} (f g : A -> bool) l : (forall a, f a = g a) -> existsb f l = existsb g l.
Proof. intro H. induction l as [|a l IH]; cbn [existsb]; [reflexivity|]. rewrite H, IH. reflexivity. Qed.
Lemma forallb_ext_fun {A} (f g : A -> bool) l : (forall a, f a = g a) -> forallb f l = forallb g l.
Proof. intro H. induction l as [|a l IH]; cbn [forallb]; [reflexivity|]. rewrite H, IH. reflexivity. Qed.

Lemma join_agree c a b : state_is a b -> agree Lpn (join c a) (join c b).
Proof.
  intros S g Hg. apply in_Lpn in Hg.
  destruct Hg as [[j [Hj ->]]|[i [Hi ->]]]; cbn [join]; [reflexivity | symmetry; apply S, Hi].
Qed.

Lemma state_eqb_agree u a b : state_is a b -> state_eqb n u a = state_eqb n u b.
Proof.
  intro S. apply eq_true_iff_eq. rewrite !state_eqb_iff. split; intros H i Hi.
  - rewrite (S i Hi). apply H, Hi.
  - rewrite <- (S i Hi). apply H, Hi.
Qed.

Lemma state_eqb_agree_l u a b : state_is a b -> state_eqb n a u = state_eqb n b u.
Proof.
  intro S. apply eq_true_iff_eq. rewrite !state_eqb_iff. split; intros H i Hi.
  - rewrite (S i Hi). apply H, Hi.
  - rewrite <- (S i Hi). apply H, Hi.
Qed.

Hypothesis names_bound : length names <= n.

(** the environment of the oracle against the copies of the valuation: the variable bound at
    quantifier depth [e] is named [xs (S e)] and its state is held in copy [e] *)
Definition env_ok (d : nat) (env : list (str * val)) (v : val) : Prop :=
  forall e, e < d -> exists u, alookup str_eqb (xs (S e)) env = Some u /\
                              forall i, i < n -> v (TX i e) = u (TS i).

Definition Dom (c : val) (d : nat) (env : list (str * val)) (v : val) : Prop :=
  col_is c v /\ env_ok d env v.

Lemma Dom_col c d env v : Dom c d env v -> col_is c v.
Proof. intros [C _]. exact C. Qed.

Lemma Dom_flip c d env v i : Dom c d env v -> Dom c d env (vflip (TS i) v).
Proof. intros [C E]. split; [intros j Hj; apply C, Hj | intros e He; apply E, He]. Qed.

Lemma Dom_set_state c d env e v : Dom c d env v -> Dom c d env (set_state e v).
Proof. intros [C E]. split; [intros j Hj; apply C, Hj | intros e' He; apply E, He]. Qed.

Lemma Dom_set_copy c d env u u0 v : Dom c d env v -> state_is u u0 ->
  Dom c (S d) ((xs (S d), u) :: env) (set_copy d u0 v).
Proof.
  intros [C E] S. split; [intros j Hj; apply C, Hj|].
  intros e He. destruct (Nat.eq_dec e d) as [->|Ne].
  - exists u. cbn [alookup]. rewrite PrepFacts.str_eqb_refl. split; [reflexivity|].
    intros i Hi. cbn [set_copy]. rewrite Nat.eqb_refl. apply S, Hi.
  - destruct (E e) as [u' [E' Hc]]; [lia|]. exists u'. cbn [alookup].
    rewrite xs_eqb_neq by lia. split; [exact E'|].
    intros i Hi. cbn [set_copy]. rewrite (proj2 (Nat.eqb_neq d e)) by lia. apply Hc, Hi.
Qed.

Lemma var_of_xs e : e < k -> var_of G (xs (S e)) = Some e.
Proof.
  intro He. unfold var_of, xs. cbn [repeat_n g_k mk_genv]. fold (xs e). rewrite xs_length.
  rewrite (proj2 (Nat.ltb_lt e k) He). reflexivity.
Qed.

Lemma dom_set_spec c dopt Dm : dom_set n p ctxs c dopt = Ok Dm ->
  forall u w, col_is c w -> state_is u w -> (smem Dm u = true <-> dom Gamma dopt w).
Proof.
  destruct dopt as [l|]; cbn [dom_set dom]; intros H u w C S.
  - destruct (alookup str_eqb l ctxs) as [X|] eqn:E; [|discriminate]. injection H as <-.
    rewrite smem_stab by (intros a b Sab; apply mem_agree, join_agree, Sab).
    rewrite (mem_Lpn_join c u w X C S). unfold ctx_Gamma. split.
    + intro Hm. exists X. split; [exact E | exact Hm].
    + intros [X' [E' Hm]]. rewrite E in E'. injection E' as <-. exact Hm.
  - injection H as <-. rewrite smem_s_full. tauto.
Qed.

(** the main induction: under an environment that matches the copies, the oracle's set is
    the set of states whose valuations satisfy the formula *)
Theorem sem_sound : forall t c d env X,
  depth_named d t -> d + qdepth t <= k ->
  sem n p upd names ctxs c env t = Ok X ->
  sspec (Dom c d env) X (sat G names Gamma t).
Proof.
  induction t as [a | o a IH | o a IHa b IHb | o x dopt a IH]; intros c d env X DN LE H.
  - (* atoms *)
    destruct a as [nm | x | | | l]; cbn [sem] in H; cbn [sat].
    + rewrite index_of_name_prop_index in H.
      destruct (prop_index nm names 0) as [i|] eqn:E; [|discriminate]. injection H as <-.
      assert (Hi : i < n) by (apply prop_index_bound in E; lia).
      apply sspec_stab.
      * intros u w S. symmetry. apply S, Hi.
      * intros v _. split.
        -- intro Hv. exists i. split; [reflexivity | exact Hv].
        -- intros [i' [E' Hv]]. injection E' as <-. exact Hv.
    + cbn [depth_named] in DN. destruct DN as [e [He ->]].
      destruct (alookup str_eqb (xs (S e)) env) as [u|] eqn:E; [|discriminate]. injection H as <-.
      apply sspec_stab.
      * intros a b S. apply state_eqb_agree_l, S.
      * intros v [C EO]. destruct (EO e He) as [u' [E' Hc]]. rewrite E in E'. injection E' as <-.
        rewrite state_eqb_iff. split.
        -- intro S. exists e. split; [apply var_of_xs; lia|].
           unfold copy_is_state. cbn [g_n mk_genv]. intros i Hi. rewrite (Hc i Hi). symmetry. apply S, Hi.
        -- intros [e' [Ev Hcs]]. rewrite var_of_xs in Ev by lia. injection Ev as <-.
           unfold copy_is_state in Hcs. cbn [g_n mk_genv] in Hcs.
           intros i Hi. rewrite <- (Hc i Hi). symmetry. apply Hcs, Hi.
    + injection H as <-. apply sspec_full.
    + injection H as <-. apply sspec_empty.
    + destruct (alookup str_eqb l ctxs) as [Y|] eqn:E; [|discriminate]. injection H as <-.
      apply sspec_stab.
      * intros a b S. apply mem_agree, join_agree, S.
      * intros v [C _]. rewrite (mem_Lpn_join c v v Y C (state_is_refl v)). unfold ctx_Gamma. split.
        -- intro Hm. exists Y. split; [exact E | exact Hm].
        -- intros [Y' [E' Hm]]. rewrite E in E'. injection E' as <-. exact Hm.
  - (* unary operators *)
    cbn [sem] in H.
    destruct (sem n p upd names ctxs c env a) as [A| | |] eqn:EA; cbn [bind] in H; try discriminate.
    cbn [depth_named] in DN. cbn [qdepth] in LE.
    pose proof (IH c d env A DN LE EA) as HA.
    pose proof (Dom_col c d env) as DC. pose proof (Dom_flip c d env) as DF.
    destruct o; cbn [sat].
    + injection H as <-. apply sspec_not, HA.
    + injection H as <-. eapply sspec_ex; eassumption.
    + injection H as <-. eapply sspec_ax; eassumption.
    + unfold EFs. eapply sspec_eu; [exact DC | exact DF | apply sspec_full | exact HA | exact H].
    + unfold AFs. eapply sspec_au; [exact DC | exact DF | apply sspec_full | exact HA | exact H].
    + eapply sspec_eg; eassumption.
    + eapply sspec_ag; eassumption.
  - (* binary operators *)
    cbn [sem] in H.
    destruct (sem n p upd names ctxs c env a) as [A| | |] eqn:EA; cbn [bind] in H; try discriminate.
    destruct (sem n p upd names ctxs c env b) as [B| | |] eqn:EB; cbn [bind] in H; try discriminate.
    cbn [depth_named] in DN. destruct DN as [DNa DNb]. cbn [qdepth] in LE.
    pose proof (IHa c d env A DNa ltac:(lia) EA) as HA.
    pose proof (IHb c d env B DNb ltac:(lia) EB) as HB.
    pose proof (Dom_col c d env) as DC. pose proof (Dom_flip c d env) as DF.
    destruct o; cbn [sat].
    + injection H as <-. apply sspec_and; assumption.
    + injection H as <-. apply sspec_or; assumption.
    + injection H as <-. apply sspec_xor; assumption.
    + injection H as <-. apply sspec_imp; assumption.
    + injection H as <-. apply sspec_iff; assumption.
    + eapply sspec_eu; eassumption.
    + eapply sspec_au; eassumption.
    + eapply sspec_ew; eassumption.
    + eapply sspec_aw; eassumption.
  - (* hybrid operators *)
    destruct o.
    + (* bind *)
      cbn [depth_named is_quantifier] in DN. destruct DN as [-> DN]. cbn [qdepth is_quantifier] in LE.
      cbn [sem] in H.
      destruct (dom_set n p ctxs c dopt) as [Dm| | |] eqn:ED; cbn [bind] in H; try discriminate.
      destruct (for_states (filter (smem Dm) (all_states n))
                  (fun u => sem n p upd names ctxs c ((xs (S d), u) :: env) a)) as [rs| | |] eqn:ER;
        cbn [bind] in H; try discriminate.
      injection H as <-. destruct (for_states_spec _ _ _ ER) as [R1 R2].
      pose proof (dom_set_spec c dopt Dm ED) as HD.
      apply sspec_stab.
      * intros u w S. apply existsb_ext_fun. intros [u0 A0]. cbn [fst snd].
        rewrite (state_eqb_agree u0 u w S), (smem_agree A0 w u S). reflexivity.
      * intros v Dv. pose proof Dv as [C EO]. rewrite existsb_exists. cbn [sat]. split.
        -- intros [[u A] [Hin Hb]]. cbn [fst snd] in Hb. apply andb_true_iff in Hb.
           destruct Hb as [Hs Hm]. apply state_eqb_iff in Hs.
           destruct (R1 u A Hin) as [Hf Hsem]. apply filter_In in Hf. destruct Hf as [_ HDm].
           assert (Sv : state_is u v) by (apply state_is_sym, Hs).
           exists d. split; [apply var_of_xs; lia|]. split; [apply (HD u v C Sv), HDm|].
           destruct (IH c (S d) _ A DN ltac:(lia) Hsem) as [_ EA].
           apply (EA _ (Dom_set_copy c d env u v v Dv Sv)).
           rewrite <- Hm. apply smem_agree. intros i Hi. reflexivity.
        -- intros [e [Ev [Hd Hs]]]. rewrite var_of_xs in Ev by lia. injection Ev as <-.
           destruct (all_vals_complete Ln v) as [u [Hu Ag]]. apply agree_Ln in Ag.
           assert (Sv : state_is u v) by (apply state_is_sym, Ag).
           assert (Hf : In u (filter (smem Dm) (all_states n))).
           { apply filter_In. split; [exact Hu | apply (HD u v C Sv), Hd]. }
           destruct (R2 u Hf) as [A [Hin Hsem]]. exists (u, A). split; [exact Hin|]. cbn [fst snd].
           apply andb_true_iff. split; [apply state_eqb_iff, Ag|].
           destruct (IH c (S d) _ A DN ltac:(lia) Hsem) as [_ EA].
           apply (EA _ (Dom_set_copy c d env u v v Dv Sv)) in Hs.
           rewrite <- Hs. apply smem_agree. intros i Hi. reflexivity.
    + (* jump *)
      cbn [depth_named is_quantifier] in DN. destruct DN as [[e [He ->]] DN].
      cbn [qdepth is_quantifier] in LE. cbn [sem] in H.
      destruct (alookup str_eqb (xs (S e)) env) as [u|] eqn:E; [|discriminate].
      destruct (sem n p upd names ctxs c env a) as [A| | |] eqn:EA; cbn [bind] in H; try discriminate.
      injection H as <-. destruct (IH c d env A DN LE EA) as [_ EAq].
      apply sspec_const. intros v Dv. pose proof Dv as [C EO].
      destruct (EO e He) as [u' [E' Hc]]. rewrite E in E'. injection E' as <-.
      assert (Hag : smem A (set_state e v) = smem A u).
      { apply smem_agree. intros i Hi. cbn [set_state]. apply Hc, Hi. }
      cbn [sat]. split.
      * intro Hm. exists e. split; [apply var_of_xs; lia|].
        apply (EAq _ (Dom_set_state c d env e v Dv)). rewrite Hag. exact Hm.
      * intros [e' [Ev Hs]]. rewrite var_of_xs in Ev by lia. injection Ev as <-.
        apply (EAq _ (Dom_set_state c d env e v Dv)) in Hs. rewrite <- Hag. exact Hs.
    + (* exists *)
      cbn [depth_named is_quantifier] in DN. destruct DN as [-> DN]. cbn [qdepth is_quantifier] in LE.
      cbn [sem] in H.
      destruct (dom_set n p ctxs c dopt) as [Dm| | |] eqn:ED; cbn [bind] in H; try discriminate.
      destruct (for_states (filter (smem Dm) (all_states n))
                  (fun u => sem n p upd names ctxs c ((xs (S d), u) :: env) a)) as [rs| | |] eqn:ER;
        cbn [bind] in H; try discriminate.
      injection H as <-. destruct (for_states_spec _ _ _ ER) as [R1 R2].
      pose proof (dom_set_spec c dopt Dm ED) as HD.
      apply sspec_stab.
      * intros u w S. apply existsb_ext_fun. intros [u0 A0]. cbn [fst snd]. symmetry. apply (smem_agree A0 w u S).
      * intros v Dv. pose proof Dv as [C EO]. rewrite existsb_exists. cbn [sat]. split.
        -- intros [[u A] [Hin Hm]]. cbn [snd] in Hm.
           destruct (R1 u A Hin) as [Hf Hsem]. apply filter_In in Hf. destruct Hf as [_ HDm].
           exists d. split; [apply var_of_xs; lia|]. exists u. split.
           ++ apply (HD u (with_state u v)); [intros j Hj; apply C, Hj | intros i Hi; reflexivity | exact HDm].
           ++ destruct (IH c (S d) _ A DN ltac:(lia) Hsem) as [_ EA].
              apply (EA _ (Dom_set_copy c d env u u v Dv (state_is_refl u))).
              rewrite <- Hm. apply smem_agree. intros i Hi. reflexivity.
        -- intros [e [Ev [u0 [Hd Hs]]]]. rewrite var_of_xs in Ev by lia. injection Ev as <-.
           destruct (all_vals_complete Ln u0) as [u [Hu Ag]]. apply agree_Ln in Ag.
           assert (Sv : state_is u u0) by (apply state_is_sym, Ag).
           assert (Hf : In u (filter (smem Dm) (all_states n))).
           { apply filter_In. split; [exact Hu|].
             apply (HD u (with_state u0 v)); [intros j Hj; apply C, Hj | intros i Hi; apply Sv, Hi | exact Hd]. }
           destruct (R2 u Hf) as [A [Hin Hsem]]. exists (u, A). split; [exact Hin|]. cbn [snd].
           destruct (IH c (S d) _ A DN ltac:(lia) Hsem) as [_ EA].
           apply (EA _ (Dom_set_copy c d env u u0 v Dv Sv)) in Hs.
           rewrite <- Hs. apply smem_agree. intros i Hi. reflexivity.
    + (* forall *)
      cbn [depth_named is_quantifier] in DN. destruct DN as [-> DN]. cbn [qdepth is_quantifier] in LE.
      cbn [sem] in H.
      destruct (dom_set n p ctxs c dopt) as [Dm| | |] eqn:ED; cbn [bind] in H; try discriminate.
      destruct (for_states (filter (smem Dm) (all_states n))
                  (fun u => sem n p upd names ctxs c ((xs (S d), u) :: env) a)) as [rs| | |] eqn:ER;
        cbn [bind] in H; try discriminate.
      injection H as <-. destruct (for_states_spec _ _ _ ER) as [R1 R2].
      pose proof (dom_set_spec c dopt Dm ED) as HD.
      apply sspec_stab.
      * intros u w S. apply forallb_ext_fun. intros [u0 A0]. cbn [fst snd]. symmetry. apply (smem_agree A0 w u S).
      * intros v Dv. pose proof Dv as [C EO]. rewrite forallb_forall. cbn [sat]. split.
        -- intro Hall. exists d. split; [apply var_of_xs; lia|]. intros u0 Hd.
           destruct (all_vals_complete Ln u0) as [u [Hu Ag]]. apply agree_Ln in Ag.
           assert (Sv : state_is u u0) by (apply state_is_sym, Ag).
           assert (Hf : In u (filter (smem Dm) (all_states n))).
           { apply filter_In. split; [exact Hu|].
             apply (HD u (with_state u0 v)); [intros j Hj; apply C, Hj | intros i Hi; apply Sv, Hi | exact Hd]. }
           destruct (R2 u Hf) as [A [Hin Hsem]]. specialize (Hall (u, A) Hin). cbn [snd] in Hall.
           destruct (IH c (S d) _ A DN ltac:(lia) Hsem) as [_ EA].
           apply (EA _ (Dom_set_copy c d env u u0 v Dv Sv)).
           rewrite <- Hall. apply smem_agree. intros i Hi. reflexivity.
        -- intros [e [Ev Hall]] [u A] Hin. rewrite var_of_xs in Ev by lia. injection Ev as <-. cbn [snd].
           destruct (R1 u A Hin) as [Hf Hsem]. apply filter_In in Hf. destruct Hf as [_ HDm].
           assert (Hd : dom Gamma dopt (with_state u v)).
           { apply (HD u (with_state u v)); [intros j Hj; apply C, Hj | intros i Hi; reflexivity | exact HDm]. }
           specialize (Hall u Hd).
           destruct (IH c (S d) _ A DN ltac:(lia) Hsem) as [_ EA].
           apply (EA _ (Dom_set_copy c d env u u v Dv (state_is_refl u))) in Hall.
           rewrite <- Hall. apply smem_agree. intros i Hi. reflexivity.
Qed.

(** ** corollaries: one colour, the valuation [lift c rho s] *)

Lemma smem_lift X c rho s : smem X (lift c rho s) = smem X s.
Proof. apply smem_agree. intros i Hi. reflexivity. Qed.

Lemma agree_join_lift c rho s : agree Lpn (join c s) (lift c rho s).
Proof.
  intros g Hg. apply in_Lpn in Hg. destruct Hg as [[j [Hj ->]]|[i [Hi ->]]]; reflexivity.
Qed.

(** [env] gives the variable of depth [e] the state [rho e], which [lift] stores in copy [e] *)
Theorem sem_lift t c d env rho X :
  depth_named d t -> d + qdepth t <= k ->
  (forall e, e < d -> alookup str_eqb (xs (S e)) env = Some (rho e)) ->
  sem n p upd names ctxs c env t = Ok X ->
  shaped Ln X /\ forall s, smem X s = true <-> sat G names Gamma t (lift c rho s).
Proof.
  intros DN LE Henv H. destruct (sem_sound t c d env X DN LE H) as [SX EX]. split; [exact SX|].
  intro s. rewrite <- (smem_lift X c rho s). apply EX. split.
  - intros j Hj. reflexivity.
  - intros e He. exists (rho e). split; [apply Henv, He | intros i Hi; reflexivity].
Qed.

(** closed formulae: any valuation of colour [c] *)
Theorem sem_closed t c X :
  depth_named 0 t -> qdepth t <= k ->
  sem n p upd names ctxs c [] t = Ok X ->
  shaped Ln X /\ forall v, col_is c v -> (smem X v = true <-> sat G names Gamma t v).
Proof.
  intros DN LE H. destruct (sem_sound t c 0 [] X DN LE H) as [SX EX]. split; [exact SX|].
  intros v C. apply EX. split; [exact C | intros e He; lia].
Qed.

(** ** all colours: [assemble] and [sem_eval] *)

Lemma existsb_tag_in g L : In g L -> existsb (tag_eqb g) L = true.
Proof. intro H. apply existsb_exists. exists g. split; [exact H | apply tag_eqb_refl]. Qed.

Lemma assemble_spec t : depth_named 0 t -> qdepth t <= k ->
  forall ps c r, assemble n p upd names ctxs ps c t = Ok r ->
  shaped (ps ++ Ln) r /\
  forall v, exists c' X,
    (forall g, c' g = if existsb (tag_eqb g) ps then v g else c g) /\
    sem n p upd names ctxs c' [] t = Ok X /\ mem (ps ++ Ln) r v = smem X v.
Proof.
  intros DN LE. induction ps as [|h ps IH]; intros c r H; cbn [assemble] in H.
  - split; [apply (sem_closed t c r DN LE H)|].
    intro v. exists c, r. split; [intro g; reflexivity|]. split; [exact H | reflexivity].
  - destruct (assemble n p upd names ctxs ps (fun g => if tag_eqb g h then false else c g) t)
      as [lo| | |] eqn:Elo; cbn [bind] in H; try discriminate.
    destruct (assemble n p upd names ctxs ps (fun g => if tag_eqb g h then true else c g) t)
      as [hi| | |] eqn:Ehi; cbn [bind] in H; try discriminate.
    injection H as <-. destruct (IH _ _ Elo) as [Slo Mlo]. destruct (IH _ _ Ehi) as [Shi Mhi].
    split; [cbn [app shaped]; split; assumption|].
    intro v. cbn [app mem]. destruct (v h) eqn:Vh.
    + destruct (Mhi v) as [c' [X [Hc [Hs Hm]]]]. exists c', X. split; [|split; assumption].
      intro g. rewrite Hc. cbn [existsb]. destruct (existsb (tag_eqb g) ps); [rewrite orb_true_r; reflexivity|].
      rewrite orb_false_r. destruct (tag_eqb g h) eqn:E; [|reflexivity].
      apply tag_eqb_eq in E. subst g. symmetry. exact Vh.
    + destruct (Mlo v) as [c' [X [Hc [Hs Hm]]]]. exists c', X. split; [|split; assumption].
      intro g. rewrite Hc. cbn [existsb]. destruct (existsb (tag_eqb g) ps); [rewrite orb_true_r; reflexivity|].
      rewrite orb_false_r. destruct (tag_eqb g h) eqn:E; [|reflexivity].
      apply tag_eqb_eq in E. subst g. symmetry. exact Vh.
Qed.

(** the specified answer is the set of (colour, state) pairs of the unit that satisfy the formula *)
Theorem sem_eval_sound unit_pn t R :
  shaped Lpn unit_pn -> depth_named 0 t -> qdepth t <= k ->
  sem_eval n p upd names ctxs unit_pn t = Ok R ->
  shaped Lpn R /\
  forall v, mem Lpn R v = true <-> (mem Lpn unit_pn v = true /\ sat G names Gamma t v).
Proof.
  intros SU DN LE H. unfold sem_eval in H.
  destruct (assemble n p upd names ctxs (Lp p) (fun _ => false) t) as [r| | |] eqn:E;
    cbn [bind] in H; try discriminate.
  injection H as <-. destruct (assemble_spec t DN LE _ _ _ E) as [Sr Mr].
  change (Lp p ++ Ln) with Lpn in Sr, Mr.
  split; [apply shaped_tand; assumption|].
  intro v. rewrite mem_tand by assumption. rewrite andb_true_iff.
  destruct (Mr v) as [c' [X [Hc [Hs Hm]]]]. rewrite Hm.
  assert (C : col_is c' v).
  { intros j Hj. rewrite Hc. rewrite existsb_tag_in; [reflexivity|].
    unfold Lp. apply in_map, in_range, Hj. }
  destruct (sem_closed t c' X DN LE Hs) as [_ EX]. rewrite (EX v C). tauto.
Qed.

Theorem sem_eval_lift unit_pn t R :
  shaped Lpn unit_pn -> depth_named 0 t -> qdepth t <= k ->
  sem_eval n p upd names ctxs unit_pn t = Ok R ->
  forall c rho s, mem Lpn R (join c s) = true <->
    (mem Lpn unit_pn (join c s) = true /\ sat G names Gamma t (lift c rho s)).
Proof.
  intros SU DN LE H c rho s. destruct (sem_eval_sound unit_pn t R SU DN LE H) as [_ E].
  rewrite !(mem_agree Lpn _ _ _ (agree_join_lift c rho s)). apply E.
Qed.

(** ** the domain of the valuations [lift c rho s]: colour [c], copies [rho], any state
    (closed under moves; predicates need not respect pointwise equality of valuations) *)
Definition lift_dom (c : val) (rho : nat -> val) (v : val) : Prop :=
  (forall j, v (TP j) = c (TP j)) /\ (forall i e, v (TX i e) = rho e (TS i)).

Lemma lift_dom_col c rho v : lift_dom c rho v -> col_is c v.
Proof. intros [C _] j _. apply C. Qed.

Lemma lift_dom_flip c rho v i : lift_dom c rho v -> lift_dom c rho (vflip (TS i) v).
Proof. intros [C E]. split; [intro j; apply C | intros i' e; apply E]. Qed.

Lemma lift_dom_lift c rho s : lift_dom c rho (lift c rho s).
Proof. split; intros; reflexivity. Qed.

Lemma sspec_lift c rho X P : sspec (lift_dom c rho) X P ->
  forall s, smem X s = true <-> P (lift c rho s).
Proof. intros [_ E] s. rewrite <- (smem_lift X c rho s). apply E, lift_dom_lift. Qed.

End Oracle.
