(** Facts about [mark_duplicates] (Model/MarkDup.v): every key it reports is the key of a
    sub-formula occurrence of the input, reported with a counter of at least one
    ([mark_duplicates_sound]); stronger, a counter [n] is witnessed by [n + 1] distinct
    occurrences (positions) with that key ([mark_duplicates_count]). *)
From HCTL Require Import Base Syntax Canon MarkDup.
From HCTL Require EvalPure.

(** * 1. Occurrences *)

(** the nodes the traversal can reach: the roots with the empty domain map, and the children
    of a reachable node with the domain map [children] computes *)
Inductive occ (roots : list tree) : hnode -> Prop :=
| occ_root : forall t, In t roots -> occ roots (t, [])
| occ_child : forall t doms ch,
    occ roots (t, doms) -> In ch (children t doms) -> occ roots ch.

Inductive subtree : tree -> tree -> Prop :=
| sub_refl : forall t, subtree t t
| sub_unary : forall s o c, subtree s c -> subtree s (Unary o c)
| sub_left : forall s o l r, subtree s l -> subtree s (Binary o l r)
| sub_right : forall s o l r, subtree s r -> subtree s (Binary o l r)
| sub_hybrid : forall s o x d c, subtree s c -> subtree s (Hybrid o x d c).

Lemma subtree_trans (a b c : tree) : subtree a b -> subtree b c -> subtree a c.
Proof.
  intros AB BC. induction BC; [exact AB | | | |].
  - apply sub_unary; auto.
  - apply sub_left; auto.
  - apply sub_right; auto.
  - apply sub_hybrid; auto.
Qed.

Lemma children_subtree (t : tree) (doms : dommap) (ch : hnode) :
  In ch (children t doms) -> subtree (fst ch) t.
Proof.
  destruct t as [a | o c | o l r | o x d c]; cbn [children In].
  - intros [].
  - intros [<- | []]. cbn [fst]. apply sub_unary, sub_refl.
  - intros [<- | [<- | []]]; cbn [fst]; [apply sub_left | apply sub_right]; apply sub_refl.
  - destruct o; cbn [In]; intros [<- | []]; cbn [fst]; apply sub_hybrid, sub_refl.
Qed.

Lemma occ_subtree (roots : list tree) (n : hnode) :
  occ roots n -> exists t, In t roots /\ subtree (fst n) t.
Proof.
  intro H. induction H as [t IN | t doms ch _ IH IN].
  - exists t. split; [exact IN | apply sub_refl].
  - destruct IH as (r & INr & SUB). exists r. split; [exact INr|].
    eapply subtree_trans; [eapply children_subtree; exact IN | exact SUB].
Qed.

(** * 2. Lists *)

Lemma in_aremove {A B} (eqb : A -> A -> bool) (k : A) (l : list (A * B)) (p : A * B) :
  In p (aremove eqb k l) -> In p l.
Proof.
  induction l as [|[k' v] l IH]; cbn [aremove]; [intros []|].
  destruct (eqb k k'); cbn [In]; [intro H; right; exact (IH H)|].
  intros [E | H]; [left; exact E | right; exact (IH H)].
Qed.

Lemma pop_height_in (h : nat) (q : list hnode) :
  forall x q', pop_height h q = Some (x, q') -> In x q /\ forall y, In y q' -> In y q.
Proof.
  induction q as [|a q IH]; intros x q' H; cbn [pop_height] in H; [discriminate|].
  destruct (Nat.eqb (height (fst a)) h).
  - injection H as <- <-. split; [left; reflexivity | intros y IN; right; exact IN].
  - destruct (pop_height h q) as [[y r]|] eqn:P; [|discriminate].
    injection H as <- <-. destruct (IH y r eq_refl) as [INy SUB]. split; [right; exact INy|].
    intros z [<- | IN]; [left; reflexivity | right; apply SUB, IN].
Qed.

(** * 3. Soundness of the reported keys *)

Definition dups_ok (roots : list tree) (dups : list (key * nat)) : Prop :=
  forall k n, In (k, n) dups ->
    1 <= n /\ exists t doms, occ roots (t, doms) /\ fst (node_key t doms) = k.

Lemma incr_dup_ok (roots : list tree) (k : key) (dups : list (key * nat)) (t : tree) (doms : dommap) :
  occ roots (t, doms) -> fst (node_key t doms) = k ->
  dups_ok roots dups -> dups_ok roots (incr_dup k dups).
Proof.
  intros OCC KEY OK k' n' IN. unfold incr_dup, ainsert in IN.
  destruct (alookup key_eqb k dups) as [n|]; cbn [In] in IN; destruct IN as [E | IN];
    try (apply OK; eapply in_aremove; exact IN);
    injection E as <- <-; (split; [lia|]); exists t, doms; split; assumption.
Qed.

Lemma mark_loop_ok (roots : list tree) :
  forall fuel queue last_h same dups,
    (forall x, In x queue -> occ roots x) -> dups_ok roots dups ->
    dups_ok roots (mark_loop fuel queue last_h same dups).
Proof.
  induction fuel as [|fuel IH]; intros queue last_h same dups Q D; cbn [mark_loop]; [exact D|].
  destruct (pop_height (max_height queue) queue) as [[[t doms] queue']|] eqn:P; [|exact D].
  destruct (pop_height_in _ _ _ _ P) as [INx SUB].
  assert (forall x, In x queue' -> occ roots x) as Q' by (intros x IN; apply Q, SUB, IN).
  assert (forall x, In x (queue' ++ children t doms) -> occ roots x) as Q''.
  { intros x IN. apply in_app_or in IN. destruct IN as [IN | IN]; [apply Q', IN|].
    eapply occ_child; [apply Q, INx | exact IN]. }
  destruct (is_terminal t && negb (is_wild_terminal t)); [apply IH; assumption|].
  destruct (node_key t doms) as [k ren] eqn:NK.
  destruct (Nat.eqb last_h (height t)); [|apply IH; assumption].
  destruct (Nat.leb (length ren) 1 && existsb (key_eqb k) same); [|apply IH; assumption].
  apply IH; [exact Q'|]. eapply incr_dup_ok; [apply Q, INx | rewrite NK; reflexivity | exact D].
Qed.

Theorem mark_duplicates_sound (roots : list tree) :
  forall k n, In (k, n) (mark_duplicates roots) ->
    1 <= n /\ exists t doms, occ roots (t, doms) /\ fst (node_key t doms) = k.
Proof.
  unfold mark_duplicates. apply mark_loop_ok.
  - intros x IN. apply in_map_iff in IN. destruct IN as (t & <- & IN). apply occ_root, IN.
  - intros k n [].
Qed.

(** * 4. Counting: a counter [n] is witnessed by [n + 1] distinct positions *)

(** a position: the index of a root, then child indices *)
Definition pos := list nat.

Fixpoint walk (n : hnode) (p : list nat) : option hnode :=
  match p with
  | [] => Some n
  | i :: p' =>
      match nth_error (children (fst n) (snd n)) i with
      | Some ch => walk ch p'
      | None => None
      end
  end.

Definition node_at (roots : list tree) (p : pos) : option hnode :=
  match p with
  | [] => None
  | i :: p' =>
      match nth_error roots i with
      | Some t => walk (t, []) p'
      | None => None
      end
  end.

Definition has_key (roots : list tree) (k : key) (p : pos) : Prop :=
  exists t doms, node_at roots p = Some (t, doms) /\ fst (node_key t doms) = k.

Lemma walk_snoc (p : list nat) (i : nat) :
  forall n, walk n (p ++ [i])
            = match walk n p with
              | Some m => nth_error (children (fst m) (snd m)) i
              | None => None
              end.
Proof.
  induction p as [|j p IH]; intro n; cbn [app walk].
  - destruct (nth_error (children (fst n) (snd n)) i); reflexivity.
  - destruct (nth_error (children (fst n) (snd n)) j) as [ch|]; [apply IH | reflexivity].
Qed.

Lemma node_at_snoc (roots : list tree) (p : pos) (i : nat) :
  p <> [] ->
  node_at roots (p ++ [i])
  = match node_at roots p with
    | Some m => nth_error (children (fst m) (snd m)) i
    | None => None
    end.
Proof.
  intro NE. destruct p as [|j p]; [congruence|]. cbn [app node_at].
  destruct (nth_error roots j) as [t|]; [apply walk_snoc | reflexivity].
Qed.

Lemma walk_occ (roots : list tree) (p : list nat) :
  forall n x, occ roots n -> walk n p = Some x -> occ roots x.
Proof.
  induction p as [|i p IH]; intros n x O W; cbn [walk] in W.
  - injection W as <-. exact O.
  - destruct (nth_error (children (fst n) (snd n)) i) as [ch|] eqn:NTH; [|discriminate].
    apply (IH ch x); [|exact W]. destruct n as [t doms]. cbn [fst snd] in NTH.
    eapply occ_child; [exact O | eapply nth_error_In; exact NTH].
Qed.

Lemma node_at_occ (roots : list tree) (p : pos) (x : hnode) :
  node_at roots p = Some x -> occ roots x.
Proof.
  destruct p as [|i p]; cbn [node_at]; [discriminate|].
  destruct (nth_error roots i) as [t|] eqn:NTH; [|discriminate].
  apply walk_occ. apply occ_root. eapply nth_error_In; exact NTH.
Qed.

(** ** boolean equality of keys *)

Lemma list_eqb_eq {A} (eqb : A -> A -> bool) :
  (forall x y, eqb x y = true -> x = y) ->
  forall a b, list_eqb eqb a b = true -> a = b.
Proof.
  intros R. induction a as [|x a IH]; intros [|y b] H; cbn [list_eqb] in H;
    try discriminate; [reflexivity|].
  apply andb_true_iff in H. destruct H as [E1 E2]. rewrite (R x y E1), (IH b E2). reflexivity.
Qed.

Lemma key_eqb_eq (a b : key) : key_eqb a b = true -> a = b.
Proof.
  destruct a as [s1 d1], b as [s2 d2]. unfold key_eqb. cbn [fst snd]. intro H.
  apply andb_true_iff in H. destruct H as [E1 E2].
  apply EvalPure.str_eqb_eq in E1. subst s2. f_equal.
  apply (list_eqb_eq dom_entry_eqb); [|exact E2].
  intros [x ox] [y oy] E. unfold dom_entry_eqb in E. cbn [fst snd] in E.
  apply andb_true_iff in E. destruct E as [Ea Eb]. apply EvalPure.str_eqb_eq in Ea. subst y.
  destruct ox as [u|], oy as [v|]; cbn [opt_eqb] in Eb; try discriminate; [|reflexivity].
  apply EvalPure.str_eqb_eq in Eb. subst v. reflexivity.
Qed.

Lemma alookup_key_in {B} (k : key) (l : list (key * B)) (v : B) :
  alookup key_eqb k l = Some v -> In (k, v) l.
Proof.
  induction l as [|[k' v'] l IH]; cbn [alookup]; [discriminate|].
  destruct (key_eqb k k') eqn:E.
  - intro H. injection H as <-. apply key_eqb_eq in E. subst k'. left. reflexivity.
  - intro H. right. exact (IH H).
Qed.

(** ** lists of positions *)

Lemma pop_height_split (h : nat) (q : list hnode) :
  forall x q', pop_height h q = Some (x, q') ->
               exists q1 q2, q = q1 ++ x :: q2 /\ q' = q1 ++ q2.
Proof.
  induction q as [|a q IH]; intros x q' H; cbn [pop_height] in H; [discriminate|].
  destruct (Nat.eqb (height (fst a)) h).
  - injection H as <- <-. exists [], q. split; reflexivity.
  - destruct (pop_height h q) as [[y r]|] eqn:P; [|discriminate].
    injection H as <- <-. destruct (IH y r eq_refl) as (q1 & q2 & -> & ->).
    exists (a :: q1), q2. split; reflexivity.
Qed.

Lemma NoDup_app_intro {A} (a b : list A) :
  NoDup a -> NoDup b -> (forall x, In x a -> ~ In x b) -> NoDup (a ++ b).
Proof.
  induction a as [|x a IH]; intros Na Nb D; [exact Nb|].
  inversion Na as [|x' a' NIN Na' E]; subst. cbn [app]. constructor.
  - intro IN. apply in_app_or in IN. destruct IN as [IN|IN]; [exact (NIN IN)|].
    exact (D x (or_introl eq_refl) IN).
  - apply IH; [exact Na' | exact Nb|]. intros y IN. apply D. right. exact IN.
Qed.

Definition child_paths (p : pos) (lo n : nat) : list pos :=
  map (fun i => p ++ [i]) (seq lo n).

Lemma child_paths_in (p q : pos) (lo n : nat) :
  In q (child_paths p lo n) -> exists i, q = p ++ [i].
Proof.
  unfold child_paths. intro IN. apply in_map_iff in IN. destruct IN as (i & <- & _).
  exists i. reflexivity.
Qed.

Lemma child_paths_NoDup (p : pos) (lo n : nat) : NoDup (child_paths p lo n).
Proof.
  unfold child_paths. pose proof (seq_NoDup n lo) as ND.
  induction (seq lo n) as [|i l IH]; cbn [map]; [constructor|].
  inversion ND as [|i' l' NIN ND' E]; subst. constructor; [|apply IH, ND'].
  intro IN. apply in_map_iff in IN. destruct IN as (j & E & INj).
  apply app_inj_tail in E. destruct E as [_ ->]. exact (NIN INj).
Qed.

Lemma child_paths_nodes (roots : list tree) (p : pos) (x : hnode) :
  node_at roots p = Some x -> p <> [] ->
  forall l l0, children (fst x) (snd x) = l0 ++ l ->
    Forall2 (fun q y => node_at roots q = Some y) (child_paths p (length l0) (length l)) l.
Proof.
  intros AT NE. induction l as [|a l IH]; intros l0 E; cbn [length]; [constructor|].
  unfold child_paths. cbn [seq map]. constructor.
  - rewrite (node_at_snoc roots p (length l0) NE), AT, E.
    rewrite nth_error_app2 by lia. rewrite Nat.sub_diag. reflexivity.
  - specialize (IH (l0 ++ [a])). rewrite app_length in IH. cbn [length] in IH.
    replace (length l0 + 1) with (S (length l0)) in IH by lia.
    apply IH. rewrite <- app_assoc. exact E.
Qed.

Lemma root_paths_nodes (roots : list tree) :
  forall l l0, roots = l0 ++ l ->
    Forall2 (fun q y => node_at roots q = Some y) (child_paths [] (length l0) (length l))
            (map (fun t => (t, [] : dommap)) l).
Proof.
  induction l as [|a l IH]; intros l0 E; cbn [length map]; [constructor|].
  unfold child_paths. cbn [seq map app]. constructor.
  - cbn [node_at]. rewrite E. rewrite nth_error_app2 by lia. rewrite Nat.sub_diag. reflexivity.
  - specialize (IH (l0 ++ [a])). rewrite app_length in IH. cbn [length] in IH.
    replace (length l0 + 1) with (S (length l0)) in IH by lia.
    apply IH. rewrite <- app_assoc. exact E.
Qed.

(** ** the invariant of the loop *)

Definition count_ok (roots : list tree) (done : list pos) (dups : list (key * nat)) : Prop :=
  forall k n, In (k, n) dups ->
    1 <= n /\ exists ps, NoDup ps /\ length ps = S n
                         /\ forall p, In p ps -> In p done /\ has_key roots k p.

Definition same_ok (roots : list tree) (done : list pos) (same : list key) : Prop :=
  forall k, In k same -> exists p, In p done /\ has_key roots k p.

Definition cinv (roots : list tree) (queue : list hnode) (same : list key)
           (dups : list (key * nat)) : Prop :=
  exists (pq done : list pos),
    Forall2 (fun p x => node_at roots p = Some x) pq queue
    /\ NoDup pq /\ NoDup done /\ (forall q, In q pq -> ~ In q done)
    /\ (forall q i, q <> [] -> In (q ++ [i]) pq \/ In (q ++ [i]) done -> In q done)
    /\ same_ok roots done same
    /\ count_ok roots done dups.

Lemma count_ok_mono roots done done' dups :
  (forall p, In p done -> In p done') -> count_ok roots done dups -> count_ok roots done' dups.
Proof.
  intros SUB H k n IN. destruct (H k n IN) as (LE & ps & ND & LEN & ALL).
  split; [exact LE|]. exists ps. split; [exact ND|]. split; [exact LEN|].
  intros p INp. destruct (ALL p INp) as [D K]. split; [apply SUB, D | exact K].
Qed.

Lemma same_ok_mono roots done done' same :
  (forall p, In p done -> In p done') -> same_ok roots done same -> same_ok roots done' same.
Proof.
  intros SUB H k IN. destruct (H k IN) as (p & D & K). exists p. split; [apply SUB, D | exact K].
Qed.

Lemma count_ok_incr roots done dups same k p :
  ~ In p done -> has_key roots k p ->
  existsb (key_eqb k) same = true -> same_ok roots done same ->
  count_ok roots done dups -> count_ok roots (p :: done) (incr_dup k dups).
Proof.
  intros NIN HK EX SAME CNT k' n' IN. unfold incr_dup, ainsert in IN.
  assert (forall q, In q done -> In q (p :: done)) as SUB by (intros q H; right; exact H).
  destruct (alookup key_eqb k dups) as [n|] eqn:L; cbn [In] in IN; destruct IN as [E | IN];
    try (apply (count_ok_mono roots done (p :: done) dups SUB CNT);
         eapply in_aremove; exact IN).
  - injection E as <- <-. apply alookup_key_in in L.
    destruct (CNT k n L) as (LE & ps & ND & LEN & ALL). split; [lia|].
    exists (p :: ps). split; [|split].
    + constructor; [|exact ND]. intro INp. apply NIN. apply (ALL p INp).
    + cbn [length]. rewrite LEN. reflexivity.
    + intros q [<- | INq]; [split; [left; reflexivity | exact HK]|].
      destruct (ALL q INq) as [D K]. split; [right; exact D | exact K].
  - injection E as <- <-. split; [lia|].
    apply existsb_exists in EX. destruct EX as (k2 & INs & EQ). apply key_eqb_eq in EQ. subst k2.
    destruct (SAME k INs) as (p0 & D0 & K0).
    exists [p; p0]. split; [|split; [reflexivity|]].
    + constructor; [|constructor; [intros [] | constructor]].
      intros [E | []]. subst p0. exact (NIN D0).
    + intros q [<- | [<- | []]]; [split; [left; reflexivity | exact HK]|].
      split; [right; exact D0 | exact K0].
Qed.

Lemma mark_loop_count (roots : list tree) :
  forall fuel queue last_h same dups,
    cinv roots queue same dups ->
    exists done, count_ok roots done (mark_loop fuel queue last_h same dups).
Proof.
  induction fuel as [|fuel IH]; intros queue last_h same dups INV; cbn [mark_loop].
  { destruct INV as (pq & done & _ & _ & _ & _ & _ & _ & CNT). exists done. exact CNT. }
  destruct (pop_height (max_height queue) queue) as [[[t doms] queue']|] eqn:P.
  2:{ destruct INV as (pq & done & _ & _ & _ & _ & _ & _ & CNT). exists done. exact CNT. }
  destruct INV as (pq & done & F2 & NDq & NDd & DISJ & PAR & SAME & CNT).
  destruct (pop_height_split _ _ _ _ P) as (q1 & q2 & -> & ->).
  apply Forall2_app_inv_r in F2. destruct F2 as (pq1 & pq2' & F1 & F2 & ->).
  inversion F2 as [|p x pq2 q2' AT F2' E1 E2]; subst.
  (* facts about the popped position *)
  assert (p <> []) as NEp by (intro E; subst p; discriminate AT).
  pose proof (NoDup_remove _ _ _ NDq) as [NDq' NINp].
  assert (~ In p done) as NINd by (apply DISJ, in_or_app; right; left; reflexivity).
  assert (forall q, In q (pq1 ++ pq2) -> In q (pq1 ++ p :: pq2)) as SUBq.
  { intros q IN. apply in_app_or in IN. apply in_or_app.
    destruct IN as [IN|IN]; [left; exact IN | right; right; exact IN]. }
  assert (forall q, In q done -> In q (p :: done)) as SUBd by (intros q H; right; exact H).
  assert (NoDup (p :: done)) as NDd' by (constructor; assumption).
  assert (Forall2 (fun p x => node_at roots p = Some x) (pq1 ++ pq2) (q1 ++ q2)) as F'
    by (apply Forall2_app; assumption).
  assert (forall q, In q (pq1 ++ pq2) -> ~ In q (p :: done)) as DISJ'.
  { intros q IN [E | D]; [subst q; exact (NINp IN) | exact (DISJ q (SUBq q IN) D)]. }
  assert (forall q i, q <> [] -> In (q ++ [i]) (pq1 ++ pq2) \/ In (q ++ [i]) (p :: done) ->
                      In q (p :: done)) as PAR'.
  { intros q i NE [IN | [E | D]]; right.
    - apply (PAR q i NE). left. apply SUBq, IN.
    - apply (PAR q i NE). left. rewrite <- E. apply in_or_app. right. left. reflexivity.
    - apply (PAR q i NE). right. exact D. }
  assert (has_key roots (fst (node_key t doms)) p) as HK by (exists t, doms; split; [exact AT | reflexivity]).
  (* the node is dropped *)
  assert (forall same' dups', same_ok roots (p :: done) same' -> count_ok roots (p :: done) dups' ->
            cinv roots (q1 ++ q2) same' dups') as DROP.
  { intros same' dups' S' C'. exists (pq1 ++ pq2), (p :: done).
    split; [exact F'|]. split; [exact NDq'|]. split; [exact NDd'|]. split; [exact DISJ'|].
    split; [exact PAR'|]. split; [exact S' | exact C']. }
  (* the node is expanded *)
  assert (forall same', same_ok roots (p :: done) same' ->
            cinv roots ((q1 ++ q2) ++ children t doms) same' dups) as EXPAND.
  { intros same' S'.
    exists ((pq1 ++ pq2) ++ child_paths p 0 (length (children t doms))), (p :: done).
    split; [|split; [|split; [exact NDd'|split; [|split; [|split; [exact S'|]]]]]].
    - apply Forall2_app; [exact F'|].
      apply (child_paths_nodes roots p (t, doms) AT NEp (children t doms) []). reflexivity.
    - apply NoDup_app_intro; [exact NDq' | apply child_paths_NoDup|].
      intros q IN INc. apply child_paths_in in INc. destruct INc as (i & ->).
      apply NINd. apply (PAR p i NEp). left. apply SUBq, IN.
    - intros q IN. apply in_app_or in IN. destruct IN as [IN | INc]; [apply DISJ', IN|].
      apply child_paths_in in INc. destruct INc as (i & ->). intros [E | D].
      + apply (f_equal (@length nat)) in E. rewrite app_length in E. cbn [length] in E. lia.
      + apply NINd. apply (PAR p i NEp). right. exact D.
    - intros q i NE [IN | D]; [|apply (PAR' q i NE); right; exact D].
      apply in_app_or in IN. destruct IN as [IN | INc]; [apply (PAR' q i NE); left; exact IN|].
      apply child_paths_in in INc. destruct INc as (j & E).
      apply app_inj_tail in E. destruct E as [-> _]. left. reflexivity.
    - eapply count_ok_mono; [exact SUBd | exact CNT]. }
  destruct (is_terminal t && negb (is_wild_terminal t)).
  { apply IH. apply DROP; [eapply same_ok_mono; [exact SUBd | exact SAME]|].
    eapply count_ok_mono; [exact SUBd | exact CNT]. }
  destruct (node_key t doms) as [k ren] eqn:NK. cbn [fst] in HK.
  destruct (Nat.eqb last_h (height t)).
  - destruct (Nat.leb (length ren) 1 && existsb (key_eqb k) same) eqn:C.
    + apply andb_true_iff in C. destruct C as [_ EX].
      apply IH. apply DROP; [eapply same_ok_mono; [exact SUBd | exact SAME]|].
      apply (count_ok_incr roots done dups same k p); assumption.
    + apply IH. apply EXPAND. intros k' [<- | IN].
      * exists p. split; [left; reflexivity | exact HK].
      * destruct (SAME k' IN) as (p0 & D0 & K0). exists p0. split; [right; exact D0 | exact K0].
  - apply IH. apply EXPAND. intros k' [<- | []].
    exists p. split; [left; reflexivity | exact HK].
Qed.

Theorem mark_duplicates_count (roots : list tree) :
  forall k n, In (k, n) (mark_duplicates roots) ->
    1 <= n /\ exists ps : list pos,
                NoDup ps /\ length ps = S n /\ forall p, In p ps -> has_key roots k p.
Proof.
  intros k n IN. unfold mark_duplicates in IN.
  destruct (mark_loop_count roots (S (sum_sizes roots)) (map (fun t => (t, [] : dommap)) roots)
              (max_height (map (fun t => (t, [] : dommap)) roots)) [] []) as (done & CNT).
  - exists (child_paths [] 0 (length roots)), [].
    split; [apply (root_paths_nodes roots roots []); reflexivity|].
    split; [apply child_paths_NoDup|]. split; [constructor|]. split; [intros q _ []|].
    split; [|split; [intros k' [] | intros k' n' []]].
    intros q i NE [INc | []]. apply child_paths_in in INc. destruct INc as (j & E).
    cbn [app] in E. change [j] with ([] ++ [j]) in E. apply app_inj_tail in E.
    destruct E as [-> _]. congruence.
  - destruct (CNT k n IN) as (LE & ps & ND & LEN & ALL). split; [exact LE|].
    exists ps. split; [exact ND|]. split; [exact LEN|]. intros p INp. apply (ALL p INp).
Qed.
