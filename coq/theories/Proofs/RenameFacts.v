(** Syntactic facts behind the sub-formula cache (property C04):
    - the keys of the renaming map are names of the tree ([keys_ctree]),
    - two sub-formulae of preprocessed formulae ([depth_named]) with the same canonical tree
      have renaming maps of the same shape ([ctree_sim]): the bound names correspond by
      relative quantifier depth, the free names by their canonical names,
    - hence "the renaming map has at most one entry" is a property of the canonical text
      ([single_transfer]) -- the test [renaming.len() <= 1] of mark_duplicates.rs does not
      depend on which occurrence is looked at,
    - two such sub-formulae with an at most one-entry map are the same skeleton with one name
      replaced ([hit_shape]). *)
From HCTL Require Import Base Syntax Preprocess Canon.
From HCTL Require Import PrepFacts RoundTrip CanonFacts CanonAlpha.

(** * 1. keys of the final map: initial keys or names of the tree *)

Lemma keys_cbind x y s :
  alookup str_eqb y (snd (snd (cbind x s))) <> None -> y = x \/ alookup str_eqb y (snd s) <> None.
Proof.
  unfold cbind. cbn [snd]. rewrite alookup_ainsert. destruct (str_eqb y x) eqn:E.
  - str_eq. left. exact E.
  - right. exact H.
Qed.

Lemma keys_cocc x y s :
  alookup str_eqb y (snd (snd (cocc x s))) <> None -> y = x \/ alookup str_eqb y (snd s) <> None.
Proof.
  unfold cocc. destruct (alookup str_eqb x (snd s)); [right; exact H | apply keys_cbind].
Qed.

Lemma keys_ctree t : forall s y,
  alookup str_eqb y (snd (snd (ctree t s))) <> None ->
  alookup str_eqb y (snd s) <> None \/ occurs y t.
Proof.
  induction t as [a | o c IH | o l IHl r IHr | o x d c IH]; intros s y; cbn [ctree occurs].
  - destruct a as [p | x | | | w]; try (intro H; left; exact H).
    pose proof (keys_cocc x y s) as K. destruct (cocc x s) as [cn s']. cbn [snd] in *.
    intro H. destruct (K H) as [E | E]; [right; exact E | left; exact E].
  - specialize (IH s y). destruct (ctree c s) as [c' s']. exact IH.
  - specialize (IHl s y). destruct (ctree l s) as [l' s1]. cbn [snd] in *.
    specialize (IHr s1 y). destruct (ctree r s1) as [r' s2]. cbn [snd] in *.
    intro H. destruct (IHr H) as [H1 | H1]; [|right; right; exact H1].
    destruct (IHl H1) as [H2 | H2]; [left; exact H2 | right; left; exact H2].
  - assert (alookup str_eqb y (snd (snd (if is_quantifier o then cbind x s else cocc x s))) <> None ->
            y = x \/ alookup str_eqb y (snd s) <> None) as K
      by (destruct (is_quantifier o); [apply keys_cbind | apply keys_cocc]).
    destruct (if is_quantifier o then cbind x s else cocc x s) as [cn s1]. cbn [snd] in *.
    specialize (IH s1 y). destruct (ctree c s1) as [c' s2]. cbn [snd] in *.
    intro H. destruct (IH H) as [H1 | H1]; [|right; right; exact H1].
    destruct (K H1) as [H2 | H2]; [right; left; exact H2 | left; exact H2].
Qed.

Lemma canon_map_keys t y : alookup str_eqb y (canon_map t) <> None -> occurs y t.
Proof.
  intro H. destruct (keys_ctree t (0%N, []) y H) as [K | K]; [|exact K].
  exfalso. apply K. reflexivity.
Qed.

Lemma canon_map_occurs t y : occurs y t -> alookup str_eqb y (canon_map t) <> None.
Proof.
  intro H. destruct (proj1 (canon_map_spec t) y H) as [i E]. rewrite E. discriminate.
Qed.

(** names of a sub-formula of a preprocessed formula *)
Lemma occurs_depth_named t : forall d y, depth_named d t -> occurs y t -> exists k, y = xs (S k).
Proof.
  induction t as [a | o c IH | o l IHl r IHr | o x dm c IH]; intros d y DN OC;
    cbn [depth_named occurs] in *.
  - destruct a as [p | x | | | w]; try contradiction. destruct DN as (k & _ & ->). exists k. exact OC.
  - eapply IH; eassumption.
  - destruct DN as [DNl DNr]. destruct OC as [OC | OC]; [eapply IHl | eapply IHr]; eassumption.
  - destruct (is_quantifier o).
    + destruct DN as [-> DN]. destruct OC as [-> | OC]; [exists d; reflexivity | eapply IH; eassumption].
    + destruct DN as [(k & _ & ->) DN]. destruct OC as [-> | OC]; [exists k; reflexivity | eapply IH; eassumption].
Qed.

(** * 2. Two trees with the same canonical tree: the maps correspond *)

Ltac kill_let E :=
  repeat match type of E with context [let (_, _) := ?X in _] => destruct X end;
  cbn [fst snd] in E; discriminate E.

Section Sim.
Variables d d1 : nat.

(** [j]: the number of quantifiers entered so far (relative depth) *)
Definition inv (j : nat) (ren ren1 : list (str * str)) : Prop :=
  (forall i, alookup str_eqb (xs (S (d + i))) ren = alookup str_eqb (xs (S (d1 + i))) ren1)
  /\ (forall cn, (exists k, k < d /\ alookup str_eqb (xs (S k)) ren = Some cn)
                 <-> (exists k, k < d1 /\ alookup str_eqb (xs (S k)) ren1 = Some cn))
  /\ (forall i, i < j -> alookup str_eqb (xs (S (d + i))) ren <> None).

Lemma inv_init : inv 0 [] [].
Proof.
  split; [reflexivity|]. split; [|intros i LT; lia].
  intro cn. split; intros (k & _ & H); discriminate H.
Qed.

Lemma inv_weaken j j' ren ren1 : j' <= j -> inv j ren ren1 -> inv j' ren ren1.
Proof. intros LE (A & B & D). split; [exact A|]. split; [exact B|]. intros i LT. apply D. lia. Qed.

Lemma cbind_sim j cn0 ren ren1 :
  inv j ren ren1 ->
  inv (S j) (ainsert str_eqb (xs (S (d + j))) cn0 ren) (ainsert str_eqb (xs (S (d1 + j))) cn0 ren1).
Proof.
  intros (A & B & D). split; [|split].
  - intro i. rewrite !alookup_ainsert. destruct (Nat.eq_dec i j) as [->|NE].
    + rewrite !str_eqb_refl. reflexivity.
    + rewrite !xs_eqb_neq by lia. apply A.
  - intro cn. split; intros (k & LT & H); rewrite alookup_ainsert in H; rewrite xs_eqb_neq in H by lia.
    + destruct (proj1 (B cn) (ex_intro _ k (conj LT H))) as (k1 & LT1 & H1).
      exists k1. split; [exact LT1|]. rewrite alookup_ainsert, xs_eqb_neq by lia. exact H1.
    + destruct (proj2 (B cn) (ex_intro _ k (conj LT H))) as (k1 & LT1 & H1).
      exists k1. split; [exact LT1|]. rewrite alookup_ainsert, xs_eqb_neq by lia. exact H1.
  - intros i LT. rewrite alookup_ainsert. destruct (Nat.eq_dec i j) as [->|NE].
    + rewrite str_eqb_refl. discriminate.
    + rewrite xs_eqb_neq by lia. apply D. lia.
Qed.

Lemma cocc_sim j cnt ren ren1 k k1 :
  k < d + j -> k1 < d1 + j -> map_inv (cnt, ren) -> map_inv (cnt, ren1) -> inv j ren ren1 ->
  fst (cocc (xs (S k)) (cnt, ren)) = fst (cocc (xs (S k1)) (cnt, ren1)) ->
  fst (snd (cocc (xs (S k)) (cnt, ren))) = fst (snd (cocc (xs (S k1)) (cnt, ren1)))
  /\ inv j (snd (snd (cocc (xs (S k)) (cnt, ren)))) (snd (snd (cocc (xs (S k1)) (cnt, ren1)))).
Proof.
  intros LT LT1 [V _] [V1 _] INV E. pose proof INV as (A & B & D).
  unfold cocc in *. cbn [snd] in *.
  destruct (alookup str_eqb (xs (S k)) ren) as [cn|] eqn:L;
    destruct (alookup str_eqb (xs (S k1)) ren1) as [cn1|] eqn:L1; cbn [fst snd] in *.
  - split; [reflexivity | exact INV].
  - exfalso. destruct (V _ _ L) as (i & LTi & ->). unfold cbind in E. cbn [fst] in E.
    apply canon_name_inj in E. cbn [fst] in LTi. lia.
  - exfalso. destruct (V1 _ _ L1) as (i & LTi & ->). unfold cbind in E. cbn [fst] in E.
    apply canon_name_inj in E. cbn [fst] in LTi. lia.
  - (* both fresh: both free *)
    assert (k < d) as F.
    { destruct (Nat.lt_ge_cases k d) as [H|H]; [exact H|]. exfalso.
      apply (D (k - d)); [lia|]. replace (d + (k - d)) with k by lia. exact L. }
    assert (k1 < d1) as F1.
    { destruct (Nat.lt_ge_cases k1 d1) as [H|H]; [exact H|]. exfalso.
      apply (D (k1 - d1)); [lia|]. rewrite A. replace (d1 + (k1 - d1)) with k1 by lia. exact L1. }
    unfold cbind. cbn [fst snd]. split; [reflexivity|]. split; [|split].
    + intro i. rewrite !alookup_ainsert. rewrite !xs_eqb_neq by lia. apply A.
    + intro cn. split; intros (m & LTm & H); rewrite alookup_ainsert in H.
      * destruct (Nat.eq_dec m k) as [->|NE].
        -- rewrite str_eqb_refl in H. injection H as <-. exists k1. split; [exact F1|].
           rewrite alookup_ainsert, str_eqb_refl. reflexivity.
        -- rewrite xs_eqb_neq in H by lia.
           destruct (proj1 (B cn) (ex_intro _ m (conj LTm H))) as (m1 & LT1' & H1).
           exists m1. split; [exact LT1'|]. rewrite alookup_ainsert.
           destruct (Nat.eq_dec m1 k1) as [->|NE1]; [congruence|].
           rewrite xs_eqb_neq by lia. exact H1.
      * destruct (Nat.eq_dec m k1) as [->|NE].
        -- rewrite str_eqb_refl in H. injection H as <-. exists k. split; [exact F|].
           rewrite alookup_ainsert, str_eqb_refl. reflexivity.
        -- rewrite xs_eqb_neq in H by lia.
           destruct (proj2 (B cn) (ex_intro _ m (conj LTm H))) as (m1 & LT1' & H1).
           exists m1. split; [exact LT1'|]. rewrite alookup_ainsert.
           destruct (Nat.eq_dec m1 k) as [->|NE1]; [congruence|].
           rewrite xs_eqb_neq by lia. exact H1.
    + intros i LTi. rewrite alookup_ainsert, xs_eqb_neq by lia. apply D, LTi.
Qed.

Lemma ctree_sim t : forall t1 j cnt ren ren1,
  depth_named (d + j) t -> depth_named (d1 + j) t1 ->
  map_inv (cnt, ren) -> map_inv (cnt, ren1) -> inv j ren ren1 ->
  fst (ctree t (cnt, ren)) = fst (ctree t1 (cnt, ren1)) ->
  fst (snd (ctree t (cnt, ren))) = fst (snd (ctree t1 (cnt, ren1)))
  /\ inv j (snd (snd (ctree t (cnt, ren)))) (snd (snd (ctree t1 (cnt, ren1)))).
Proof.
  induction t as [a | o c IH | o l IHl r IHr | o x dm c IH];
    intros t1 j cnt ren ren1 DN DN1 M M1 INV E.
  - destruct a as [p | x | | | w];
      destruct t1 as [[p1 | x1 | | | w1] | o1 c1 | o1 l1 r1 | o1 x1 dm1 c1];
      cbn [ctree] in *;
      repeat match goal with
             | H : context [let (_, _) := ?X in _] |- _ => destruct X as [? [? ?]] eqn:?
             end; cbn [fst snd] in *; try discriminate E; try (split; [reflexivity | exact INV]).
    + (* two variables *)
      cbn [depth_named] in DN, DN1. destruct DN as (k & LT & ->). destruct DN1 as (k1 & LT1 & ->).
      assert (fst (cocc (xs (S k)) (cnt, ren)) = fst (cocc (xs (S k1)) (cnt, ren1))) as E'.
      { rewrite Heqp, Heqp0. cbn [fst]. injection E as ->. reflexivity. }
      pose proof (cocc_sim j cnt ren ren1 k k1 LT LT1 M M1 INV E') as K.
      rewrite Heqp, Heqp0 in K. exact K.
  - destruct t1 as [a1 | o1 c1 | o1 l1 r1 | o1 x1 dm1 c1]; cbn [ctree] in E;
      [destruct a1; kill_let E | | kill_let E | kill_let E].
    cbn [depth_named] in DN, DN1. specialize (IH c1 j cnt ren ren1 DN DN1 M M1 INV).
    cbn [ctree]. destruct (ctree c (cnt, ren)) as [c' [cnt' ren']].
    destruct (ctree c1 (cnt, ren1)) as [c1' [cnt1' ren1']]. cbn [fst snd] in *.
    apply IH. injection E as _ ->. reflexivity.
  - destruct t1 as [a1 | o1 c1 | o1 l1 r1 | o1 x1 dm1 c1]; cbn [ctree] in E;
      [destruct a1; kill_let E | kill_let E | | kill_let E].
    cbn [depth_named] in DN, DN1. destruct DN as [DNl DNr]. destruct DN1 as [DNl1 DNr1].
    specialize (IHl l1 j cnt ren ren1 DNl DNl1 M M1 INV).
    pose proof (map_inv_ctree l _ M) as Ml. pose proof (map_inv_ctree l1 _ M1) as Ml1.
    cbn [ctree].
    destruct (ctree l (cnt, ren)) as [l' [cnt' ren']].
    destruct (ctree l1 (cnt, ren1)) as [l1' [cnt1' ren1']]. cbn [fst snd] in *.
    destruct (ctree r (cnt', ren')) as [r' s2] eqn:Er.
    destruct (ctree r1 (cnt1', ren1')) as [r1' s2'] eqn:Er1.
    cbn [fst] in E. injection E as _ El Er'. subst l1' r1'.
    destruct (IHl eq_refl) as [<- INVl].
    specialize (IHr r1 j cnt' ren' ren1' DNr DNr1 Ml Ml1 INVl).
    rewrite Er, Er1 in IHr. cbn [fst snd] in *. apply IHr. reflexivity.
  - destruct t1 as [a1 | o1 c1 | o1 l1 r1 | o1 x1 dm1 c1]; cbn [ctree] in E;
      [destruct a1; kill_let E | kill_let E | kill_let E | ].
    assert (o1 = o) as ->.
    { destruct (if is_quantifier o then cbind x (cnt, ren) else cocc x (cnt, ren)) as [? s1].
      destruct (ctree c s1).
      destruct (if is_quantifier o1 then cbind x1 (cnt, ren1) else cocc x1 (cnt, ren1)) as [? s1'].
      destruct (ctree c1 s1'). injection E as -> _. reflexivity. }
    cbn [depth_named] in DN, DN1. cbn [ctree].
    destruct (is_quantifier o) eqn:Q.
    + destruct DN as [-> DN]. destruct DN1 as [-> DN1].
      unfold cbind in *. cbn [fst snd] in *.
      replace (S (d + j)) with (d + S j) in DN by lia.
      replace (S (d1 + j)) with (d1 + S j) in DN1 by lia.
      pose proof (map_inv_cbind (xs (S (d + j))) _ M) as M'.
      pose proof (map_inv_cbind (xs (S (d1 + j))) _ M1) as M1'.
      unfold cbind in M', M1'. cbn [fst snd] in M', M1'.
      specialize (IH c1 (S j) (cnt + 1)%N _ _ DN DN1 M' M1' (cbind_sim j (canon_name cnt) ren ren1 INV)).
      destruct (ctree c ((cnt + 1)%N, _)) as [c' [cnt' ren']].
      destruct (ctree c1 ((cnt + 1)%N, _)) as [c1' [cnt1' ren1']]. cbn [fst snd] in *.
      injection E as _ ->. destruct (IH eq_refl) as [EC INV']. split; [exact EC|].
      eapply inv_weaken; [|exact INV']. lia.
    + destruct DN as [(k & LT & ->) DN]. destruct DN1 as [(k1 & LT1 & ->) DN1].
      pose proof (cocc_sim j cnt ren ren1 k k1 LT LT1 M M1 INV) as K.
      pose proof (map_inv_cocc (xs (S k)) _ M) as M'.
      pose proof (map_inv_cocc (xs (S k1)) _ M1) as M1'.
      destruct (cocc (xs (S k)) (cnt, ren)) as [cn [cnt' ren']].
      destruct (cocc (xs (S k1)) (cnt, ren1)) as [cn1 [cnt1' ren1']]. cbn [fst snd] in *.
      destruct (ctree c (cnt', ren')) as [c' s2] eqn:Ec.
      destruct (ctree c1 (cnt1', ren1')) as [c1' s2'] eqn:Ec1.
      cbn [fst] in E. injection E as -> _ ->. destruct (K eq_refl) as [<- INV'].
      specialize (IH c1 j cnt' ren' ren1' DN DN1 M' M1' INV').
      rewrite Ec, Ec1 in IH. cbn [fst snd] in IH. apply IH. reflexivity.
Qed.

End Sim.

(** * 3. Consequences *)

Lemma sim_final d d1 t t1 :
  depth_named d t -> depth_named d1 t1 -> canon_tree t = canon_tree t1 ->
  inv d d1 0 (canon_map t) (canon_map t1).
Proof.
  intros DN DN1 E. unfold canon_tree, canon_map in *.
  apply (ctree_sim d d1 t t1 0 0%N [] []); try apply map_inv_init; try apply inv_init;
    try (rewrite Nat.add_0_r; assumption). exact E.
Qed.

Lemma alookup_single (q a b cn : str) :
  alookup str_eqb q [(a, b)] = Some cn -> q = a /\ cn = b.
Proof.
  cbn [alookup]. destruct (str_eqb q a) eqn:E; [|discriminate]. str_eq.
  intro H. injection H as <-. split; [exact E | reflexivity].
Qed.

Lemma short_list {A} (l : list A) : length l <= 1 -> l = [] \/ exists a, l = [a].
Proof.
  destruct l as [|a [|b l]]; cbn [length]; intro H; [left; reflexivity | right; exists a; reflexivity | lia].
Qed.

(** where the entry of a name of [t] is found in the map of [t1] *)
Lemma key_image d d1 t t1 k cn :
  inv d d1 0 (canon_map t) (canon_map t1) ->
  alookup str_eqb (xs (S k)) (canon_map t) = Some cn ->
  (k < d /\ exists k1, k1 < d1 /\ alookup str_eqb (xs (S k1)) (canon_map t1) = Some cn)
  \/ (d <= k /\ alookup str_eqb (xs (S (d1 + (k - d)))) (canon_map t1) = Some cn).
Proof.
  intros (A & B & _) L. destruct (Nat.lt_ge_cases k d) as [F|Bd].
  - left. split; [exact F|]. apply B. exists k. split; assumption.
  - right. split; [exact Bd|]. rewrite <- A. replace (d + (k - d)) with k by lia. exact L.
Qed.

Lemma key_preimage d d1 t t1 k1 cn :
  inv d d1 0 (canon_map t) (canon_map t1) ->
  alookup str_eqb (xs (S k1)) (canon_map t1) = Some cn ->
  exists k, alookup str_eqb (xs (S k)) (canon_map t) = Some cn.
Proof.
  intros (A & B & _) L. destruct (Nat.lt_ge_cases k1 d1) as [F|Bd].
  - destruct (proj2 (B cn) (ex_intro _ k1 (conj F L))) as (k & _ & H). exists k. exact H.
  - exists (d + (k1 - d1)). rewrite A. replace (d1 + (k1 - d1)) with k1 by lia. exact L.
Qed.

(** the names of [t] are pairwise equal when the map of [t1] has at most one entry *)
Lemma single_names d d1 t t1 :
  depth_named d t -> depth_named d1 t1 -> canon_tree t = canon_tree t1 ->
  length (canon_map t1) <= 1 ->
  forall y z, occurs y t -> occurs z t -> y = z.
Proof.
  intros DN DN1 E LEN y z OY OZ.
  pose proof (sim_final d d1 t t1 DN DN1 E) as INV.
  destruct (occurs_depth_named t d y DN OY) as [k ->].
  destruct (occurs_depth_named t d z DN OZ) as [k' ->].
  destruct (proj1 (canon_map_spec t) _ OY) as [i Ly].
  destruct (proj1 (canon_map_spec t) _ OZ) as [i' Lz].
  pose proof (key_image d d1 t t1 k _ INV Ly) as Ky.
  pose proof (key_image d d1 t t1 k' _ INV Lz) as Kz.
  destruct (short_list _ LEN) as [M1 | [[a b] M1]]; rewrite M1 in Ky, Kz.
  - exfalso. destruct Ky as [(_ & k1 & _ & H) | (_ & H)]; discriminate H.
  - destruct Ky as [(Fy & k1 & LT1 & Hy) | (By & Hy)]; destruct Kz as [(Fz & k1' & LT1' & Hz) | (Bz & Hz)];
      apply alookup_single in Hy; apply alookup_single in Hz; destruct Hy as [Ay Cy]; destruct Hz as [Az Cz].
    + rewrite Cy in Ly. rewrite Cz in Lz. exact (proj2 (canon_map_spec t) _ _ _ Ly Lz).
    + exfalso. rewrite <- Az in Ay. apply xs_inj in Ay. lia.
    + exfalso. rewrite <- Az in Ay. apply xs_inj in Ay. lia.
    + rewrite <- Az in Ay. apply xs_inj in Ay. f_equal. lia.
Qed.

Definition only_var (x : str) (t : tree) : Prop := forall y, occurs y t -> y = x.

Lemma occurs_dec t : (forall y, ~ occurs y t) \/ exists y, occurs y t.
Proof.
  induction t as [a | o c IH | o l IHl r IHr | o x dm c IH]; cbn [occurs].
  - destruct a as [p | x | | | w]; [left; intros y [] | right; exists x; reflexivity
      | left; intros y [] | left; intros y [] | left; intros y []].
  - exact IH.
  - destruct IHl as [Nl | [y Hy]]; [|right; exists y; left; exact Hy].
    destruct IHr as [Nr | [y Hy]]; [|right; exists y; right; exact Hy].
    left. intros y [H | H]; [exact (Nl y H) | exact (Nr y H)].
  - right. exists x. left. reflexivity.
Qed.

Lemma pairwise_only_var t :
  (forall y z, occurs y t -> occurs z t -> y = z) -> exists x, only_var x t.
Proof.
  intro P. destruct (occurs_dec t) as [N | [x Hx]].
  - exists []. intros y H. destruct (N y H).
  - exists x. intros y H. exact (P y x H Hx).
Qed.

Definition small (x : str) (ren : list (str * str)) : Prop := ren = [] \/ exists v, ren = [(x, v)].

Lemma small_ainsert x v ren : small x ren -> small x (ainsert str_eqb x v ren).
Proof.
  intros [-> | [v' ->]]; right; exists v; unfold ainsert; cbn [aremove]; [reflexivity|].
  rewrite str_eqb_refl. reflexivity.
Qed.

Lemma small_cocc x s : small x (snd s) -> small x (snd (snd (cocc x s))).
Proof.
  intro H. unfold cocc. destruct (alookup str_eqb x (snd s)); [exact H|].
  unfold cbind. cbn [snd]. apply small_ainsert, H.
Qed.

Lemma only_var_small x t : forall s, only_var x t -> small x (snd s) -> small x (snd (snd (ctree t s))).
Proof.
  induction t as [a | o c IH | o l IHl r IHr | o y dm c IH]; intros s OV SM; cbn [ctree].
  - destruct a as [p | y | | | w]; try exact SM.
    assert (y = x) as -> by (apply OV; reflexivity).
    pose proof (small_cocc x s SM) as K. destruct (cocc x s) as [cn s']. exact K.
  - specialize (IH s OV SM). destruct (ctree c s) as [c' s']. exact IH.
  - assert (only_var x l) as OVl by (intros y H; apply OV; left; exact H).
    assert (only_var x r) as OVr by (intros y H; apply OV; right; exact H).
    specialize (IHl s OVl SM). destruct (ctree l s) as [l' s1]. cbn [snd] in *.
    specialize (IHr s1 OVr IHl). destruct (ctree r s1) as [r' s2]. exact IHr.
  - assert (y = x) as -> by (apply OV; left; reflexivity).
    assert (only_var x c) as OVc by (intros z H; apply OV; right; exact H).
    assert (small x (snd (snd (if is_quantifier o then cbind x s else cocc x s)))) as K.
    { destruct (is_quantifier o); [unfold cbind; cbn [snd]; apply small_ainsert, SM | apply small_cocc, SM]. }
    destruct (if is_quantifier o then cbind x s else cocc x s) as [cn s1]. cbn [snd] in *.
    specialize (IH s1 OVc K). destruct (ctree c s1) as [c' s2]. exact IH.
Qed.

Lemma only_var_length x t : only_var x t -> length (canon_map t) <= 1.
Proof.
  intro OV. destruct (only_var_small x t (0%N, []) OV (or_introl eq_refl)) as [E | [v E]];
    unfold canon_map; rewrite E; cbn [length]; lia.
Qed.

(** ** the number of entries (at most one) is a property of the canonical tree *)
Theorem single_transfer_tree d d1 t t1 :
  depth_named d t -> depth_named d1 t1 -> canon_tree t = canon_tree t1 ->
  length (canon_map t1) <= 1 -> length (canon_map t) <= 1.
Proof.
  intros DN DN1 E LEN.
  destruct (pairwise_only_var t (single_names d d1 t t1 DN DN1 E LEN)) as [x OV].
  exact (only_var_length x t OV).
Qed.

(** ** skeletons *)

Lemma vmap_const_ctree z t : forall s, vmap (fun _ => z) (fst (ctree t s)) = vmap (fun _ => z) t.
Proof.
  induction t as [a | o c IH | o l IHl r IHr | o x dm c IH]; intro s; cbn [ctree].
  - destruct a as [p | x | | | w]; try reflexivity. destruct (cocc x s). reflexivity.
  - specialize (IH s). destruct (ctree c s). cbn [fst vmap] in *. rewrite IH. reflexivity.
  - specialize (IHl s). destruct (ctree l s) as [l' s1]. specialize (IHr s1).
    destruct (ctree r s1). cbn [fst vmap] in *. rewrite IHl, IHr. reflexivity.
  - destruct (if is_quantifier o then cbind x s else cocc x s) as [cn s1].
    specialize (IH s1). destruct (ctree c s1). cbn [fst vmap] in *. rewrite IH. reflexivity.
Qed.

Lemma vmap_const_const z z' t : vmap (fun _ => z) (vmap (fun _ => z') t) = vmap (fun _ => z) t.
Proof.
  induction t as [a | o c IH | o l IHl r IHr | o x dm c IH]; cbn [vmap].
  - destruct a; reflexivity.
  - rewrite IH. reflexivity.
  - rewrite IHl, IHr. reflexivity.
  - rewrite IH. reflexivity.
Qed.

Lemma only_var_vmap x t : only_var x t -> vmap (fun _ => x) t = t.
Proof.
  induction t as [a | o c IH | o l IHl r IHr | o y dm c IH]; intro OV; cbn [vmap].
  - destruct a as [p | y | | | w]; try reflexivity. rewrite (OV y eq_refl). reflexivity.
  - rewrite IH; [reflexivity | exact OV].
  - rewrite IHl, IHr; [reflexivity | |]; intros y H; apply OV; [right | left]; exact H.
  - rewrite (OV y (or_introl eq_refl)). rewrite IH; [reflexivity|].
    intros z H. apply OV. right. exact H.
Qed.

Lemma canon_tree_eq_vmap x t t1 :
  canon_tree t = canon_tree t1 -> only_var x t -> t = vmap (fun _ => x) t1.
Proof.
  intros E OV. rewrite <- (only_var_vmap x t OV) at 1.
  rewrite <- (vmap_const_ctree x t (0%N, [])), <- (vmap_const_ctree x t1 (0%N, [])).
  fold (canon_tree t) (canon_tree t1). rewrite E. reflexivity.
Qed.

Lemma only_var_keys x v t : canon_map t = [(x, v)] -> only_var x t.
Proof.
  intros E y H. apply canon_map_occurs in H. rewrite E in H. cbn [alookup] in H.
  destruct (str_eqb y x) eqn:Q; [str_eq; exact Q | contradiction].
Qed.

Lemma no_names_keys t : canon_map t = [] -> forall y, ~ occurs y t.
Proof. intros E y H. apply canon_map_occurs in H. rewrite E in H. apply H. reflexivity. Qed.

(** ** the shape of a cache hit: the cached tree [t1] has an at most one-entry map *)
Theorem hit_shape_tree d d1 t t1 :
  depth_named d t -> depth_named d1 t1 -> canon_tree t = canon_tree t1 ->
  length (canon_map t1) <= 1 ->
  (canon_map t1 = [] /\ t = t1)
  \/ (exists x1 x cn, canon_map t1 = [(x1, cn)] /\ canon_map t = [(x, cn)]
                      /\ occurs x1 t1 /\ occurs x t /\ only_var x1 t1
                      /\ t = vmap (fun _ => x) t1).
Proof.
  intros DN DN1 E LEN.
  pose proof (sim_final d d1 t t1 DN DN1 E) as INV.
  pose proof (single_transfer_tree d d1 t t1 DN DN1 E LEN) as LENt.
  destruct (short_list _ LEN) as [M1 | [[x1 cn] M1]].
  - left. split; [exact M1|].
    assert (forall y, ~ occurs y t) as NO.
    { intros y OY. destruct (occurs_depth_named t d y DN OY) as [k ->].
      destruct (proj1 (canon_map_spec t) _ OY) as [i Ly].
      pose proof (key_image d d1 t t1 k _ INV Ly) as K. rewrite M1 in K.
      destruct K as [(_ & k1 & _ & H) | (_ & H)]; discriminate H. }
    assert (only_var [] t) as OV by (intros y H; destruct (NO y H)).
    assert (only_var [] t1) as OV1 by (intros y H; destruct (no_names_keys t1 M1 y H)).
    rewrite (canon_tree_eq_vmap [] t t1 E OV). apply only_var_vmap, OV1.
  - right.
    assert (occurs x1 t1) as O1 by (apply canon_map_keys; rewrite M1; cbn [alookup]; rewrite str_eqb_refl; discriminate).
    destruct (occurs_depth_named t1 d1 x1 DN1 O1) as [k1 ->].
    assert (alookup str_eqb (xs (S k1)) (canon_map t1) = Some cn) as L1
      by (rewrite M1; cbn [alookup]; rewrite str_eqb_refl; reflexivity).
    destruct (key_preimage d d1 t t1 k1 cn INV L1) as [k L].
    destruct (short_list _ LENt) as [M | [[x cn'] M]]; rewrite M in L; [discriminate L|].
    apply alookup_single in L. destruct L as [<- <-].
    exists (xs (S k1)), (xs (S k)), cn. split; [exact M1|]. split; [exact M|].
    split; [exact O1|].
    split; [apply canon_map_keys; rewrite M; cbn [alookup]; rewrite str_eqb_refl; discriminate|].
    split; [eapply only_var_keys; exact M1|].
    apply canon_tree_eq_vmap; [exact E | eapply only_var_keys; exact M].
Qed.

(** ** the same in terms of the character-level canoniser *)
Section Text.
Variable ext_alnum : N -> bool.
Variable ext : bool.

Lemma canon_text_tree t t1 :
  well_named ext_alnum ext t -> well_named ext_alnum ext t1 ->
  fst (canonize (render t)) = fst (canonize (render t1)) -> canon_tree t = canon_tree t1.
Proof.
  intros W W1 E.
  rewrite (canon_commutes t (well_named_canon_ok _ _ _ W)) in E.
  rewrite (canon_commutes t1 (well_named_canon_ok _ _ _ W1)) in E. cbn [fst] in E.
  apply (render_injective ext_alnum ext) in E; try (apply canon_tree_well_named; assumption).
  exact E.
Qed.

Lemma canonize_map t : well_named ext_alnum ext t -> snd (canonize (render t)) = canon_map t.
Proof. intro W. rewrite (canon_commutes t (well_named_canon_ok _ _ _ W)). reflexivity. Qed.

Theorem single_transfer d d1 t t1 :
  well_named ext_alnum ext t -> well_named ext_alnum ext t1 ->
  depth_named d t -> depth_named d1 t1 ->
  fst (canonize (render t)) = fst (canonize (render t1)) ->
  length (snd (canonize (render t1))) <= 1 -> length (snd (canonize (render t))) <= 1.
Proof.
  intros W W1 DN DN1 E. rewrite (canonize_map t W), (canonize_map t1 W1).
  apply (single_transfer_tree d d1); try assumption. apply canon_text_tree; assumption.
Qed.

Theorem hit_shape d d1 t t1 :
  well_named ext_alnum ext t -> well_named ext_alnum ext t1 ->
  depth_named d t -> depth_named d1 t1 ->
  fst (canonize (render t)) = fst (canonize (render t1)) ->
  length (snd (canonize (render t1))) <= 1 ->
  (snd (canonize (render t1)) = [] /\ t = t1)
  \/ (exists x1 x cn, snd (canonize (render t1)) = [(x1, cn)] /\ snd (canonize (render t)) = [(x, cn)]
                      /\ occurs x1 t1 /\ occurs x t /\ only_var x1 t1
                      /\ t = vmap (fun _ => x) t1).
Proof.
  intros W W1 DN DN1 E. rewrite (canonize_map t W), (canonize_map t1 W1).
  apply (hit_shape_tree d d1); try assumption. apply canon_text_tree; assumption.
Qed.

End Text.
