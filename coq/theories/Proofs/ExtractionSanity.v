(** Extraction sanity: fixed cases evaluated by the kernel (vm_compute); setup.sh runs the
    extracted driver on the same cases and compares its output with these golden values, so the
    extraction (ExtrOcamlBasic) and the hand-written driver are cross-checked against the
    kernel's own evaluation. *)
From HCTL Require Import Base Syntax Tokenizer Parser Preprocess Canon MarkDup TT Ops Eval Pipeline Sem Extract.

Definition sanity_world : world :=
  {| w_p := 0; w_n := 1; w_names := [[97%N]];
     w_upd := [fst (of_bits (x_layout_pn 0 1) [true; false])];
     w_unit := fst (of_bits (x_layout_pn 0 1) [true; true]) |}.

Definition sanity_mode : mode :=
  {| m_ext := false; m_sanitize := true; m_unsafe_ex := false; m_nocache := false; m_nopatterns := false |}.

Definition bits_of_res (r : res (list tt)) : option (list (list bool)) :=
  match r with Ok l => Some (map (fun t => to_bits t []) l) | _ => None end.

Example sanity_model_check :
  bits_of_res (x_model_check sanity_world 1 sanity_mode []
     [[33; 123; 120; 125; 58; 32; 65; 71; 32; 69; 70; 32; 123; 120; 125]%N; [97]%N; [69; 88; 32; 97]%N; [51; 123; 120; 125; 58; 32; 64; 123; 120; 125; 58; 32; 40; 97; 32; 38; 32; 65; 88; 32; 40; 126; 97; 41; 41]%N])
  = Some [[true; true]; [false; true]; [true; false]; [true; true]].
Proof. vm_compute. reflexivity. Qed.

Example sanity_oracle :
  match x_spec_eval sanity_world false [] [33; 123; 120; 125; 58; 32; 65; 71; 32; 69; 70; 32; 123; 120; 125]%N with Ok t => Some (to_bits t []) | _ => None end
  = Some [true; true].
Proof. vm_compute. reflexivity. Qed.

Example sanity_parse_error :
  x_parse_formula false [40; 97; 41; 32; 126; 98]%N = Err EParse.
Proof. vm_compute. reflexivity. Qed.

Example sanity_canon :
  fst (canonize [40; 33; 123; 120; 125; 58; 32; 40; 65; 88; 32; 123; 120; 120; 125; 41; 41]%N) = [40; 33; 123; 118; 97; 114; 48; 125; 58; 32; 40; 65; 88; 32; 123; 118; 97; 114; 49; 125; 41; 41]%N.
Proof. vm_compute. reflexivity. Qed.
