(** Property C08: results are invariant under meaning-preserving rewrites of the formula
    text.  The proofs of the four parts are in
    - AlphaFacts.v  (names of bound variables),
    - ParenFacts.v  (redundant parentheses, spellings of the constants; token level),
    - SpacingFacts.v    (white space, spellings of the hybrid operators; character level);
    this file lifts them to the entry points of Model/Pipeline.v: the evaluator only sees
    the preprocessed tree, so formula texts with equal [parse_and_minimize] outcomes are
    indistinguishable for [model_check]. *)
From HCTL Require Import Base Syntax Tokenizer Parser Preprocess TT Pipeline.
From HCTL Require Export PrepFacts ParserFacts AlphaFacts ParenFacts SpacingFacts.

Section Rewrite.
Variable ext_alnum : N -> bool.

Notation tokenize := (tokenize ext_alnum).
Notation parse_formula := (parse_formula ext_alnum).
Notation parse_and_minimize := (parse_and_minimize ext_alnum).
Notation validate_all := (validate_all ext_alnum).
Notation model_check := (model_check ext_alnum).

(** * The pipeline only depends on the outcome of each stage *)

Lemma parse_formula_tokens (ext : bool) (s s' : str) :
  tokenize ext s = tokenize ext s' -> parse_formula ext s = parse_formula ext s'.
Proof. unfold Pipeline.parse_formula. intros ->. reflexivity. Qed.

Lemma parse_and_minimize_formula (ext : bool) (props : list str) (s s' : str) :
  parse_formula ext s = parse_formula ext s' ->
  parse_and_minimize ext props s = parse_and_minimize ext props s'.
Proof. unfold Pipeline.parse_and_minimize. intros ->. reflexivity. Qed.

(** formulae with pairwise equal front-end outcomes *)
Definition same_front (ext : bool) (props : list str) (fs fs' : list str) : Prop :=
  Forall2 (fun s s' => parse_and_minimize ext props s = parse_and_minimize ext props s') fs fs'.

Lemma validate_all_same_front (ext : bool) (props : list str) (k : nat)
      (ctx : list (str * tt)) (fs fs' : list str) :
  same_front ext props fs fs' ->
  validate_all ext props k ctx fs = validate_all ext props k ctx fs'.
Proof.
  intro H. induction H as [|s s' fs fs' E H IH]; [reflexivity|].
  cbn [Pipeline.validate_all]. rewrite E, IH. reflexivity.
Qed.

Theorem model_check_same_front (w : world) (k : nat) (m : mode) (ctx : list (str * tt))
        (fs fs' : list str) :
  same_front (m_ext m) (w_names w) fs fs' ->
  model_check w k m ctx fs = model_check w k m ctx fs'.
Proof.
  intro H. unfold Pipeline.model_check.
  rewrite (validate_all_same_front (m_ext m) (w_names w) k ctx fs fs' H). reflexivity.
Qed.

(** * White space and spellings of hybrid operators *)

Theorem parse_formula_respaced (ext : bool) (s s' : str) :
  respaced ext_alnum ext s s' -> parse_formula ext s' = parse_formula ext s.
Proof. intro H. apply parse_formula_tokens, tokenize_respaced, H. Qed.

Theorem parse_and_minimize_respaced (ext : bool) (props : list str) (s s' : str) :
  respaced ext_alnum ext s s' ->
  parse_and_minimize ext props s' = parse_and_minimize ext props s.
Proof. intro H. apply parse_and_minimize_formula, parse_formula_respaced, H. Qed.

Theorem model_check_respaced (w : world) (k : nat) (m : mode) (ctx : list (str * tt))
        (fs fs' : list str) :
  Forall2 (respaced ext_alnum (m_ext m)) fs fs' ->
  model_check w k m ctx fs' = model_check w k m ctx fs.
Proof.
  intro H. symmetry. apply model_check_same_front.
  induction H as [|s s' fs fs' R H IH]; constructor; [|exact IH].
  symmetry. apply parse_and_minimize_respaced, R.
Qed.

(** * Redundant parentheses and constant spellings, from the text *)

Theorem parse_formula_teq (ext : bool) (s s' : str) (ts ts' : list token) :
  tokenize ext s = Ok ts -> tokenize ext s' = Ok ts' -> Forall2 teq ts ts' ->
  parse_formula ext s = parse_formula ext s'.
Proof.
  intros T T' F. unfold Pipeline.parse_formula. rewrite T, T'. cbn [bind].
  apply parse_congruence, F.
Qed.

Theorem parse_formula_outer_parens (ext : bool) (s s' : str) (ts : list token) :
  tokenize ext s = Ok ts -> tokenize ext s' = Ok [TGroup ts] ->
  parse_formula ext s' = parse_formula ext s.
Proof.
  intros T T'. unfold Pipeline.parse_formula. rewrite T, T'. cbn [bind]. apply parse_group.
Qed.

(** * Names of bound variables, from the text *)

Theorem parse_and_minimize_alpha (ext : bool) (props : list str) (s1 s2 : str) (t1 t2 : tree) :
  parse_formula ext s1 = Ok t1 -> parse_formula ext s2 = Ok t2 ->
  db [] t1 = db [] t2 -> no_requant [] t1 -> no_requant [] t2 ->
  parse_and_minimize ext props s1 = parse_and_minimize ext props s2.
Proof.
  intros P1 P2 E N1 N2. unfold Pipeline.parse_and_minimize. rewrite P1, P2. cbn [bind].
  apply preprocess_alpha_invariant; assumption.
Qed.

End Rewrite.
